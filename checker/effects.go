package main

// A-EFFECT: primitive write effects classified at the call site by the identity
// of the (interface or concrete) method in package repository / lamport / billy /
// os, and transitive may-effect summaries over the hybrid call graph.

import (
	"fmt"
	"go/token"
	"go/types"
	"sort"
	"strings"

	"golang.org/x/tools/go/ssa"
)

var repoPrim = map[string]string{
	"StoreData": "OBJ", "StoreTree": "OBJ", "StoreCommit": "OBJ", "StoreSignedCommit": "OBJ",
	"UpdateRef": "REF", "CopyRef": "REF", "RemoveRef": "REF", "FetchRefs": "REF", "PushRefs": "REF",
	"StoreString": "CONFIG", "StoreBool": "CONFIG", "StoreTimestamp": "CONFIG",
	"IndexOne": "INDEX", "IndexBatch": "INDEX", "Clear": "INDEX",
	"Increment": "CLOCK", "Witness": "CLOCK",
}

// read-only methods of the storage interfaces: every method of RepoData, ConfigWrite,
// Index, RepoClock, Keyring must be in repoPrim, here, or in the special cases of primEffect
// (checked by ruleEffectTableComplete).
var repoReadOnly = map[string]bool{
	"ReadData": true, "ReadTree": true, "ReadCommit": true, "ResolveRef": true, "ListRefs": true,
	"RefExist": true, "ListCommits": true, "AllClocks": true, "GetOrCreateClock": true,
	"Search": true, "DocCount": true, "Close": true, "Get": true, "Keys": true,
	"ReadAll": true, "ReadBool": true, "ReadString": true, "ReadTimestamp": true,
	// GetIndex opens a bleve index and creates its directory under <git dir>/git-bug/indexes on first
	// use: a cache that is rebuilt from the entities, not repository data; what is then written
	// through the Index it returns is classified (IndexOne/IndexBatch/Remove/Clear)
	"GetIndex": true,
}

var billyWriters = map[string]bool{"Create": true, "OpenFile": true, "Remove": true, "Rename": true,
	"MkdirAll": true, "RemoveAll": true, "TempFile": true, "Symlink": true}
var osWriters = map[string]bool{"Create": true, "OpenFile": true, "WriteFile": true, "Remove": true,
	"RemoveAll": true, "Mkdir": true, "MkdirAll": true, "Rename": true, "Truncate": true, "Chmod": true,
	"Symlink": true, "Link": true, "CreateTemp": true, "MkdirTemp": true}

func lastDot(s string) (string, string) {
	i := strings.LastIndexByte(s, '.')
	if i < 0 {
		return "", s
	}
	return s[:i], s[i+1:]
}

// primEffect classifies a call by canonical callee name: "CLASS:name" or "".
func primEffect(name string) string {
	recv, m := lastDot(name)
	switch {
	case strings.HasPrefix(recv, "repository."):
		t := strings.TrimPrefix(recv, "repository.")
		if k, ok := repoPrim[m]; ok {
			return k + ":" + m
		}
		lt := strings.ToLower(t)
		if m == "Remove" && strings.Contains(lt, "index") {
			return "INDEX:Remove"
		}
		if m == "RemoveAll" && strings.Contains(lt, "config") {
			return "CONFIG:RemoveAll"
		}
		if (m == "Set" || m == "Remove") && strings.Contains(lt, "keyring") {
			return "KEYRING:" + m
		}
		if strings.Contains(t, "LocalStorage") && billyWriters[m] {
			return "FILE:" + m
		}
	case strings.HasPrefix(recv, "util/lamport."):
		if m == "Increment" || m == "Witness" {
			return "CLOCK:" + m
		}
	case strings.HasPrefix(recv, "github.com/go-git/go-billy/v5.") && !strings.Contains(recv, "/util"):
		if billyWriters[m] {
			return "FILE:" + m
		}
	case recv == "github.com/go-git/go-billy/v5/util":
		if m == "WriteFile" || m == "RemoveAll" || m == "TempFile" || m == "TempDir" {
			return "FILE:util." + m
		}
	case recv == "os" || recv == "io/ioutil":
		if osWriters[m] || m == "TempFile" || m == "TempDir" {
			return "OSFILE:" + m
		}
	case recv == "entity/dag.Entity":
		if m == "Append" {
			return "STAGE:Entity.Append"
		}
	case recv == "entities/identity.Identity":
		if m == "Mutate" || m == "SetMetadata" {
			return "STAGE:Identity." + m
		}
	case recv == "github.com/99designs/keyring.Keyring":
		if m == "Set" || m == "Remove" {
			return "KEYRING:" + m
		}
	}
	return ""
}

func effClass(e string) string {
	if i := strings.IndexByte(e, ':'); i >= 0 {
		return e[:i]
	}
	return e
}

// effect summaries

type EffWitness struct {
	Effect string
	Site   ssa.CallInstruction // the call in the summarised function through which the effect is reached
	Via    *ssa.Function       // callee at Site through which it is reached (nil: primitive at Site)
}

type effSummaries struct {
	w    *World
	memo map[*ssa.Function]map[string]*EffWitness
	// packages whose bodies are not followed: effects are classified at their boundary
	opaque func(*ssa.Function) bool
}

func newEffects(w *World) *effSummaries {
	return &effSummaries{w: w, memo: map[*ssa.Function]map[string]*EffWitness{}, opaque: func(f *ssa.Function) bool {
		p := fnPkgPath(f)
		return p == modPath+"/repository" || p == modPath+"/util/lamport"
	}}
}

// Of returns the transitive may-effects of f (fixpoint over the hybrid graph, module functions only).
func (s *effSummaries) Of(f *ssa.Function) map[string]*EffWitness {
	if m, ok := s.memo[f]; ok {
		return m
	}
	// a generic origin (or an instantiation over type parameters) is not in the call graph: union of its instantiations
	if !s.w.All[f] {
		o := Orig(f)
		out := map[string]*EffWitness{}
		for _, inst := range s.w.InstancesDeep(o) {
			if inst == f || !s.w.All[inst] {
				continue
			}
			for e, wit := range s.Of(inst) {
				if _, ok := out[e]; !ok {
					out[e] = wit
				}
			}
		}
		s.memo[f] = out
		return out
	}
	// collect the reachable set, then propagate to fixpoint (handles recursion)
	var order []*ssa.Function
	seen := map[*ssa.Function]bool{}
	var visit func(g *ssa.Function)
	visit = func(g *ssa.Function) {
		if seen[g] {
			return
		}
		seen[g] = true
		if _, done := s.memo[g]; done {
			return
		}
		order = append(order, g)
		for _, e := range s.w.Callees(g) {
			if s.follow(e.Callee) {
				visit(e.Callee)
			}
		}
	}
	visit(f)
	local := map[*ssa.Function]map[string]*EffWitness{}
	for _, g := range order {
		m := map[string]*EffWitness{}
		for _, c := range Calls(g) {
			if e := primEffect(c.Name); e != "" {
				if _, ok := m[e]; !ok {
					m[e] = &EffWitness{e, c.Instr, nil}
				}
			}
		}
		local[g] = m
	}
	get := func(g *ssa.Function) map[string]*EffWitness {
		if m, ok := s.memo[g]; ok {
			return m
		}
		return local[g]
	}
	for changed := true; changed; {
		changed = false
		for _, g := range order {
			m := local[g]
			for _, e := range s.w.Callees(g) {
				if !s.follow(e.Callee) {
					continue
				}
				for eff := range get(e.Callee) {
					if _, ok := m[eff]; !ok {
						m[eff] = &EffWitness{eff, e.Site, e.Callee}
						changed = true
					}
				}
			}
		}
	}
	for _, g := range order {
		s.memo[g] = local[g]
	}
	return s.memo[f]
}

func (s *effSummaries) follow(f *ssa.Function) bool {
	return s.w.inModule(f) && !s.opaque(f)
}

// SiteEffects: effects that executing call site c may have (primitive + callees' summaries).
func (s *effSummaries) SiteEffects(c *Call) map[string]*EffWitness {
	out := map[string]*EffWitness{}
	if e := primEffect(c.Name); e != "" {
		out[e] = &EffWitness{e, c.Instr, nil}
		return out
	}
	callees := s.w.SiteCallees(c.Instr)
	if len(callees) == 0 && c.Fn != nil {
		callees = []*ssa.Function{c.Fn}
	}
	for _, callee := range callees {
		if !s.follow(callee) {
			continue
		}
		for eff := range s.Of(callee) {
			if _, ok := out[eff]; !ok {
				out[eff] = &EffWitness{eff, c.Instr, callee}
			}
		}
	}
	// a closure created and passed at this site may be run by the callee
	return out
}

// Explain gives a call chain from f to a primitive with the given effect.
func (s *effSummaries) Explain(f *ssa.Function, eff string) string {
	var parts []string
	seen := map[*ssa.Function]bool{}
	for f != nil && !seen[f] {
		seen[f] = true
		wit := s.Of(f)[eff]
		if wit == nil {
			break
		}
		if wit.Via == nil {
			n, _ := callName(wit.Site.Common())
			parts = append(parts, short(funcName(f))+" calls "+n+" at "+s.w.InstrPos(wit.Site))
			break
		}
		parts = append(parts, short(funcName(f)))
		f = wit.Via
	}
	return strings.Join(parts, " → ")
}

func classesOf(m map[string]*EffWitness, skip ...string) []string {
	set := map[string]bool{}
	for e := range m {
		set[effClass(e)] = true
	}
	for _, s := range skip {
		delete(set, s)
	}
	var out []string
	for k := range set {
		out = append(out, k)
	}
	sort.Strings(out)
	return out
}

func effectsOfClass(m map[string]*EffWitness, classes ...string) []string {
	var out []string
	for e := range m {
		for _, c := range classes {
			if effClass(e) == c {
				out = append(out, e)
			}
		}
	}
	sort.Strings(out)
	return out
}

// checkEffectTableComplete (R0.1): package repository is the boundary at which write effects
// are classified (its bodies are not followed). Every method of every interface declared
// there must therefore be in the effect table, in the read-only table, or be shown read-only
// by the bodies of its implementations in that package; a mutating method the table does not
// know would make every who-may-write rule blind to it.
func checkEffectTableComplete(c *Ctx) {
	w := c.W
	c.Doc("R0.1", "every method of the storage interfaces of package repository (the boundary where write effects are classified) is classified: in the effect table, in the reviewed read-only table, or read-only by every implementation in that package (no go-git mutator, no billy/os writer, no classified primitive reachable within the package)")
	p := w.Pkg("repository")
	sp := w.SSAPkg("repository")
	if p == nil || sp == nil {
		c.Undecided("R0.1", "anchor:repository", "repository", "package not loaded")
		return
	}
	// concrete types of the package
	var concrete []types.Type
	scope := p.Types.Scope()
	for _, n := range scope.Names() {
		tn, ok := scope.Lookup(n).(*types.TypeName)
		if !ok || tn.IsAlias() {
			continue
		}
		if _, isIface := tn.Type().Underlying().(*types.Interface); isIface {
			continue
		}
		concrete = append(concrete, tn.Type(), types.NewPointer(tn.Type()))
	}
	mutating := func(fn *ssa.Function) (bool, string) {
		seen := map[*ssa.Function]bool{}
		var walk func(f *ssa.Function, d int) (bool, string)
		walk = func(f *ssa.Function, d int) (bool, string) {
			if f == nil || seen[f] || d > 6 || len(f.Blocks) == 0 {
				return false, ""
			}
			seen[f] = true
			for _, cl := range Calls(f) {
				_, m := lastDot(cl.Name)
				if strings.Contains(cl.Name, "go-git/go-git") {
					if _, isMut := gogitMutators[m]; isMut && m != "ResolveRevision" {
						return true, cl.Name
					}
				}
				if e := primEffect(cl.Name); e != "" && effClass(e) != "CLOCK" {
					return true, cl.Name
				}
				if cl.Fn != nil && fnPkgPath(cl.Fn) == modPath+"/repository" {
					if mut, why := walk(cl.Fn, d+1); mut {
						return true, why
					}
				}
			}
			for _, a := range f.AnonFuncs {
				if mut, why := walk(a, d+1); mut {
					return true, why
				}
			}
			return false, ""
		}
		return walk(fn, 0)
	}
	nMethods := 0
	for _, n := range scope.Names() {
		tn, ok := scope.Lookup(n).(*types.TypeName)
		if !ok || !tn.Exported() {
			continue
		}
		iface, isIface := tn.Type().Underlying().(*types.Interface)
		if !isIface || n == "TestedRepo" {
			continue
		}
		nEff, nRO, nAuto := 0, 0, 0
		for i := 0; i < iface.NumMethods(); i++ {
			m := iface.Method(i)
			nMethods++
			c.Sites++
			name := "repository." + n + "." + m.Name()
			key := "boundary:" + m.Name()
			pos := w.Pos(m.Pos())
			if e := primEffect(name); e != "" {
				nEff++
				continue
			}
			if repoReadOnly[m.Name()] {
				nRO++
				continue
			}
			// auto-classification by the implementations
			impls, bad := 0, ""
			for _, ct := range concrete {
				if !types.Implements(ct, iface) {
					continue
				}
				sel := w.Prog.MethodSets.MethodSet(ct).Lookup(m.Pkg(), m.Name())
				if sel == nil {
					continue
				}
				fn := w.Prog.MethodValue(sel)
				if fn == nil {
					continue
				}
				impls++
				if mut, why := mutating(fn); mut {
					bad = funcName(fn) + " reaches " + why
				}
			}
			switch {
			case bad != "":
				c.Violate("R0.1", key, pos, "this method of the storage boundary writes ("+bad+") but is not in the effect table: the rules about who may write (authentication gate, ref-last, merge reports) cannot see calls to it")
			default:
				// read-only by its implementations (or an accessor without implementation in the package)
				nAuto++
			}
		}
		c.Hold("R0.1", "boundary:"+n, w.Pos(tn.Pos()), fmt.Sprintf("%d methods: %d in the effect table, %d reviewed read-only, %d read-only by implementation", iface.NumMethods(), nEff, nRO, nAuto))
	}
	if nMethods < 40 {
		c.Violate("R0.1", "expected:boundary-methods", "repository", fmt.Sprintf("%d interface methods found at the storage boundary (reference 60+)", nMethods))
	}
}

// checkSentinelsBare (R0.2): error sentinels of the module that callers test with ==/!= are
// never handed out wrapped by module code (the == test would silently stop matching).
func checkSentinelsBare(c *Ctx, names ...string) {
	w := c.W
	c.Doc("R0.2", "an error sentinel of the module that some caller tests with == or != is never wrapped (fmt.Errorf, errors.Wrap, errors.WithMessage …) by module code: a wrapped sentinel no longer compares equal, and the branch that recognises the situation (no user attached, no matching operation, clock missing, ref not found) is silently replaced by the generic failure branch")
	want := map[string]bool{}
	for _, n := range names {
		want[n] = true
	}
	sentinelOf := func(v ssa.Value) string {
		if u, isU := stripConv(v).(*ssa.UnOp); isU {
			if g, isG := u.X.(*ssa.Global); isG && want[g.Name()] && g.Pkg != nil && strings.HasPrefix(g.Pkg.Pkg.Path(), modPath) {
				return g.Name()
			}
		}
		return ""
	}
	compared := map[string]string{}
	wrapped := map[string]string{}
	for _, f := range w.ModFns {
		if isInstance(f) || w.isTestHelper(f) {
			continue
		}
		for _, b := range f.Blocks {
			for _, ins := range b.Instrs {
				switch x := ins.(type) {
				case *ssa.BinOp:
					if x.Op == token.EQL || x.Op == token.NEQ {
						for _, s := range []string{sentinelOf(x.X), sentinelOf(x.Y)} {
							if s != "" && compared[s] == "" {
								compared[s] = w.InstrPos(x)
							}
						}
					}
				case *ssa.Call:
					n, _ := callName(x.Common())
					if !(n == "fmt.Errorf" || strings.Contains(n, "errors.Wrap") || strings.Contains(n, "errors.WithMessage") || strings.Contains(n, "errors.WithStack") || n == "errors.Join") {
						continue
					}
					c.Sites++
					args := append([]ssa.Value{}, x.Common().Args...)
					if len(args) > 0 {
						args = append(args, variadicOperands(args[len(args)-1])...)
					}
					for _, a := range args {
						if s := sentinelOf(a); s != "" {
							wrapped[s] = w.InstrPos(x)
						}
					}
				}
			}
		}
	}
	for _, n := range names {
		if compared[n] == "" {
			c.Info("R0.2", "sentinel:"+n, "module", "not compared with == anywhere")
			continue
		}
		c.Check(wrapped[n] == "", "R0.2", "sentinel:"+n, compared[n], "tested with ==, never wrapped by module code", "the sentinel "+n+" is wrapped at "+wrapped[n]+" while "+compared[n]+" (and possibly others) tests for it with ==: that test no longer recognises the situation")
	}
}
