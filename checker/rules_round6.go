package main

// Rules added after the sixth round of seeded changes. Each is called from the run function of the
// property whose seed it answers (and of the properties that rest on the same fact).

import (
	"fmt"
	"go/token"
	"go/types"
	"sort"
	"strings"

	"golang.org/x/tools/go/ssa"
)

// reachWithLen: the blocks of fn reachable from the entry when every comparison of len(x) (isArg(x)) with
// a constant is decided for len(x) == n and every other branch may go both ways.
func reachWithLen(fn *ssa.Function, isArg func(ssa.Value) bool, n int64) map[*ssa.BasicBlock]bool {
	seen := map[*ssa.BasicBlock]bool{}
	if len(fn.Blocks) == 0 {
		return seen
	}
	work := []*ssa.BasicBlock{fn.Blocks[0]}
	seen[fn.Blocks[0]] = true
	for len(work) > 0 {
		b := work[len(work)-1]
		work = work[:len(work)-1]
		for i, s := range b.Succs {
			if taken, ok := lenCmpTaken(b, i, isArg); ok && !taken(n) {
				continue
			}
			if !seen[s] {
				seen[s] = true
				work = append(work, s)
			}
		}
	}
	return seen
}

// R1.6: the clock rebuild walks down to the root commit whatever the number of parents on the way.
func checkClockWalkToRoot(c *Ctx, rule string) {
	w := c.W
	c.Doc(rule, "dag.readClockNoCheck: the walk from the head to the root commit (whose pack holds the creation time) follows the first parent of every commit that has parents — decided by evaluating the comparisons of len(commit.Parents) with constants for 0, 1, 2 and 3 parents: the parent read is reachable for 1, 2, 3 and not for 0")
	fn := w.Func("entity/dag", "readClockNoCheck")
	if fn == nil || len(fn.Blocks) == 0 {
		c.Undecided(rule, "anchor:readClockNoCheck", "entity/dag", "not found")
		return
	}
	c.seeFn(funcName(fn))
	isParents := func(v ssa.Value) bool { return hasField(v, "Parents") }
	// the parent read: ReadCommit whose argument is an element of Parents
	var parentRead *Call
	for _, cl := range Calls(fn) {
		if strings.HasSuffix(cl.Name, ".ReadCommit") && len(cl.Args()) == 1 && hasField(cl.Args()[0], "Parents") {
			parentRead = cl
		}
	}
	if parentRead == nil {
		c.Violate(rule, "readClockNoCheck:walks-to-the-root", w.FnPos(fn), "no read of a parent commit: the creation time of an entity with more than one commit cannot be found")
		return
	}
	c.Sites += 4
	var bad []string
	for n := int64(0); n <= 3; n++ {
		r := reachWithLen(fn, isParents, n)[parentRead.Block()]
		if (n == 0 && r) || (n > 0 && !r) {
			bad = append(bad, fmt.Sprintf("%d parent(s): parent read reachable=%v", n, r))
		}
	}
	c.Check(len(bad) == 0, rule, "readClockNoCheck:walks-to-the-root", w.InstrPos(parentRead.Instr), "the first parent is followed for 1, 2 and 3 parents and the walk stops at 0",
		"the walk to the root commit does not follow every commit that has parents ("+strings.Join(bad, "; ")+"): on a history with a merge commit the rebuild reads the creation time from a commit that does not hold it, and the repository cannot be opened once its clocks must be rebuilt")
}

// R1.7: `git bug push/pull REMOTE` talk to the named remote.
func checkRemoteArgumentHonoured(c *Ctx, rule string) {
	w := c.W
	c.Doc(rule, "commands.runPush / runPull: with exactly one argument the remote handed to Push / Fetch / MergeAll is that argument — the read of args[0] is reachable when len(args) == 1 (comparisons of len(args) with constants evaluated) and is an origin of the remote argument of every such call")
	for _, name := range []string{"runPush", "runPull"} {
		fn := w.Func("commands", name)
		if fn == nil || len(fn.Blocks) == 0 {
			c.Undecided(rule, "anchor:commands."+name, "commands", "not found")
			continue
		}
		c.seeFn(funcName(fn))
		var args *ssa.Parameter
		for _, p := range fn.Params {
			if sl, ok := p.Type().Underlying().(*types.Slice); ok {
				if b, isB := sl.Elem().Underlying().(*types.Basic); isB && b.Kind() == types.String {
					args = p
				}
			}
		}
		if args == nil {
			c.Undecided(rule, "anchor:commands."+name+":args", w.FnPos(fn), "no []string parameter")
			continue
		}
		isArgs := func(v ssa.Value) bool { return stripConv(v) == ssa.Value(args) }
		reach := reachWithLen(fn, isArgs, 1)
		// loads of args[0]
		var loads []ssa.Value
		for _, b := range fn.Blocks {
			for _, ins := range b.Instrs {
				if ia, ok := ins.(*ssa.IndexAddr); ok && ia.X == ssa.Value(args) {
					if k, isK := constInt(ia.Index); isK && k == 0 && reach[b] {
						for _, r := range *ia.Referrers() {
							if ld, isLd := r.(*ssa.UnOp); isLd && ld.Op == token.MUL {
								loads = append(loads, ld)
							}
						}
					}
				}
			}
		}
		n := 0
		for _, cl := range Calls(fn) {
			if !(strings.HasSuffix(cl.Name, "RepoCache.Push") || strings.HasSuffix(cl.Name, "RepoCache.Fetch") || strings.HasSuffix(cl.Name, "RepoCache.MergeAll") || strings.HasSuffix(cl.Name, "RepoCache.Pull")) {
				continue
			}
			if len(cl.Args()) == 0 {
				continue
			}
			n++
			c.Sites++
			remote := cl.Args()[0]
			ok := false
			seen := map[ssa.Value]bool{}
			var walk func(v ssa.Value)
			walk = func(v ssa.Value) {
				if v == nil || seen[v] {
					return
				}
				seen[v] = true
				for _, l := range loads {
					if v == l {
						ok = true
					}
				}
				switch x := v.(type) {
				case *ssa.Phi:
					for _, e := range x.Edges {
						walk(e)
					}
				case *ssa.ChangeType:
					walk(x.X)
				case *ssa.Convert:
					walk(x.X)
				case *ssa.UnOp:
					if al, isAl := x.X.(*ssa.Alloc); isAl && x.Op == token.MUL {
						for _, r := range *al.Referrers() {
							if st, isSt := r.(*ssa.Store); isSt && st.Addr == ssa.Value(al) {
								walk(st.Val)
							}
						}
					}
				}
			}
			walk(remote)
			c.Check(ok, rule, fmt.Sprintf("commands.%s→%s:remote-argument", name, cl.Name[strings.LastIndex(cl.Name, ".")+1:]), w.InstrPos(cl.Instr), "with one argument, the remote is args[0]",
				"with exactly one argument the remote given to this call is not that argument (the read of args[0] is unreachable for len(args)==1 or does not reach the call): the exchange goes to the default remote, silently, and two replicas sharing another remote never converge")
		}
		if n == 0 {
			c.Violate(rule, "commands."+name+":expected:exchange-call", w.FnPos(fn), "no Push / Fetch / MergeAll call found")
		}
	}
}

// R2.12: the entity-level MergeAll visits every remote ref.
func checkDagMergeAllVisitsAll(c *Ctx, rule string) {
	w := c.W
	c.Doc(rule, "dag.MergeAll: the loop over the remote refs has no exit but its exhaustion — one entity that cannot be merged (an error result is also what merge reports for a failure that concerns a single entity) does not end the merge of the entities listed after it")
	fn := w.Func("entity/dag", "MergeAll")
	if fn == nil {
		c.Undecided(rule, "anchor:dag.MergeAll", "entity/dag", "not found")
		return
	}
	fn = bodyOf(fn)
	found := false
	for _, f := range append([]*ssa.Function{fn}, fn.AnonFuncs...) {
		for _, cl := range Calls(f) {
			if cl.Name != "entity/dag.merge" {
				continue
			}
			found = true
			c.Sites++
			c.seeFn(funcName(f))
			h := enclosingLoopHeader(cl.Block())
			if h == nil {
				c.Violate(rule, "dag.MergeAll:visits-every-remote-ref", w.InstrPos(cl.Instr), "merge is not called in a loop over the remote refs")
				continue
			}
			var bad []string
			for _, e := range earlyLoopExitsNoFail(f) {
				if e.Header == h {
					bad = append(bad, w.InstrPos(e.From.Instrs[len(e.From.Instrs)-1]))
				}
			}
			c.Check(len(bad) == 0, rule, "dag.MergeAll:visits-every-remote-ref", w.InstrPos(cl.Instr), "the loop over the remote refs ends only when they are exhausted",
				"the loop over the remote refs is left early at "+strings.Join(bad, ", ")+": after one entity whose merge reports an error, the entities listed after it are neither merged nor reported, on every pull")
		}
	}
	if !found {
		c.Violate(rule, "dag.MergeAll:expected:merge-call", w.FnPos(fn), "no call of merge found")
	}
}

// R3.7: what read accepts is a function of the stored history.
func checkReadIgnoresOwnClocks(c *Ctx, rule string) {
	w := c.W
	c.Doc(rule, "dag.read (and its same-package helpers) use the repository's clocks only to witness: no call reads or increments a clock (GetOrCreateClock, AllClocks, Increment, Clock.Time), so the verdict on a stored history cannot depend on the reader's own clock")
	fn := readFn(c, rule)
	if fn == nil {
		return
	}
	n := 0
	var bad []string
	for _, f := range fnAndHelpers(fn, 2) {
		for _, cl := range Calls(f) {
			n++
			nm := cl.Name
			if strings.HasSuffix(nm, ".GetOrCreateClock") || strings.HasSuffix(nm, ".AllClocks") || strings.HasSuffix(nm, ".Increment") && strings.Contains(nm, "repository.") || strings.HasSuffix(nm, "lamport.Clock.Time") || strings.HasSuffix(nm, "Clock.Time") && strings.Contains(nm, "lamport") {
				bad = append(bad, nm+" at "+w.InstrPos(cl.Instr))
			}
		}
	}
	c.Sites += n
	c.Check(len(bad) == 0, rule, "read:verdict-from-stored-data-only", w.FnPos(fn), fmt.Sprintf("%d calls, none reads a local clock", n),
		"reading consults the reader's own clock ("+strings.Join(bad, "; ")+"): the same stored commits are accepted by one replica and refused by another, and by the same replica before and after it witnessed other entities")
}

// R6.10: a rebuild publishes the excerpt file once, after every entity went through.
func checkBuildWritesOnce(c *Ctx, rule string) {
	w := c.W
	c.Doc(rule, "SubCache.Build: the excerpt file is written outside the loop over the entities read from git (after the stream is exhausted) — a cache file on disk always describes every entity, so a process killed during the rebuild leaves no partial file that Load's count comparison would accept")
	fn := w.Method("cache", "SubCache", "Build")
	if fn == nil {
		c.Undecided(rule, "anchor:SubCache.Build", "cache", "not found")
		return
	}
	fn = bodyOf(fn)
	n := 0
	for _, f := range append([]*ssa.Function{fn}, fn.AnonFuncs...) {
		for _, cl := range Calls(f) {
			if !strings.HasSuffix(cl.Name, "SubCache.write") {
				continue
			}
			n++
			c.Sites++
			c.seeFn(funcName(f))
			c.Check(enclosingLoopHeader(cl.Block()) == nil, rule, "SubCache.Build:cache-file-written-after-the-last-entity", w.InstrPos(cl.Instr), "written once, outside the loop",
				"the excerpt file is written inside the loop over the entities: a process that dies during the rebuild leaves a file that lists only the entities seen so far, with an index of the same size — the next process accepts it and the other entities are missing from every listing and look-up")
		}
	}
	if n == 0 {
		c.Violate(rule, "SubCache.Build:expected:write", w.FnPos(fn), "Build no longer writes the excerpt file")
	}
}

// R7.14: computed indexes into fixed-size tables on the read path are bounded on both sides.
func checkArrayIndexBoundsIn(c *Ctx, rule, what string, prefixes []string) {
	w := c.W
	c.Doc(rule, "in "+what+": every access arr[i] to a fixed-size array with a non-constant index is control dependent on comparisons of i with constants that imply 0 <= i <= len(arr)-1 (ranges over the array itself and unsigned indexes below the length are exempt) — a value decoded from remote data must not index a table out of range")
	n := 0
	for _, f := range w.ModFns {
		if isInstance(f) || w.isTestHelper(f) {
			continue
		}
		in := false
		for _, p := range prefixes {
			if strings.HasPrefix(fnPkgPath(f), modPath+"/"+p) {
				in = true
			}
		}
		if !in {
			continue
		}
		for _, b := range f.Blocks {
			for _, ins := range b.Instrs {
				var idx, x ssa.Value
				switch a := ins.(type) {
				case *ssa.IndexAddr:
					idx, x = a.Index, a.X
				case *ssa.Index:
					idx, x = a.Index, a.X
				default:
					continue
				}
				t := x.Type()
				if p, isP := t.Underlying().(*types.Pointer); isP {
					t = p.Elem()
				}
				arr, isArr := t.Underlying().(*types.Array)
				if !isArr {
					continue
				}
				if _, isK := constInt(idx); isK {
					continue
				}
				if ph, isPhi := idx.(*ssa.Phi); isPhi && isLoopHeader(ph.Block()) {
					continue
				}
				if bo, isBo := idx.(*ssa.BinOp); isBo && bo.Op == token.ADD {
					if ph, isPhi := bo.X.(*ssa.Phi); isPhi && isLoopHeader(ph.Block()) {
						continue
					}
				}
				// i % N, i & (N-1)
				if bo, isBo := stripConv(idx).(*ssa.BinOp); isBo {
					if k, isK := constInt(bo.Y); isK {
						if bt, isB := bo.X.Type().Underlying().(*types.Basic); isB && bt.Info()&types.IsUnsigned != 0 {
							if (bo.Op == token.REM && k <= arr.Len()) || (bo.Op == token.AND && k < arr.Len()) || (bo.Op == token.SHR && false) {
								continue
							}
						}
						if bo.Op == token.AND && k >= 0 && k < arr.Len() {
							continue
						}
					}
				}
				// a byte / uint8 indexing an array of 256
				if bt, isB := idx.Type().Underlying().(*types.Basic); isB && (bt.Kind() == types.Uint8) && arr.Len() >= 256 {
					continue
				}
				n++
				c.Sites++
				c.seeFn(funcName(f))
				hi, lo := int64(1<<62), int64(-1<<62)
				if bt, isB := stripConv(idx).Type().Underlying().(*types.Basic); isB && bt.Info()&types.IsUnsigned != 0 {
					lo = 0
				}
				for _, cc := range controlConds(b, nil) {
					bo, isBo := cc.If.Cond.(*ssa.BinOp)
					if !isBo || !isCmpOp(bo.Op) {
						continue
					}
					op, xx, yy := bo.Op, bo.X, bo.Y
					if sameValueOrLoad(yy, idx) {
						op, xx, yy = swapOp(op), yy, xx
					}
					if !sameValueOrLoad(xx, idx) {
						continue
					}
					k, isK := constInt(yy)
					if !isK {
						continue
					}
					if cc.Edge == 1 {
						op = negateOp(op)
					}
					switch op {
					case token.LSS:
						hi = minI(hi, k-1)
					case token.LEQ:
						hi = minI(hi, k)
					case token.GTR:
						lo = maxI(lo, k+1)
					case token.GEQ:
						lo = maxI(lo, k)
					case token.EQL:
						hi, lo = minI(hi, k), maxI(lo, k)
					}
				}
				c.Check(lo >= 0 && hi <= arr.Len()-1, rule, funcName(f)+":array-index", w.InstrPos(ins), fmt.Sprintf("index bounded to [%d,%d] within an array of %d", lo, hi, arr.Len()),
					fmt.Sprintf("the index into a table of %d elements is only known to lie in [%s,%s]: a value outside the table (a negative operation type in remote data, say) panics instead of being refused", arr.Len(), boundStr(lo), boundStr(hi)))
			}
		}
	}
	c.Info(rule, "array-index-sites", what, fmt.Sprintf("%d computed accesses to fixed-size arrays", n))
}

// sameValueOrLoad: a and b are the same value up to conversions, or two loads of the same field of the same local.
func sameValueOrLoad(a, b ssa.Value) bool {
	a, b = stripConv(a), stripConv(b)
	if a == b {
		return true
	}
	la, okA := a.(*ssa.UnOp)
	lb, okB := b.(*ssa.UnOp)
	if !okA || !okB || la.Op != token.MUL || lb.Op != token.MUL {
		return false
	}
	fa, okA := la.X.(*ssa.FieldAddr)
	fb, okB := lb.X.(*ssa.FieldAddr)
	if !okA || !okB || fa.Field != fb.Field || fa.X != fb.X {
		return false
	}
	_, isLocal := fa.X.(*ssa.Alloc)
	return isLocal
}

func boundStr(v int64) string {
	if v <= -1<<61 {
		return "-inf"
	}
	if v >= 1<<61 {
		return "+inf"
	}
	return fmt.Sprint(v)
}

// R7.15: Id.Human is total — ref names shorter than the abbreviation are printed, not sliced.
func checkIdMethodsTotal(c *Ctx, rule string) {
	w := c.W
	c.Doc(rule, "package entity, methods of Id and CombinedId: no slice expression s[a:b] or index s[i] over the id string with a bound that is not proven by a dominating comparison with len(s) — a refused entity's id is whatever the remote named its ref, of any length, and reporting it must not panic")
	n := 0
	for _, f := range w.ModFns {
		if isInstance(f) || w.isTestHelper(f) || fnPkgPath(f) != modPath+"/entity" || f.Signature.Recv() == nil {
			continue
		}
		rt := f.Signature.Recv().Type()
		if p, ok := rt.(*types.Pointer); ok {
			rt = p.Elem()
		}
		rn := typeShortName(rt)
		if rn != "entity.Id" && rn != "entity.CombinedId" {
			continue
		}
		c.seeFn(funcName(f))
		for _, b := range f.Blocks {
			for _, ins := range b.Instrs {
				sl, ok := ins.(*ssa.Slice)
				if !ok {
					continue
				}
				if bt, isB := sl.X.Type().Underlying().(*types.Basic); !isB || bt.Info()&types.IsString == 0 {
					continue
				}
				n++
				c.Sites++
				guarded := true
				for _, bound := range []ssa.Value{sl.Low, sl.High} {
					if bound == nil {
						continue
					}
					if k, isK := constInt(bound); isK && k == 0 {
						continue
					}
					// len(s) itself
					if isLenOf(bound, sl.X) {
						continue
					}
					if !boundProven(b, bound, sl.X) {
						guarded = false
					}
				}
				c.Check(guarded, rule, funcName(f)+":slice-of-the-id", w.InstrPos(sl), "bounds proven by a comparison with the length",
					"the id string is sliced with a bound that no dominating comparison with its length proves: an id shorter than that (a remote ref named 'abc') panics — the merge refuses the entity correctly, and printing the refusal crashes the pull")
			}
		}
	}
	c.Info(rule, "id-slice-sites", "entity", fmt.Sprintf("%d slice expressions over id strings", n))
}

func isLenOf(v, s ssa.Value) bool {
	cl, ok := stripConv(v).(*ssa.Call)
	if !ok {
		return false
	}
	bi, isB := cl.Common().Value.(*ssa.Builtin)
	return isB && bi.Name() == "len" && stripConv(cl.Common().Args[0]) == stripConv(s)
}

// boundProven: block b is control dependent on a comparison that implies bound <= len(s).
func boundProven(b *ssa.BasicBlock, bound, s ssa.Value) bool {
	for _, cc := range controlConds(b, nil) {
		bo, ok := cc.If.Cond.(*ssa.BinOp)
		if !ok || !isCmpOp(bo.Op) {
			continue
		}
		op, x, y := bo.Op, bo.X, bo.Y
		if isLenOf(y, s) {
			op, x, y = swapOp(op), y, x
		}
		if !isLenOf(x, s) {
			continue
		}
		if cc.Edge == 1 {
			op = negateOp(op)
		}
		// len(s) op y
		kb, isKb := constInt(bound)
		ky, isKy := constInt(y)
		same := stripConv(y) == stripConv(bound)
		switch op {
		case token.GEQ:
			if same || (isKb && isKy && ky >= kb) {
				return true
			}
		case token.GTR:
			if same || (isKb && isKy && ky+1 >= kb) {
				return true
			}
		case token.EQL:
			if same || (isKb && isKy && ky >= kb) {
				return true
			}
		}
	}
	return false
}

// R8.9: a decoded commit carries one-shot readers: it is built for each read and kept nowhere.
func checkCommitNotRetained(c *Ctx, rule string) {
	w := c.W
	c.Doc(rule, "repository.Commit holds the signed payload and the signature as io.Readers, which the first verification drains: no Commit value is stored into a map, a field, a global or a slice element of longer-lived storage, and no ReadCommit implementation returns a Commit looked up from such storage")
	n := 0
	isCommit := func(t types.Type) bool { return typeShortName(t) == "repository.Commit" }
	for _, f := range w.ModFns {
		if isInstance(f) || w.isTestHelper(f) {
			continue
		}
		for _, b := range f.Blocks {
			for _, ins := range b.Instrs {
				switch x := ins.(type) {
				case *ssa.MapUpdate:
					if isCommit(x.Value.Type()) {
						n++
						c.seeFn(funcName(f))
						c.Violate(rule, funcName(f)+":commit-retained-in-map", w.InstrPos(x), "a decoded commit is kept in a map: its signed-data and signature readers are consumed by the first verification, so every later read of the same signed commit in the process fails its signature check (or passes on nothing) — a validly signed commit is refused")
					}
				case *ssa.Store:
					if !isCommit(x.Val.Type()) {
						continue
					}
					n++
					if root := addrRoot(x.Addr); root != nil {
						if _, isAl := root.(*ssa.Alloc); isAl && !root.(*ssa.Alloc).Heap || isFreshLocal(root) {
							continue
						}
						if al, isAl := root.(*ssa.Alloc); isAl {
							// a heap cell of this call (captured local or the result struct): not longer-lived unless it escapes into a field
							_ = al
							continue
						}
					}
					c.seeFn(funcName(f))
					c.Violate(rule, funcName(f)+":commit-retained", w.InstrPos(x), "a decoded commit is stored into longer-lived storage: its one-shot signed-data and signature readers are drained by the first verification, every later use of the retained value verifies nothing or fails")
				case *ssa.Lookup:
					t := x.Type()
					if tu, isT := t.(*types.Tuple); isT && tu.Len() > 0 {
						t = tu.At(0).Type()
					}
					if isCommit(t) {
						n++
						c.seeFn(funcName(f))
						c.Violate(rule, funcName(f)+":commit-from-a-table", w.InstrPos(x), "a decoded commit is taken from a table instead of being decoded again: its readers were consumed by whoever verified it first")
					}
				}
			}
		}
	}
	c.Sites += n
	// each implementation of ReadCommit builds its readers in the call
	impls := 0
	for _, f := range w.ModFns {
		if isInstance(f) || w.isTestHelper(f) || f.Name() != "ReadCommit" || f.Signature.Recv() == nil || fnPkgPath(f) != modPath+"/repository" {
			continue
		}
		impls++
		c.seeFn(funcName(f))
		ok := true
		why := ""
		for _, fld := range []string{"SignedData", "Signature"} {
			for _, b := range f.Blocks {
				for _, ins := range b.Instrs {
					st, isSt := ins.(*ssa.Store)
					if !isSt {
						continue
					}
					fa, isFA := st.Addr.(*ssa.FieldAddr)
					if !isFA || fieldName(fa) != fld {
						continue
					}
					fresh := false
					for _, o := range origins(st.Val) {
						if o.Kind == "call" {
							fresh = true
						}
						if o.Kind == "field" || o.Kind == "global" {
							ok, why = false, fld+" is taken from "+o.String()
						}
					}
					if !fresh {
						ok, why = false, fld+" is not the result of a call made during this read"
					}
				}
			}
		}
		c.Check(ok, rule, funcName(f)+":fresh-readers", w.FnPos(f), "the readers are created by calls made during this read", why)
	}
	if impls == 0 {
		c.Violate(rule, "expected:ReadCommit", "repository", "no ReadCommit implementation found")
	}
	c.Hold(rule, "no-commit-retained", "module", fmt.Sprintf("%d stores/look-ups of Commit values examined, %d ReadCommit implementations", n, impls))
}

func addrRoot(v ssa.Value) ssa.Value {
	for i := 0; i < 20; i++ {
		switch x := v.(type) {
		case *ssa.FieldAddr:
			v = x.X
		case *ssa.IndexAddr:
			v = x.X
		case *ssa.UnOp:
			if x.Op == token.MUL {
				return x
			}
			return v
		default:
			return v
		}
	}
	return v
}

// R8.10: cloning a key keeps its private part.
func checkKeyCloneKeepsPrivate(c *Ctx, rule string) {
	w := c.W
	c.Doc(rule, "identity.Key.Clone: the clone's private part is set from the receiver's private part, on every path where the receiver has one (the only condition on that store is the nil test of the receiver's own field) — Mutate carries the keys into each new version through Clone, and a clone without its private part makes SigningKey answer nil, so commits go out unsigned and are refused by every reader")
	fn := w.Method("entities/identity", "Key", "Clone")
	if fn == nil || len(fn.Blocks) == 0 {
		c.Undecided(rule, "anchor:Key.Clone", "entities/identity", "not found")
		return
	}
	c.seeFn(funcName(fn))
	recv := fn.Params[0]
	ofRecv := func(v ssa.Value) bool { // load of recv.private
		b, f, ok := loadOfField(v)
		return ok && f == "private" && stripConv(b) == ssa.Value(recv)
	}
	found := false
	ok := true
	why := ""
	for _, b := range fn.Blocks {
		for _, ins := range b.Instrs {
			st, isSt := ins.(*ssa.Store)
			if !isSt {
				continue
			}
			fa, isFA := st.Addr.(*ssa.FieldAddr)
			if !isFA || fieldName(fa) != "private" || stripConv(fa.X) == ssa.Value(recv) {
				continue
			}
			found = true
			c.Sites++
			// the value: a copy of *recv.private, or recv.private itself
			fromRecv := false
			for _, o := range origins(st.Val) {
				if o.Kind == "field" && o.Name == "private" && stripConv(o.Val) == ssa.Value(recv) {
					fromRecv = true
				}
				if o.Kind == "alloc" {
					if al, isAl := o.Val.(*ssa.Alloc); isAl {
						for _, r := range *al.Referrers() {
							if s2, isS := r.(*ssa.Store); isS && s2.Addr == ssa.Value(al) {
								if ld, isLd := s2.Val.(*ssa.UnOp); isLd && ofRecv(ld.X) {
									fromRecv = true
								}
							}
						}
					}
				}
			}
			if al, isAl := st.Val.(*ssa.Alloc); isAl {
				for _, r := range *al.Referrers() {
					if s2, isS := r.(*ssa.Store); isS && s2.Addr == ssa.Value(al) {
						if ld, isLd := s2.Val.(*ssa.UnOp); isLd && ofRecv(ld.X) {
							fromRecv = true
						}
					}
				}
			}
			if !fromRecv {
				ok, why = false, "the clone's private part is not taken from the receiver's"
			}
			for _, cc := range controlConds(b, nil) {
				bo, isBo := cc.If.Cond.(*ssa.BinOp)
				if !isBo || !(isNilConst(bo.X) || isNilConst(bo.Y)) {
					ok, why = false, "the copy of the private part is conditional on something else than the receiver having one ("+w.InstrPos(cc.If)+")"
					continue
				}
				other := bo.X
				if isNilConst(bo.X) {
					other = bo.Y
				}
				if !ofRecv(other) {
					ok, why = false, "the copy of the private part is conditional on a nil test of something else than the receiver's private field ("+w.InstrPos(cc.If)+"): the clone loses the private key"
				}
				nonNilEdge := (bo.Op == token.NEQ && cc.Edge == 0) || (bo.Op == token.EQL && cc.Edge == 1)
				if !nonNilEdge {
					ok, why = false, "the copy happens when the receiver has no private part"
				}
			}
		}
	}
	if !found {
		ok, why = false, "Clone never sets the clone's private part"
	}
	c.Check(ok, rule, "Key.Clone:private-part-kept", w.FnPos(fn), "clone.private ← copy of k.private iff k.private != nil", why+": after the next Mutate the identity's last version declares the key but cannot sign with it — commits are written unsigned without an error and every reader refuses them")
}

// R9.11: the user's identity is resolved on every call.
func checkUserIdentityResolvedEachCall(c *Ctx, rule string) {
	w := c.W
	c.Doc(rule, "RepoCache.GetUserIdentity / GetUserIdentityExcerpt: every instance handed back is the result of the sub-cache's Resolve / ResolveExcerpt made during the call — the id may be remembered, the instance not: after a pull replaced the loaded identity, a remembered instance is the pre-merge one and the next version committed through it drops the pulled versions from the local history")
	for _, t := range []struct{ m, res string }{{"GetUserIdentity", ".Resolve"}, {"GetUserIdentityExcerpt", ".ResolveExcerpt"}} {
		fn := w.Method("cache", "RepoCache", t.m)
		if fn == nil || len(fn.Blocks) == 0 {
			c.Undecided(rule, "anchor:RepoCache."+t.m, "cache", "not found")
			continue
		}
		c.seeFn(funcName(fn))
		n := 0
		var bad []string
		for _, r := range Returns(fn) {
			if len(r.Results) < 1 {
				continue
			}
			v := ReturnResult(r, 0)
			if isNilConst(v) {
				continue
			}
			n++
			c.Sites++
			for _, o := range origins(v) {
				switch {
				case o.Kind == "call" && strings.HasSuffix(o.Name, t.res) && o.Idx == 0:
				case o.Kind == "const":
				default:
					bad = append(bad, o.String()+" at "+w.InstrPos(r))
				}
			}
		}
		sort.Strings(bad)
		c.Check(n > 0 && len(bad) == 0, rule, "RepoCache."+t.m+":resolved-on-every-call", w.FnPos(fn), fmt.Sprintf("%d returns, all hand back the result of %s", n, strings.TrimPrefix(t.res, ".")),
			"an instance is handed back that was not resolved during the call ("+strings.Join(bad, "; ")+"): after a pull fast-forwarded the user's identity this is the pre-merge instance, and the next commit through it is built on the old last version")
	}
}

// R12.11: the resolvers a query evaluates identities with read the live excerpts.
func checkResolversNotMemoised(c *Ctx, rule string) {
	w := c.W
	c.Doc(rule, "package cache: every value of the entity.Resolvers table of a RepoCache is an entity.ResolverFunc over a bound Resolve / ResolveExcerpt of a sub-cache — no memoising layer (entity.CachedResolver keeps what it resolved for ever) sits between a query filter and the excerpt table, which replaces excerpts rather than updating them")
	n := 0
	for _, f := range w.ModFns {
		if isInstance(f) || w.isTestHelper(f) || fnPkgPath(f) != modPath+"/cache" {
			continue
		}
		for _, b := range f.Blocks {
			for _, ins := range b.Instrs {
				mu, ok := ins.(*ssa.MapUpdate)
				if !ok || typeShortName(mu.Map.Type()) != "entity.Resolvers" {
					continue
				}
				n++
				c.Sites++
				c.seeFn(funcName(f))
				v := mu.Value
				if mi, isMI := v.(*ssa.MakeInterface); isMI {
					v = mi.X
				}
				tn := typeShortName(v.Type())
				okT := strings.HasPrefix(tn, "entity.ResolverFunc")
				bound := false
				for _, o := range origins(v) {
					if mc, isMC := o.Val.(*ssa.MakeClosure); isMC {
						if fn, isFn := mc.Fn.(*ssa.Function); isFn && strings.HasSuffix(fn.Name(), "$bound") && (strings.HasPrefix(fn.Name(), "Resolve")) {
							bound = true
						}
					}
				}
				if mc, isMC := stripConv(v).(*ssa.MakeClosure); isMC {
					if fn, isFn := mc.Fn.(*ssa.Function); isFn && strings.HasSuffix(fn.Name(), "$bound") && strings.HasPrefix(fn.Name(), "Resolve") {
						bound = true
					}
				}
				c.Check(okT && bound, rule, funcName(f)+":resolver-reads-the-live-table", w.InstrPos(mu), "ResolverFunc over a bound sub-cache method",
					"a resolver of the cache is "+tn+" rather than the sub-cache's own Resolve / ResolveExcerpt: what it answered once it answers for ever, so after an identity changed (a pull, a Mutate) the author/actor/participant filters still match the old name and login")
			}
		}
	}
	if n == 0 {
		c.Violate(rule, "expected:resolvers-table", "cache", "no entity.Resolvers table is filled in package cache")
	}
}

// R13.8 / R10.8: the combined id of a comment names the operation that created it.
func checkCommentCombinedIdStable(c *Ctx, rule string) {
	w := c.W
	c.Doc(rule, "package bug, Apply methods: every entity.CombineIds call pairs the snapshot's id with the id of the operation that CREATED the comment — op.Id() in create / add-comment, op.Target in edit-comment; and edit-comment writes no other combined id into snapshot.Comments (a whole-comment assignment must carry the id it matched on)")
	n := 0
	for _, typ := range []string{"CreateOperation", "AddCommentOperation", "EditCommentOperation"} {
		fn := w.Method("entities/bug", typ, "Apply")
		if fn == nil || len(fn.Blocks) == 0 {
			c.Undecided(rule, "anchor:"+typ+".Apply", "entities/bug", "not found")
			continue
		}
		c.seeFn(funcName(fn))
		recv := fn.Params[0]
		for _, cl := range CallsNamed(fn, "entity.CombineIds") {
			n++
			c.Sites++
			args := cl.Args()
			if len(args) != 2 {
				continue
			}
			second := args[1]
			isTarget, isOwnId := false, false
			for _, o := range origins(second) {
				if o.Kind == "field" && o.Name == "Target" {
					isTarget = true
				}
				if o.Kind == "call" && strings.HasSuffix(o.Name, typ+".Id") {
					if cv, ok := o.Val.(*ssa.Call); ok && len(cv.Common().Args) > 0 && stripConv(cv.Common().Args[0]) == ssa.Value(recv) {
						isOwnId = true
					}
				}
			}
			if typ == "EditCommentOperation" {
				c.Check(isTarget && !isOwnId, rule, typ+".Apply:combined-id-of-the-target", w.InstrPos(cl.Instr), "CombineIds(snapshot id, op.Target)",
					"an edit builds a combined id from its own id instead of its target's: after the first edit the comment answers to another id, every prefix of the id it was created with reports 'comment doesn't exist', and the listed id resolves to no comment operation")
			} else {
				c.Check(isOwnId && !isTarget, rule, typ+".Apply:combined-id-of-the-creating-operation", w.InstrPos(cl.Instr), "CombineIds(snapshot id, op.Id())",
					"the comment's combined id is not built from the id of the operation creating it")
			}
		}
	}
	if n < 3 {
		c.Violate(rule, "expected:CombineIds-sites", "entities/bug", fmt.Sprintf("%d CombineIds calls in the comment-bearing Apply methods (reference 3)", n))
	}
}

// R14.8: the cache removes the entity it resolved.
func checkRemoveUsesResolvedId(c *Ctx, rule string) {
	w := c.W
	c.Doc(rule, "SubCache.Remove: the id given to the entity layer's Remove is the Id() of the entity the prefix resolved to (the same value the cache forgets), never the caller's prefix — the entity layer builds exact ref names from it")
	fn := w.Method("cache", "SubCache", "Remove")
	if fn == nil {
		c.Undecided(rule, "anchor:SubCache.Remove", "cache", "not found")
		return
	}
	fn = bodyOf(fn)
	c.seeFn(funcName(fn))
	n := 0
	for _, f := range fnAndHelpers(fn, 1) {
		for _, b := range f.Blocks {
			for _, ins := range b.Instrs {
				ci, ok := ins.(ssa.CallInstruction)
				if !ok {
					continue
				}
				cc := ci.Common()
				// sc.actions.Remove(repo, id): a call through the Remove field of Actions
				isRemove := false
				if ld, isLd := cc.Value.(*ssa.UnOp); isLd {
					if fa, isFA := ld.X.(*ssa.FieldAddr); isFA && fieldName(fa) == "Remove" {
						isRemove = true
					}
				}
				if fv, isF := cc.Value.(*ssa.Field); isF && fieldNameOfField(fv) == "Remove" {
					isRemove = true
				}
				if !isRemove || len(cc.Args) < 2 {
					continue
				}
				n++
				c.Sites++
				id := cc.Args[len(cc.Args)-1]
				fromId, fromParam := false, ""
				for _, o := range origins(id) {
					if o.Kind == "call" && strings.HasSuffix(o.Name, ".Id") {
						fromId = true
					}
					if o.Kind == "param" {
						fromParam = o.Name
					}
				}
				c.Check(fromId && fromParam == "", rule, "SubCache.Remove:removes-the-resolved-entity", w.InstrPos(ci), "actions.Remove(repo, e.Id())",
					"the entity layer is asked to remove "+map[bool]string{true: "the caller's '" + fromParam + "'", false: "something else than the resolved entity's id"}[fromParam != ""]+": for an abbreviated id it builds ref names that do not exist and removes nothing, while the cache forgets the entity and reports success — the refs stay, and the entity is back after the next rebuild")
			}
		}
	}
	if n == 0 {
		c.Violate(rule, "SubCache.Remove:expected:actions.Remove", w.FnPos(fn), "no call of the entity layer's Remove found")
	}
}

func fieldNameOfField(f *ssa.Field) string {
	t := f.X.Type()
	if p, ok := t.Underlying().(*types.Pointer); ok {
		t = p.Elem()
	}
	if st, ok := t.Underlying().(*types.Struct); ok && f.Field < st.NumFields() {
		return st.Field(f.Field).Name()
	}
	return ""
}

// flowsToReturn: v reaches an operand of a return of its function, through phis, interface conversions,
// wrapping calls, local cells and appends.
func flowsToReturn(v ssa.Value) bool {
	seen := map[ssa.Value]bool{}
	var walk func(v ssa.Value, d int) bool
	walk = func(v ssa.Value, d int) bool {
		if v == nil || seen[v] || d > 10 || v.Referrers() == nil {
			return false
		}
		seen[v] = true
		for _, r := range *v.Referrers() {
			switch x := r.(type) {
			case *ssa.Return:
				return true
			case *ssa.Phi:
				if walk(x, d+1) {
					return true
				}
			case *ssa.MakeInterface:
				if walk(x, d+1) {
					return true
				}
			case *ssa.ChangeInterface:
				if walk(x, d+1) {
					return true
				}
			case *ssa.ChangeType:
				if walk(x, d+1) {
					return true
				}
			case *ssa.Extract:
				if walk(x, d+1) {
					return true
				}
			case *ssa.Call:
				// wrapped (errors.Wrap, fmt.Errorf, append, multierr …): the result carries it
				for _, a := range x.Common().Args {
					if a == v {
						if walk(x, d+1) {
							return true
						}
					}
				}
			case *ssa.Store:
				if x.Val != v {
					continue
				}
				if al, ok := x.Addr.(*ssa.Alloc); ok {
					for _, r2 := range *al.Referrers() {
						if ld, isLd := r2.(*ssa.UnOp); isLd && ld.Op == token.MUL && walk(ld, d+1) {
							return true
						}
					}
				}
				if ia, ok := x.Addr.(*ssa.IndexAddr); ok { // variadic slice
					if walk(ia.X, d+1) {
						return true
					}
				}
			case *ssa.Slice:
				if walk(x, d+1) {
					return true
				}
			}
		}
		return false
	}
	return walk(v, 0)
}

// R14.9: a removal that failed is reported.
func checkRemovalErrorsReported(c *Ctx, rule string) {
	w := c.W
	c.Doc(rule, "dag.Remove / dag.RemoveAll / identity.Remove / identity.RemoveAll: the error of every repository or removal call flows into the function's own return value (directly, wrapped, or through an accumulator that is returned) — a ref that could not be deleted is never reported as removed")
	type target struct{ pkg, name string }
	n := 0
	for _, t := range []target{{"entity/dag", "Remove"}, {"entity/dag", "RemoveAll"}, {"entities/identity", "Remove"}, {"entities/identity", "RemoveAll"}} {
		fn := w.Func(t.pkg, t.name)
		if fn == nil || len(fn.Blocks) == 0 {
			c.Undecided(rule, "anchor:"+t.pkg+"."+t.name, t.pkg, "not found")
			continue
		}
		c.seeFn(funcName(fn))
		for _, cl := range Calls(fn) {
			v := cl.Value()
			if v == nil {
				continue
			}
			evs := errValues(v)
			if len(evs) == 0 {
				continue
			}
			if !(strings.Contains(cl.Name, "repository.") || strings.HasSuffix(cl.Name, ".Remove") || strings.HasSuffix(cl.Name, ".ListLocalIds") || strings.HasSuffix(cl.Name, "RemoveAll")) {
				continue
			}
			n++
			c.Sites++
			ok := false
			for _, ev := range evs {
				if flowsToReturn(ev) {
					ok = true
				}
			}
			short := cl.Name[strings.LastIndex(cl.Name, ".")+1:]
			c.Check(ok, rule, fmt.Sprintf("%s.%s→%s:error-reported", t.pkg, t.name, short), w.InstrPos(cl.Instr), "the error reaches the return value",
				"the error of "+short+" never reaches the function's return value: when a ref cannot be deleted the removal still reports success, the cache and the configuration are wiped on top of it, and the left-over refs bring the entity back (or break the rebuild) on the next start")
		}
	}
	if n < 4 {
		c.Violate(rule, "expected:removal-calls", "entity/dag", fmt.Sprintf("%d error-returning calls in the removal functions (reference >= 4)", n))
	}
}

// R15.14: the local storage lives in the git directory that was detected.
func checkStorageUnderDetectedGitDir(c *Ctx, rule string) {
	w := c.W
	c.Doc(rule, "repository.OpenGoGitRepo: the directory handed to osfs.New for the local storage (clocks, cache, indexes, lock) and the path opened by go-git are both computed from the result of detectGitPath, never from the caller's path alone — commands run from a sub-directory or a bare repository must not create a .git directory of their own in the work tree")
	fn := w.Func("repository", "OpenGoGitRepo")
	if fn == nil || len(fn.Blocks) == 0 {
		c.Undecided(rule, "anchor:OpenGoGitRepo", "repository", "not found")
		return
	}
	c.seeFn(funcName(fn))
	n := 0
	for _, cl := range Calls(fn) {
		if !(strings.HasSuffix(cl.Name, "osfs.New") || strings.HasSuffix(cl.Name, "go-git/v5.PlainOpen") || strings.HasSuffix(cl.Name, ".PlainOpen")) || len(cl.Args()) == 0 {
			continue
		}
		n++
		c.Sites++
		ok := deepFromCall(cl.Args()[0], "repository.detectGitPath", 0)
		short := cl.Name[strings.LastIndex(cl.Name, ".")+1:]
		c.Check(ok, rule, "OpenGoGitRepo→"+short+":under-the-detected-git-dir", w.InstrPos(cl.Instr), "computed from detectGitPath's result",
			"the path given to "+short+" is not computed from what detectGitPath found: run from a sub-directory of the work tree (or in a bare repository) git-bug creates <cwd>/.git/… with its clocks, cache and lock inside the user's files, and later runs from there no longer find the repository")
	}
	if n < 2 {
		c.Violate(rule, "OpenGoGitRepo:expected:storage-and-open", w.FnPos(fn), fmt.Sprintf("%d of the two path-taking calls (PlainOpen, osfs.New) found", n))
	}
}

// deepFromCall: v is computed (through calls' arguments, phis, conversions) from result idx of the named call.
func deepFromCall(v ssa.Value, name string, idx int) bool {
	seen := map[ssa.Value]bool{}
	var walk func(v ssa.Value, d int) bool
	walk = func(v ssa.Value, d int) bool {
		if v == nil || seen[v] || d > 8 {
			return false
		}
		seen[v] = true
		for _, o := range origins(v) {
			if o.Kind == "call" {
				if strings.HasSuffix(o.Name, name) && (idx < 0 || o.Idx == idx) {
					return true
				}
				if cv, ok := o.Val.(*ssa.Call); ok {
					for _, a := range cv.Common().Args {
						if walk(a, d+1) {
							return true
						}
					}
					for _, a := range variadicOperands(lastArg(cv)) {
						if walk(a, d+1) {
							return true
						}
					}
				}
			}
		}
		return false
	}
	return walk(v, 0)
}

func lastArg(cv *ssa.Call) ssa.Value {
	if n := len(cv.Common().Args); n > 0 {
		return cv.Common().Args[n-1]
	}
	return nil
}

// R16.16: an imported identity is found again by what was stored with it.
func checkIdentityFoundByWhatWasStored(c *Ctx, rule string) {
	w := c.W
	c.Doc(rule, "bridge importers: in every function that looks an identity up with ResolveIdentityImmutableMetadata(key, v) and creates it with Identities().NewRaw(…, metadata), the metadata holds the same key, and the value stored under it is computed from the same source as v (same struct field / same parameter); when v is a fixed login, the stored value is computed from the same field as the login handed to NewRaw — otherwise the look-up never finds what the creation stored and every event of that account creates another identity")
	n := 0
	idTokens := func(v ssa.Value) map[string]bool {
		out := map[string]bool{}
		seen := map[ssa.Value]bool{}
		var walk func(v ssa.Value, d int)
		walk = func(v ssa.Value, d int) {
			if v == nil || seen[v] || d > 6 {
				return
			}
			seen[v] = true
			for _, o := range origins(v) {
				switch o.Kind {
				case "field":
					out["field "+o.Name] = true
				case "param":
					out["parameter "+o.Name] = true
				case "const":
					if s, ok := constString(o.Val); ok {
						out["constant "+s] = true
					} else {
						out["constant"] = true
					}
				case "call":
					if cv, ok := o.Val.(*ssa.Call); ok && !w.inModuleCall(cv) {
						for _, a := range cv.Common().Args {
							walk(a, d+1)
						}
					} else {
						out["result of "+o.Name] = true
					}
				case "unop":
					if u, ok := o.Val.(*ssa.UnOp); ok {
						walk(u.X, d+1)
					}
				}
			}
		}
		walk(v, 0)
		return out
	}
	keys := func(m map[string]bool) string {
		var ks []string
		for k := range m {
			ks = append(ks, k)
		}
		sort.Strings(ks)
		return "{" + strings.Join(ks, ", ") + "}"
	}
	onlyConst := func(m map[string]bool) bool {
		for k := range m {
			if !strings.HasPrefix(k, "constant") {
				return false
			}
		}
		return len(m) > 0
	}
	for _, f := range w.ModFns {
		if isInstance(f) || w.isTestHelper(f) || !strings.HasPrefix(fnPkgPath(f), modPath+"/bridge/") {
			continue
		}
		var look, create *Call
		for _, cl := range Calls(f) {
			if strings.HasSuffix(cl.Name, "RepoCacheIdentity.ResolveIdentityImmutableMetadata") {
				look = cl
			}
			if strings.HasSuffix(cl.Name, "RepoCacheIdentity.NewRaw") {
				create = cl
			}
		}
		if look == nil || create == nil || len(look.Args()) < 2 || len(create.Args()) < 6 {
			continue
		}
		n++
		c.Sites++
		c.seeFn(funcName(f))
		key, isK := constString(look.Args()[0])
		if !isK {
			c.Info(rule, funcName(f)+":lookup-key", w.InstrPos(look.Instr), "the look-up key is not a constant")
			continue
		}
		md := create.Args()[5]
		var stored ssa.Value
		for _, r := range referrersOf(md) {
			if mu, isMU := r.(*ssa.MapUpdate); isMU {
				if s, isS := constString(mu.Key); isS && s == key {
					stored = mu.Value
				}
			}
		}
		if stored == nil {
			c.Violate(rule, funcName(f)+":found-by-what-was-stored", w.InstrPos(create.Instr), "the identity is created without the metadata key '"+key+"' it is looked up by: the same account is created again for each of its events")
			continue
		}
		lt, st := idTokens(look.Args()[1]), idTokens(stored)
		ok := keys(lt) == keys(st)
		if !ok && onlyConst(lt) {
			ok = keys(idTokens(create.Args()[2])) == keys(st)
		}
		c.Check(ok, rule, funcName(f)+":found-by-what-was-stored", w.InstrPos(create.Instr), "looked up by "+keys(lt)+", stored from "+keys(st),
			"the identity is looked up under '"+key+"' by a value computed from "+keys(lt)+" but the value stored under that key is computed from "+keys(st)+": whenever the two differ (an account whose name is not its login) the stored identity is never found again and every event of the account — in this import and in every later one — creates another identity")
	}
	if n < 4 {
		c.Violate(rule, "expected:lookup-then-create", "bridge", fmt.Sprintf("%d importer functions with an identity look-up and creation (reference >= 4)", n))
	}
}

func (w *World) inModuleCall(cv *ssa.Call) bool {
	if f := cv.Common().StaticCallee(); f != nil {
		return w.inModule(f)
	}
	return cv.Common().IsInvoke() && cv.Common().Method.Pkg() != nil && strings.HasPrefix(cv.Common().Method.Pkg().Path(), modPath)
}

// R18.11: go-git is entered by one goroutine at a time.
func checkGoGitExclusive(c *Ctx, rule string) {
	w := c.W
	c.Doc(rule, "GoGitRepo.rMutex guards go-git's object storage, whose look-ups write (lazily built pack index maps, object caches): it is never taken for reading — every acquisition is exclusive")
	n := 0
	var bad []string
	for _, f := range w.ModFns {
		if isInstance(f) || w.isTestHelper(f) || fnPkgPath(f) != modPath+"/repository" {
			continue
		}
		for _, cl := range Calls(f) {
			op, ok := asLockOp(cl.Instr.Common())
			if !ok || !strings.HasSuffix(op.Class, "GoGitRepo.rMutex") {
				continue
			}
			n++
			c.seeFn(funcName(f))
			if op.Mode == 'R' {
				bad = append(bad, funcName(f)+" at "+w.InstrPos(cl.Instr))
			}
		}
	}
	c.Sites += n
	c.Check(n > 0 && len(bad) == 0, rule, "GoGitRepo.rMutex:always-exclusive", "repository/gogit.go", fmt.Sprintf("%d lock operations, all exclusive", n),
		"the lock around go-git is taken for reading at "+strings.Join(bad, ", ")+": go-git's reads are not read-only (every look-up of a packed object fills the pack index's reverse map), so two concurrent readers crash the process with 'concurrent map writes'")
}

// R18.12: what another entity's commit asks an identity never waits on the identity's own lock.
func checkIdentityInterfaceLockFree(c *Ctx, rule string, lw *lockWorld) {
	w := c.W
	c.Doc(rule, "cache.IdentityCache: no method of identity.Interface (what operations ask of their author during Validate / Commit of a bug) is redeclared on IdentityCache so as to take the per-entity mutex — eviction locks an evicted instance for good, and an evicted identity is still the author inside loaded bugs: a lock-taking accessor makes the commit of such a bug wait for ever, holding the bug's write lock")
	ip := w.Pkg("entities/identity")
	var iface *types.Interface
	if ip != nil {
		if o := ip.Types.Scope().Lookup("Interface"); o != nil {
			iface, _ = o.Type().Underlying().(*types.Interface)
		}
	}
	if iface == nil {
		c.Undecided(rule, "anchor:identity.Interface", "entities/identity", "not found")
		return
	}
	n := 0
	for i := 0; i < iface.NumMethods(); i++ {
		m := iface.Method(i)
		fn := w.Method("cache", "IdentityCache", m.Name())
		n++
		if fn == nil || len(fn.Blocks) == 0 || fn.Synthetic != "" {
			continue // promoted from the wrapped identity
		}
		c.Sites++
		c.seeFn(funcName(fn))
		acq := lw.selfAcquires(bodyOf(fn), map[*ssa.Function]bool{})
		var took []string
		for k := range acq {
			if strings.HasSuffix(k, "mu") {
				took = append(took, k)
			}
		}
		sort.Strings(took)
		c.Check(len(took) == 0, rule, "IdentityCache."+m.Name()+":takes-no-entity-lock", w.FnPos(fn), "does not take the entity mutex",
			"IdentityCache."+m.Name()+" takes "+strings.Join(took, ", ")+": once this identity was evicted (its mutex is then held for good) every commit of a loaded bug it authored operations in blocks for ever in author validation, with the bug's own lock held — the acknowledged edit is never stored")
	}
	c.Hold(rule, "IdentityCache:interface-methods", "cache/identity_cache.go", fmt.Sprintf("%d methods of identity.Interface examined", n))
}

// R19.12: both polite termination signals run the cleaners.
func checkSignalsCaught(c *Ctx, rule string) {
	w := c.W
	c.Doc(rule, "every signal.Notify of the module (the interrupt cleaner, the web UI teardown) subscribes to SIGINT (or os.Interrupt) and to SIGTERM — a process stopped with kill / timeout / systemd releases the repository lock like one stopped with Ctrl-C")
	n := 0
	for _, f := range w.ModFns {
		if isInstance(f) || w.isTestHelper(f) {
			continue
		}
		for _, cl := range CallsNamed(f, "os/signal.Notify") {
			n++
			c.Sites++
			c.seeFn(funcName(f))
			args := cl.Args()
			hasInt, hasTerm := false, false
			var names []string
			if len(args) >= 2 {
				for _, e := range sliceElementValues(args[1]) {
					v := e
					if mi, ok := v.(*ssa.MakeInterface); ok {
						v = mi.X
					}
					if k, ok := constInt(v); ok {
						names = append(names, fmt.Sprintf("signal %d", k))
						if k == 2 {
							hasInt = true
						}
						if k == 15 {
							hasTerm = true
						}
					}
					for _, o := range origins(e) {
						if o.Kind == "global" {
							names = append(names, o.Name)
							if strings.HasSuffix(o.Name, "Interrupt") {
								hasInt = true
							}
						}
					}
				}
			}
			c.Check(hasInt && hasTerm, rule, funcName(f)+":sigint-and-sigterm", w.InstrPos(cl.Instr), "subscribes to SIGINT and SIGTERM",
				"the handler subscribes to ["+strings.Join(names, ", ")+"], which lacks "+map[bool]string{true: "SIGTERM", false: "SIGINT"}[hasInt]+": a process stopped that way dies at once, its cleaners do not run and the repository stays locked with its pid")
		}
	}
	if n < 2 {
		c.Violate(rule, "expected:signal.Notify", "module", fmt.Sprintf("%d signal subscriptions (reference 2)", n))
	}
}

// R19.13: the web UI stops serving before it gives the lock back.
func checkServerStoppedBeforeLockReleased(c *Ctx, rule string) {
	w := c.W
	c.Doc(rule, "commands.runWebUI teardown: the call that closes the caches (and removes the lock file) is dominated by the return of http.Server.Shutdown — while requests are still being drained the process holds the lock")
	fn := w.Func("commands", "runWebUI")
	if fn == nil {
		c.Undecided(rule, "anchor:commands.runWebUI", "commands", "not found")
		return
	}
	n := 0
	var scope []*ssa.Function
	seenF := map[*ssa.Function]bool{}
	for _, f := range append([]*ssa.Function{fn}, fn.AnonFuncs...) {
		for _, h := range fnAndHelpers(f, 2) {
			if !seenF[h] {
				seenF[h] = true
				scope = append(scope, h)
			}
		}
	}
	for _, f := range scope {
		var shut *Call
		for _, cl := range Calls(f) {
			if strings.HasSuffix(cl.Name, "net/http.Server.Shutdown") {
				shut = cl
			}
		}
		if shut == nil {
			continue
		}
		c.seeFn(funcName(f))
		for _, cl := range Calls(f) {
			if !strings.HasSuffix(cl.Name, ".Close") || strings.HasPrefix(cl.Name, "net/http.") {
				continue
			}
			if _, isDefer := cl.Instr.(*ssa.Defer); isDefer {
				continue
			}
			n++
			c.Sites++
			c.Check(instrDominates(shut.Instr, cl.Instr), rule, "runWebUI:server-stopped-before-the-lock-is-released", w.InstrPos(cl.Instr), "Close comes after Shutdown returned",
				"the caches are closed (and the lock file removed) before the server was shut down: for up to the whole drain time the web UI is alive and serving without a lock, and a second process opens the repository beside it")
		}
	}
	if n == 0 {
		c.Violate(rule, "runWebUI:expected:teardown", w.FnPos(fn), "no Shutdown-then-Close teardown found")
	}
}

// R20.10: the pagination arguments reach the connection input under their own names.
func checkConnectionInputWiring(c *Ctx, rule string) {
	w := c.W
	c.Doc(rule, "api/graphql/resolvers: the after/before/first/last arguments of a resolver method (named by position after the generated graph.*Resolver interface) are stored into the ConnectionInput fields of the same name, also when they travel through a helper: at every call inside the package an argument that is one of these parameters is bound to a callee parameter of the same name")
	want := map[string]string{"After": "after", "Before": "before", "First": "first", "Last": "last"}
	isPage := func(n string) bool { return n == "after" || n == "before" || n == "first" || n == "last" }
	gp := w.Pkg("api/graphql/graph")
	canon := map[*ssa.Parameter]string{}
	// canonical names from the generated interfaces
	if gp != nil {
		for _, rm := range w.resolverMethods() {
			if rm.Fn == nil {
				continue
			}
			tn, ok := gp.Types.Scope().Lookup(rm.Iface).(*types.TypeName)
			if !ok {
				continue
			}
			it, ok := tn.Type().Underlying().(*types.Interface)
			if !ok {
				continue
			}
			for i := 0; i < it.NumMethods(); i++ {
				if it.Method(i).Name() != rm.Method {
					continue
				}
				sig := it.Method(i).Type().(*types.Signature)
				off := len(rm.Fn.Params) - sig.Params().Len()
				for k := 0; k < sig.Params().Len() && off >= 0; k++ {
					if isPage(sig.Params().At(k).Name()) {
						canon[rm.Fn.Params[k+off]] = sig.Params().At(k).Name()
					}
				}
			}
		}
	}
	nameOf := func(v ssa.Value) string {
		p, ok := stripConv(v).(*ssa.Parameter)
		if !ok {
			return ""
		}
		if n, ok := canon[p]; ok {
			return n
		}
		if isPage(p.Name()) {
			return p.Name()
		}
		return ""
	}
	nStores, nCalls := 0, 0
	for _, f := range w.ModFns {
		if isInstance(f) || w.isTestHelper(f) || fnPkgPath(f) != modPath+"/api/graphql/resolvers" {
			continue
		}
		for _, b := range f.Blocks {
			for _, ins := range b.Instrs {
				switch x := ins.(type) {
				case *ssa.Store:
					fa, ok := x.Addr.(*ssa.FieldAddr)
					if !ok {
						continue
					}
					bt := fa.X.Type()
					if p, isP := bt.Underlying().(*types.Pointer); isP {
						bt = p.Elem()
					}
					if !strings.HasSuffix(typeShortName(bt), "models.ConnectionInput") {
						continue
					}
					wn, isW := want[fieldName(fa)]
					if !isW {
						continue
					}
					nStores++
					c.Sites++
					c.seeFn(funcName(f))
					got := nameOf(x.Val)
					if got == "" {
						// not a bare parameter (a constant, a computed value): nothing to compare
						continue
					}
					c.Check(got == wn, rule, funcName(f)+":ConnectionInput."+fieldName(fa), w.InstrPos(x), fieldName(fa)+" ← "+got,
						"ConnectionInput."+fieldName(fa)+" is filled from the '"+got+"' argument: every request that carries a cursor (or a page size) gets the window on the wrong side — the first page looks right, the second repeats or skips elements and the walk never reaches the rest")
				case ssa.CallInstruction:
					callee := x.Common().StaticCallee()
					if callee == nil || fnPkgPath(callee) != fnPkgPath(f) || len(callee.Params) != len(x.Common().Args) {
						continue
					}
					for i, a := range x.Common().Args {
						an := nameOf(a)
						if an == "" {
							continue
						}
						pn := callee.Params[i].Name()
						if !isPage(pn) {
							continue
						}
						nCalls++
						c.Sites++
						c.Check(an == pn, rule, fmt.Sprintf("%s→%s:%s", funcName(f), callee.Name(), pn), w.InstrPos(x), pn+" ← "+an,
							"the '"+an+"' argument of the resolver is passed as the helper's '"+pn+"': the cursors (or page sizes) are swapped for every request that carries one")
					}
				}
			}
		}
	}
	if nStores < 8 {
		c.Violate(rule, "expected:ConnectionInput-stores", "api/graphql/resolvers", fmt.Sprintf("%d stores into ConnectionInput fields (reference >= 8)", nStores))
	}
	c.Info(rule, "wiring-sites", "api/graphql/resolvers", fmt.Sprintf("%d field stores, %d helper arguments", nStores, nCalls))
}

// R16.17: a test for an error type tests a type errors are made of.
func checkErrorAssertionsLive(c *Ctx, rule string) {
	w := c.W
	c.Doc(rule, "module-wide: every type assertion of an error value to a concrete type declared in the module names a type that some function of the module converts to an interface (T where the module makes &T-errors, or *T where it makes T-errors, can never match) — a dead assertion silently disables the branch that handles that error, e.g. the importer's refusal to go on when an identity look-up reports several matches")
	made := map[string]bool{}
	for _, f := range w.ModFns {
		if w.isTestHelper(f) {
			continue
		}
		for _, b := range f.Blocks {
			for _, ins := range b.Instrs {
				if mi, ok := ins.(*ssa.MakeInterface); ok {
					made[types.TypeString(mi.X.Type(), nil)] = true
				}
			}
		}
	}
	errT := types.Universe.Lookup("error").Type().Underlying().(*types.Interface)
	n := 0
	for _, f := range w.ModFns {
		if isInstance(f) || w.isTestHelper(f) {
			continue
		}
		for _, b := range f.Blocks {
			for _, ins := range b.Instrs {
				ta, ok := ins.(*ssa.TypeAssert)
				if !ok {
					continue
				}
				xi, isI := ta.X.Type().Underlying().(*types.Interface)
				if !isI || !types.Identical(xi, errT) {
					continue
				}
				at := ta.AssertedType
				if _, isIface := at.Underlying().(*types.Interface); isIface {
					continue
				}
				base := at
				if p, isP := base.(*types.Pointer); isP {
					base = p.Elem()
				}
				nt, isN := base.(*types.Named)
				if !isN || nt.Obj().Pkg() == nil || !strings.HasPrefix(nt.Obj().Pkg().Path(), modPath) {
					continue
				}
				n++
				c.Sites++
				c.seeFn(funcName(f))
				ts := types.TypeString(at, nil)
				c.Check(made[ts], rule, funcName(f)+":"+typeShortName(at), w.InstrPos(ta), "errors of this dynamic type are made in the module",
					"the error is tested for the dynamic type "+typeShortName(at)+", which no function of the module ever makes an error of (the module makes "+map[bool]string{true: "pointers to it", false: "values of another form"}[made["*"+ts]]+"): the test never succeeds and the branch handling that error is dead")
			}
		}
	}
	if n < 3 {
		c.Violate(rule, "expected:error-type-assertions", "module", fmt.Sprintf("%d assertions of errors to module types (reference >= 3)", n))
	}
}

// R11.13: the excerpt table loses an entry only when the entity is removed.
func checkExcerptsDeletedOnlyByRemoval(c *Ctx, rule string) {
	w := c.W
	c.Doc(rule, "package cache: every delete on a SubCache's excerpts table sits in SubCache.Remove / RemoveAll or in a helper whose every caller (transitively, static calls within the package) is one of those — eviction, merging, notifications and queries never shrink the population that prefix resolution, comment resolution and queries scan; an entity that exists in git stays addressable")
	callers := map[*ssa.Function][]*ssa.Function{}
	var holders []*ssa.Function
	for _, f := range w.ModFns {
		if w.isTestHelper(f) || fnPkgPath(f) != modPath+"/cache" {
			continue
		}
		fb := bodyOf(f)
		if fb != f {
			continue
		}
		has := false
		for _, b := range f.Blocks {
			for _, ins := range b.Instrs {
				if deleteOf("excerpts")(ins) {
					has = true
				}
				if ci, ok := ins.(ssa.CallInstruction); ok {
					if cal := ci.Common().StaticCallee(); cal != nil {
						if cb := bodyOf(cal); cb != nil && fnPkgPath(cb) == modPath+"/cache" {
							callers[cb] = append(callers[cb], f)
						}
					}
				}
			}
		}
		if has {
			holders = append(holders, f)
		}
	}
	var allowed func(f *ssa.Function, seen map[*ssa.Function]bool) (bool, string)
	allowed = func(f *ssa.Function, seen map[*ssa.Function]bool) (bool, string) {
		root := f
		for root.Parent() != nil {
			root = root.Parent()
		}
		if n := funcName(root); strings.HasSuffix(n, "SubCache.Remove") || strings.HasSuffix(n, "SubCache.RemoveAll") {
			return true, ""
		}
		if seen[f] {
			return true, ""
		}
		seen[f] = true
		cs := callers[f]
		if root != f {
			cs = append(cs, callers[root]...)
		}
		if len(cs) == 0 {
			return false, funcName(root)
		}
		for _, cf := range cs {
			if ok, via := allowed(cf, seen); !ok {
				return false, via
			}
		}
		return true, ""
	}
	n := 0
	for _, f := range holders {
		n++
		c.Sites++
		c.seeFn(funcName(f))
		ok, via := allowed(f, map[*ssa.Function]bool{})
		c.Check(ok, rule, funcName(f)+":excerpts-shrink-only-on-removal", w.FnPos(f), "reached from Remove / RemoveAll only",
			"an excerpt is deleted on a path that starts in "+via+", which does not remove the entity: the entity still exists in git but no prefix of its id resolves any more, its comments cannot be addressed, queries no longer list it — and the truncated table is written to the cache file")
	}
	if n == 0 {
		c.Violate(rule, "expected:excerpt-deletions", "cache", "no deletion from an excerpts table found (reference: Remove, RemoveAll)")
	}
}
