package main

// A-STR: evaluate a string-typed SSA value to a set of templates: literal text with typed holes.

import (
	"go/token"
	"strings"

	"golang.org/x/tools/go/ssa"
)

type tmplPart struct {
	Lit  string
	Hole string // "" for literals; otherwise a description of the hole's origin
}

type Template []tmplPart

func (t Template) String() string {
	var b strings.Builder
	for _, p := range t {
		if p.Hole != "" {
			b.WriteString("‹" + p.Hole + "›")
		} else {
			b.WriteString(p.Lit)
		}
	}
	return b.String()
}

// Shape: literals kept, holes replaced by a marker
func (t Template) Shape() string {
	var b strings.Builder
	for _, p := range t {
		if p.Hole != "" {
			b.WriteString("‹›")
		} else {
			b.WriteString(p.Lit)
		}
	}
	return b.String()
}

func (t Template) Holes() []string {
	var out []string
	for _, p := range t {
		if p.Hole != "" {
			out = append(out, p.Hole)
		}
	}
	return out
}

func lit(s string) Template  { return Template{{Lit: s}} }
func hole(s string) Template { return Template{{Hole: s}} }

func concatT(a, b Template) Template {
	out := append(Template{}, a...)
	for _, p := range b {
		if p.Hole == "" && len(out) > 0 && out[len(out)-1].Hole == "" {
			out[len(out)-1].Lit += p.Lit
		} else {
			out = append(out, p)
		}
	}
	return out
}

func cross(as, bs []Template) []Template {
	var out []Template
	for _, a := range as {
		for _, b := range bs {
			out = append(out, concatT(a, b))
		}
	}
	if len(out) > 16 {
		out = out[:16]
	}
	return out
}

// holeName describes a non-string-composed value by its origin.
func holeName(v ssa.Value) string {
	v = stripConv(v)
	switch x := v.(type) {
	case *ssa.Parameter:
		return "param:" + x.Name()
	case *ssa.FreeVar:
		return "var:" + x.Name()
	case *ssa.Call:
		n, _ := callName(x.Common())
		// Id.String(): the id
		if strings.HasSuffix(n, ".String") && len(x.Common().Args) == 1 {
			return holeName(x.Common().Args[0])
		}
		if strings.HasSuffix(n, ".Id") {
			return "id"
		}
		return "call:" + n
	case *ssa.Extract:
		if c, ok := x.Tuple.(*ssa.Call); ok {
			n, _ := callName(c.Common())
			return "call:" + n
		}
		if nx, ok := x.Tuple.(*ssa.Next); ok {
			if r, ok := nx.Iter.(*ssa.Range); ok {
				if x.Index == 1 {
					return "key-of:" + holeName(r.X)
				}
				return "value-of:" + holeName(r.X)
			}
		}
	case *ssa.UnOp:
		if x.Op == token.MUL {
			if fa, ok := x.X.(*ssa.FieldAddr); ok {
				return "field:" + fieldName(fa)
			}
			if g, ok := x.X.(*ssa.Global); ok {
				return "global:" + g.Name()
			}
			if ia, ok := x.X.(*ssa.IndexAddr); ok {
				return "elem-of:" + holeName(ia.X)
			}
			if al, ok := x.X.(*ssa.Alloc); ok {
				for _, r := range *al.Referrers() {
					if st, ok := r.(*ssa.Store); ok && st.Addr == al {
						return holeName(st.Val)
					}
				}
			}
		}
	case *ssa.Field:
		return "field:" + fieldName(x)
	case *ssa.Phi:
		if x.Comment != "" {
			return "var:" + x.Comment
		}
	}
	return "?" + v.Name()
}

// templates evaluates v; depth-limited.
func templates(v ssa.Value, depth int) []Template {
	if depth > 8 {
		return []Template{hole("⊤")}
	}
	switch x := v.(type) {
	case *ssa.Const:
		if s, ok := constString(x); ok {
			return []Template{lit(s)}
		}
	case *ssa.BinOp:
		if x.Op == token.ADD {
			return cross(templates(x.X, depth+1), templates(x.Y, depth+1))
		}
	case *ssa.Convert:
		return templates(x.X, depth+1)
	case *ssa.ChangeType:
		return templates(x.X, depth+1)
	case *ssa.MakeInterface:
		return templates(x.X, depth+1)
	case *ssa.Phi:
		var out []Template
		for _, e := range x.Edges {
			if e == v {
				continue
			}
			out = append(out, templates(e, depth+1)...)
		}
		return dedupT(out)
	case *ssa.Call:
		n, _ := callName(x.Common())
		if n == "fmt.Sprintf" {
			args := x.Common().Args
			if len(args) < 1 {
				return []Template{hole("⊤")}
			}
			var ops []ssa.Value
			if len(args) > 1 {
				ops = variadicOperands(args[1])
			}
			// the format itself may be composed (constant pattern + something)
			var out []Template
			for _, ft := range templates(args[0], depth+1) {
				res := []Template{{}}
				oi := 0
				bad := false
				for _, part := range ft {
					if part.Hole != "" {
						res = cross(res, []Template{hole(part.Hole)})
						continue
					}
					f := part.Lit
					i := 0
					for i < len(f) && !bad {
						j := strings.IndexByte(f[i:], '%')
						if j < 0 {
							res = cross(res, []Template{lit(f[i:])})
							break
						}
						res = cross(res, []Template{lit(f[i : i+j])})
						i += j
						if i+1 >= len(f) {
							bad = true
							break
						}
						verb := f[i+1]
						i += 2
						switch verb {
						case '%':
							res = cross(res, []Template{lit("%")})
						case 's', 'v', 'd', 'q':
							if oi >= len(ops) || ops[oi] == nil {
								bad = true
								break
							}
							res = cross(res, templates(ops[oi], depth+1))
							oi++
						default:
							bad = true
						}
					}
				}
				if bad {
					return []Template{hole("⊤")}
				}
				out = append(out, res...)
			}
			return dedupT(out)
		}
		if strings.HasSuffix(n, ".String") && len(x.Common().Args) == 1 && !x.Common().IsInvoke() {
			return []Template{hole(holeName(x.Common().Args[0]))}
		}
		if n == "path.Join" || n == "path/filepath.Join" {
			parts := variadicOperands(x.Common().Args[0])
			res := []Template{{}}
			for i, p := range parts {
				if i > 0 {
					res = cross(res, []Template{lit("/")})
				}
				res = cross(res, templates(p, depth+1))
			}
			return res
		}
	case *ssa.UnOp:
		if x.Op == token.MUL {
			// element of a local slice built by append: union of the appended values
			if ia, ok := x.X.(*ssa.IndexAddr); ok {
				vals := appendedValues(ia.X)
				if len(vals) > 0 {
					var out []Template
					for _, a := range vals {
						out = append(out, templates(a, depth+1)...)
					}
					return dedupT(out)
				}
			}
			if al, ok := x.X.(*ssa.Alloc); ok {
				var out []Template
				for _, r := range *al.Referrers() {
					if st, ok := r.(*ssa.Store); ok && st.Addr == al {
						out = append(out, templates(st.Val, depth+1)...)
					}
				}
				if len(out) > 0 {
					return dedupT(out)
				}
			}
		}
	}
	return []Template{hole(holeName(v))}
}

func dedupT(ts []Template) []Template {
	seen := map[string]bool{}
	var out []Template
	for _, t := range ts {
		k := t.String()
		if !seen[k] {
			seen[k] = true
			out = append(out, t)
		}
	}
	return out
}

func templatesOf(v ssa.Value) []Template { return dedupT(templates(v, 0)) }
