package main

// A small evaluator of SSA functions over a finite domain, used to extract transition tables
// of code that touches its inputs only through comparisons (the lexer's rune classifier).
// It is a case analysis over abstract inputs, not an execution of git-bug: runes are
// abstracted to classes, captured variables to cells, function-typed inputs to oracles.
// Anything outside the supported instruction set makes the result "undecided".

import (
	"fmt"
	"go/constant"
	"go/token"
	"go/types"
	"sort"

	"golang.org/x/tools/go/ssa"
)

type fkind int

const (
	fInt fkind = iota
	fBool
	fFunc
	fStr   // a string given as its runes (concrete mode only)
	fIter  // iterator of a range over a string
	fTuple // result of next
	fErr   // an error value: b tells whether it is non-nil
)

type fval struct {
	k  fkind
	i  int64
	b  bool
	fn func(args []fval) (fval, error)
	rs []rune
	it *fiter
	tu []fval
}

type fiter struct {
	rs  []rune
	pos int
}

func (v fval) String() string {
	switch v.k {
	case fInt:
		return fmt.Sprint(v.i)
	case fBool:
		return fmt.Sprint(v.b)
	}
	return "func"
}

type fenv struct {
	cells    map[int]*fval // captured variables by FreeVar index
	steps    int
	concrete bool                                       // integers are concrete values: ordering comparisons are meaningful
	extern   map[string]func(args []fval) (fval, error) // pure library functions evaluated natively, by full name
}

func constVal(c *ssa.Const) (fval, error) {
	if c.Value == nil {
		if isErrorType(c.Type()) {
			return fval{k: fErr, b: false}, nil
		}
		return fval{}, fmt.Errorf("nil constant")
	}
	switch c.Value.Kind() {
	case constant.Bool:
		return fval{k: fBool, b: constant.BoolVal(c.Value)}, nil
	case constant.Int:
		if n, ok := constant.Int64Val(c.Value); ok {
			return fval{k: fInt, i: n}, nil
		}
	}
	return fval{}, fmt.Errorf("unsupported constant %s", c)
}

// run evaluates fn on args; it returns the results of the Return reached.
func (e *fenv) run(fn *ssa.Function, args []fval, depth int) ([]fval, error) {
	if depth > 4 {
		return nil, fmt.Errorf("call depth")
	}
	if len(fn.Blocks) == 0 {
		return nil, fmt.Errorf("no body: %s", fn)
	}
	regs := map[ssa.Value]fval{}
	for i, p := range fn.Params {
		if i < len(args) {
			regs[p] = args[i]
		}
	}
	get := func(v ssa.Value) (fval, error) {
		if c, ok := v.(*ssa.Const); ok {
			return constVal(c)
		}
		if r, ok := regs[v]; ok {
			return r, nil
		}
		return fval{}, fmt.Errorf("value %s (%T) not evaluable", v.Name(), v)
	}
	cellOf := func(addr ssa.Value) (*fval, error) {
		fv, ok := addr.(*ssa.FreeVar)
		if !ok {
			return nil, fmt.Errorf("memory access through %s (%T)", addr.Name(), addr)
		}
		for i, f := range fn.FreeVars {
			if f == fv {
				if c := e.cells[i]; c != nil {
					return c, nil
				}
			}
		}
		return nil, fmt.Errorf("captured variable %s has no initial value", fv.Name())
	}
	var prev *ssa.BasicBlock
	b := fn.Blocks[0]
	for {
		for _, ins := range b.Instrs {
			e.steps++
			if e.steps > 20000 {
				return nil, fmt.Errorf("step bound")
			}
			switch x := ins.(type) {
			case *ssa.Phi:
				for i, p := range b.Preds {
					if p == prev {
						v, err := get(x.Edges[i])
						if err != nil {
							return nil, err
						}
						regs[x] = v
					}
				}
			case *ssa.UnOp:
				switch x.Op {
				case token.MUL:
					if pr, isP := x.X.(*ssa.Parameter); isP {
						// a pointer parameter standing for the value it points to (read-only use)
						if v, has := regs[pr]; has && v.k == fStr {
							regs[x] = v
							continue
						}
					}
					c, err := cellOf(x.X)
					if err != nil {
						return nil, err
					}
					regs[x] = *c
				case token.NOT:
					v, err := get(x.X)
					if err != nil {
						return nil, err
					}
					regs[x] = fval{k: fBool, b: !v.b}
				case token.SUB:
					v, err := get(x.X)
					if err != nil {
						return nil, err
					}
					regs[x] = fval{k: fInt, i: -v.i}
				default:
					return nil, fmt.Errorf("unsupported unary %s", x.Op)
				}
			case *ssa.BinOp:
				l, err := get(x.X)
				if err != nil {
					return nil, err
				}
				r, err := get(x.Y)
				if err != nil {
					return nil, err
				}
				if l.k == fBool && r.k == fBool {
					switch x.Op {
					case token.EQL:
						regs[x] = fval{k: fBool, b: l.b == r.b}
					case token.NEQ:
						regs[x] = fval{k: fBool, b: l.b != r.b}
					default:
						return nil, fmt.Errorf("unsupported bool op %s", x.Op)
					}
					continue
				}
				if l.k == fErr && r.k == fErr {
					if l.b && r.b {
						return nil, fmt.Errorf("comparison of two non-nil errors")
					}
					eq := l.b == r.b
					switch x.Op {
					case token.EQL:
						regs[x] = fval{k: fBool, b: eq}
					case token.NEQ:
						regs[x] = fval{k: fBool, b: !eq}
					default:
						return nil, fmt.Errorf("unsupported error op %s", x.Op)
					}
					continue
				}
				if l.k != fInt || r.k != fInt {
					return nil, fmt.Errorf("unsupported operands of %s", x.Op)
				}
				switch x.Op {
				case token.EQL:
					regs[x] = fval{k: fBool, b: l.i == r.i}
				case token.NEQ:
					regs[x] = fval{k: fBool, b: l.i != r.i}
				case token.LSS, token.LEQ, token.GTR, token.GEQ:
					if !e.concrete {
						// abstract runes carry no order
						return nil, fmt.Errorf("ordering comparison %s on an abstract value", x.Op)
					}
					var t bool
					switch x.Op {
					case token.LSS:
						t = l.i < r.i
					case token.LEQ:
						t = l.i <= r.i
					case token.GTR:
						t = l.i > r.i
					default:
						t = l.i >= r.i
					}
					regs[x] = fval{k: fBool, b: t}
				case token.ADD:
					regs[x] = fval{k: fInt, i: l.i + r.i}
				case token.SUB:
					regs[x] = fval{k: fInt, i: l.i - r.i}
				default:
					return nil, fmt.Errorf("unsupported int op %s", x.Op)
				}
			case *ssa.Store:
				c, err := cellOf(x.Addr)
				if err != nil {
					return nil, err
				}
				v, err := get(x.Val)
				if err != nil {
					return nil, err
				}
				*c = v
			case *ssa.Call:
				var av []fval
				lenient := false
				if callee := x.Common().StaticCallee(); callee != nil {
					_, lenient = e.extern[callee.String()]
				}
				for _, a := range x.Common().Args {
					v, err := get(a)
					if err != nil {
						if !lenient {
							return nil, err
						}
						// an argument the native stand-in does not look at (a format string, an empty variadic list)
						if k, isK := a.(*ssa.Const); isK && k.Value != nil && k.Value.Kind() == constant.String {
							v = fval{k: fStr, rs: []rune(constant.StringVal(k.Value))}
						} else {
							v = fval{}
						}
					}
					av = append(av, v)
				}
				if callee := x.Common().StaticCallee(); callee != nil {
					if ext, isExt := e.extern[callee.String()]; isExt {
						r, err := ext(av)
						if err != nil {
							return nil, err
						}
						regs[x] = r
						continue
					}
					if len(callee.FreeVars) > 0 || callee.Pkg == nil || callee.Pkg != fn.Pkg {
						return nil, fmt.Errorf("call of %s not evaluable", callee)
					}
					rs, err := e.run(callee, av, depth+1)
					if err != nil {
						return nil, err
					}
					if len(rs) == 1 {
						regs[x] = rs[0]
					}
					continue
				}
				if bi, isB := x.Common().Value.(*ssa.Builtin); isB {
					if bi.Name() == "len" && len(av) == 1 && av[0].k == fStr {
						// length in bytes of the UTF-8 encoding
						regs[x] = fval{k: fInt, i: int64(len(string(av[0].rs)))}
						continue
					}
					return nil, fmt.Errorf("builtin %s not evaluable", bi.Name())
				}
				fv, err := get(x.Common().Value)
				if err != nil {
					return nil, err
				}
				if fv.k != fFunc || x.Common().IsInvoke() {
					return nil, fmt.Errorf("dynamic call not evaluable")
				}
				r, err := fv.fn(av)
				if err != nil {
					return nil, err
				}
				regs[x] = r
			case *ssa.Convert:
				v, err := get(x.X)
				if err != nil {
					return nil, err
				}
				if v.k == fStr {
					regs[x] = v
					continue
				}
				if _, isBasic := x.Type().Underlying().(*types.Basic); !isBasic || v.k != fInt {
					return nil, fmt.Errorf("unsupported conversion")
				}
				regs[x] = v
			case *ssa.ChangeType:
				v, err := get(x.X)
				if err != nil {
					return nil, err
				}
				regs[x] = v
			case *ssa.If:
				v, err := get(x.Cond)
				if err != nil {
					return nil, err
				}
				prev = b
				if v.b {
					b = b.Succs[0]
				} else {
					b = b.Succs[1]
				}
			case *ssa.Jump:
				prev = b
				b = b.Succs[0]
			case *ssa.Return:
				var out []fval
				for _, r := range x.Results {
					v, err := get(r)
					if err != nil {
						return nil, err
					}
					out = append(out, v)
				}
				return out, nil
			case *ssa.Range:
				v, err := get(x.X)
				if err != nil {
					return nil, err
				}
				if v.k != fStr {
					return nil, fmt.Errorf("range over a non-string")
				}
				regs[x] = fval{k: fIter, it: &fiter{rs: v.rs}}
			case *ssa.Next:
				v, err := get(x.Iter)
				if err != nil {
					return nil, err
				}
				if v.k != fIter || !x.IsString {
					return nil, fmt.Errorf("next on a non-string iterator")
				}
				if v.it.pos >= len(v.it.rs) {
					regs[x] = fval{k: fTuple, tu: []fval{{k: fBool, b: false}, {k: fInt}, {k: fInt}}}
				} else {
					regs[x] = fval{k: fTuple, tu: []fval{{k: fBool, b: true}, {k: fInt, i: int64(v.it.pos)}, {k: fInt, i: int64(v.it.rs[v.it.pos])}}}
					v.it.pos++
				}
			case *ssa.Extract:
				v, err := get(x.Tuple)
				if err != nil {
					return nil, err
				}
				if v.k != fTuple || x.Index >= len(v.tu) {
					return nil, fmt.Errorf("extract from a non-tuple")
				}
				regs[x] = v.tu[x.Index]
			case *ssa.DebugRef:
			default:
				return nil, fmt.Errorf("unsupported instruction %T at %s", ins, fn.Prog.Fset.Position(ins.Pos()))
			}
		}
		if len(b.Instrs) == 0 {
			return nil, fmt.Errorf("empty block")
		}
	}
}

// comparedConsts: the integer constants fn (and the same-package functions it calls
// statically) compares values with; together with one fresh value they are a complete set
// of representatives for an argument that is touched through ==/!= only.
func comparedConsts(fn *ssa.Function, depth int) []int64 {
	seen := map[int64]bool{}
	var walk func(f *ssa.Function, d int)
	walk = func(f *ssa.Function, d int) {
		if d > 3 {
			return
		}
		for _, b := range f.Blocks {
			for _, ins := range b.Instrs {
				switch x := ins.(type) {
				case *ssa.BinOp:
					for _, o := range []ssa.Value{x.X, x.Y} {
						if c, ok := o.(*ssa.Const); ok && c.Value != nil && c.Value.Kind() == constant.Int {
							if n, exact := constant.Int64Val(c.Value); exact {
								seen[n] = true
							}
						}
					}
				case *ssa.Call:
					if callee := x.Common().StaticCallee(); callee != nil && callee.Pkg == f.Pkg && len(callee.Blocks) > 0 {
						walk(callee, d+1)
					}
				}
			}
		}
	}
	walk(fn, depth)
	var out []int64
	for n := range seen {
		out = append(out, n)
	}
	sort.Slice(out, func(i, j int) bool { return out[i] < out[j] })
	return out
}
