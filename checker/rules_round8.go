package main

// Rules added after seeding round 8 (m21): R13.9, R14.12, R16.20.

import (
	"go/types"
	"strings"

	"golang.org/x/tools/go/ssa"
)

// condDependsOn walks the operand tree of v (bounded) and reports the first value accepted by pred.
func condDependsOn(v ssa.Value, pred func(ssa.Value) bool, depth int, seen map[ssa.Value]bool) ssa.Value {
	if v == nil || depth > 8 || seen[v] {
		return nil
	}
	seen[v] = true
	if pred(v) {
		return v
	}
	ins, ok := v.(ssa.Instruction)
	if !ok {
		return nil
	}
	for _, op := range ins.Operands(nil) {
		if op == nil || *op == nil {
			continue
		}
		if r := condDependsOn(*op, pred, depth+1, seen); r != nil {
			return r
		}
	}
	return nil
}

// R14.12: the enumeration behind RemoveAll names every ref.
func checkRefsToIdsTotal(c *Ctx, rule string) {
	w := c.W
	c.Doc(rule, "entity.RefsToIds (the enumeration behind ListLocalIds, hence behind RemoveAll and wipe): no branch of the function depends on the result of a call — every ref handed in yields a name, whatever the name looks like, so that a removal of everything meets every ref of the namespace")
	fn := w.Func("entity", "RefsToIds")
	if fn == nil || len(fn.Blocks) == 0 {
		c.Undecided(rule, "anchor:entity.RefsToIds", "entity", "not found")
		return
	}
	c.seeFn(funcName(fn))
	bad := ""
	for _, b := range fn.Blocks {
		iff, ok := b.Instrs[len(b.Instrs)-1].(*ssa.If)
		if !ok {
			continue
		}
		hit := condDependsOn(iff.Cond, func(v ssa.Value) bool {
			cv, ok := v.(*ssa.Call)
			if !ok {
				return false
			}
			if _, isB := cv.Common().Value.(*ssa.Builtin); isB {
				return false
			}
			return true
		}, 0, map[ssa.Value]bool{})
		if hit != nil {
			n, _ := callName(hit.(*ssa.Call).Common())
			bad = "branch on the result of " + n + " at " + w.Pos(iff.Cond.Pos())
			break
		}
	}
	c.Sites++
	c.Check(bad == "", rule, "entity.RefsToIds:every-ref-is-named", w.FnPos(fn), "no branch depends on a call result: one name per ref",
		"RefsToIds filters the refs it is given ("+bad+"): a ref of the namespace whose name fails the filter is never enumerated, so RemoveAll / wipe report success and leave it behind")
}

// R13.9: a candidate bug that cannot be loaded stops the comment look-up.
func checkResolveCommentLoadError(c *Ctx, rule string) {
	w := c.W
	c.Doc(rule, "RepoCacheBug.ResolveComment: the error of loading a candidate bug (Resolve) is tested and its non-nil edge leads to an error return — the unique / ambiguous / none verdict is never taken over the loadable candidates only")
	fn := w.Method("cache", "RepoCacheBug", "ResolveComment")
	if fn == nil || len(fn.Blocks) == 0 {
		c.Undecided(rule, "anchor:RepoCacheBug.ResolveComment", "cache", "not found")
		return
	}
	fns := []*ssa.Function{fn}
	for _, h := range fnAndHelpers(fn, 2) {
		if h != fn && !strings.Contains(funcName(h), "SubCache") {
			fns = append(fns, h)
		}
	}
	n := 0
	for _, f := range fns {
		c.seeFn(funcName(f))
		for _, b := range f.Blocks {
			for _, ins := range b.Instrs {
				cv, ok := ins.(*ssa.Call)
				if !ok {
					continue
				}
				name, _ := callName(cv.Common())
				if !strings.HasSuffix(name, ".Resolve") || !strings.Contains(name, "SubCache") && !strings.Contains(name, "RepoCacheBug") {
					continue
				}
				n++
				c.Sites++
				c.Check(errorPropagated(cv, nil), rule, "RepoCacheBug.ResolveComment:load-error-stops-the-look-up", w.Pos(cv.Pos()), "a candidate that fails to load ends the look-up with its error",
					"the error of "+name+" does not end ResolveComment: a prefix shared by the comments of two bugs resolves silently to the comment of the one that could be loaded, and an edit lands in the wrong bug")
			}
		}
	}
	if n == 0 {
		c.Undecided(rule, "anchor:ResolveComment->Resolve", "cache", "no call loading the candidate bug found")
	}
}

// R16.20: (GitLab) whether a title / status / label event is recorded never depends on the bug's current state.
func checkGitlabEventsNotComparedWithState(c *Ctx, rule string) {
	w := c.W
	c.Doc(rule, "gitlabImporter.ensureIssueEvent: no branch depends on the Title, Status or Labels of the bug's snapshot — an event that happens to equal the current state is still recorded and tagged with its gitlab id, otherwise it is met again on every later listing and recorded once the state has moved on")
	fn := w.Method("bridge/gitlab", "gitlabImporter", "ensureIssueEvent")
	if fn == nil || len(fn.Blocks) == 0 {
		c.Undecided(rule, "anchor:gitlabImporter.ensureIssueEvent", "bridge/gitlab", "not found")
		return
	}
	isStateField := func(v ssa.Value) bool {
		var st types.Type
		var idx int
		switch x := v.(type) {
		case *ssa.FieldAddr:
			st, idx = x.X.Type(), x.Field
			if pt, ok := st.Underlying().(*types.Pointer); ok {
				st = pt.Elem()
			}
		case *ssa.Field:
			st, idx = x.X.Type(), x.Field
		default:
			return false
		}
		named, ok := st.(*types.Named)
		if !ok || named.Obj().Name() != "Snapshot" {
			return false
		}
		s, ok := named.Underlying().(*types.Struct)
		if !ok || idx >= s.NumFields() {
			return false
		}
		switch s.Field(idx).Name() {
		case "Title", "Status", "Labels":
			return true
		}
		return false
	}
	bad := ""
	for _, f := range fnAndHelpers(fn, 2) {
		c.seeFn(funcName(f))
		for _, b := range f.Blocks {
			if len(b.Instrs) == 0 {
				continue
			}
			iff, ok := b.Instrs[len(b.Instrs)-1].(*ssa.If)
			if !ok {
				continue
			}
			if hit := condDependsOn(iff.Cond, isStateField, 0, map[ssa.Value]bool{}); hit != nil && bad == "" {
				bad = "branch at " + w.Pos(iff.Cond.Pos()) + " reads " + hit.String()
			}
		}
	}
	c.Sites++
	c.Check(bad == "", rule, "gitlabImporter.ensureIssueEvent:events-not-compared-with-current-state", w.FnPos(fn), "no branch reads the snapshot's title, status or labels",
		"recording an event depends on the bug's current state ("+bad+"): the skipped event is never tagged as imported; after the state has changed again a later listing records it as the newest operation — a second import differs from a single full one")
}
