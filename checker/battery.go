package main

// Thorough tier: after the rules have decided the property on /repo's working tree, the same
// rules are run on source VARIANTS of that tree, each analysed through go/packages' Overlay
// (nothing is written to /repo, nothing is executed):
//   - the mutants of /verif/selftest/*.json for the property (one instance of a rule broken
//     each, or a behaviour-preserving rewrite marked "benign"), and
//   - the independently seeded, confirmed property-breaking changes of /verif/seeded/<id>-m<k>, and
//   - the independently produced behaviour-preserving refactorings of /verif/benign/<id>-b<k>,
//     which must NOT be reported.
// The battery measures whether the checker is still sensitive on TODAY's tree (a rule that
// stopped matching passes vacuously forever). It never decides the property: a variant that
// is no longer reported is printed as SENSITIVITY-LOSS and recorded in the evidence, the exit
// status stays that of the rules on the unchanged tree.

import (
	"encoding/json"
	"fmt"
	"os"
	"os/exec"
	"path/filepath"
	"regexp"
	"runtime"
	"sort"
	"strings"
	"sync"
)

type mutEdit struct {
	Old string `json:"old"`
	New string `json:"new"`
}
type mutFile struct {
	File  string    `json:"file"`
	Edits []mutEdit `json:"edits"`
}
type mutant struct {
	ID       string    `json:"id"`
	Property string    `json:"property"`
	File     string    `json:"file"`
	Old      string    `json:"old"`
	New      string    `json:"new"`
	Edits    []mutEdit `json:"edits"`
	Files    []mutFile `json:"files"`
	Expect   string    `json:"expect"`
	Benign   bool      `json:"benign"`
	patch    string    // seeded change: path of patch.diff
}

type variantResult struct {
	ID     string `json:"variant"`
	Kind   string `json:"kind"` // selftest | seeded
	Status string `json:"status"`
	By     string `json:"reported_by,omitempty"`
}

var hitRe = regexp.MustCompile(`(?m)^\s+(?:VIOLATED|UNDECIDED) (\S+) \[(.*?)\] at`)

func loadVariants(verif, prop string) []mutant {
	var ms []mutant
	files, _ := filepath.Glob(filepath.Join(verif, "selftest", "*.json"))
	sort.Strings(files)
	for _, f := range files {
		data, err := os.ReadFile(f)
		if err != nil {
			continue
		}
		var l []mutant
		if json.Unmarshal(data, &l) != nil {
			continue
		}
		for _, m := range l {
			if m.Property == prop {
				ms = append(ms, m)
			}
		}
	}
	dirs, _ := filepath.Glob(filepath.Join(verif, "seeded", prop+"-m*"))
	sort.Strings(dirs)
	for _, d := range dirs {
		p := filepath.Join(d, "patch.diff")
		if _, err := os.Stat(p); err == nil {
			ms = append(ms, mutant{ID: "seeded/" + filepath.Base(d), Property: prop, patch: p})
		}
	}
	// behaviour-preserving refactorings delivered by independent sub-agents: must stay silent
	bdirs, _ := filepath.Glob(filepath.Join(verif, "benign", prop+"-b*"))
	sort.Strings(bdirs)
	for _, d := range bdirs {
		p := filepath.Join(d, "patch.diff")
		if _, err := os.Stat(p); err == nil {
			ms = append(ms, mutant{ID: "benign/" + filepath.Base(d), Property: prop, patch: p, Benign: true})
		}
	}
	return ms
}

// overlayOf builds the replacement contents of a variant from /repo's current files.
func overlayOf(m mutant, repo, tmp string) (map[string]string, string) {
	ov := map[string]string{}
	if m.patch != "" {
		data, err := os.ReadFile(m.patch)
		if err != nil {
			return nil, "patch unreadable"
		}
		var paths []string
		for _, l := range strings.Split(string(data), "\n") {
			if strings.HasPrefix(l, "+++ b/") {
				paths = append(paths, strings.TrimSpace(strings.TrimPrefix(l, "+++ b/")))
			}
		}
		work := filepath.Join(tmp, "src")
		for _, p := range paths {
			os.MkdirAll(filepath.Dir(filepath.Join(work, p)), 0o755)
			if src, err := os.ReadFile(filepath.Join(repo, p)); err == nil {
				os.WriteFile(filepath.Join(work, p), src, 0o644)
			}
		}
		cmd := exec.Command("git", "apply", "--whitespace=nowarn", m.patch)
		cmd.Dir = work
		cmd.Env = append(os.Environ(), "GIT_CEILING_DIRECTORIES="+tmp)
		if out, err := cmd.CombinedOutput(); err != nil {
			return nil, "patch does not apply to today's tree: " + firstLine(string(out))
		}
		for _, p := range paths {
			if src, err := os.ReadFile(filepath.Join(work, p)); err == nil {
				ov[filepath.Join(repo, p)] = string(src)
			}
		}
		return ov, ""
	}
	files := m.Files
	if len(files) == 0 {
		ed := m.Edits
		if len(ed) == 0 {
			ed = []mutEdit{{m.Old, m.New}}
		}
		files = []mutFile{{m.File, ed}}
	}
	for _, fe := range files {
		path := filepath.Join(repo, fe.File)
		data, err := os.ReadFile(path)
		if err != nil {
			return nil, "file missing: " + fe.File
		}
		src := string(data)
		for _, e := range fe.Edits {
			if n := strings.Count(src, e.Old); n != 1 {
				return nil, fmt.Sprintf("anchor text occurs %d times in %s", n, fe.File)
			}
			src = strings.Replace(src, e.Old, e.New, 1)
		}
		ov[path] = src
	}
	return ov, ""
}

func firstLine(s string) string {
	s = strings.TrimSpace(s)
	if i := strings.IndexByte(s, '\n'); i >= 0 {
		s = s[:i]
	}
	if len(s) > 200 {
		s = s[:200]
	}
	return s
}

func runVariant(m mutant, repo, verif string) variantResult {
	r := variantResult{ID: m.ID, Kind: "selftest"}
	if m.patch != "" {
		r.Kind = "seeded"
		if m.Benign {
			r.Kind = "refactoring"
		}
	}
	tmp, err := os.MkdirTemp("", "gbvariant_")
	if err != nil {
		r.Status = "skipped: " + err.Error()
		return r
	}
	defer os.RemoveAll(tmp)
	ov, why := overlayOf(m, repo, tmp)
	if ov == nil {
		r.Status = "skipped: " + why
		return r
	}
	data, _ := json.Marshal(ov)
	ovPath := filepath.Join(tmp, "overlay.json")
	os.WriteFile(ovPath, data, 0o644)
	if kf, err := os.ReadFile(filepath.Join(verif, "known_findings.txt")); err == nil {
		os.WriteFile(filepath.Join(tmp, "known_findings.txt"), kf, 0o644)
	}
	exe, _ := os.Executable()
	cmd := exec.Command(exe, "-property", m.Property, "-tier", "quick", "-overlay", ovPath, "-verif", tmp, "-repo", repo)
	outb, _ := cmd.CombinedOutput()
	out := string(outb)
	if strings.Contains(out, "does not load/type-check") {
		r.Status = "skipped: variant does not type-check on today's tree"
		return r
	}
	hits := hitRe.FindAllStringSubmatch(out, -1)
	var names []string
	expected := false
	for _, h := range hits {
		names = append(names, h[1]+"["+h[2]+"]")
		if m.Expect != "" && (strings.HasPrefix(h[1], m.Expect) || strings.Contains(h[2], m.Expect)) {
			expected = true
		}
	}
	if len(names) > 3 {
		names = append(names[:3], fmt.Sprintf("… %d more", len(names)-3))
	}
	r.By = strings.Join(names, "; ")
	switch {
	case m.Benign && len(hits) == 0:
		r.Status = "silent (behaviour-preserving variant)"
	case m.Benign:
		r.Status = "false-alarm (behaviour-preserving variant reported)"
	case len(hits) == 0:
		r.Status = "missed"
	case expected || m.Expect == "":
		r.Status = "reported"
	default:
		r.Status = "reported (by another rule than the one the variant targets)"
	}
	return r
}

// runBattery returns the per-variant results and prints a summary.
func runBattery(prop, repo, verif string) map[string]any {
	ms := loadVariants(verif, prop)
	res := make([]variantResult, len(ms))
	par := runtime.NumCPU() / 2
	if par > 8 {
		par = 8
	}
	if par < 1 {
		par = 1
	}
	sem := make(chan struct{}, par)
	var wg sync.WaitGroup
	for i := range ms {
		wg.Add(1)
		go func(i int) {
			defer wg.Done()
			sem <- struct{}{}
			defer func() { <-sem }()
			res[i] = runVariant(ms[i], repo, verif)
		}(i)
	}
	wg.Wait()
	counts := map[string]int{}
	var lost []string
	for _, r := range res {
		k := r.Status
		if i := strings.IndexByte(k, ':'); i >= 0 {
			k = k[:i]
		}
		if i := strings.Index(k, " ("); i >= 0 {
			k = k[:i]
		}
		counts[k]++
		if k == "missed" || k == "false-alarm" {
			lost = append(lost, r.ID)
			fmt.Printf("SENSITIVITY-LOSS property=%s variant=%s: %s (does not change the verdict on the working tree)\n", prop, r.ID, r.Status)
		}
	}
	fmt.Printf("%s thorough: %d source variants analysed through overlays: %v\n", prop, len(res), counts)
	return map[string]any{
		"what":     "the property's rules re-run on source variants of today's tree (overlay, nothing executed): checker self-test mutants and independently seeded property-breaking changes; a variant counts as reported when a rule names a violated or undecided obligation",
		"variants": len(res),
		"counts":   counts,
		"lost":     lost,
		"results":  res,
	}
}
