package main

import (
	"encoding/hex"
	"fmt"
	"go/constant"
	"go/token"
	"go/types"
	"sort"
	"strings"
	"unicode"

	"golang.org/x/tools/go/ssa"
)

// entry points through which remote or stored data is read/merged
func dataEntryPoints(w *World) []*ssa.Function {
	var out []*ssa.Function
	add := func(f *ssa.Function) {
		if f != nil {
			out = append(out, w.Instances(f)...)
		}
	}
	for _, n := range []string{"Read", "ReadWithResolver", "ReadAll", "ReadAllWithResolver", "MergeAll", "Pull", "Fetch"} {
		add(w.Func("entities/bug", n))
	}
	for _, n := range []string{"ReadLocal", "ReadRemote", "ReadAllLocal", "ReadAllRemote", "MergeAll", "Pull", "Fetch", "GetUserIdentity"} {
		add(w.Func("entities/identity", n))
	}
	for _, n := range []string{"Build", "Load", "MergeAll", "Resolve", "ResolvePrefix"} {
		add(w.Method("cache", "SubCache", n))
	}
	for _, n := range []string{"Pull", "MergeAll", "Fetch"} {
		add(w.Method("cache", "RepoCache", n))
	}
	add(w.Func("cache", "NewRepoCache"))
	add(w.Func("cache", "NewNamedRepoCache"))
	return out
}

type panicSite struct {
	Fn   *ssa.Function
	Ins  *ssa.Panic
	Path string
}

func reachablePanics(w *World, roots []*ssa.Function) ([]panicSite, int) {
	parent := w.Reach(roots, nil)
	var fns []*ssa.Function
	for f := range parent {
		fns = append(fns, f)
	}
	sort.Slice(fns, func(i, j int) bool { return fnLess(fns[i], fns[j]) })
	var out []panicSite
	for _, f := range fns {
		for _, b := range f.Blocks {
			for _, ins := range b.Instrs {
				if p, ok := ins.(*ssa.Panic); ok {
					out = append(out, panicSite{f, p, pathTo(parent, f)})
				}
			}
		}
	}
	return out, len(parent)
}

func debugPanics(w *World) {
	ps, n := reachablePanics(w, dataEntryPoints(w))
	fmt.Println("reachable module functions:", n)
	for _, p := range ps {
		fmt.Printf("%s @ %s  arg=%s\n   via %s\n", funcName(p.Fn), w.InstrPos(p.Ins), strings.TrimSpace(p.Ins.X.String()), p.Path)
	}
}

// reviewed panic sites: function → the guard obligation that makes the panic unreachable for data read from git
type panicReview struct {
	reason string
	check  func(c *Ctx) (bool, string)
}

func reviewedPanics() map[string]panicReview {
	return map[string]panicReview{
		"entity/dag.IdOperation":                 {"ids of decoded operations are set by unmarshallPack (setId on every operation); json.Marshal of an operation cannot fail", obligSetIdOnEveryOp},
		"entity/dag.OpBase.setId":                {"decoded operations are freshly allocated by the unmarshaler, so no id is set yet", obligSetIdOnEveryOp},
		"entity/dag.operationPack.Id":            {"packs read from git carry the id derived from the stored blob", obligPackIdFromBlob},
		"entities/identity.version.Id":           {"version.UnmarshalJSON derives the id from the raw bytes on its success path", obligVersionIdSet},
		"entities/identity.Identity.lastVersion": {"identity.read refuses an empty commit list, so a read identity has at least one version", obligIdentityNonEmpty},
		"entities/identity.Key.PGPEntity":        {"AddUserId is called with constant, valid arguments on a fresh entity", obligPGPEntityConst},
		"entities/bug.Comment.CombinedId":        {"every Comment is built with combinedId = entity.CombineIds(...)", obligCommentCombinedId},
		"entities/bug.Snapshot.Id":               {"every Snapshot is created by Compile with id = bug.Id(), and an operation id is never empty", obligSnapshotId},
		"entities/identity.makeNonce":            {"crypto/rand failure only", func(c *Ctx) (bool, string) { return true, "" }},
	}
}

func unconditionalInLoop(w *World, ins ssa.Instruction) string {
	hdr := enclosingLoopHeader(ins.Block())
	var stop *ssa.BasicBlock
	if hdr != nil {
		stop = hdr.Idom()
	}
	for _, cc := range controlConds(ins.Block(), stop) {
		if isLoopHeader(cc.If.Block()) {
			continue
		}
		if e := errEdge(cc.If, defaultFail); e >= 0 && e != cc.Edge {
			continue
		}
		return w.InstrPos(cc.If)
	}
	return ""
}

func obligSetIdOnEveryOp(c *Ctx) (bool, string) {
	fn := c.W.Func("entity/dag", "unmarshallPack")
	if fn == nil {
		return false, "unmarshallPack not found"
	}
	for _, cl := range Calls(fn) {
		if !strings.HasSuffix(cl.Name, ".setId") {
			continue
		}
		a := cl.Args()
		if len(a) != 1 || hasOriginCall(a[0], "entity.DeriveId", -1) == nil {
			return false, "setId is not given entity.DeriveId(raw)"
		}
		if hasOriginCall(cl.Recv(), "", -1) == nil && len(origins(cl.Recv())) == 0 {
			return false, "setId receiver unknown"
		}
		if cond := unconditionalInLoop(c.W, cl.Instr); cond != "" {
			return false, "setId is conditional on " + cond
		}
		return true, ""
	}
	return false, "unmarshallPack does not call setId on the decoded operations"
}

func obligPackIdFromBlob(c *Ctx) (bool, string) {
	fn := c.W.Func("entity/dag", "readOperationPack")
	if fn == nil {
		return false, "readOperationPack not found"
	}
	for _, b := range fn.Blocks {
		for _, ins := range b.Instrs {
			st, ok := ins.(*ssa.Store)
			if !ok {
				continue
			}
			fa, ok := st.Addr.(*ssa.FieldAddr)
			if !ok || fieldName(fa) != "id" || typeShortName(fa.X.Type()) != "entity/dag.operationPack" {
				continue
			}
			if hasOriginCall(st.Val, "entity.DeriveId", -1) != nil {
				return true, ""
			}
			return false, "the pack id is not derived from the stored blob"
		}
	}
	return false, "readOperationPack does not set the pack id"
}

func obligVersionIdSet(c *Ctx) (bool, string) {
	fn := c.W.Method("entities/identity", "version", "UnmarshalJSON")
	if fn == nil {
		return false, "version.UnmarshalJSON not found"
	}
	var st *ssa.Store
	for _, b := range fn.Blocks {
		for _, ins := range b.Instrs {
			if s, ok := ins.(*ssa.Store); ok {
				if fa, ok := s.Addr.(*ssa.FieldAddr); ok && fieldName(fa) == "id" {
					st = s
				}
			}
		}
	}
	if st == nil || hasOriginCall(st.Val, "entity.DeriveId", -1) == nil {
		return false, "version.UnmarshalJSON does not set id = DeriveId(data)"
	}
	for _, r := range Returns(fn) {
		if returnKind(r) != RetError && !st.Block().Dominates(r.Block()) {
			return false, "a success return of version.UnmarshalJSON skips the id assignment"
		}
	}
	return true, ""
}

func obligIdentityNonEmpty(c *Ctx) (bool, string) {
	fn := c.W.Func("entities/identity", "read")
	if fn == nil {
		return false, "identity.read not found"
	}
	for _, g := range cmpGuards(fn, nil) {
		gg, ok := g.oriented(func(v ssa.Value) bool {
			cl, isC := v.(*ssa.Call)
			if !isC {
				return false
			}
			bi, isB := cl.Common().Value.(*ssa.Builtin)
			return isB && bi.Name() == "len" && hasOriginCall(cl.Common().Args[0], "repository.RepoData.ListCommits", 0) != nil
		})
		if !ok {
			continue
		}
		k, isK := constInt(gg.Y)
		if isK && ((gg.Op == token.EQL && k == 0) || (gg.Op == token.LEQ && k == 0) || (gg.Op == token.LSS && k == 1)) {
			return true, ""
		}
	}
	return false, "identity.read does not refuse an identity without commits"
}

func obligPGPEntityConst(c *Ctx) (bool, string) {
	fn := c.W.Method("entities/identity", "Key", "PGPEntity")
	if fn == nil {
		return false, "Key.PGPEntity not found"
	}
	for _, cl := range Calls(fn) {
		if strings.HasSuffix(cl.Name, "openpgp.Entity.AddUserId") {
			for _, a := range cl.Args()[:3] {
				if _, ok := constString(a); !ok {
					return false, "AddUserId is called with non-constant identity strings"
				}
			}
			// the private key must be known non-nil here
			okGuard := false
			for _, cc := range controlConds(cl.Block(), nil) {
				if bo, ok := cc.If.Cond.(*ssa.BinOp); ok && (hasField(bo.X, "private") || hasField(bo.Y, "private")) {
					op := bo.Op
					if cc.Edge == 1 {
						op = negateOp(op)
					}
					if op == token.NEQ {
						okGuard = true
					}
				}
			}
			if !okGuard {
				return false, "AddUserId (which dereferences the private key) is reachable with a public-only key"
			}
			return true, ""
		}
	}
	return true, "" // no AddUserId call: nothing can fail
}

func obligCommentCombinedId(c *Ctx) (bool, string) {
	w := c.W
	n := 0
	for _, fn := range w.ModFns {
		if fnPkgPath(fn) != modPath+"/entities/bug" {
			continue
		}
		for _, b := range fn.Blocks {
			for _, ins := range b.Instrs {
				al, ok := ins.(*ssa.Alloc)
				if !ok || typeShortName(al.Type()) != "entities/bug.Comment" {
					continue
				}
				sts := storedFieldValues(fn, al, "combinedId")
				whole := false
				for _, r := range *al.Referrers() {
					if st, ok := r.(*ssa.Store); ok && st.Addr == al {
						whole = true // copied from another Comment value
					}
				}
				if whole {
					continue
				}
				n++
				if len(sts) == 0 {
					return false, "a Comment is built in " + funcName(fn) + " without a combined id"
				}
				for _, st := range sts {
					if hasOriginCall(st.Val, "entity.CombineIds", -1) == nil {
						return false, "a Comment's combined id in " + funcName(fn) + " is not entity.CombineIds(...)"
					}
				}
			}
		}
	}
	if n == 0 {
		return false, "no Comment literal found"
	}
	return true, ""
}

func init() {
	register("C07",
		"Static no-crash / validate-then-mutate analysis of the read and merge paths: (R7.1) every explicit panic in module code reachable over the hybrid call graph from the read/merge/cache-build entry points is either in a reviewed table whose guard obligation is re-checked on this tree, or reported; (R7.2) no method call or field access through a value that may be nil on some path (nil-constant phi operand) without a dominating non-nil test, in the reachable set; (R7.3) operation blobs are decoded only after the format-version gate; (R7.5) dag.merge refuses a ref whose name is not the id of the entity it holds before any ref moves, identity.read likewise; (R7.7) every json.Unmarshal error in the entity packages is propagated; plus the report/effect and validate-before-mutate rules R2.1/R2.2 shared with C02.",
		[]string{"encoding/json, go-git object parsing and openpgp do not panic on malformed input (dependencies)", "the hybrid call graph over-approximates reachability; panics inside package repository (storage layer, mock) are out of scope", "the catalogue of hostile inputs is not enumerated: what is decided is the absence of explicit panics / nil-able dereferences and the ordering of validation and ref updates"},
		runC07)
}

func runC07(c *Ctx) {
	w := c.W
	c.Doc("R7.1", "explicit panic reachable from a read/merge/cache-build entry point must be in the reviewed table and its guard obligation must hold")
	c.Doc("R7.2", "no dereference (method call on interface/pointer, field access) of a value that is nil on some incoming path without a dominating non-nil test")
	c.Doc("R7.3", "in readOperationPack, reading and decoding the operations blob is dominated by the continuing edges of 'version == 0 → error' and 'version != def.FormatVersion → error'")
	c.Doc("R7.5", "dag.merge returns an Invalid report iff the id of the entity read differs from the id in the ref name, before any ref-moving call")
	c.Doc("R7.7", "errors of encoding/json.Unmarshal in entity/dag, entities/bug, entities/identity are returned")
	// a refused history leaves no trace in the local clocks; every commit is visited (shared with C05)
	checkWitnessAll(c, "R5.3")
	checkBugValidateShape(c)
	checkMergeResultEntityUse(c)
	checkHashIsValidCanonical(c, "R7.12")
	checkLabelChange(c)
	checkStatusAndOneLineTables(c)
	checkIdentityValidate(c)
	checkReadGuards(c)
	checkIdentityMergeComparesCommits(c)
	checkArrayIndexBoundsIn(c, "R7.14", "entity, entities, repository, util", []string{"entity", "entities", "repository", "util"})
	checkIdMethodsTotal(c, "R7.15")
	checkValidateAccumulatesAfterTest(c, "R9.4")
	roots := dataEntryPoints(w)
	if len(roots) < 15 {
		c.Violate("R7.1", "expected:entry-points", "module", fmt.Sprintf("only %d entry points resolved (reference ≥ 15)", len(roots)))
	}
	parent := w.Reach(roots, nil)
	ps, _ := reachablePanics(w, roots)
	table := reviewedPanics()
	checked := map[string]bool{}
	for _, p := range ps {
		c.Sites++
		if fnPkgPath(p.Fn) == modPath+"/repository" {
			continue
		}
		name := funcName(p.Fn)
		c.seeFn(name)
		rv, ok := table[name]
		if !ok {
			c.Violate("R7.1", name, w.InstrPos(p.Ins), "explicit panic reachable from data read from git — via "+p.Path)
			continue
		}
		if checked[name] {
			continue
		}
		checked[name] = true
		good, why := rv.check(c)
		c.Check(good, "R7.1", name, w.InstrPos(p.Ins), "unreachable for stored data: "+rv.reason, "the guard that made this panic unreachable no longer holds: "+why)
	}
	// R7.2
	var fns []*ssa.Function
	for f := range parent {
		if fnPkgPath(f) != modPath+"/repository" && !isInstance(f) {
			fns = append(fns, f)
		}
	}
	// analyse generic origins of reachable instances too
	seenO := map[*ssa.Function]bool{}
	for f := range parent {
		if isInstance(f) {
			if o := f.Origin(); o != nil && !seenO[o] {
				seenO[o] = true
				fns = append(fns, o)
			}
		}
	}
	nDeref := 0
	for _, f := range fns {
		for _, finding := range mayNilDerefs(w, f) {
			nDeref++
			c.Violate("R7.2", funcName(f)+":"+finding.what, finding.pos, finding.detail)
		}
		c.Sites += len(f.Blocks)
	}
	if nDeref == 0 {
		c.Hold("R7.2", "reachable-set", "module", fmt.Sprintf("%d reachable functions: no nil-able dereference", len(fns)))
	}
	checkOpFieldValidation(c) // the operations' Validate is the gate merge relies on for remote content
	checkConstIndexGuards(c, fns)
	checkEmptyEntityAndUseBeforeValidate(c)
	checkFormatGate(c)
	checkMergeRefIdGuard(c)
	checkIdentityReadIdGuard(c, "R7.5")
	checkJSONErrors(c)
	eff := newEffects(w)
	ruleDocsMerge(c)
	checkMergeFns(c, eff)
	checkIdentityMerge(c, eff)
}

type nilFinding struct{ what, pos, detail string }

func mayNilDerefs(w *World, f *ssa.Function) []nilFinding {
	var out []nilFinding
	mayNil := func(v ssa.Value) bool {
		phi, ok := v.(*ssa.Phi)
		if !ok {
			return false
		}
		seen := map[*ssa.Phi]bool{}
		var has func(p *ssa.Phi) bool
		has = func(p *ssa.Phi) bool {
			if seen[p] {
				return false
			}
			seen[p] = true
			for _, e := range p.Edges {
				if isNilConst(e) {
					return true
				}
				if pp, ok := e.(*ssa.Phi); ok && has(pp) {
					return true
				}
			}
			return false
		}
		return has(phi)
	}
	guarded := func(v ssa.Value, at ssa.Instruction) bool {
		nn, _ := nilTests(v)
		for _, b := range nn {
			if len(b.Block().Preds) == 1 && b.Block().Dominates(at.Block()) {
				return true
			}
		}
		return false
	}
	for _, b := range f.Blocks {
		for _, ins := range b.Instrs {
			var recv ssa.Value
			what := ""
			switch x := ins.(type) {
			case ssa.CallInstruction:
				cc := x.Common()
				if cc.IsInvoke() {
					recv, what = cc.Value, "call of ."+cc.Method.Name()
				}
			case *ssa.FieldAddr:
				recv, what = x.X, "field access"
			}
			if recv == nil || !mayNil(recv) {
				continue
			}
			switch recv.Type().Underlying().(type) {
			case *types.Interface, *types.Pointer:
			default:
				continue
			}
			if guarded(recv, ins) {
				continue
			}
			name := recv.Name()
			if phi, ok := recv.(*ssa.Phi); ok && phi.Comment != "" {
				name = phi.Comment
			}
			out = append(out, nilFinding{name, w.InstrPos(ins), what + " on '" + name + "', which is nil on some path into this point, without a dominating non-nil test"})
		}
	}
	return out
}

func checkFormatGate(c *Ctx) {
	w := c.W
	fn := w.Func("entity/dag", "readOperationPack")
	if fn == nil {
		c.Undecided("R7.3", "anchor:readOperationPack", "entity/dag", "not found")
		return
	}
	c.seeFn(funcName(fn))
	pos := w.FnPos(fn)
	var gate *CmpGuard
	for _, g := range cmpGuards(fn, nil) {
		c.Sites++
		gg, ok := g.oriented(func(v ssa.Value) bool { return hasField(v, "FormatVersion") })
		if ok && gg.Op == token.NEQ && hasOriginCall(gg.Y, "strconv.ParseUint", -1) != nil {
			g2 := gg
			gate = &g2
		}
	}
	if gate == nil {
		c.Violate("R7.3", "readOperationPack:format-gate", pos, "no refusal 'stored format version != expected format version' found")
		return
	}
	contEdge := 1 - errEdge(gate.If, defaultFail)
	gateBlk := gate.If.Block()
	bad := ""
	n := 0
	for _, cl := range Calls(fn) {
		if cl.Name == "entity/dag.unmarshallPack" || strings.HasSuffix(cl.Name, ".ReadData") {
			n++
			// every path to the read takes the continuing EDGE of the gate (the successor block alone may have other predecessors:
			// a gate inside the loop that looks for the version entry is bypassed when no such entry exists)
			if reachWithoutEdge(fn.Blocks[0], cl.Block(), func(b *ssa.BasicBlock, s int) bool { return b == gateBlk && s == contEdge }) {
				bad = cl.Name + " at " + w.InstrPos(cl.Instr) + " can run without the format version having been checked (for instance when the tree has no version entry)"
			}
		}
	}
	c.Check(bad == "" && n > 0, "R7.3", "readOperationPack:format-gate", w.InstrPos(gate.Bin), "blob read and decoded only after the version gate", bad)
}

func checkMergeRefIdGuard(c *Ctx) {
	w := c.W
	fn := w.Func("entity/dag", "merge")
	if fn == nil {
		c.Undecided("R7.5", "anchor:entity/dag.merge", "entity/dag", "not found")
		return
	}
	fail := func(r *ssa.Return) bool {
		if len(r.Results) != 1 {
			return false
		}
		return hasOriginCall(r.Results[0], "entity.NewMergeInvalidStatus", -1) != nil && len(origins(r.Results[0])) == 1
	}
	var guard *CmpGuard
	for _, g := range cmpGuards(fn, fail) {
		c.Sites++
		gg, ok := g.oriented(func(v ssa.Value) bool { return hasOriginCall(v, "entity.RefToId", -1) != nil })
		if !ok {
			continue
		}
		idc := hasOriginCall(gg.Y, "entity.Interface.Id", -1)
		if idc == nil {
			continue
		}
		// receiver is the entity read from the remote ref
		rd := hasOriginCall(idc.Common().Value, "entity/dag.read", 0)
		if rd == nil {
			continue
		}
		if gg.Op == token.NEQ {
			g2 := gg
			guard = &g2
		}
	}
	pos := w.FnPos(fn)
	if guard == nil {
		c.Violate("R7.5", "entity/dag.merge:ref-id-matches-entity-id", pos, "merge never compares the id in the ref name with the id of the entity read from it: a remote can plant any history under any local ref name")
		return
	}
	contEdge := 1 - errEdge(guard.If, fail)
	eff := newEffects(w)
	bad := ""
	for _, s := range refSites(w, eff, fn) {
		if !edgeDominates(guard.If.Block(), contEdge, s.Call.Instr.Block()) {
			bad = s.Call.Name + " at " + w.InstrPos(s.Call.Instr) + " is reachable without the ref-name check"
		}
	}
	c.Check(bad == "", "R7.5", "entity/dag.merge:ref-id-matches-entity-id", w.InstrPos(guard.Bin), "Invalid iff entity id != ref id, before any ref moves", bad)
}

func checkJSONErrors(c *Ctx) {
	w := c.W
	n := 0
	for _, fn := range w.ModFns {
		if isInstance(fn) {
			continue
		}
		p := fnPkgPath(fn)
		if p != modPath+"/entity/dag" && p != modPath+"/entities/bug" && p != modPath+"/entities/identity" && p != modPath+"/entity" {
			continue
		}
		for _, cl := range CallsNamed(fn, "encoding/json.Unmarshal") {
			n++
			c.Sites++
			ok := cl.Value() != nil && errorPropagated(cl.Value(), nil)
			c.Check(ok, "R7.7", funcName(fn)+":json.Unmarshal", w.InstrPos(cl.Instr), "decode error returned", "the error of json.Unmarshal is not propagated: malformed data is silently accepted")
		}
	}
	if n < 5 {
		c.Violate("R7.7", "expected:json.Unmarshal-sites", "entity packages", fmt.Sprintf("%d sites found (reference ≥ 5)", n))
	}
}

func obligSnapshotId(c *Ctx) (bool, string) {
	w := c.W
	n := 0
	for _, fn := range w.ModFns {
		if isInstance(fn) {
			continue
		}
		for _, b := range fn.Blocks {
			for _, ins := range b.Instrs {
				al, ok := ins.(*ssa.Alloc)
				if !ok || typeShortName(al.Type()) != "entities/bug.Snapshot" {
					continue
				}
				if _, isStruct := al.Type().Underlying().(*types.Pointer).Elem().Underlying().(*types.Struct); !isStruct {
					continue
				}
				whole := false
				for _, r := range *al.Referrers() {
					if st, ok := r.(*ssa.Store); ok && st.Addr == al {
						whole = true
					}
				}
				if whole {
					continue
				}
				n++
				sts := storedFieldValues(fn, al, "id")
				if len(sts) == 0 {
					return false, "a Snapshot is created in " + funcName(fn) + " without an id"
				}
				for _, st := range sts {
					okO := false
					for _, o := range origins(st.Val) {
						if o.Kind == "call" && strings.HasSuffix(o.Name, ".Id") {
							okO = true
						}
					}
					if !okO {
						return false, "a Snapshot's id in " + funcName(fn) + " is not taken from the entity's Id()"
					}
				}
			}
		}
	}
	if n == 0 {
		return false, "no Snapshot literal found"
	}
	return true, ""
}

// ---- R7.8: constant-index accesses need a dominating length guard ----

func sameSlice(a, b ssa.Value) bool {
	if a == b {
		return true
	}
	ba, fa, oka := loadOfField(a)
	bb, fb, okb := loadOfField(b)
	if oka && okb && fa == fb && ba == bb {
		return true
	}
	ua, oka2 := a.(*ssa.UnOp)
	ub, okb2 := b.(*ssa.UnOp)
	if oka2 && okb2 && ua.X == ub.X {
		return true
	}
	return false
}

// lenGuarded: on every way into ins, len(s) > k is implied by a dominating branch edge.
func lenGuarded(ins ssa.Instruction, s ssa.Value, k int64) bool {
	for _, cc := range controlConds(ins.Block(), nil) {
		cond := cc.If.Cond
		edge := cc.Edge
		for {
			if u, ok := cond.(*ssa.UnOp); ok && u.Op == token.NOT {
				cond = u.X
				edge = 1 - edge
				continue
			}
			break
		}
		bo, ok := cond.(*ssa.BinOp)
		if !ok || !isCmpOp(bo.Op) {
			continue
		}
		x, y, op := bo.X, bo.Y, bo.Op
		isLenOf := func(v ssa.Value) bool {
			c, ok := v.(*ssa.Call)
			if !ok {
				return false
			}
			b, ok := c.Common().Value.(*ssa.Builtin)
			return ok && b.Name() == "len" && sameSlice(c.Common().Args[0], s)
		}
		if isLenOf(y) {
			x, y, op = y, x, swapOp(op)
		}
		if !isLenOf(x) {
			continue
		}
		n, isN := constInt(y)
		if !isN {
			continue
		}
		if edge == 1 {
			op = negateOp(op)
		}
		switch op {
		case token.EQL:
			if n > k {
				return true
			}
		case token.GTR:
			if n >= k {
				return true
			}
		case token.GEQ:
			if n > k {
				return true
			}
		case token.NEQ:
			if n == 0 && k == 0 {
				return true
			}
		}
	}
	return false
}

func checkConstIndexGuards(c *Ctx, fns []*ssa.Function) {
	w := c.W
	c.Doc("R7.8", "an element access with a constant index on a slice (s[0]) in code reachable from the read/merge entry points is dominated by a branch edge implying len(s) > index, or relies on a reviewed non-emptiness obligation")
	reviewed := map[string]panicReview{
		"entities/identity.Identity.Id": {"an Identity always has a first version: built with one (NewIdentityFull) or read with at least one commit", obligIdentityNonEmpty},
		"entities/identity.read":        {"versions has one element per commit and an empty commit list is refused", obligIdentityNonEmpty},
	}
	n := 0
	for _, f := range fns {
		for _, b := range f.Blocks {
			for _, ins := range b.Instrs {
				ia, ok := ins.(*ssa.IndexAddr)
				if !ok {
					continue
				}
				if _, isSlice := ia.X.Type().Underlying().(*types.Slice); !isSlice {
					continue
				}
				k, isK := constInt(ia.Index)
				if !isK {
					continue
				}
				n++
				c.Sites++
				name := funcName(f)
				_, fld, isF := loadOfField(ia.X)
				what := ia.X.Name()
				if isF {
					what = "." + fld
				} else if phi, isPhi := ia.X.(*ssa.Phi); isPhi && phi.Comment != "" {
					what = phi.Comment
				} else if ex, isEx := ia.X.(*ssa.Extract); isEx {
					if call, isCall := ex.Tuple.(*ssa.Call); isCall {
						cn, _ := callName(call.Common())
						what = "result of " + cn
					}
				}
				key := fmt.Sprintf("%s:%s[%d]", name, what, k)
				if lenGuarded(ia, ia.X, k) {
					c.Hold("R7.8", key, w.InstrPos(ia), "dominated by a length guard")
					continue
				}
				if rv, ok := reviewed[name]; ok && isF && fld == "versions" {
					good, why := rv.check(c)
					c.Check(good, "R7.8", key, w.InstrPos(ia), "non-empty by obligation: "+rv.reason, "the obligation that made this access safe no longer holds: "+why)
					continue
				}
				c.Violate("R7.8", key, w.InstrPos(ia), fmt.Sprintf("element %d of %s is accessed without a dominating guard on its length: data read from git can make it shorter (index out of range panic)", k, what))
			}
		}
	}
	if n < 5 {
		c.Violate("R7.8", "expected:const-index-sites", "module", fmt.Sprintf("%d constant-index accesses in the reachable set (reference 7)", n))
	}
}

// R7.9: read refuses an entity without operations; merge uses the remote entity only after Validate
func checkEmptyEntityAndUseBeforeValidate(c *Ctx) {
	w := c.W
	c.Doc("R7.9", "dag.read fails when the history holds no operation (Entity.Id() needs a first operation); in dag.merge no method of the remote entity other than Validate is called before Validate succeeded")
	if fn := readFn(c, "R7.9"); fn != nil {
		ok := false
		var succ *ssa.Return
		for _, r := range Returns(fn) {
			if returnKind(r) != RetError {
				succ = r
			}
		}
		for _, g := range cmpGuards(fn, nil) {
			c.Sites++
			lc, isCall := g.X.(*ssa.Call)
			if !isCall {
				continue
			}
			bi, isB := lc.Common().Value.(*ssa.Builtin)
			if !isB || bi.Name() != "len" {
				continue
			}
			k, isK := constInt(g.Y)
			if !isK || !((g.Op == token.EQL && k == 0) || (g.Op == token.LEQ && k == 0) || (g.Op == token.LSS && k == 1)) {
				continue
			}
			// the slice measured is the one stored into Entity.ops
			for _, b := range fn.Blocks {
				for _, ins := range b.Instrs {
					if st, isSt := ins.(*ssa.Store); isSt {
						if fa, isFA := st.Addr.(*ssa.FieldAddr); isFA && fieldName(fa) == "ops" && st.Val == lc.Common().Args[0] {
							if succ != nil && g.If.Block().Dominates(succ.Block()) {
								ok = true
							}
						}
					}
				}
			}
		}
		// or: a counter that sums len(pack.Operations) for every pack put into the pack map
		for _, g := range cmpGuards(fn, nil) {
			k, isK := constInt(g.Y)
			if !isK || !((g.Op == token.EQL && k == 0) || (g.Op == token.LEQ && k == 0) || (g.Op == token.LSS && k == 1)) {
				continue
			}
			phi, isPhi := g.X.(*ssa.Phi)
			if !isPhi || succ == nil || !g.If.Block().Dominates(succ.Block()) {
				continue
			}
			zeroInit, summed := false, false
			for _, e := range phi.Edges {
				if kk, isKK := constInt(e); isKK && kk == 0 {
					zeroInit = true
					continue
				}
				add, isAdd := e.(*ssa.BinOp)
				if !isAdd || add.Op != token.ADD {
					zeroInit = false
					break
				}
				var other ssa.Value
				if add.X == ssa.Value(phi) {
					other = add.Y
				} else if add.Y == ssa.Value(phi) {
					other = add.X
				}
				lc, isCall := other.(*ssa.Call)
				if !isCall || len(lc.Common().Args) != 1 {
					continue
				}
				if bi, isB := lc.Common().Value.(*ssa.Builtin); !isB || bi.Name() != "len" {
					continue
				}
				pack, fld, isFld := loadOfField(lc.Common().Args[0])
				if !isFld || fld != "Operations" {
					continue
				}
				// the same pack is stored into the pack map in the same block (so every pack read is counted)
				for _, ins := range add.Block().Instrs {
					if mu, isMU := ins.(*ssa.MapUpdate); isMU && mu.Value == pack && isPackMap(mu.Map.Type()) {
						summed = true
					}
				}
			}
			if zeroInit && summed {
				ok = true
			}
		}
		c.Check(ok, "R7.9", "entity/dag.read:refuses-empty-entity", w.FnPos(fn), "fails iff the operation list is empty, before the success return", "an entity without operations is read successfully: its Id() dereferences a nil first operation (crash in the cache build / ReadAll)")
		if ok {
			// every entity handed out by read has a first operation: the order of Id() and Validate() in merge cannot crash
			return
		}
	}
	mf := w.Func("entity/dag", "merge")
	if mf == nil {
		return
	}
	for _, rd := range Calls(mf) {
		if !readFuncs[rd.Name] || rd.Value() == nil {
			continue
		}
		a := rd.Args()
		if refSide(a[len(a)-1]) != "remote" {
			continue
		}
		for _, rv := range resultValues(rd.Value(), 0) {
			var validates []*Call
			for _, cl := range Calls(mf) {
				if strings.HasSuffix(cl.Name, ".Validate") && cl.Recv() != nil && stripConv(cl.Recv()) == rv && cl.Value() != nil {
					validates = append(validates, cl)
				}
			}
			for _, cl := range Calls(mf) {
				r := cl.Recv()
				if r == nil || stripConv(r) != rv || strings.HasSuffix(cl.Name, ".Validate") {
					continue
				}
				c.Sites++
				ok := false
				for _, v := range validates {
					if dominatedBySuccess(v.Value(), cl.Instr) {
						ok = true
					}
				}
				c.Check(ok, "R7.9", "entity/dag.merge:remote."+cl.Instr.Common().Method.Name()+"-after-validate", w.InstrPos(cl.Instr), "called only on a validated remote entity", "a method of the remote entity is called before it was validated: for an entity without operations (which a remote can serve) this dereferences nil inside the MergeAll goroutine")
			}
		}
	}
}

// R7.10: Bug.Validate pins the shape every consumer relies on: the first operation is the
// Create operation (it carries the author and the first comment the snapshot and the excerpt
// dereference) and there is no other.
func checkBugValidateShape(c *Ctx) {
	w := c.W
	c.Doc("R7.10", "Bug.Validate propagates Entity.Validate's error, fails iff the first operation is absent or its Type() is not CreateOp, and fails iff any operation other than the one at index 0 has Type() CreateOp; the success return lies behind all three")
	fn := w.Method("entities/bug", "Bug", "Validate")
	if fn == nil {
		c.Undecided("R7.10", "anchor:Bug.Validate", "entities/bug", "not found")
		return
	}
	c.seeFn(funcName(fn))
	pos := w.FnPos(fn)
	createK := int64(-1)
	if p := w.Pkg("entities/bug"); p != nil {
		if kc, ok := p.Types.Scope().Lookup("CreateOp").(*types.Const); ok {
			if v, exact := constant.Int64Val(kc.Val()); exact {
				createK = v
			}
		}
	}
	if createK < 0 {
		c.Undecided("R7.10", "anchor:bug.CreateOp", "entities/bug", "constant not found")
		return
	}
	typeOf := func(v ssa.Value) ssa.Value { // receiver of a .Type() call
		cv, isCall := v.(*ssa.Call)
		if !isCall {
			return nil
		}
		if n, _ := callName(cv.Common()); !strings.HasSuffix(n, ".Type") {
			return nil
		}
		if cv.Common().IsInvoke() {
			return cv.Common().Value
		}
		if len(cv.Common().Args) > 0 {
			return cv.Common().Args[0]
		}
		return nil
	}
	firstIsCreate, othersNotCreate, whyOthers := false, false, "no refusal of a second Create operation found"
	for _, g := range cmpGuards(fn, nil) {
		c.Sites++
		k, isK := constInt(g.Y)
		recv := typeOf(g.X)
		if !isK || k != createK || recv == nil {
			continue
		}
		if g.Op == token.NEQ {
			// the operation tested is the first one
			for _, o := range origins(recv) {
				if o.Kind == "call" && strings.HasSuffix(o.Name, ".FirstOp") {
					firstIsCreate = true
				}
			}
			if ld, isLd := recv.(*ssa.UnOp); isLd {
				if ia, isIA := ld.X.(*ssa.IndexAddr); isIA {
					if k0, isK0 := constInt(ia.Index); isK0 && k0 == 0 {
						firstIsCreate = true
					}
				}
			}
		}
		if g.Op == token.EQL {
			// inside a scan of all operations, skipping index 0 only
			ld, isLd := recv.(*ssa.UnOp)
			if !isLd {
				continue
			}
			ia, isIA := ld.X.(*ssa.IndexAddr)
			if !isIA || !hasOriginCallAny(ia.X, ".Operations") {
				continue
			}
			hdr := enclosingLoopHeader(g.If.Block())
			if hdr == nil {
				continue
			}
			ok := true
			var bad *ssa.If
			for _, cc := range controlConds(g.If.Block(), hdr.Idom()) {
				if isLoopHeader(cc.If.Block()) {
					continue
				}
				bo, isBo := cc.If.Cond.(*ssa.BinOp)
				okCond := false
				if isBo {
					op := bo.Op
					if cc.Edge == 1 {
						op = negateOp(op)
					}
					kk, isKK := constInt(bo.Y)
					okCond = bo.X == ia.Index && isKK && kk == 0 && op == token.NEQ
				}
				if !okCond {
					ok, bad = false, cc.If
				}
			}
			if ok {
				othersNotCreate = true
			} else if bad != nil {
				whyOthers = "the scan for a second Create operation skips operations under the condition at " + w.InstrPos(bad)
			}
			if exits, _ := earlyLoopExits(fn); len(exits) > 0 {
				othersNotCreate, whyOthers = false, "the scan over the operations is left early"
			}
		}
	}
	c.Check(firstIsCreate, "R7.10", "Bug.Validate:first-op-is-create", pos, "fails iff the first operation is not a Create", "Bug.Validate accepts a history whose first operation is not the Create operation: the snapshot then has no author/first comment and the excerpt build dereferences nil")
	c.Check(othersNotCreate, "R7.10", "Bug.Validate:single-create", pos, "fails iff a later operation is a Create", whyOthers)
	okEnt := false
	for _, cl := range CallsNamed(fn, "entity/dag.Entity.Validate") {
		if errorPropagated(cl.Value(), nil) {
			okEnt = true
		}
	}
	c.Check(okEnt, "R7.10", "Bug.Validate:entity-validate", pos, "Entity.Validate's error is returned", "Bug.Validate does not propagate the error of Entity.Validate")
}

func hasOriginCallAny(v ssa.Value, suffix string) bool {
	for _, o := range origins(v) {
		if o.Kind == "call" && strings.HasSuffix(o.Name, suffix) {
			return true
		}
	}
	return false
}

// R7.12: what counts as a git hash. Hash.IsValid is what Validate applies to the file hashes of create /
// add-comment / edit-comment operations (local input and remote data alike): the canonical spelling is
// lower-case hexadecimal of 40 or 64 characters. A wider acceptance lets through operations that other
// replicas (and git itself, for the attached-files tree) refuse.
func checkHashIsValidCanonical(c *Ctx, rule string) {
	w := c.W
	c.Doc(rule, "repository.Hash.IsValid, evaluated on its SSA by the checker's finite-domain evaluator: accepts exactly the lengths 40 and 64 (among 0,1,39,40,41,63,64,65,128) and, at each position class (first, middle, last) of a 40-character string, exactly the characters 0-9a-f among all of U+0000–U+02FF")
	fn := w.Method("repository", "Hash", "IsValid")
	if fn == nil {
		c.Undecided(rule, "anchor:repository.Hash.IsValid", "repository", "not found")
		return
	}
	c.seeFn(funcName(fn))
	pos := w.FnPos(fn)
	ext := map[string]func(args []fval) (fval, error){
		// pure library functions a validity test may reasonably be written with, computed natively
		"encoding/hex.DecodeString": func(a []fval) (fval, error) {
			if len(a) != 1 || a[0].k != fStr {
				return fval{}, fmt.Errorf("unexpected arguments")
			}
			_, err := hex.DecodeString(string(a[0].rs))
			return fval{k: fTuple, tu: []fval{{k: fStr}, {k: fErr, b: err != nil}}}, nil
		},
		"strings.ToLower": func(a []fval) (fval, error) {
			if len(a) != 1 || a[0].k != fStr {
				return fval{}, fmt.Errorf("unexpected arguments")
			}
			return fval{k: fStr, rs: []rune(strings.ToLower(string(a[0].rs)))}, nil
		},
	}
	eval := func(rs []rune) (bool, error) {
		env := &fenv{concrete: true, extern: ext, cells: map[int]*fval{}}
		out, err := env.run(fn, []fval{{k: fStr, rs: rs}}, 0)
		if err != nil || len(out) != 1 {
			return false, fmt.Errorf("%v", err)
		}
		return out[0].b, nil
	}
	zeros := func(n int) []rune {
		rs := make([]rune, n)
		for i := range rs {
			rs[i] = '0'
		}
		return rs
	}
	bad := ""
	for _, n := range []int{0, 1, 39, 40, 41, 63, 64, 65, 128} {
		c.Sites++
		got, err := eval(zeros(n))
		if err != nil {
			c.Info(rule, "Hash.IsValid:canonical", pos, "not interpreted: "+err.Error())
			return
		}
		if got != (n == 40 || n == 64) && bad == "" {
			bad = fmt.Sprintf("a string of %d hexadecimal digits is answered %v", n, got)
		}
	}
	for _, at := range []int{0, 17, 39} {
		for r := rune(0); r <= 0x2FF; r++ {
			c.Sites++
			rs := zeros(40)
			rs[at] = r
			if r >= 0x80 {
				// keep the byte length at 40: a multi-byte character replaces as many digits as it has bytes
				nb := len(string(r))
				if at+nb > 40 {
					continue
				}
				rs = append(append(append([]rune{}, rs[:at]...), r), rs[at+nb:]...)
			}
			got, err := eval(rs)
			if err != nil {
				c.Info(rule, "Hash.IsValid:canonical", pos, "not interpreted: "+err.Error())
				return
			}
			want := (r >= '0' && r <= '9') || (r >= 'a' && r <= 'f')
			if got != want && bad == "" {
				bad = fmt.Sprintf("a 40-character string with %q at position %d is answered %v", r, at, got)
			}
		}
	}
	c.Check(bad == "", rule, "Hash.IsValid:canonical", pos, "accepts exactly lower-case hexadecimal strings of length 40 or 64",
		bad+": file hashes in another spelling are committed by this replica and refused ('file with invalid hash') by every other one")
}

// R7.13: two more value tables that validation of remote data rests on, tabulated from the SSA of the
// functions themselves: a status is valid iff it is Open or Closed (every other integer, negative ones
// included, is refused — MarshalGQL panics on an unknown status), and a one-line text is safe iff it
// holds no control character at all (CR and TAB included: they pass the multi-line test only).
func checkStatusAndOneLineTables(c *Ctx) {
	w := c.W
	c.Doc("R7.13", "common.Status.Validate, evaluated for -3…6 and the extreme integers, fails exactly when the status is neither OpenStatus nor ClosedStatus; text.SafeOneLine, evaluated on every one-rune string of U+0000–U+02FF and class representatives, answers false exactly for control characters")
	errExt := func(a []fval) (fval, error) { return fval{k: fErr, b: true}, nil }
	ext := map[string]func(args []fval) (fval, error){
		"fmt.Errorf": errExt, "errors.New": errExt, "github.com/pkg/errors.New": errExt, "github.com/pkg/errors.Errorf": errExt,
		"strings.Contains": func(a []fval) (fval, error) {
			if len(a) != 2 || a[0].k != fStr || a[1].k != fStr {
				return fval{}, fmt.Errorf("unexpected arguments")
			}
			return fval{k: fBool, b: strings.Contains(string(a[0].rs), string(a[1].rs))}, nil
		},
		"strings.ContainsRune": func(a []fval) (fval, error) {
			if len(a) != 2 || a[0].k != fStr || a[1].k != fInt {
				return fval{}, fmt.Errorf("unexpected arguments")
			}
			return fval{k: fBool, b: strings.ContainsRune(string(a[0].rs), rune(a[1].i))}, nil
		},
		"strings.ContainsAny": func(a []fval) (fval, error) {
			if len(a) != 2 || a[0].k != fStr || a[1].k != fStr {
				return fval{}, fmt.Errorf("unexpected arguments")
			}
			return fval{k: fBool, b: strings.ContainsAny(string(a[0].rs), string(a[1].rs))}, nil
		},
	}
	for name, f := range map[string]func(rune) bool{"unicode.IsControl": unicode.IsControl, "unicode.IsPrint": unicode.IsPrint, "unicode.IsSpace": unicode.IsSpace, "unicode.IsGraphic": unicode.IsGraphic} {
		f := f
		ext[name] = func(a []fval) (fval, error) {
			if len(a) != 1 || a[0].k != fInt {
				return fval{}, fmt.Errorf("unexpected arguments")
			}
			return fval{k: fBool, b: f(rune(a[0].i))}, nil
		}
	}
	// Status.Validate
	if fn := w.Method("entities/common", "Status", "Validate"); fn != nil {
		c.seeFn(funcName(fn))
		open, okO := pkgConstInt(w, "entities/common", "OpenStatus")
		closed, okC := pkgConstInt(w, "entities/common", "ClosedStatus")
		if !okO || !okC {
			c.Undecided("R7.13", "Status.Validate:exactly-open-or-closed", w.FnPos(fn), "status constants not found")
		} else {
			bad, undec := "", ""
			for _, v := range []int64{-1 << 62, -1000, -3, -2, -1, 0, 1, 2, 3, 4, 5, 6, 1000, 1 << 62} {
				c.Sites++
				env := &fenv{concrete: true, extern: ext, cells: map[int]*fval{}}
				rs, err := env.run(fn, []fval{{k: fInt, i: v}}, 0)
				if err != nil || len(rs) != 1 || rs[0].k != fErr {
					undec = fmt.Sprintf("%v", err)
					break
				}
				want := v != open && v != closed
				if rs[0].b != want && bad == "" {
					bad = fmt.Sprintf("status %d is answered %s", v, map[bool]string{true: "invalid", false: "valid"}[rs[0].b])
				}
			}
			if undec != "" {
				c.Info("R7.13", "Status.Validate:exactly-open-or-closed", w.FnPos(fn), "not interpreted: "+undec)
			} else {
				c.Check(bad == "", "R7.13", "Status.Validate:exactly-open-or-closed", w.FnPos(fn), "invalid iff neither open nor closed", bad+": a remote set-status operation with that value is merged, the bug is then neither open nor closed and serving it panics")
			}
		}
	} else {
		c.Undecided("R7.13", "anchor:Status.Validate", "entities/common", "not found")
	}
	// SafeOneLine
	if fn := w.Func("util/text", "SafeOneLine"); fn != nil {
		c.seeFn(funcName(fn))
		var runes []rune
		for r := rune(0); r <= 0x2FF; r++ {
			runes = append(runes, r)
		}
		runes = append(runes, 0x200B, 0x2028, 0x2029, 0x3000, 0xFEFF, 0xFFFD, 0x1F600, 0x10FFFF)
		bad, undec := "", ""
		for _, r := range runes {
			c.Sites++
			env := &fenv{concrete: true, extern: ext, cells: map[int]*fval{}}
			rs, err := env.run(fn, []fval{{k: fStr, rs: []rune{r}}}, 0)
			if err != nil || len(rs) != 1 {
				undec = fmt.Sprintf("%v", err)
				break
			}
			if rs[0].b != !unicode.IsControl(r) && bad == "" {
				bad = fmt.Sprintf("U+%04X is answered %v", r, rs[0].b)
			}
		}
		if undec != "" {
			c.Info("R7.13", "text.SafeOneLine:no-control-character", w.FnPos(fn), "not interpreted: "+undec)
		} else {
			c.Check(bad == "", "R7.13", "text.SafeOneLine:no-control-character", w.FnPos(fn), "false exactly for control characters", bad+": a carriage return or a tab in a name, login, e-mail, title or label passes validation")
		}
	} else {
		c.Undecided("R7.13", "anchor:text.SafeOneLine", "util/text", "not found")
	}
}

func pkgConstInt(w *World, pkg, name string) (int64, bool) {
	p := w.Pkg(pkg)
	if p == nil {
		return 0, false
	}
	k, ok := p.Types.Scope().Lookup(name).(*types.Const)
	if !ok {
		return 0, false
	}
	return constantInt(k)
}
