package main

import (
	"fmt"
	"go/token"
	"go/types"
	"strings"
	"unicode"

	"golang.org/x/tools/go/ssa"
)

func init() {
	register("C02",
		"Static report/effect agreement of the merge functions (dag.merge for bugs, identity.MergeAll / (*Identity).Merge for identities) on all CFG paths: refs move only after the remote data was read and validated; Invalid/Nothing are reported only where no ref can have moved, New only after a successful CopyRef, Updated only after a successful UpdateRef; the entity handed back is the merged state (read from the remote ref when the local ref was set to the remote head, otherwise re-read after the last ref update); the two ancestry tests compare a head of one side with the commit list of the other side and lead to the right scenario; a MergeAll loop continues after an invalid entity; the cache folds every New/Updated result into its excerpts, loaded set and search index.",
		[]string{
			"RepoData.ListCommits returns every commit reachable from the ref and ResolveRef its head (go-git / mock implementation trusted)",
			"the value-level claim (no operation is lost) is implied by these structural conditions plus C03/C04 and is not itself decided",
		},
		func(c *Ctx) {
			eff := newEffects(c.W)
			ruleDocsMerge(c)
			checkMergeFns(c, eff)
			checkIdentityMerge(c, eff)
			checkCacheMergeFold(c, "R2.6")
			// the read-back of what was merged sees every commit (shared with C05)
			checkWitnessAll(c, "R5.3")
			checkIdentityMergeAllVerdict(c)
			checkNewOnlyWhenRefAbsent(c)
			checkActionsAtomic(c, eff)
			// the merge commit written by a pull must be readable back: signed whenever the author has a key (shared with C08)
			c.Doc("R8.5", "Write stores a signed commit iff Author.SigningKey is non-nil, with that key, whatever the pack holds")
			checkSigningWrite(c)
			// … and accepted by read: the refusals of read are the documented ones (merge commits exempt from the hop limit) (shared with C03)
			checkReadGuards(c)
			checkOrderIndependence(c)
			checkDagMergeAllVisitsAll(c, "R2.12")
			checkMergeMovesLocalRefOnly(c, "R2.13")
			checkListCommitsComplete(c, "R2.14")
			// what is served after a pull is the merged instance: a Resolve in flight during the pull must find it (shared with C18)
			checkSingleInstance(c, newLockWorld(c.W))
		})
	register("C09",
		"Static shape of the identity history rules: (*Identity).Merge moves the ref only after appending, reports true exactly where it moved the ref, and never refuses after moving it; identity.MergeAll reports Updated/Nothing according to that result, validates before touching refs and keeps going after a refused identity; every store to Identity.versions is an append to the same field or the initialisation of a fresh Identity; Identity.Id reads version 0 only; Identity.Validate and version.Validate contain the documented refusals with the right polarity; identity.read refuses a ref whose name is not the first version's id.",
		[]string{"commit hashes identify version contents (git)", "value-level equality of merged histories is not decided"},
		func(c *Ctx) {
			eff := newEffects(c.W)
			ruleDocsMerge(c)
			checkMergeFns(c, eff)
			checkIdentityMerge(c, eff)
			checkVersionsAppendOnly(c)
			checkIdentityValidate(c)
			checkTextEmpty(c)
			checkStatusAndOneLineTables(c)
			checkCloneDeep(c)
			checkValidateBeforePersist(c)
			checkIdentityReadIdGuard(c, "R9.5")
			checkIdentityMergeComparesCommits(c)
			checkFirstVersionFrozen(c)
			checkIdentityMergeAllVerdict(c)
			checkNewOnlyWhenRefAbsent(c)
			checkUserIdentityResolvedEachCall(c, "R9.11")
			// an evicted instance can no longer write: a stale handle must not commit on top of an old tip (shared with C11/C18)
			checkEviction(c)
			// one loaded instance per identity: two instances commit from their own version lists and the second moves the ref over the first one's commit (shared with C18)
			checkSingleInstance(c, newLockWorld(c.W))
			checkValidateAccumulatesAfterTest(c, "R9.4")
			// what a long-running process serves and edits after a pull is the merged identity
			checkCacheMergeFold(c, "R2.6")
			c.Doc("R11.1", "per SubCache function: excerpts store ⇒ index write; delete ⇒ Index.Remove; reset ⇒ Index.Clear; and SubCache.write() on every path to a non-error exit")
			checkExcerptIndexPairing(c)
		})
}

// R9.3
func checkVersionsAppendOnly(c *Ctx) {
	w := c.W
	c.Doc("R9.3", "every store to Identity.versions is append(<same field of the same identity>, …) or the initialisation of a freshly allocated Identity; Identity.Id() reads versions[0]")
	writers := map[string]bool{}
	for _, f := range w.ModFns {
		if isInstance(f) {
			continue
		}
		for _, b := range f.Blocks {
			for _, ins := range b.Instrs {
				st, ok := ins.(*ssa.Store)
				if !ok {
					continue
				}
				fa, ok := st.Addr.(*ssa.FieldAddr)
				if !ok || fieldName(fa) != "versions" || typeShortName(fa.X.Type()) != "entities/identity.Identity" {
					continue
				}
				c.Sites++
				fname := funcName(f)
				writers[fname] = true
				ok2, why := false, ""
				// fresh allocation?
				if al, isAlloc := fa.X.(*ssa.Alloc); isAlloc && al.Heap || isAllocLocal(fa.X) {
					ok2, why = true, "initialisation of a fresh Identity"
				} else if call, isCall := st.Val.(*ssa.Call); isCall {
					if bi, isB := call.Common().Value.(*ssa.Builtin); isB && bi.Name() == "append" {
						base, fld, isF := loadOfField(call.Common().Args[0])
						if isF && fld == "versions" && base == fa.X {
							ok2, why = true, "append to the same field"
						} else {
							why = "append whose first operand is not this identity's own versions"
						}
					}
				}
				if !ok2 && why == "" {
					why = "versions is assigned a value that is not an append to itself (" + st.Val.String() + ")"
				}
				c.Check(ok2, "R9.3", fname+":store-versions", w.InstrPos(st), why, why+": history could be replaced or truncated")
			}
		}
	}
	for _, want := range []string{"entities/identity.Identity.Merge", "entities/identity.Identity.Mutate", "entities/identity.read"} {
		if !writers[want] {
			c.Violate("R9.3", "expected:"+want, "entities/identity", "reference writer of Identity.versions not found (anchor moved?)")
		}
	}
	// Id() reads versions[0]
	idf := w.Method("entities/identity", "Identity", "Id")
	if idf == nil {
		c.Undecided("R9.3", "anchor:Identity.Id", "entities/identity", "not found")
		return
	}
	ok := false
	for _, b := range idf.Blocks {
		for _, ins := range b.Instrs {
			if ia, isIA := ins.(*ssa.IndexAddr); isIA {
				_, fld, isF := loadOfField(ia.X)
				if isF && fld == "versions" {
					if k, isK := constInt(ia.Index); isK && k == 0 {
						ok = true
					} else {
						ok = false
					}
				}
			}
		}
	}
	c.Check(ok, "R9.3", "Identity.Id:first-version", w.FnPos(idf), "id is that of versions[0]", "Identity.Id() does not derive from versions[0]")
}

func isAllocLocal(v ssa.Value) bool {
	_, ok := v.(*ssa.Alloc)
	return ok
}

// R9.4
func checkIdentityValidate(c *Ctx) {
	w := c.W
	c.Doc("R9.4", "Identity.Validate: no version → error; a clock smaller than in the previous version → error (strictly smaller, same clock name); a clock missing that the previous version had → error; every version validated. version.Validate: name and login both empty → error; name/login/email not single-line-safe → error; non-empty invalid avatar URL → error; nonce length bounds; every key validated")
	fn := w.Method("entities/identity", "Identity", "Validate")
	if fn == nil {
		c.Undecided("R9.4", "anchor:Identity.Validate", "entities/identity", "not found")
		return
	}
	c.seeFn(funcName(fn))
	pos := w.FnPos(fn)
	guards := cmpGuards(fn, nil)
	c.Sites += len(guards)
	// (a) len(versions)==0
	okA := false
	for _, g := range guards {
		gg, ok := g.oriented(func(v ssa.Value) bool { return lenOfField(v, "versions") })
		if !ok {
			continue
		}
		k, isK := constInt(gg.Y)
		if !isK {
			continue
		}
		if (gg.Op == token.EQL && k == 0) || (gg.Op == token.LEQ && k == 0) || (gg.Op == token.LSS && k == 1) {
			okA = true
		}
	}
	c.Check(okA, "R9.4", "Identity.Validate:no-version", pos, "fails iff len(versions)==0", "no refusal of an identity without versions")
	// (b) now < previous
	isNow := func(v ssa.Value) bool { // value looked up in a version's times map
		for _, o := range origins(v) {
			if o.Kind == "field" && o.Name == "times" {
				return true
			}
		}
		return false
	}
	isPrev := func(v ssa.Value) bool { // value from the local accumulator map
		for _, o := range origins(v) {
			if o.Kind == "make" {
				return true
			}
		}
		return false
	}
	okB, detB := false, "no comparison between a version's clock and the previous value found"
	for _, g := range guards {
		gg, ok := g.oriented(isNow)
		if !ok || !isPrev(gg.Y) {
			continue
		}
		if gg.Op == token.LSS {
			okB = true
		} else {
			detB = "fails iff now " + gg.Op.String() + " previous (must be: now < previous)"
		}
		// same clock name: the lookup key is the range key of the accumulator
	}
	c.Check(okB, "R9.4", "Identity.Validate:clock-monotone", pos, "fails iff now < previous", detB)
	// (c) dropped clock: comma-ok lookup in times whose !ok edge fails
	okC := false
	for _, b := range fn.Blocks {
		for _, ins := range b.Instrs {
			lk, ok := ins.(*ssa.Lookup)
			if !ok || !lk.CommaOk || !hasField(lk.X, "times") {
				continue
			}
			for _, r := range *lk.Referrers() {
				if e, isE := r.(*ssa.Extract); isE && e.Index == 1 {
					for _, u := range condUsers(e) {
						ee := errEdge(u.If, defaultFail)
						failsWhenOkFalse := (ee == 1 && !u.Neg) || (ee == 0 && u.Neg)
						if failsWhenOkFalse {
							okC = true
						}
					}
				}
			}
		}
	}
	c.Check(okC, "R9.4", "Identity.Validate:clock-dropped", pos, "a clock absent from a later version fails", "a version that drops a clock of its predecessor is not refused")
	// (d) each version validated
	okD := false
	for _, cl := range CallsNamed(fn, "entities/identity.version.Validate") {
		if cl.Value() != nil && errorPropagated(cl.Value(), nil) && cl.Block().Comment != "" {
			// … of every version: the call sits in the loop over i.versions and its receiver is the loop's element
			recv := cl.Recv()
			elem := false
			if ld, isLd := recv.(*ssa.UnOp); isLd {
				if ia, isIA := ld.X.(*ssa.IndexAddr); isIA && hasField(ia.X, "versions") && ascendingRangeIndex(ia.Index) {
					elem = true
				}
			}
			if enclosingLoopHeader(cl.Block()) != nil && elem {
				okD = true
			}
		}
	}
	c.Check(okD, "R9.4", "Identity.Validate:each-version", pos, "version.Validate error propagated", "versions are not individually validated")
	// the accumulator is updated with the clocks of each version
	okE := false
	for _, b := range fn.Blocks {
		for _, ins := range b.Instrs {
			if mu, ok := ins.(*ssa.MapUpdate); ok {
				if _, isMake := mu.Map.(*ssa.MakeMap); isMake && isNow(mu.Value) {
					okE = true
				}
			}
		}
	}
	c.Check(okE, "R9.4", "Identity.Validate:accumulate", pos, "previous times are accumulated from every version", "the previous-clock accumulator is not fed from each version's times")

	vf := w.Method("entities/identity", "version", "Validate")
	if vf == nil {
		c.Undecided("R9.4", "anchor:version.Validate", "entities/identity", "not found")
		return
	}
	c.seeFn(funcName(vf))
	checkVersionValidate(c, vf, "R9.4")
}

func checkVersionValidate(c *Ctx, vf *ssa.Function, rule string) {
	w := c.W
	vpos := w.FnPos(vf)
	pgs := predGuards(vf, nil)
	c.Sites += len(pgs)
	findPred := func(name, field string, failsWhen bool) *PredGuard {
		for i := range pgs {
			g := &pgs[i]
			if g.Name == name && g.FailsWhen == failsWhen && len(g.Call.Common().Args) == 1 && hasField(g.Call.Common().Args[0], field) {
				return g
			}
		}
		return nil
	}
	for _, f := range []string{"name", "login", "email"} {
		c.Check(findPred("util/text.SafeOneLine", f, false) != nil, rule, "version.Validate:SafeOneLine("+f+")", vpos, "fails when "+f+" is not single-line safe", f+" is not checked with text.SafeOneLine (or the polarity is inverted)")
	}
	// Empty(name) && Empty(login) → error: the true edge of the first test leads to the second, whose true edge fails
	emptyCall := func(field string) *ssa.Call {
		for _, cl := range CallsNamed(vf, "util/text.Empty") {
			if a := cl.Args(); len(a) == 1 && hasField(a[0], field) {
				cv, _ := cl.Instr.(*ssa.Call)
				return cv
			}
		}
		return nil
	}
	conj := func(first, second *ssa.Call) bool {
		if first == nil || second == nil {
			return false
		}
		for _, u := range condUsers(first) {
			te := 0
			if u.Neg {
				te = 1
			}
			tb := u.If.Block().Succs[te]
			if tb != second.Block() {
				continue
			}
			for _, u2 := range condUsers(second) {
				e := errEdge(u2.If, defaultFail)
				te2 := 0
				if u2.Neg {
					te2 = 1
				}
				if e == te2 {
					return true
				}
			}
		}
		return false
	}
	en, el := emptyCall("name"), emptyCall("login")
	okBoth := conj(en, el) || conj(el, en)
	c.Check(okBoth, rule, "version.Validate:name-or-login", vpos, "fails iff name and login are both empty", "the 'either name or login' refusal is missing or is not a conjunction")
	av := findPred("util/text.ValidUrl", "avatarURL", false)
	c.Check(av != nil, rule, "version.Validate:avatar-url", vpos, "fails when a non-empty avatar URL is invalid", "avatar URL is not validated")
	// nonce bounds
	lo, hi := false, false
	for _, g := range cmpGuards(vf, nil) {
		gg, ok := g.oriented(func(v ssa.Value) bool { return lenOfField(v, "nonce") })
		if !ok {
			continue
		}
		if _, isK := constInt(gg.Y); !isK {
			continue
		}
		switch gg.Op {
		case token.GTR, token.GEQ:
			hi = true
		case token.LSS, token.LEQ:
			lo = true
		}
	}
	c.Check(lo && hi, rule, "version.Validate:nonce-bounds", vpos, "nonce length bounded below and above", "nonce length is not bounded on both sides")
	okNil := false
	for _, g := range cmpGuards(vf, nil) {
		gg, o := g.oriented(func(v ssa.Value) bool { return hasField(v, "keys") && !isNilConst(v) })
		if o && isNilConst(gg.Y) && gg.Op == token.EQL {
			okNil = true
		}
	}
	// the key checks may live in a same-package helper that is handed v.keys and whose error is propagated
	type keyHelper struct {
		fn    *ssa.Function
		param *ssa.Parameter
	}
	var keyHelpers []keyHelper
	for _, cl := range Calls(vf) {
		h := cl.Instr.Common().StaticCallee()
		if h == nil || len(h.Blocks) == 0 || fnPkgPath(h) != fnPkgPath(vf) || cl.Value() == nil || !errorPropagated(cl.Value(), nil) {
			continue
		}
		for ai, a := range cl.Instr.Common().Args {
			if hasField(a, "keys") && ai < len(h.Params) {
				keyHelpers = append(keyHelpers, keyHelper{h, h.Params[ai]})
			}
		}
	}
	for _, kh := range keyHelpers {
		fromParam := func(v ssa.Value) bool {
			if isNilConst(v) {
				return false
			}
			for _, o := range origins(v) {
				if o.Kind == "param" && o.Name == kh.param.Name() {
					return true
				}
			}
			return false
		}
		for _, g := range cmpGuards(kh.fn, nil) {
			gg, o := g.oriented(fromParam)
			if o && isNilConst(gg.Y) && gg.Op == token.EQL {
				okNil = true
			}
		}
	}
	c.Check(okNil, rule, "version.Validate:keys-non-nil", vpos, "a nil key is refused", "a null entry in the key list is not refused before it is dereferenced (a remote can serve \"pub_keys\":[null])")
	okK := false
	for _, cl := range CallsNamed(vf, "entities/identity.Key.Validate") {
		if cl.Value() != nil && errorPropagated(cl.Value(), nil) {
			okK = true
		}
	}
	for _, kh := range keyHelpers {
		for _, cl := range CallsNamed(kh.fn, "entities/identity.Key.Validate") {
			if cl.Value() != nil && errorPropagated(cl.Value(), nil) {
				okK = true
			}
		}
	}
	c.Check(okK, rule, "version.Validate:keys", vpos, "each key validated", "keys are not validated")
}

// R9.5 / R7.5 for identities
func checkIdentityReadIdGuard(c *Ctx, rule string) {
	w := c.W
	c.Doc(rule, "identity.read fails iff the id taken from the ref name differs from the id of the first version, on every path to its success return")
	fn := w.Func("entities/identity", "read")
	if fn == nil {
		c.Undecided(rule, "anchor:identity.read", "entities/identity", "not found")
		return
	}
	c.seeFn(funcName(fn))
	ok := false
	detail := "no comparison between entity.RefToId(ref) and versions[0].Id() guarding a failure"
	for _, g := range cmpGuards(fn, nil) {
		c.Sites++
		isRefId := func(v ssa.Value) bool { return hasOriginCall(v, "entity.RefToId", -1) != nil }
		gg, o := g.oriented(isRefId)
		if !o {
			continue
		}
		if hasOriginCall(gg.Y, "entities/identity.version.Id", -1) == nil {
			continue
		}
		if gg.Op != token.NEQ {
			detail = "fails iff ref id " + gg.Op.String() + " version id (must be !=)"
			continue
		}
		// the success return must be dominated by the non-failing edge
		dominatesAll := true
		for _, r := range Returns(fn) {
			if returnKind(r) == RetError {
				continue
			}
			if !gg.If.Block().Dominates(r.Block()) {
				dominatesAll = false
			}
		}
		// the version compared is element 0
		first := false
		if vc := hasOriginCall(gg.Y, "entities/identity.version.Id", -1); vc != nil {
			recv := vc.Common().Args[0]
			if u, isU := recv.(*ssa.UnOp); isU {
				if ia, isIA := u.X.(*ssa.IndexAddr); isIA {
					if k, isK := constInt(ia.Index); isK && k == 0 {
						first = true
					}
				}
			}
		}
		if dominatesAll && first {
			ok = true
		} else if !first {
			detail = "the id compared is not that of versions[0]"
		} else {
			detail = "a success return is reachable without the id check"
		}
	}
	c.Check(ok, rule, "identity.read:ref-id-matches-first-version", w.FnPos(fn), "ref name id == first version id on every success path", detail)
}

// checkCacheMergeFold: SubCache.MergeAll folds New/Updated results into cached, excerpts, index.
func checkCacheMergeFold(c *Ctx, rule string) {
	w := c.W
	checkRepoCacheMergeAllTiers(c)
	c.Doc(rule, "SubCache.MergeAll: for New/Updated results the entity of the result is stored in the loaded set, its excerpt stored, and it is indexed; the cache file is written afterwards; results are forwarded")
	fn := w.Method("cache", "SubCache", "MergeAll")
	if fn == nil {
		c.Undecided(rule, "anchor:cache.SubCache.MergeAll", "cache", "not found")
		return
	}
	var body *ssa.Function
	for _, a := range fn.AnonFuncs {
		body = a
	}
	if body == nil {
		c.Undecided(rule, "cache.SubCache.MergeAll:goroutine", w.FnPos(fn), "no goroutine body found")
		return
	}
	c.seeFn(funcName(body))
	storesExcerpt, storesCached, indexes, writes := false, false, false, false
	var all []*ssa.Function
	all = append(all, body)
	// the folding of one result may live in a same-package helper called from the goroutine
	isFoldStore := func(i ssa.Instruction) bool {
		mu, ok := i.(*ssa.MapUpdate)
		if !ok {
			return false
		}
		_, fld, isF := loadOfField(mu.Map)
		return isF && (fld == "excerpts" || fld == "cached")
	}
	foldHelpers := map[*ssa.Function]bool{}
	for _, cl := range Calls(body) {
		if viaHelper(w, cl.Instr, isFoldStore, false) {
			if h := bodyOf(cl.Instr.Common().StaticCallee()); h != nil && !foldHelpers[h] {
				foldHelpers[h] = true
				all = append(all, h)
				c.seeFn(funcName(h))
			}
		}
	}
	for _, f := range all {
		for _, b := range f.Blocks {
			for _, ins := range b.Instrs {
				c.Sites++
				switch x := ins.(type) {
				case *ssa.MapUpdate:
					_, fld, ok := loadOfField(x.Map)
					if ok && fld == "excerpts" {
						storesExcerpt = true
					}
					if ok && fld == "cached" {
						storesCached = true
					}
				case ssa.CallInstruction:
					n, _ := callName(x.Common())
					if callReaches(x, func(n string) bool {
						return strings.HasSuffix(n, ".IndexOne") || strings.HasSuffix(n, ".IndexBatch") || n == "cache.SubCache.entityUpdated"
					}, 0) {
						indexes = true
					}
					_ = n
					if n == "cache.SubCache.write" {
						writes = true
					}
				}
			}
		}
	}
	// the folding is conditional on nothing but "no error" and the New/Updated status
	var foldBlocks []*ssa.BasicBlock
	for _, f := range all {
		foldBlocks = append(foldBlocks, f.Blocks...)
	}
	for _, b := range foldBlocks {
		for _, ins := range b.Instrs {
			what := ""
			switch x := ins.(type) {
			case *ssa.MapUpdate:
				if _, fld, ok := loadOfField(x.Map); ok && (fld == "excerpts" || fld == "cached") {
					what = fld
				}
			case ssa.CallInstruction:
				if callReaches(x, func(n string) bool { return strings.HasSuffix(n, ".IndexOne") }, 0) {
					what = "index"
				}
				if viaHelper(w, x, isFoldStore, false) {
					what = "cached"
				}
			}
			if what == "" {
				continue
			}
			hdr := enclosingLoopHeader(ins.Block())
			var stop *ssa.BasicBlock
			if hdr != nil {
				stop = hdr.Idom()
			}
			for _, cc := range controlConds(ins.Block(), stop) {
				if isLoopHeader(cc.If.Block()) {
					continue
				}
				okCond := false
				if bo, isBo := cc.If.Cond.(*ssa.BinOp); isBo {
					if hasField(bo.X, "Status") || hasField(bo.Y, "Status") || hasField(bo.X, "Err") || hasField(bo.Y, "Err") {
						okCond = true
					}
					// err == nil / err != nil on a local error value
					if isNilConst(bo.X) || isNilConst(bo.Y) {
						okCond = true
					}
				}
				if !okCond {
					c.Violate(rule, "SubCache.MergeAll:"+what+"-unconditional", w.InstrPos(ins), "folding a New/Updated merge result into "+what+" is additionally conditional on "+w.InstrPos(cc.If)+": some merged entities are not (fully) taken over by the cache, later edits build on the stale instance")
				}
			}
		}
	}
	pos := w.FnPos(body)
	c.Check(storesExcerpt, rule, "SubCache.MergeAll:excerpt", pos, "excerpt stored for merged entities", "merge results are not folded into the excerpts")
	c.Check(storesCached, rule, "SubCache.MergeAll:cached", pos, "loaded instance replaced by the merged entity", "merge results do not replace the loaded entity")
	c.Check(indexes, rule, "SubCache.MergeAll:index", pos, "merged entities are (re)indexed", "merge results are stored in the excerpts but not indexed: a pulled bug is listed but not searchable until a rebuild")
	c.Check(writes, rule, "SubCache.MergeAll:write", pos, "cache file rewritten", "cache file not rewritten after a merge")
	_ = fmt.Sprint
}

// R9.9: what "no name" means. version.Validate refuses an identity whose name and login are both
// text.Empty; Empty is documented as "empty once space and not graphic characters are removed".
// A narrower trim set lets an identity made of invisible characters through: it validates, is
// committed and merged, and shows as a blank author everywhere.
func checkTextEmpty(c *Ctx) {
	w := c.W
	c.Doc("R9.9", "util/text.Empty returns strings.TrimFunc(s, p) == \"\" where the predicate p, tabulated from its SSA over U+0000–U+02FF and representatives of the other classes (format characters, separators, private use, non-characters), is true exactly for the runes that are space or not graphic")
	fn := w.Func("util/text", "Empty")
	if fn == nil {
		c.Undecided("R9.9", "anchor:text.Empty", "util/text", "not found")
		return
	}
	c.seeFn(funcName(fn))
	pos := w.FnPos(fn)
	var trim *ssa.Call
	for _, cl := range Calls(fn) {
		if cl.Name == "strings.TrimFunc" {
			trim, _ = cl.Instr.(*ssa.Call)
		}
	}
	if trim == nil {
		c.Info("R9.9", "text.Empty:trims-invisible", pos, "Empty is not written with strings.TrimFunc: not interpreted")
		return
	}
	// shape: return TrimFunc(<param>, pred) == ""
	okShape := false
	for _, r := range Returns(fn) {
		if bo, ok := ReturnResult(r, 0).(*ssa.BinOp); ok && bo.Op == token.EQL {
			for _, pr := range [][2]ssa.Value{{bo.X, bo.Y}, {bo.Y, bo.X}} {
				if s, isS := constString(pr[1]); isS && s == "" && pr[0] == ssa.Value(trim) {
					okShape = true
				}
			}
		}
	}
	if _, isP := trim.Common().Args[0].(*ssa.Parameter); !isP {
		okShape = false
	}
	c.Check(okShape, "R9.9", "text.Empty:shape", pos, "TrimFunc(s, p) == \"\"", "Empty does not answer whether its whole argument is trimmed away")
	var pred *ssa.Function
	for _, f := range funcValuesOf(trim.Common().Args[1], 0) {
		pred = f
	}
	if pred == nil {
		c.Info("R9.9", "text.Empty:trims-invisible", pos, "the trim predicate is not a function literal or named function: not interpreted")
		return
	}
	ext := map[string]func(args []fval) (fval, error){}
	for name, f := range map[string]func(rune) bool{"unicode.IsControl": unicode.IsControl, "unicode.IsPrint": unicode.IsPrint, "unicode.IsSpace": unicode.IsSpace, "unicode.IsGraphic": unicode.IsGraphic, "unicode.IsLetter": unicode.IsLetter, "unicode.IsDigit": unicode.IsDigit, "unicode.IsMark": unicode.IsMark, "unicode.IsPunct": unicode.IsPunct, "unicode.IsSymbol": unicode.IsSymbol, "unicode.IsNumber": unicode.IsNumber} {
		f := f
		ext[name] = func(a []fval) (fval, error) {
			if len(a) != 1 || a[0].k != fInt {
				return fval{}, fmt.Errorf("unexpected arguments")
			}
			return fval{k: fBool, b: f(rune(a[0].i))}, nil
		}
	}
	var runes []rune
	for r := rune(0); r <= 0x2FF; r++ {
		runes = append(runes, r)
	}
	runes = append(runes, 0x034F, 0x061C, 0x115F, 0x1680, 0x180E, 0x2000, 0x200A, 0x200B, 0x200C, 0x200D, 0x200E, 0x200F, 0x2028, 0x2029, 0x202A, 0x202E, 0x202F, 0x205F, 0x2060, 0x2064, 0x3000, 0x3164, 0xD7FF, 0xE000, 0xFE00, 0xFEFF, 0xFFA0, 0xFFF9, 0xFFFD, 0xFFFE, 0x1F600, 0xE0001, 0xE0100, 0x10FFFF)
	bad := ""
	for _, r := range runes {
		c.Sites++
		var got bool
		if e, isExt := ext[pred.String()]; isExt {
			v, _ := e([]fval{{k: fInt, i: int64(r)}})
			got = v.b
		} else {
			env := &fenv{concrete: true, extern: ext, cells: map[int]*fval{}}
			rs, err := env.run(pred, []fval{{k: fInt, i: int64(r)}}, 0)
			if err != nil || len(rs) != 1 {
				c.Info("R9.9", "text.Empty:trims-invisible", pos, fmt.Sprintf("the trim predicate is not interpretable: %v", err))
				return
			}
			got = rs[0].b
		}
		want := unicode.IsSpace(r) || !unicode.IsGraphic(r)
		if got != want && bad == "" {
			if want {
				bad = fmt.Sprintf("U+%04X (not graphic or space) is not trimmed: a name made of such characters only counts as a name", r)
			} else {
				bad = fmt.Sprintf("U+%04X (a visible character) is trimmed: a name made of it counts as no name", r)
			}
		}
	}
	c.Check(bad == "", "R9.9", "text.Empty:trims-invisible", pos, fmt.Sprintf("%d runes: trimmed iff space or not graphic", len(runes)), bad)
}

// checkRepoCacheMergeAllTiers: what a pull merges. RepoCache.MergeAll runs the sub-caches' MergeAll tier by
// tier (identities, then what depends on them) and relays every result. Whatever one tier reports, the
// next one runs: an identity that cannot be fast-forwarded is an ordinary, permanent condition.
func checkRepoCacheMergeAllTiers(c *Ctx) {
	w := c.W
	c.Doc("R2.10", "RepoCache.MergeAll: the tiers hold the identities and the bugs sub-cache; the loops over tiers, over the sub-caches of a tier and over a sub-cache's results end by exhaustion only (no result makes a later tier or a later result be skipped); every result received is sent on unconditionally")
	fn := w.Method("cache", "RepoCache", "MergeAll")
	if fn == nil {
		c.Undecided("R2.10", "anchor:RepoCache.MergeAll", "cache", "not found")
		return
	}
	c.seeFn(funcName(fn))
	pos := w.FnPos(fn)
	var all []*ssa.Function
	var collect func(f *ssa.Function)
	collect = func(f *ssa.Function) {
		all = append(all, f)
		for _, an := range f.AnonFuncs {
			collect(an)
		}
	}
	collect(fn)
	loops, bad := 0, ""
	relayed := false
	fields := map[string]bool{}
	for _, f := range all {
		for _, b := range f.Blocks {
			for _, ins := range b.Instrs {
				if fa, ok := ins.(*ssa.FieldAddr); ok {
					fields[fieldName(fa)] = true
				}
				if sd, ok := ins.(*ssa.Send); ok {
					// the value sent is what was received from a sub-cache's MergeAll
					recv := false
					for _, o := range origins(sd.X) {
						if o.Kind == "unop" {
							if u, isU := o.Val.(*ssa.UnOp); isU && u.Op == token.ARROW {
								if hasOriginCall(u.X, "cache.cacheMgmt.MergeAll", -1) != nil {
									recv = true
								}
							}
						}
					}
					if ex, isEx := sd.X.(*ssa.Extract); isEx && ex.Index == 0 {
						if u, isU := ex.Tuple.(*ssa.UnOp); isU && u.Op == token.ARROW && hasOriginCall(u.X, "cache.cacheMgmt.MergeAll", -1) != nil {
							recv = true
						}
					}
					if recv {
						c.Sites++
						if unconditionalInLoop(w, sd) == "" {
							relayed = true
						} else {
							bad = "a merge result is relayed only under a condition (" + w.InstrPos(sd) + ")"
						}
					}
				}
			}
			if !isLoopHeader(b) {
				continue
			}
			loops++
			for _, x := range f.Blocks {
				if x == b || !inLoop(x, b) {
					continue
				}
				for _, s := range x.Succs {
					if !inLoop(s, b) {
						if oh := outermostLoopHeader(x); oh != nil && oh != b && inLoop(s, oh) {
							continue
						}
						bad = "the loop at " + w.InstrPos(firstPosInstr(b)) + " is left at " + w.InstrPos(firstPosInstr(s)) + " before it is exhausted: the remaining tiers (the bugs, after a refused identity) or results are never merged, however often the user pulls"
					}
				}
			}
		}
		// a return inside a loop body that is not reached through loop exhaustion
		for _, r := range Returns(f) {
			if h := enclosingLoopHeader(r.Block()); h != nil {
				bad = "return inside the loop at " + w.InstrPos(firstPosInstr(h))
			}
		}
	}
	// the tiers run one after the other: the wait for a tier's merges sits inside the loop over the tiers
	{
		okSeq, found := false, false
		for _, f := range all {
			for _, b := range f.Blocks {
				for _, ins := range b.Instrs {
					g, isGo := ins.(*ssa.Go)
					if !isGo {
						continue
					}
					tier := outermostLoopHeader(g.Block())
					if tier == nil {
						continue
					}
					found = true
					c.Sites++
					for _, cl := range Calls(f) {
						if cl.Name == "sync.WaitGroup.Wait" && inLoop(cl.Block(), tier) && cl.Block() != tier {
							// after the merges of the tier were started: not reachable from the Wait back to the go statement without passing the tier header
							okSeq = true
						}
					}
				}
			}
		}
		c.Check(!found || okSeq, "R2.10", "RepoCache.MergeAll:tiers-in-sequence", pos, "each tier is waited for before the next one starts",
			"the merges of all tiers are started before any is waited for: the bugs are merged while the identities of their authors are not merged yet, so a valid remote bug of an author who arrives in the same pull is refused ('identity doesn't exist')")
	}
	c.Check(fields["identities"] && fields["bugs"], "R2.10", "RepoCache.MergeAll:tiers", pos, "identities and bugs are merged", "the identities or the bugs sub-cache is not part of what MergeAll merges")
	c.Check(loops >= 3 && bad == "" && relayed, "R2.10", "RepoCache.MergeAll:every-tier-every-result", pos, fmt.Sprintf("%d loops left by exhaustion only; every result relayed", loops), bad)
}

// R9.10: a clone shares no mutable container with its original. Identity.SetMetadata and Mutate build the
// next version from lastVersion().Clone(); a map or slice field left as copied by `clone := *v` is the very
// container of the committed version, so writing the new version rewrites the old one in memory.
func checkCloneDeep(c *Ctx) {
	w := c.W
	c.Doc("R9.10", "in every Clone method of package entities/identity that starts from a struct copy of its receiver, each field of map or slice type is assigned again (a fresh container, or nil) before the clone is returned")
	n := 0
	for _, f := range w.ModFns {
		if fnPkgPath(f) != modPath+"/entities/identity" || f.Name() != "Clone" || f.Signature.Recv() == nil || isInstance(f) || f.Synthetic != "" {
			continue
		}
		c.seeFn(funcName(f))
		// the clone: an Alloc of the receiver's struct type initialised by a store of *receiver
		var clone *ssa.Alloc
		for _, b := range f.Blocks {
			for _, ins := range b.Instrs {
				st, ok := ins.(*ssa.Store)
				if !ok {
					continue
				}
				al, isAl := st.Addr.(*ssa.Alloc)
				u, isU := st.Val.(*ssa.UnOp)
				if isAl && isU && u.Op == token.MUL && u.X == ssa.Value(f.Params[0]) {
					clone = al
				}
			}
		}
		if clone == nil {
			c.Info("R9.10", funcName(f)+":no-shared-containers", w.FnPos(f), "the clone is not built from a struct copy of the receiver (built field by field): nothing is shared by construction")
			continue
		}
		n++
		st := derefStruct(clone.Type())
		if st == nil {
			continue
		}
		assigned := map[string]bool{}
		for _, r := range *clone.Referrers() {
			if fa, ok := r.(*ssa.FieldAddr); ok {
				for _, r2 := range *fa.Referrers() {
					if s2, isSt := r2.(*ssa.Store); isSt && s2.Addr == ssa.Value(fa) {
						assigned[fieldName(fa)] = true
					}
				}
			}
		}
		var shared []string
		for i := 0; i < st.NumFields(); i++ {
			fld := st.Field(i)
			c.Sites++
			switch fld.Type().Underlying().(type) {
			case *types.Map, *types.Slice:
				if !assigned[fld.Name()] {
					shared = append(shared, fld.Name())
				}
			}
		}
		c.Check(len(shared) == 0, "R9.10", funcName(f)+":no-shared-containers", w.FnPos(f), "every map and slice field is re-assigned",
			fmt.Sprintf("the clone keeps the original's %v as copied by the struct assignment: the next version and the committed one share that container, so setting a value on the new version rewrites the committed version in memory — what the running process serves (first-defined-wins metadata) differs from what is read back from git", shared))
	}
	c.Check(n >= 1, "R9.10", "expected:struct-copy-clones", "entities/identity", fmt.Sprintf("%d Clone methods starting from a struct copy", n), "no Clone method starting from a struct copy found")
}
