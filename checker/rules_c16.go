package main

import (
	"fmt"
	"go/token"
	"go/types"
	"sort"
	"strings"
	"unicode"

	"golang.org/x/tools/go/ssa"
)

func init() {
	register("C16",
		"A simulated tracker cannot be run statically; decided are the structural conditions idempotence and resumability rest on, for the GitLab importer and the bridge core: (R16.1) the last-import cursor is stored only on the edge where no error event was relayed, every relayed error event clears that flag, and the time stored was taken before the import started; (R16.2) every call that creates an operation, a bug or an identity is control dependent on the failure of the matching look-up by tracker id (or on a content comparison, for edits of an already imported comment), and tags what it creates with the tracker event id under the key the look-up uses; (R16.3) every GitLab API call's error is reported (error event, error channel or return) and on its error edge the listing stops without touching the response; (R16.4) every title/message/label handed to a creating call comes out of text.Cleanup/CleanupOneLine; (R16.5) every event kind constant is handled or leads to an error.",
		[]string{"go-gitlab returns a non-nil error for failed requests", "behaviour against an actual tracker history, ordering of SortedEvents, and the GitHub/Jira/Launchpad importers are not decided"},
		runC16)
}

func runC16(c *Ctx) {
	checkImportCursor(c)
	checkLookupBeforeCreate(c)
	checkGitlabAPIErrors(c)
	checkImportedTextClean(c)
	checkEventKindsHandled(c)
	checkCursorFieldAndFailureSeverity(c)
	checkCleanupAgreesWithSafe(c)
	checkEarlyStopIsError(c)
	checkListingStableAndEventIds(c)
	checkNoteKindSystemFirst(c)
	checkGithubStickyErrorAndTitle(c)
	checkIdentityFoundByWhatWasStored(c, "R16.16")
	checkErrorAssertionsLive(c, "R16.17")
	checkImportersForceLabelChanges(c, "R16.18")
	checkSinceSelectsIssuesOnly(c, "R16.19")
	checkGitlabEventsNotComparedWithState(c, "R16.20")
}

// R16.1
func checkImportCursor(c *Ctx) {
	w := c.W
	c.Doc("R16.1", "Bridge.ImportAllSince: StoreTimestamp(lastImportTime) is control dependent on the 'no error' flag only, the flag is cleared for every relayed event whose kind is ImportEventError, every event is relayed, and the stored time is time.Now() taken before importer.ImportAll is called")
	fn := w.Method("bridge/core", "Bridge", "ImportAllSince")
	if fn == nil {
		c.Undecided("R16.1", "anchor:Bridge.ImportAllSince", "bridge/core", "not found")
		return
	}
	var body *ssa.Function
	for _, a := range fn.AnonFuncs {
		body = a
	}
	if body == nil {
		c.Undecided("R16.1", "Bridge.ImportAllSince:goroutine", w.FnPos(fn), "no relay goroutine found")
		return
	}
	c.seeFn(funcName(body))
	var store *Call
	for _, cl := range Calls(body) {
		if strings.HasSuffix(cl.Name, ".StoreTimestamp") {
			store = cl
		}
	}
	if store == nil {
		c.Violate("R16.1", "ImportAllSince:cursor-stored", w.FnPos(body), "the last-import time is never stored: every import starts from scratch")
		return
	}
	c.Sites++
	var flag *ssa.Phi
	okGuard := false
	other := ""
	for _, cc := range controlConds(store.Block(), nil) {
		if isLoopHeader(cc.If.Block()) {
			continue
		}
		if phi, isPhi := cc.If.Cond.(*ssa.Phi); isPhi && cc.Edge == 0 {
			flag = phi
			okGuard = true
			continue
		}
		other = w.InstrPos(cc.If)
	}
	c.Check(okGuard && other == "", "R16.1", "ImportAllSince:cursor-only-if-no-error", w.InstrPos(store.Instr), "the cursor is stored only on the 'no error' edge", "the last-import cursor is stored although an error event may have been relayed (or under an unrelated condition "+other+"): events missed by the failed run are skipped for good")
	if flag != nil {
		// the flag becomes false exactly under Event == ImportEventError
		okClear := false
		seen := map[*ssa.Phi]bool{}
		var walk func(p *ssa.Phi)
		walk = func(p *ssa.Phi) {
			if seen[p] {
				return
			}
			seen[p] = true
			for i, e := range p.Edges {
				if k, isK := e.(*ssa.Const); isK && k.Value != nil && k.Value.String() == "false" {
					from := p.Block().Preds[i]
					errConst := int64(-1)
					if cst, ok := w.Pkg("bridge/core").Types.Scope().Lookup("ImportEventError").(*types.Const); ok {
						if v, ok := constantInt(cst); ok {
							errConst = v
						}
					}
					hdr := enclosingLoopHeader(from)
					var stop *ssa.BasicBlock
					if hdr != nil {
						stop = hdr.Idom()
					}
					conds := controlConds(from, stop)
					nOther, nErr := 0, 0
					for _, cc := range conds {
						if isLoopHeader(cc.If.Block()) {
							continue
						}
						bo, isBo := cc.If.Cond.(*ssa.BinOp)
						isErrTest := false
						if isBo && bo.Op == token.EQL && cc.Edge == 0 {
							if kk, isKK := constInt(bo.Y); isKK && kk == errConst && hasField(bo.X, "Event") {
								isErrTest = true
							}
						}
						if isErrTest {
							nErr++
						} else {
							nOther++
						}
					}
					if nErr == 1 && nOther == 0 {
						okClear = true
					}
				}
				if pp, isP := e.(*ssa.Phi); isP {
					walk(pp)
				}
			}
		}
		walk(flag)
		c.Check(okClear, "R16.1", "ImportAllSince:error-event-clears-flag", w.FnPos(body), "an error event clears the 'no error' flag", "relayed error events do not clear the flag guarding the cursor")
		// initial value true
		initTrue := false
		for _, e := range flag.Edges {
			if k, isK := e.(*ssa.Const); isK && k.Value != nil && k.Value.String() == "true" {
				initTrue = true
			}
		}
		c.Check(initTrue, "R16.1", "ImportAllSince:flag-starts-true", w.FnPos(body), "flag starts true", "the flag guarding the cursor does not start as 'no error'")
	}
	// every event is relayed
	okRelay := false
	for _, b := range body.Blocks {
		for _, ins := range b.Instrs {
			if snd, isSnd := ins.(*ssa.Send); isSnd && unconditionalInLoop(w, snd) == "" && enclosingLoopHeader(b) != nil {
				okRelay = true
			}
		}
	}
	c.Check(okRelay, "R16.1", "ImportAllSince:relays-every-event", w.FnPos(body), "every importer event is relayed", "importer events are not all relayed to the caller")
	// the stored time was taken before the import started
	okTime := false
	for _, o := range origins(store.Args()[1]) {
		if o.Kind == "freevar" {
			// bound in the enclosing function: a value derived from time.Now() computed before ImportAll is called
			for _, cl := range Calls(fn) {
				if cl.Name == "time.Now" {
					for _, imp := range Calls(fn) {
						if strings.HasSuffix(imp.Name, "Importer.ImportAll") && instrDominates(cl.Instr, imp.Instr) {
							okTime = true
						}
					}
				}
			}
		}
	}
	c.Check(okTime, "R16.1", "ImportAllSince:time-before-import", w.InstrPos(store.Instr), "the cursor is the time taken before the import started", "the stored cursor is not a time taken before the import started: events arriving during the run are skipped by the next one")
}

// R16.2
func checkLookupBeforeCreate(c *Ctx) {
	w := c.W
	c.Doc("R16.2", "bridge/gitlab: every creating call (BugCache.*Raw, RepoCacheBug.NewRaw, RepoCacheIdentity.NewRaw) is control dependent on the failure of the matching look-up (ResolveOperationWithMetadata / ResolveMatcher / ResolveIdentityImmutableMetadata) or on a content comparison; its metadata carries the tracker id under metaKeyGitlabId")
	idKey, _ := pkgConstString(w, "bridge/gitlab", "metaKeyGitlabId")
	lookups := map[string]bool{
		"cache.CachedEntityBase.ResolveOperationWithMetadata": true, "cache.SubCache.ResolveMatcher": true,
		"cache.RepoCacheIdentity.ResolveIdentityImmutableMetadata": true, "cache.RepoCacheBug.ResolveBugCreateMetadata": true,
	}
	n := 0
	for _, fn := range w.ModFns {
		if isInstance(fn) || fnPkgPath(fn) != modPath+"/bridge/gitlab" || w.isTestHelper(fn) {
			continue
		}
		var lookErrs []ssa.Value
		for _, cl := range Calls(fn) {
			if lookups[cl.Name] && cl.Value() != nil {
				lookErrs = append(lookErrs, errValues(cl.Value())...)
			}
		}
		for _, cl := range Calls(fn) {
			recv, m := lastDot(cl.Name)
			isCreate := (recv == "cache.BugCache" && strings.HasSuffix(m, "Raw")) || cl.Name == "cache.RepoCacheBug.NewRaw" || cl.Name == "cache.RepoCacheIdentity.NewRaw"
			if !isCreate {
				continue
			}
			n++
			c.Sites++
			c.seeFn(funcName(fn))
			key := fmt.Sprintf("%s→%s@%s", funcName(fn), m, caseLabel(w, cl))
			guarded, why := false, ""
			lookupGuarded := false
			for _, cc := range controlConds(cl.Block(), nil) {
				bo, isBo := cc.If.Cond.(*ssa.BinOp)
				if !isBo {
					continue
				}
				op := bo.Op
				if cc.Edge == 1 {
					op = negateOp(op)
				}
				for _, le := range lookErrs {
					var other ssa.Value
					if bo.X == le {
						other = bo.Y
					} else if bo.Y == le {
						other = bo.X
					} else {
						continue
					}
					if isNilConst(other) && op == token.NEQ {
						guarded, why = true, "only when the look-up by tracker id failed"
						lookupGuarded = true
					}
					if u, isU := other.(*ssa.UnOp); isU && op == token.EQL {
						if _, isG := u.X.(*ssa.Global); isG {
							guarded, why = true, "only when the look-up reported 'no matching operation'"
							lookupGuarded = true
						}
					}
				}
				// content comparison for edits of an imported comment
				if !guarded && strings.HasPrefix(m, "EditComment") && op == token.NEQ && isStringType(bo.X.Type()) {
					if hasField(bo.X, "Message") || hasField(bo.Y, "Message") {
						guarded, why = true, "only when the imported text differs from the tracker's"
					}
				}
			}
			// IsErrNotFound style guards (ensureIssue): the continuing edge of "err == nil → return"
			if !guarded {
				for _, le := range lookErrs {
					nn, _ := nilTests(le)
					for _, b := range nn {
						if edgeExclusive(b.Block(), b.If.Block()) && b.Block().Dominates(cl.Block()) {
							guarded, why = true, "only when the look-up failed"
						}
					}
				}
			}
			if strings.HasPrefix(m, "EditComment") {
				// an edit is created iff the text that would be stored differs from the text held: the
				// comparison is between the very value handed to the call and the Message of the comment edited
				okCmp, whyCmp := false, "the edit is not conditional on a comparison of the stored message with the text it would store"
				args := cl.Args()
				if len(args) >= 4 {
					msg, target := args[3], args[2]
					for _, cc := range controlConds(cl.Block(), nil) {
						bo, isBo := cc.If.Cond.(*ssa.BinOp)
						if !isBo || !isStringType(bo.X.Type()) {
							continue
						}
						op := bo.Op
						if cc.Edge == 1 {
							op = negateOp(op)
						}
						if op != token.NEQ {
							continue
						}
						var held ssa.Value
						switch {
						case bo.X == msg:
							held = bo.Y
						case bo.Y == msg:
							held = bo.X
						default:
							if hasField(bo.X, "Message") || hasField(bo.Y, "Message") {
								whyCmp = "the stored message is compared at " + w.InstrPos(bo) + " with another text than the one the edit stores (e.g. the raw tracker text instead of the cleaned one): whenever cleaning changes the text, every later import adds another edit"
							}
							continue
						}
						if !hasField(held, "Message") {
							continue
						}
						// same comment: target id is CombinedId() of the comment whose Message is compared
						cmtOf := func(v ssa.Value) ssa.Value {
							if base, f, ok := loadOfField(v); ok && f == "Message" {
								return base
							}
							return nil
						}
						hc := cmtOf(held)
						same := false
						if tc, isCall := target.(*ssa.Call); isCall && hc != nil {
							if tn, _ := callName(tc.Common()); strings.HasSuffix(tn, "Comment.CombinedId") && len(tc.Common().Args) == 1 {
								recv := tc.Common().Args[0]
								if recv == hc {
									same = true
								}
								if ld, isLd := recv.(*ssa.UnOp); isLd && ld.X == hc {
									same = true
								}
							}
						}
						if same {
							okCmp = true
						} else {
							whyCmp = "the comment edited is not the comment whose message was compared"
						}
					}
				}
				c.Check(okCmp, "R16.2", key+":edit-iff-differs", w.InstrPos(cl.Instr), "an edit is created only when the text it stores differs from the message held by the comment it edits", whyCmp)
			}
			if strings.HasPrefix(m, "EditCreateComment") {
				// the edit of the first comment is created iff the text it stores differs from the text the first
				// comment holds NOW (the snapshot's comment), not from the text the bug was created with
				okCmp, whyCmp := false, "the edit of the first comment is not conditional on a comparison of its current message with the text it would store"
				args := cl.Args()
				if len(args) >= 3 {
					msg := args[2]
					for _, cc := range controlConds(cl.Block(), nil) {
						bo, isBo := cc.If.Cond.(*ssa.BinOp)
						if !isBo || !isStringType(bo.X.Type()) {
							continue
						}
						op := bo.Op
						if cc.Edge == 1 {
							op = negateOp(op)
						}
						if op != token.NEQ {
							continue
						}
						var held ssa.Value
						switch {
						case bo.X == msg:
							held = bo.Y
						case bo.Y == msg:
							held = bo.X
						default:
							continue
						}
						base, f, isF := loadOfField(held)
						if !isF || f != "Message" {
							continue
						}
						bt := base.Type()
						if p, isP := bt.Underlying().(*types.Pointer); isP {
							bt = p.Elem()
						}
						if strings.HasSuffix(typeShortName(bt), "bug.Comment") {
							okCmp = true
						} else {
							whyCmp = "the text to store is compared at " + w.InstrPos(bo) + " with the Message of a " + typeShortName(bt) + " (the text the bug was created with), not with the current message of the first comment: a description changed back to its original text records nothing, and two changes between two imports record the last one twice"
						}
					}
				}
				c.Check(okCmp, "R16.2", key+":edit-iff-differs", w.InstrPos(cl.Instr), "the first comment is edited only when the text stored differs from the message it holds now", whyCmp)
			}
			c.Check(guarded, "R16.2", key+":lookup-first", w.InstrPos(cl.Instr), why, "the operation/entity is created without consulting the look-up by tracker id: importing the same tracker state again creates it again")
			// metadata tag
			if strings.HasPrefix(m, "EditComment") && !strings.Contains(key, "DescriptionChanged") {
				// an edit of an already imported comment is found by content, not by id
				if args := cl.Args(); len(args) > 0 && isNilConst(args[len(args)-1]) {
					continue
				}
			}
			if strings.HasPrefix(m, "EditComment") && !lookupGuarded {
				// created on the path where the look-up by tracker id FOUND the event's operation: tagging the
				// edit with the same id gives two operations one id, and the look-up (which demands a single
				// match) fails on every later import
				args := cl.Args()
				dup := false
				if len(args) > 0 {
					for _, r := range referrersOf(args[len(args)-1]) {
						if mu, isMU := r.(*ssa.MapUpdate); isMU {
							if s, isS := constString(mu.Key); isS && s == idKey {
								dup = true
							}
						}
					}
				}
				c.Check(!dup, "R16.2", key+":one-operation-per-tracker-id", w.InstrPos(cl.Instr), "the edit of an already imported comment does not reuse the comment's tracker id", "the edit of an already imported comment is tagged with the tracker id its comment already carries: from then on the look-up by that id finds two operations and fails ('multiple matching operation'), every later round reports an error and the cursor never advances again")
				continue
			}
			args := cl.Args()
			tagged := false
			if len(args) > 0 {
				meta := args[len(args)-1]
				for _, r := range referrersOf(meta) {
					if mu, isMU := r.(*ssa.MapUpdate); isMU {
						if s, isS := constString(mu.Key); isS && s == idKey {
							tagged = true
						}
					}
				}
			}
			c.Check(tagged, "R16.2", key+":tagged", w.InstrPos(cl.Instr), "tagged with "+idKey, "what is created is not tagged with the tracker id ("+idKey+"): the next import cannot recognise it and creates it again")
		}
	}
	if n < 8 {
		c.Violate("R16.2", "expected:creating-calls", "bridge/gitlab", fmt.Sprintf("%d creating calls found in the GitLab importer (reference 10)", n))
	}
}

func referrersOf(v ssa.Value) []ssa.Instruction {
	if r := v.Referrers(); r != nil {
		return *r
	}
	return nil
}

// caseLabel: name of the EventKind constant whose switch case contains the call (for stable keys)
func caseLabel(w *World, cl *Call) string {
	p := w.Pkg("bridge/gitlab")
	for _, cc := range controlConds(cl.Block(), nil) {
		bo, isBo := cc.If.Cond.(*ssa.BinOp)
		if !isBo || bo.Op != token.EQL || cc.Edge != 0 {
			continue
		}
		k, isK := constInt(bo.Y)
		if !isK || typeShortName(bo.X.Type()) != "bridge/gitlab.EventKind" {
			continue
		}
		for _, n := range p.Types.Scope().Names() {
			if cst, ok := p.Types.Scope().Lookup(n).(*types.Const); ok && typeShortName(cst.Type()) == "bridge/gitlab.EventKind" {
				if v, ok := constantInt(cst); ok && v == k {
					return n
				}
			}
		}
	}
	return "-"
}

// R16.3
func checkGitlabAPIErrors(c *Ctx) {
	w := c.W
	c.Doc("R16.3", "every go-gitlab client call in bridge/gitlab: on the error edge the error is sent (ErrorEvent / error channel) or returned, and no field of the response value is read before the function returns")
	n := 0
	for _, fn := range w.ModFns {
		if isInstance(fn) || fnPkgPath(fn) != modPath+"/bridge/gitlab" || w.isTestHelper(fn) {
			continue
		}
		for _, cl := range Calls(fn) {
			if !strings.HasPrefix(cl.Name, "github.com/xanzy/go-gitlab.") || cl.Value() == nil || len(errValues(cl.Value())) == 0 {
				continue
			}
			_, m := lastDot(cl.Name)
			if !strings.HasPrefix(m, "List") && !strings.HasPrefix(m, "Get") {
				continue
			}
			// only the import side
			root := fn
			for root.Parent() != nil {
				root = root.Parent()
			}
			rn := funcName(root)
			if !(strings.HasSuffix(rn, ".Issues") || strings.HasSuffix(rn, ".Notes") || strings.HasSuffix(rn, ".LabelEvents") || strings.HasSuffix(rn, ".StateEvents") || strings.Contains(rn, "gitlabImporter")) {
				continue
			}
			n++
			c.Sites++
			c.seeFn(funcName(fn))
			key := funcName(fn)
			fbs := failureBlocks(cl.Value())
			ev := errValues(cl.Value())[0]
			reported := false
			// returned
			for _, r := range referrersOf(ev) {
				if _, isRet := r.(*ssa.Return); isRet {
					reported = true
				}
			}
			for _, fb := range fbs {
				for _, ins := range fb.Instrs {
					switch x := ins.(type) {
					case *ssa.Send:
						// the error value flows into what is sent
						if x.X == ev || valueMentions(x.X, ev, 0) {
							reported = true
						}
					case *ssa.Return:
						for _, res := range x.Results {
							if res == ev {
								reported = true
							}
						}
					}
				}
			}
			c.Check(reported && len(fbs) > 0 || reported, "R16.3", key+":error-reported", w.InstrPos(cl.Instr), "the API error is reported", "the error of "+cl.Name+" is dropped: the import ends without an error event, the cursor advances and what was not listed is skipped for good")
			// use after error
			var respVals []ssa.Value
			for _, rv := range resultValues(cl.Value(), 1) {
				respVals = append(respVals, rv)
			}
			bad := ""
			for _, fb := range fbs {
				if hit, p, at := pathSearch(fn, nil, fb, func(i ssa.Instruction) bool {
					fa, isFA := i.(*ssa.FieldAddr)
					if !isFA {
						return false
					}
					for _, rv := range respVals {
						if fa.X == rv {
							return true
						}
					}
					return false
				}, isAnyReturn, false); hit {
					bad = "field of the response read at " + w.InstrPos(at) + " on the error path " + blocksString(w, p)
				}
			}
			c.Check(bad == "", "R16.3", key+":no-use-after-error", w.InstrPos(cl.Instr), "the response is not touched on the error path", "after "+cl.Name+" failed the response is still used ("+bad+"): it is nil when the request itself failed — nil dereference")
		}
	}
	if n < 5 {
		c.Violate("R16.3", "expected:api-calls", "bridge/gitlab", fmt.Sprintf("%d GitLab API calls found on the import side (reference 5)", n))
	}
	// the importer relays listing errors: ImportAll reads the Issues error channel, and ErrorEvents become import errors
	ia := w.Method("bridge/gitlab", "gitlabImporter", "ImportAll")
	if ia != nil {
		okErrChan, okErrEvent := false, false
		for _, body := range importerBodies(ia)[1:] {
			for _, b := range body.Blocks {
				for _, ins := range b.Instrs {
					if u, isU := ins.(*ssa.UnOp); isU && u.Op == token.ARROW {
						if hasOriginCall(u.X, "bridge/gitlab.Issues", 1) != nil {
							// its value leads to an import error
							okErrChan = true
						}
					}
					if ta, isTA := ins.(*ssa.TypeAssert); isTA && ta.CommaOk && typeShortName(ta.AssertedType) == "bridge/gitlab.ErrorEvent" {
						okErrEvent = true
					}
				}
			}
		}
		c.Check(okErrChan, "R16.3", "gitlabImporter.ImportAll:listing-error-relayed", w.FnPos(ia), "the issue-listing error is turned into an import error", "the importer does not look at the error of the issue listing")
		c.Check(okErrEvent, "R16.3", "gitlabImporter.ImportAll:event-errors-relayed", w.FnPos(ia), "ErrorEvents become import errors", "ErrorEvents of the event listings are not turned into import errors")
	}
}

func valueMentions(v, target ssa.Value, depth int) bool {
	if v == target {
		return true
	}
	if depth > 4 {
		return false
	}
	switch x := v.(type) {
	case *ssa.MakeInterface:
		return valueMentions(x.X, target, depth+1)
	case *ssa.UnOp:
		if al, ok := x.X.(*ssa.Alloc); ok {
			for _, r := range *al.Referrers() {
				if fa, ok := r.(*ssa.FieldAddr); ok {
					for _, r2 := range *fa.Referrers() {
						if st, ok := r2.(*ssa.Store); ok && valueMentions(st.Val, target, depth+1) {
							return true
						}
					}
				}
				if st, ok := r.(*ssa.Store); ok && st.Addr == al && valueMentions(st.Val, target, depth+1) {
					return true
				}
			}
		}
	case *ssa.Call:
		for _, a := range x.Common().Args {
			if valueMentions(a, target, depth+1) {
				return true
			}
		}
	}
	return false
}

// R16.4
func checkImportedTextClean(c *Ctx) {
	w := c.W
	c.Doc("R16.4", "bridge/gitlab: title, message and label arguments of creating calls originate from text.Cleanup / text.CleanupOneLine (label names are cleaned where label events are produced)")
	textArgs := map[string][]int{ // callee -> argument indexes holding tracker text
		"cache.RepoCacheBug.NewRaw":           {2, 3},
		"cache.BugCache.AddCommentRaw":        {2},
		"cache.BugCache.EditCommentRaw":       {3},
		"cache.BugCache.ForceChangeLabelsRaw": {2, 3},
		"cache.BugCache.ChangeLabelsRaw":      {2, 3},
	}
	isClean := func(v ssa.Value) (bool, string) {
		for _, o := range origins(v) {
			switch {
			case o.Kind == "const":
			case o.Kind == "call" && (o.Name == "util/text.Cleanup" || o.Name == "util/text.CleanupOneLine" || o.Name == "util/text.CleanupOneLineArray"):
			case o.Kind == "field" && o.Name == "Name":
				// label name of a LabelEvent: cleaned by the producer (checked below)
			default:
				return false, o.String()
			}
		}
		return true, ""
	}
	n := 0
	for _, fn := range w.ModFns {
		if isInstance(fn) || fnPkgPath(fn) != modPath+"/bridge/gitlab" || w.isTestHelper(fn) {
			continue
		}
		for _, cl := range Calls(fn) {
			idxs, ok := textArgs[cl.Name]
			if !ok {
				continue
			}
			args := cl.Args()
			for _, i := range idxs {
				if i >= len(args) || isNilConst(args[i]) {
					continue
				}
				n++
				c.Sites++
				vals := []ssa.Value{args[i]}
				if _, isSlice := args[i].Type().Underlying().(*types.Slice); isSlice {
					vals = sliceElementValues(args[i])
				}
				okAll, bad := true, ""
				for _, v := range vals {
					if ok2, why := isClean(v); !ok2 {
						okAll, bad = false, why
					}
				}
				_, m := lastDot(cl.Name)
				c.Check(okAll, "R16.4", fmt.Sprintf("%s→%s@%s:arg%d", funcName(fn), m, caseLabel(w, cl), i), w.InstrPos(cl.Instr), "text passes through text.Cleanup*", "tracker text reaches "+m+" without text.Cleanup* ("+bad+"): hostile or odd text makes the operation invalid, the import fails on it every time")
			}
		}
	}
	if n < 5 {
		c.Violate("R16.4", "expected:text-arguments", "bridge/gitlab", fmt.Sprintf("%d text arguments found (reference 7)", n))
	}
	// label names cleaned by the producer
	le := w.Func("bridge/gitlab", "LabelEvents")
	if le != nil {
		ok := false
		for _, body := range le.AnonFuncs {
			for _, b := range body.Blocks {
				for _, ins := range b.Instrs {
					if st, isSt := ins.(*ssa.Store); isSt {
						if fa, isFA := st.Addr.(*ssa.FieldAddr); isFA && fieldName(fa) == "Name" {
							if hasOriginCall(st.Val, "util/text.CleanupOneLine", -1) != nil {
								ok = true
							}
						}
					}
				}
			}
		}
		c.Check(ok, "R16.4", "bridge/gitlab.LabelEvents:label-name-cleaned", w.FnPos(le), "label names are cleaned when label events are produced", "label names are handed on as the tracker holds them")
	}
}

// R16.5
func checkEventKindsHandled(c *Ctx) {
	w := c.W
	c.Doc("R16.5", "gitlabImporter.ensureIssueEvent compares event.Kind() with every EventKind constant (EventUnknown/EventError excepted, they fall to the error default), and the default arm returns an error")
	fn := w.Method("bridge/gitlab", "gitlabImporter", "ensureIssueEvent")
	if fn == nil {
		c.Undecided("R16.5", "anchor:gitlabImporter.ensureIssueEvent", "bridge/gitlab", "not found")
		return
	}
	c.seeFn(funcName(fn))
	handled := map[int64]bool{}
	for _, b := range fn.Blocks {
		for _, ins := range b.Instrs {
			if bo, isBo := ins.(*ssa.BinOp); isBo && bo.Op == token.EQL && typeShortName(bo.X.Type()) == "bridge/gitlab.EventKind" {
				if k, isK := constInt(bo.Y); isK {
					handled[k] = true
				}
			}
		}
	}
	p := w.Pkg("bridge/gitlab")
	var missing []string
	n := 0
	for _, name := range p.Types.Scope().Names() {
		cst, ok := p.Types.Scope().Lookup(name).(*types.Const)
		if !ok || typeShortName(cst.Type()) != "bridge/gitlab.EventKind" {
			continue
		}
		n++
		c.Sites++
		v, _ := constantInt(cst)
		if !handled[v] && name != "EventUnknown" && name != "EventError" {
			missing = append(missing, name)
		}
	}
	sort.Strings(missing)
	// unhandled kinds must end in the error default: the function has an error return not control dependent on any handled case
	hasDefaultErr := false
	for _, r := range Returns(fn) {
		if returnKind(r) != RetError {
			continue
		}
		isDefault := true
		for _, cc := range controlConds(r.Block(), nil) {
			if bo, isBo := cc.If.Cond.(*ssa.BinOp); isBo && typeShortName(bo.X.Type()) == "bridge/gitlab.EventKind" && cc.Edge == 0 {
				isDefault = false
			}
			if _, isBo := cc.If.Cond.(*ssa.BinOp); !isBo {
				continue
			}
		}
		if isDefault {
			if _, isCall := ReturnResult(r, 0).(*ssa.Call); isCall {
				hasDefaultErr = true
			}
		}
	}
	c.Check(len(missing) == 0 || hasDefaultErr, "R16.5", "ensureIssueEvent:kinds", w.FnPos(fn), fmt.Sprintf("%d kinds, unhandled ones end in an error", n), "event kinds "+strings.Join(missing, ", ")+" are neither handled nor refused")
	if len(missing) > 0 {
		c.Info("R16.5", "ensureIssueEvent:kinds-to-default", w.FnPos(fn), "kinds falling to the error default: "+strings.Join(missing, ", "))
	}
}

// R16.6: the cursor selects by update time. R16.7: failures inside the importer are errors.
func checkCursorFieldAndFailureSeverity(c *Ctx) {
	w := c.W
	c.Doc("R16.6", "gitlab.Issues hands the 'since' cursor to the listing as UpdatedAfter (issues changed since the last import), and to no other filter: an incremental import sees new activity on issues imported earlier")
	c.Doc("R16.7", "in gitlabImporter.ImportAll every failure of ensureIssue / ensureIssueEvent / Commit and every error event of the listings is relayed as core.NewImportError (the kind that keeps the cursor from advancing), never as a warning or a 'nothing' result")
	// R16.6
	var issuesBody *ssa.Function
	if is := w.Func("bridge/gitlab", "Issues"); is != nil {
		issuesBody = is
		for _, a := range is.AnonFuncs {
			if len(CallsDeep(a)) > 0 {
				issuesBody = a
			}
		}
		c.seeFn(funcName(is))
		var since ssa.Value
		for _, p := range is.Params {
			if strings.HasSuffix(p.Type().String(), "time.Time") {
				since = p
			}
		}
		okUpd, bad := false, ""
		scan := func(fn *ssa.Function) {
			for _, b := range fn.Blocks {
				for _, ins := range b.Instrs {
					st, isSt := ins.(*ssa.Store)
					if !isSt {
						continue
					}
					fa, isFA := st.Addr.(*ssa.FieldAddr)
					if !isFA || !strings.Contains(typeShortName(fa.X.Type()), "ListProjectIssuesOptions") {
						continue
					}
					c.Sites++
					// is the stored value (the address of) the since cursor?
					isSince := false
					for _, o := range origins(st.Val) {
						if (o.Kind == "param" || o.Kind == "freevar") && since != nil && (o.Val == since || o.Name == since.Name()) {
							isSince = true
						}
					}
					if al, isAl := st.Val.(*ssa.Alloc); isAl {
						for _, r := range *al.Referrers() {
							if s2, isS2 := r.(*ssa.Store); isS2 && s2.Addr == ssa.Value(al) && s2.Val == since {
								isSince = true
							}
						}
					}
					if fv, isFV := st.Val.(*ssa.FreeVar); isFV && since != nil && fv.Name() == since.Name() {
						isSince = true
					}
					if !isSince {
						continue
					}
					if fieldName(fa) == "UpdatedAfter" {
						okUpd = true
					} else {
						bad = fieldName(fa)
					}
				}
			}
		}
		scan(is)
		for _, a := range is.AnonFuncs {
			scan(a)
		}
		why := "the cursor is not handed to the issue listing as UpdatedAfter"
		if bad != "" {
			why = "the cursor is handed to the issue listing as " + bad + ": issues imported earlier are never listed again, their new comments, labels, edits and state changes are never imported, without any error"
		}
		c.Check(okUpd && bad == "", "R16.6", "bridge/gitlab.Issues:cursor-is-updated-after", w.FnPos(is), "since → UpdatedAfter", why)
	} else {
		c.Undecided("R16.6", "anchor:bridge/gitlab.Issues", "bridge/gitlab", "not found")
	}
	_ = issuesBody
	// R16.7
	ia := w.Method("bridge/gitlab", "gitlabImporter", "ImportAll")
	if ia == nil {
		c.Undecided("R16.7", "anchor:gitlabImporter.ImportAll", "bridge/gitlab", "not found")
		return
	}
	n := 0
	for _, body := range importerBodies(ia) {
		for _, cl := range Calls(body) {
			isEnsure := strings.HasPrefix(cl.Name, "bridge/gitlab.gitlabImporter.ensure") || strings.HasSuffix(cl.Name, ".Commit")
			if !isEnsure || cl.Value() == nil || len(errValues(cl.Value())) == 0 {
				continue
			}
			n++
			c.Sites++
			_, m := lastDot(cl.Name)
			ok, why := false, "the failure of "+m+" is not relayed"
			for _, fb := range failureBlocksThroughPhi(cl.Value()) {
				// the first send on the out channel reachable from the failure edge carries a NewImportError
				found, _, at := pathSearch(body, nil, fb, func(i ssa.Instruction) bool {
					_, isSend := i.(*ssa.Send)
					return isSend
				}, isAnyReturn, true)
				if !found {
					continue
				}
				snd := at.(*ssa.Send)
				kind := ""
				for _, o := range origins(snd.X) {
					if o.Kind == "call" && strings.HasPrefix(o.Name, "bridge/core.NewImport") {
						kind = strings.TrimPrefix(o.Name, "bridge/core.")
					}
				}
				if kind == "NewImportError" {
					ok = true
				} else {
					why = "the failure of " + m + " is relayed as " + kind + " at " + w.InstrPos(snd) + ": the round counts as clean, the cursor advances and what could not be imported is skipped for good"
				}
			}
			c.Check(ok, "R16.7", "gitlabImporter.ImportAll:"+m+":failure-is-error", w.InstrPos(cl.Instr), "relayed as NewImportError", why)
		}
	}
	if n < 3 {
		c.Violate("R16.7", "expected:importer-steps", w.FnPos(ia), fmt.Sprintf("%d fallible importer steps found in ImportAll (reference 3: ensureIssue, ensureIssueEvent, Commit)", n))
	}
}

// R16.8: what the importer's cleaning leaves is what validation accepts. The importer cleans tracker
// text with text.Cleanup / CleanupOneLine; the operations' Validate refuses text that text.Safe /
// SafeOneLine rejects. If a rune survives the cleaning and is rejected by the validation, a healthy
// tracker containing it makes every round fail (and the cursor is never stored).
func checkCleanupAgreesWithSafe(c *Ctx) {
	w := c.W
	c.Doc("R16.8", "util/text: for every rune of U+0000–U+02FF and representatives of the other classes, evaluated on the SSA of the functions themselves (unicode.IsControl/IsPrint/IsSpace/IsGraphic computed natively): a rune that the predicate handed to runes.Remove in Cleanup (CleanupOneLine) keeps is accepted by Safe (SafeOneLine)")
	ext := map[string]func(args []fval) (fval, error){}
	for name, f := range map[string]func(rune) bool{"unicode.IsControl": unicode.IsControl, "unicode.IsPrint": unicode.IsPrint, "unicode.IsSpace": unicode.IsSpace, "unicode.IsGraphic": unicode.IsGraphic, "unicode.IsLetter": unicode.IsLetter, "unicode.IsDigit": unicode.IsDigit} {
		f := f
		ext[name] = func(a []fval) (fval, error) {
			if len(a) != 1 || a[0].k != fInt {
				return fval{}, fmt.Errorf("unexpected arguments")
			}
			return fval{k: fBool, b: f(rune(a[0].i))}, nil
		}
	}
	var runesToTry []rune
	for r := rune(0); r <= 0x2FF; r++ {
		runesToTry = append(runesToTry, r)
	}
	runesToTry = append(runesToTry, 0x200B, 0x200E, 0x2028, 0x2029, 0x202E, 0x3000, 0xD7FF, 0xE000, 0xFEFF, 0xFFFD, 0xFFFE, 0x1F600, 0xE0001, 0x10FFFF)
	for _, pair := range [][2]string{{"Cleanup", "Safe"}, {"CleanupOneLine", "SafeOneLine"}} {
		key := "text." + pair[0] + "⊆" + pair[1]
		cf, sf := w.Func("util/text", pair[0]), w.Func("util/text", pair[1])
		if cf == nil || sf == nil {
			c.Undecided("R16.8", "anchor:"+key, "util/text", "not found")
			continue
		}
		c.seeFn(funcName(cf))
		c.seeFn(funcName(sf))
		// the predicate handed to runes.Remove
		var pred *ssa.Function
		for _, cl := range Calls(cf) {
			if !strings.HasSuffix(cl.Name, "text/runes.Remove") || len(cl.Args()) != 1 {
				continue
			}
			arg := cl.Args()[0]
			if pc, isCall := arg.(*ssa.Call); isCall {
				if n, _ := callName(pc.Common()); strings.HasSuffix(n, "text/runes.Predicate") && len(pc.Common().Args) == 1 {
					arg = pc.Common().Args[0]
				}
			}
			for _, o := range origins(arg) {
				switch o.Kind {
				case "closure":
					if mc, ok := o.Val.(*ssa.MakeClosure); ok && len(mc.Bindings) == 0 {
						pred, _ = mc.Fn.(*ssa.Function)
					}
				case "func":
					pred, _ = o.Val.(*ssa.Function)
				}
			}
		}
		if pred == nil {
			c.Info("R16.8", key, w.FnPos(cf), "no rune predicate handed to runes.Remove found: the cleaning is not interpreted")
			continue
		}
		evalPred := func(r rune) (bool, error) {
			if e, isExt := ext[pred.String()]; isExt {
				v, err := e([]fval{{k: fInt, i: int64(r)}})
				return v.b, err
			}
			env := &fenv{concrete: true, extern: ext, cells: map[int]*fval{}}
			rs, err := env.run(pred, []fval{{k: fInt, i: int64(r)}}, 0)
			if err != nil || len(rs) != 1 {
				return false, fmt.Errorf("predicate not evaluable: %v", err)
			}
			return rs[0].b, nil
		}
		bad, undec, over := "", "", ""
		for _, r := range runesToTry {
			c.Sites++
			removed, err := evalPred(r)
			if err != nil {
				undec = err.Error()
				break
			}
			env := &fenv{concrete: true, extern: ext, cells: map[int]*fval{}}
			rs, err := env.run(sf, []fval{{k: fStr, rs: []rune{r}}}, 0)
			if err != nil || len(rs) != 1 {
				undec = fmt.Sprintf("%s not evaluable: %v", pair[1], err)
				break
			}
			if !removed && !rs[0].b && bad == "" {
				bad = fmt.Sprintf("U+%04X survives %s and is rejected by %s", r, pair[0], pair[1])
			}
			if removed && rs[0].b && over == "" {
				over = fmt.Sprintf("U+%04X is removed by %s although %s accepts it", r, pair[0], pair[1])
			}
		}
		if undec != "" {
			c.Info("R16.8", key, w.FnPos(cf), "not interpreted: "+undec)
			continue
		}
		c.Check(over == "", "R16.8", "text."+pair[0]+"-removes-only-what-"+pair[1]+"-rejects", w.FnPos(cf), fmt.Sprintf("%d runes: nothing that %s accepts is removed", len(runesToTry), pair[1]),
			over+": text that is valid as typed (no-break and ideographic spaces, joiners inside emoji and Persian or Indic words, soft hyphens) is silently altered before it is recorded — the stored operation is not the requested change")
		c.Check(bad == "", "R16.8", key, w.FnPos(cf), fmt.Sprintf("%d runes: every rune %s keeps is accepted by %s", len(runesToTry), pair[0], pair[1]),
			bad+": tracker text containing it is cleaned, then refused by the operation's validation ('not fully printable') — the import of a healthy tracker reports an error on every round and the cursor is never stored")
	}
}

// R16.9: a round that stops before the listing is exhausted says so. Bridge.ImportAllSince stores the
// cursor when no error event was relayed: an importer that leaves its loop over the listed issues without
// an error event makes the issues it did not handle disappear behind the cursor.
func checkEarlyStopIsError(c *Ctx) {
	w := c.W
	c.Doc("R16.9", "gitlabImporter.ImportAll: every edge leaving the loop over the listed issues (or a loop over an issue's events) before the channel is exhausted leads to a block that sends core.NewImportError on the result channel before returning")
	fn := w.Method("bridge/gitlab", "gitlabImporter", "ImportAll")
	if fn == nil {
		c.Undecided("R16.9", "anchor:gitlabImporter.ImportAll", "bridge/gitlab", "not found")
		return
	}
	sendsError := func(b *ssa.BasicBlock) bool {
		// follow the straight line from b
		seen := map[*ssa.BasicBlock]bool{}
		for x := b; x != nil && !seen[x]; {
			seen[x] = true
			for _, ins := range x.Instrs {
				if sd, ok := ins.(*ssa.Send); ok {
					if hasOriginCall(sd.X, "bridge/core.NewImportError", -1) != nil {
						return true
					}
				}
				// or a same-package helper that does the sending
				if ci, ok := ins.(ssa.CallInstruction); ok {
					if callee := ci.Common().StaticCallee(); callee != nil && callee.Pkg == b.Parent().Pkg && len(callee.Blocks) > 0 {
						for _, hb := range callee.Blocks {
							for _, hi := range hb.Instrs {
								if sd, isSd := hi.(*ssa.Send); isSd && hasOriginCall(sd.X, "bridge/core.NewImportError", -1) != nil {
									return true
								}
							}
						}
					}
				}
			}
			if len(x.Succs) == 1 {
				x = x.Succs[0]
			} else {
				x = nil
			}
		}
		return false
	}
	loops, exits := 0, 0
	for _, an := range importerBodies(fn)[1:] {
		c.seeFn(funcName(an))
		for _, h := range an.Blocks {
			if !isLoopHeader(h) {
				continue
			}
			// a range over a channel: the header receives with comma-ok
			isChanRange := false
			for _, ins := range h.Instrs {
				if u, ok := ins.(*ssa.UnOp); ok && u.Op == token.ARROW && u.CommaOk {
					isChanRange = true
				}
			}
			if !isChanRange {
				continue
			}
			loops++
			for _, b := range an.Blocks {
				if b == h || !inLoop(b, h) {
					continue
				}
				for _, s := range b.Succs {
					if inLoop(s, h) {
						continue
					}
					// leaving an inner loop normally into the outer loop is not an exit of the outer loop
					if oh := outermostLoopHeader(b); oh != nil && oh != h && inLoop(s, oh) {
						continue
					}
					exits++
					c.Sites++
					what := fmt.Sprintf("#%d", exits)
					if iff, isIf := b.Instrs[len(b.Instrs)-1].(*ssa.If); isIf {
						var names []string
						var ops []ssa.Value
						if bo, isBo := iff.Cond.(*ssa.BinOp); isBo {
							ops = []ssa.Value{bo.X, bo.Y}
						} else {
							ops = []ssa.Value{iff.Cond}
						}
						for _, op := range ops {
							for _, o := range origins(op) {
								if o.Kind == "call" {
									names = append(names, o.Name)
								}
							}
						}
						if len(names) > 0 {
							sort.Strings(names)
							what = "after:" + strings.Join(names, ",")
						}
					}
					c.Check(sendsError(s), "R16.9", fmt.Sprintf("%s:early-exit:%s", funcName(an), what), w.InstrPos(firstPosInstr(s)),
						"the early exit sends an import error first",
						"the import loop is left before the listing is exhausted without an error event: ImportAllSince sees a clean round, stores the cursor, and the issues not handled yet are never imported")
				}
			}
		}
	}
	c.Check(loops >= 1, "R16.9", "gitlabImporter.ImportAll:loops-found", w.FnPos(fn), fmt.Sprintf("%d channel loops, %d early exits, each reported", loops, exits), "no loop over a listing channel found in the importer's goroutine")
}

// R16.10–R16.12: three more conditions of "every tracker event is imported exactly once".
func checkListingStableAndEventIds(c *Ctx) {
	w := c.W
	c.Doc("R16.10", "the paged issue listing is ordered by a key that cannot change while the pages are fetched: ListProjectIssuesOptions.OrderBy is left unset (creation time) or set to created_at — ordering by updated_at lets an issue updated between two page requests move behind the cursor of the listing and push another issue onto a page already fetched")
	c.Doc("R16.11", "the id under which an imported event is remembered is that event's own id: each Event implementation's ID() formats the ID field of the go-gitlab value it wraps (not the id of the issue it belongs to, which all events of one issue share)")
	c.Doc("R16.12", "for every listed issue the notes, label events and state events are listed: the SortedEvents call of ImportAll is conditional on nothing but the success of ensureIssue")
	// R16.10
	if fn := w.Func("bridge/gitlab", "Issues"); fn != nil {
		c.seeFn(funcName(fn))
		bad, n := "", 0
		for _, f := range append([]*ssa.Function{fn}, fn.AnonFuncs...) {
			for _, b := range f.Blocks {
				for _, ins := range b.Instrs {
					st, ok := ins.(*ssa.Store)
					if !ok {
						continue
					}
					fa, ok := st.Addr.(*ssa.FieldAddr)
					if !ok || !strings.HasSuffix(typeShortName(fa.X.Type()), "ListProjectIssuesOptions") {
						continue
					}
					n++
					c.Sites++
					if fieldName(fa) != "OrderBy" {
						continue
					}
					val := "?"
					for _, o := range origins(st.Val) {
						if o.Kind == "call" {
							if cv, isCall := o.Val.(*ssa.Call); isCall && len(cv.Common().Args) == 1 {
								if s, isS := constString(cv.Common().Args[0]); isS {
									val = s
								}
							}
						}
					}
					if val != "created_at" {
						bad = "OrderBy = " + val + " at " + w.InstrPos(st)
					}
				}
			}
		}
		c.Check(bad == "" && n >= 2, "R16.10", "gitlab.Issues:stable-listing-order", w.FnPos(fn), fmt.Sprintf("%d option fields set; ordering key unset or created_at", n), "the issue listing is ordered by a key that changes during the round ("+bad+"): an issue can be skipped by the paging without any request failing, the round looks clean, the cursor is stored and the issue is never listed again")
	} else {
		c.Undecided("R16.10", "anchor:gitlab.Issues", "bridge/gitlab", "not found")
	}
	// R16.11
	nID := 0
	for _, f := range w.ModFns {
		if fnPkgPath(f) != modPath+"/bridge/gitlab" || f.Name() != "ID" || f.Signature.Recv() == nil || isInstance(f) {
			continue
		}
		if f.Synthetic != "" {
			continue
		}
		rets := Returns(f)
		if len(rets) != 1 || len(rets[0].Results) != 1 {
			continue
		}
		c.seeFn(funcName(f))
		res := ReturnResult(rets[0], 0)
		if s, isS := constString(res); isS && s == "" {
			c.Info("R16.11", funcName(f)+":own-id", w.FnPos(f), "no id (error event)")
			continue
		}
		nID++
		c.Sites++
		tok := feedTokens(res)
		var flds []string
		for _, t := range tokensWithPrefix(tok, "field:") {
			if i := strings.LastIndex(t, "."); i >= 0 {
				flds = append(flds, t[i+1:])
			}
		}
		hasID, other := false, ""
		// the value wrapped: the (embedded) first field of the receiver's struct
		wrapped := ""
		if st := derefStruct(f.Signature.Recv().Type()); st != nil && st.NumFields() > 0 {
			wrapped = typeShortName(st.Field(0).Type())
		}
		for _, t := range tokensWithPrefix(tok, "field:") {
			i := strings.LastIndex(t, ".")
			if i < 0 {
				continue
			}
			owner, fl := t[:i], t[i+1:]
			switch {
			case fl == "ID" && (wrapped == "" || owner == wrapped):
				hasID = true
			case fl == "ID":
				other = owner + ".ID"
			case strings.HasSuffix(fl, "ID") || strings.HasSuffix(fl, "Id") || strings.HasSuffix(fl, "IID"):
				other = fl
			}
		}
		c.Check(hasID && other == "", "R16.11", funcName(f)+":own-id", w.FnPos(f), "formats the wrapped value's ID field", fmt.Sprintf("the event id is computed from %v instead of the event's own ID: all events of that kind on one issue share it, so every one after the first is taken for already imported and dropped", flds))
	}
	c.Check(nID >= 3, "R16.11", "expected:event-id-methods", "bridge/gitlab", fmt.Sprintf("%d event ID methods", nID), fmt.Sprintf("only %d event ID methods found (reference 3)", nID))
	// R16.12
	if fn := w.Method("bridge/gitlab", "gitlabImporter", "ImportAll"); fn != nil {
		bodies := importerBodies(fn)[1:]
		// why the call instruction at (in body) is not executed once per iteration of the channel loop around it ("" = it is)
		var oncePerIssue func(at ssa.Instruction, body *ssa.Function, depth int) string
		oncePerIssue = func(at ssa.Instruction, body *ssa.Function, depth int) string {
			hdr := enclosingLoopHeader(at.Block())
			if hdr == nil {
				// in a helper without loop: unconditional there, and the helper is called once per issue
				if depth > 1 {
					return "not inside the loop over the listed issues"
				}
				for _, cc := range controlConds(at.Block(), nil) {
					if !errNilEdge(cc) {
						return w.InstrPos(cc.If)
					}
				}
				res := "not inside the loop over the listed issues"
				for _, ob := range bodies {
					for _, cl := range Calls(ob) {
						if cl.Fn != nil && bodyOf(cl.Fn) == body {
							res = oncePerIssue(cl.Instr, ob, depth+1)
						}
					}
				}
				return res
			}
			for _, cc := range controlConds(at.Block(), hdr.Idom()) {
				if isLoopHeader(cc.If.Block()) {
					continue
				}
				if !errNilEdge(cc) {
					return w.InstrPos(cc.If)
				}
			}
			// no way round the call back to the loop header (a 'continue' that skips the listing)
			seen := map[*ssa.BasicBlock]bool{}
			var q []*ssa.BasicBlock
			for _, sb := range hdr.Succs {
				if inLoop(sb, hdr) && sb != at.Block() {
					seen[sb] = true
					q = append(q, sb)
				}
			}
			for len(q) > 0 {
				x := q[0]
				q = q[1:]
				for _, sb := range x.Succs {
					if sb == hdr {
						return "the next issue is started from " + w.InstrPos(firstPosInstr(x)) + " without the listing"
					}
					if sb == at.Block() || seen[sb] || !inLoop(sb, hdr) {
						continue
					}
					seen[sb] = true
					q = append(q, sb)
				}
			}
			return ""
		}
		found := false
		for _, an := range bodies {
			for _, cl := range Calls(an) {
				if cl.Name != "bridge/gitlab.SortedEvents" {
					continue
				}
				found = true
				c.Sites++
				why := oncePerIssue(cl.Instr, an, 0)
				c.Check(why == "", "R16.12", "gitlabImporter.ImportAll:events-listed-for-every-issue", w.InstrPos(cl.Instr), "the events of every listed issue are listed",
					"the events of a listed issue are fetched only under a condition ("+why+"): an issue judged 'unchanged' is skipped without error, although an earlier round may have failed before importing all of its events — the clean round stores the cursor and those events are never imported")
			}
		}
		if !found {
			c.Info("R16.12", "gitlabImporter.ImportAll:events-listed-for-every-issue", w.FnPos(fn), "no SortedEvents call: not interpreted")
		}
	}
}

// importerBodies: ImportAll, its goroutine bodies, and the same-package functions those call that send on a
// channel themselves (a part of the relaying loop extracted into a helper).
func importerBodies(ia *ssa.Function) []*ssa.Function {
	out := []*ssa.Function{ia}
	seen := map[*ssa.Function]bool{ia: true}
	for _, an := range ia.AnonFuncs {
		out = append(out, an)
		seen[an] = true
	}
	for _, body := range append([]*ssa.Function{}, out...) {
		for _, h := range fnAndHelpers(body, 1) {
			if seen[h] || errResultIndex(h) >= 0 {
				// a function that reports through its error result is a step, not a part of the relaying loop
				continue
			}
			sends := false
			for _, b := range h.Blocks {
				for _, ins := range b.Instrs {
					if _, ok := ins.(*ssa.Send); ok {
						sends = true
					}
				}
			}
			if sends {
				seen[h] = true
				out = append(out, h)
			}
		}
	}
	return out
}

// errNilEdge: the control condition is the success edge of an error test (err != nil false / err == nil true).
func errNilEdge(cc controlCond) bool {
	bo, isBo := cc.If.Cond.(*ssa.BinOp)
	if !isBo || (bo.Op != token.NEQ && bo.Op != token.EQL) {
		return false
	}
	var ev ssa.Value
	if isNilConst(bo.Y) {
		ev = bo.X
	} else if isNilConst(bo.X) {
		ev = bo.Y
	}
	if ev == nil || !isErrorType(ev.Type()) {
		return false
	}
	nilEdge := 1
	if bo.Op == token.EQL {
		nilEdge = 0
	}
	return cc.Edge == nilEdge
}

// R16.13: a note written by a user is a comment whatever it says. GitLab reports its own activity
// ("closed", "changed title from …", "mentioned in commit …") as system notes with fixed texts; the
// importer recognises those texts — but only on notes GitLab itself marks as system notes.
func checkNoteKindSystemFirst(c *Ctx) {
	w := c.W
	c.Doc("R16.13", "NoteEvent.Kind: every return of a kind other than EventComment is reachable only through the System == true outcome of a test of the note's System flag (the text patterns are never applied to user notes)")
	fn := w.Method("bridge/gitlab", "NoteEvent", "Kind")
	if fn == nil {
		c.Undecided("R16.13", "anchor:NoteEvent.Kind", "bridge/gitlab", "not found")
		return
	}
	c.seeFn(funcName(fn))
	comment, okK := pkgConstInt(w, "bridge/gitlab", "EventComment")
	var sysIf *ssa.If
	sysTrueEdge := 0
	for _, b := range fn.Blocks {
		if len(b.Instrs) == 0 {
			continue
		}
		iff, ok := b.Instrs[len(b.Instrs)-1].(*ssa.If)
		if !ok {
			continue
		}
		cond, neg := iff.Cond, false
		if u, isU := cond.(*ssa.UnOp); isU && u.Op == token.NOT {
			cond, neg = u.X, true
		}
		if hasField(cond, "System") {
			sysIf = iff
			sysTrueEdge = 0
			if neg {
				sysTrueEdge = 1
			}
			break
		}
	}
	if sysIf == nil || !okK {
		c.Check(false, "R16.13", "NoteEvent.Kind:patterns-only-on-system-notes", w.FnPos(fn), "", "no test of the note's System flag found in NoteEvent.Kind: the system-note texts are matched against what users write")
		return
	}
	bad, n := "", 0
	for _, r := range Returns(fn) {
		if len(r.Results) != 1 {
			continue
		}
		k, isK := constInt(ReturnResult(r, 0))
		if isK && k == comment {
			continue
		}
		n++
		c.Sites++
		if !edgeDominates(sysIf.Block(), sysTrueEdge, r.Block()) {
			bad = "the kind returned at " + w.InstrPos(r) + " can be answered for a note that is not a system note"
		}
	}
	c.Check(bad == "" && n >= 5, "R16.13", "NoteEvent.Kind:patterns-only-on-system-notes", w.FnPos(fn), fmt.Sprintf("%d non-comment kinds, all behind System == true", n),
		bad+": a user comment that reads 'closed' closes the bug, one starting with 'mentioned in commit' is dropped, one starting with 'changed title from' renames the bug or panics")
}

// R16.14 / R16.15: two structural facts of the GitHub importer (the rest of that importer is not decided).
func checkGithubStickyErrorAndTitle(c *Ctx) {
	w := c.W
	c.Doc("R16.14", "bridge/github importMediator.err is sticky: every store into it stores a value known to be non-nil at that point (it is never reset by a later successful query), so a failed paging query ends the round with an error whatever happens afterwards")
	c.Doc("R16.15", "bridge/github: the placeholder title is chosen exactly where text.Empty answers true for the cleaned title (bug.Create refuses every title text.Empty calls empty — a weaker test lets an invisible title stop the whole import)")
	n := 0
	for _, f := range w.ModFns {
		if fnPkgPath(f) != modPath+"/bridge/github" || isInstance(f) || w.isTestHelper(f) {
			continue
		}
		for _, b := range f.Blocks {
			for _, ins := range b.Instrs {
				st, ok := ins.(*ssa.Store)
				if !ok {
					continue
				}
				fa, ok := st.Addr.(*ssa.FieldAddr)
				if !ok {
					continue
				}
				if fieldName(fa) == "err" && strings.HasSuffix(typeShortName(fa.X.Type()), "importMediator") {
					if _, fresh := fa.X.(*ssa.Alloc); fresh {
						continue // initialisation of a new mediator
					}
					n++
					c.Sites++
					c.seeFn(funcName(f))
					nonNil := false
					if _, isK := st.Val.(*ssa.Const); isK && !isNilConst(st.Val) {
						nonNil = true
					}
					if cv, isCall := st.Val.(*ssa.Call); isCall {
						if nm, _ := callName(cv.Common()); strings.HasSuffix(nm, "errors.New") || strings.HasSuffix(nm, "fmt.Errorf") || strings.HasSuffix(nm, "errors.Wrap") || strings.HasSuffix(nm, "errors.Errorf") {
							nonNil = true
						}
					}
					var nn []Branch
					if st.Val.Referrers() != nil {
						nn, _ = nilTests(st.Val)
					}
					for _, br := range nn {
						if br.Block().Dominates(b) && len(br.Block().Preds) == 1 {
							nonNil = true
						}
					}
					c.Check(nonNil, "R16.14", funcName(f)+":mediator-error-sticky", w.InstrPos(st), "stores a non-nil error",
						"the mediator's error is assigned a value that may be nil: a query that succeeds after a failed one erases the failure, the round ends without error, the cursor is stored and the items of the failed page are never imported")
				}
			}
		}
		// the placeholder
		for _, b := range f.Blocks {
			for _, ins := range b.Instrs {
				var val ssa.Value
				switch x := ins.(type) {
				case *ssa.Store:
					val = x.Val
				default:
					continue
				}
				s, isS := constString(val)
				ph, okPh := pkgConstString(w, "bridge/github", "EmptyTitlePlaceholder")
				if !isS || !okPh || s != ph {
					continue
				}
				c.Sites++
				ok := false
				for _, cc := range controlConds(b, nil) {
					if cv, isCall := cc.If.Cond.(*ssa.Call); isCall && cc.Edge == 0 {
						if nm, _ := callName(cv.Common()); nm == "util/text.Empty" {
							ok = true
						}
					}
				}
				c.Check(ok, "R16.15", funcName(f)+":placeholder-iff-text-empty", w.InstrPos(ins), "under text.Empty(title)", "the placeholder title is not chosen under text.Empty: a title of invisible characters passes the weaker test, bug creation refuses it and the import stops at that issue on every round")
			}
		}
	}
	// phi form: title = phi(placeholder, cleaned) — look at the phi edges too
	for _, f := range w.ModFns {
		if fnPkgPath(f) != modPath+"/bridge/github" || isInstance(f) {
			continue
		}
		ph, okPh := pkgConstString(w, "bridge/github", "EmptyTitlePlaceholder")
		if !okPh {
			break
		}
		for _, b := range f.Blocks {
			for _, ins := range b.Instrs {
				phi, isPhi := ins.(*ssa.Phi)
				if !isPhi {
					continue
				}
				for i, e := range phi.Edges {
					if s, isS := constString(e); isS && s == ph {
						c.Sites++
						pb := b.Preds[i]
						ok := false
						conds := controlConds(pb, nil)
						// the edge itself may be the true edge of the test
						if len(pb.Instrs) > 0 {
							if iff, isIf := pb.Instrs[len(pb.Instrs)-1].(*ssa.If); isIf && pb.Succs[0] == b {
								conds = append(conds, controlCond{If: iff, Edge: 0})
							}
						}
						for _, cc := range conds {
							if cv, isCall := cc.If.Cond.(*ssa.Call); isCall && cc.Edge == 0 {
								if nm, _ := callName(cv.Common()); nm == "util/text.Empty" {
									ok = true
								}
							}
						}
						posP := w.FnPos(f)
						if fi := firstPosInstr(pb); fi != nil {
							posP = w.InstrPos(fi)
						}
						c.Check(ok, "R16.15", funcName(f)+":placeholder-iff-text-empty", posP, "under text.Empty(title)", "the placeholder title is not chosen under text.Empty: a title of invisible characters passes the weaker test, bug creation refuses it and the import stops at that issue on every round")
					}
				}
			}
		}
	}
	c.Check(n >= 4, "R16.14", "expected:mediator-error-stores", "bridge/github", fmt.Sprintf("%d stores into importMediator.err", n), fmt.Sprintf("only %d stores into importMediator.err found (reference 4+)", n))
}
