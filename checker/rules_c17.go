package main

import (
	"fmt"
	"go/token"
	"go/types"
	"sort"
	"strings"

	"golang.org/x/tools/go/ssa"
)

var writeClasses = map[string]bool{"REF": true, "OBJ": true, "CONFIG": true, "INDEX": true, "STAGE": true, "FILE": true, "OSFILE": true, "KEYRING": true}

func writeEffects(m map[string]*EffWitness) []string {
	var out []string
	for e := range m {
		if writeClasses[effClass(e)] {
			out = append(out, e)
		}
	}
	sort.Strings(out)
	return out
}

// resolverMethods enumerates, for every interface of package api/graphql/graph whose
// name ends in "Resolver", the implementing methods in package api/graphql/resolvers.
type resolverMethod struct {
	Iface, Method string
	Fn            *ssa.Function
}

func (w *World) resolverMethods() []resolverMethod {
	gp := w.Pkg("api/graphql/graph")
	rp := w.SSAPkg("api/graphql/resolvers")
	if gp == nil || rp == nil {
		return nil
	}
	var out []resolverMethod
	scope := gp.Types.Scope()
	for _, name := range scope.Names() {
		tn, ok := scope.Lookup(name).(*types.TypeName)
		if !ok || !strings.HasSuffix(name, "Resolver") || name == "ResolverRoot" {
			continue
		}
		it, ok := tn.Type().Underlying().(*types.Interface)
		if !ok || it.NumMethods() == 0 {
			continue
		}
		var members []string
		for n := range rp.Members {
			members = append(members, n)
		}
		sort.Strings(members)
		for _, mn := range members {
			t, ok := rp.Members[mn].(*ssa.Type)
			if !ok {
				continue
			}
			if _, isIface := t.Type().Underlying().(*types.Interface); isIface {
				continue
			}
			for _, T := range []types.Type{t.Type(), types.NewPointer(t.Type())} {
				if !types.Implements(T, it) {
					continue
				}
				ms := w.Prog.MethodSets.MethodSet(T)
				for i := 0; i < it.NumMethods(); i++ {
					sel := ms.Lookup(it.Method(i).Pkg(), it.Method(i).Name())
					if sel == nil {
						continue
					}
					fn := w.Prog.MethodValue(sel)
					// unwrap synthetic promotion/pointer wrappers to the declared method
					if fn != nil && fn.Synthetic != "" {
						if decl := w.Prog.FuncValue(sel.Obj().(*types.Func)); decl != nil {
							fn = decl
						}
					}
					out = append(out, resolverMethod{name, it.Method(i).Name(), fn})
				}
				break
			}
		}
	}
	return out
}

func init() {
	register("C17",
		"Static gate/effect analysis of the API write surface. For every method of graph.MutationResolver (read from the type-checked generated package, so new mutations are included) and the upload handler: every call site that may reach a write effect (ref/object/config/index/staging/file/keyring primitive, through the hybrid VTA+CHA call graph) must be dominated by the success edge of auth.UserFromCtx applied to the method's own request context; UserFromCtx must fail when the context carries no user; every other resolver and HTTP handler must have an empty write-effect summary; CtxWithUser may only be called by the middleware, which is installed only when not read-only; the author passed to the editing calls is the gate's result, edits are committed before success and the returned snapshot is taken after the commit; GraphQL scalar decoders must not assert a type contradicting their own check.",
		[]string{
			"gqlgen dispatches mutations only to graph.MutationResolver methods and queries only to the other *Resolver interfaces",
			"write effects are exactly the primitives of A-EFFECT's table (storage interfaces of package repository, lamport clocks, billy/os file writers, Entity.Append, Identity.Mutate/SetMetadata); clock witnessing is a read-side effect",
			"hybrid call graph is sound for this program (no reflection-driven calls on these paths)",
		},
		runC17)
}

func runC17(c *Ctx) {
	w := c.W
	eff := newEffects(w)
	c.Doc("R17.1", "every call site of a mutation resolver / the upload handler that may reach a write effect is dominated by the success edge of auth.UserFromCtx(<own request context>, …)")
	c.Doc("R17.1u", "auth.UserFromCtx returns a non-nil error on every path where the context value is not an entity.Id; every other return is dominated by the ok edge")
	c.Doc("R17.2", "no method of any other graph.*Resolver interface and no other HTTP handler may reach a write effect")
	c.Doc("R17.3", "auth.CtxWithUser is called only from auth.Middleware; auth.Middleware is installed only on the not-read-only edge")
	c.Doc("R17.4", "the author argument of every editing call is the gate's result; every editor call is followed by Commit on all paths to a success return; Snapshot() for the payload is taken after the commit")
	c.Doc("R17.5", "a scalar decoder must not assert v.(B) on the path where its own check v.(A) succeeded for a different concrete type A")

	// what "records exactly the requested change … the returned bug reflects it" rests on below the resolvers
	checkHashIsValidCanonical(c, "R7.12")
	checkApplyTable(c)
	checkApplyUnconditional(c)
	checkMutatorLocksPaired(c)
	checkChangeLabelsRecordsOnlyChanges(c)
	c.Doc("R11.3", "RepoCacheBug.NewRaw commits the bug before it is registered: a refused creation leaves no trace in the cache")
	checkCreationRegisters(c)
	// the text recorded is the text requested, up to what validation refuses (shared with C16)
	checkCleanupAgreesWithSafe(c)
	c.Doc("R11.2", "every exported method of the cache entities that stages or commits operations calls notifyUpdated before it succeeds (what later queries list and sort is the excerpt)")
	checkMutatorsNotify(c, "R11.2")
	// two accepted mutations of one bug are both recorded: one live instance per entity (shared with C18)
	checkSingleInstance(c, newLockWorld(w))
	// "invalid arguments are refused": the content checks of each operation (shared with C04)
	checkOpFieldValidation(c)
	// the files attached to the recorded operation stay reachable from the commit (shared with C04)
	checkFilesTravel(c)
	// the returned bug shows the recorded change once (shared with C10)
	checkAppendNeverCompiles(c, "R10.2")

	rms := w.resolverMethods()
	if len(rms) == 0 {
		c.Undecided("R17.1", "anchor:graph.*Resolver", "api/graphql/graph", "no resolver interfaces/implementations found")
		return
	}
	nMut := 0
	for _, rm := range rms {
		if rm.Fn == nil {
			c.Undecided("R17.1", "anchor:"+rm.Iface+"."+rm.Method, "?", "no SSA function for resolver method")
			continue
		}
		c.seeFn(funcName(rm.Fn))
		if rm.Iface == "MutationResolver" {
			nMut++
			checkGate(c, eff, rm.Fn, "Mutation."+rm.Method, false)
			checkRecorded(c, rm.Fn, "Mutation."+rm.Method)
		} else {
			checkReadOnly(c, eff, rm.Fn, rm.Iface+"."+rm.Method)
		}
	}
	if nMut == 0 {
		c.Violate("R17.1", "expected:MutationResolver-methods", "api/graphql/resolvers", "no mutation resolver method found (reference: 9)")
	}

	// HTTP handlers of api/http
	hp := w.SSAPkg("api/http")
	nUpload := 0
	if hp != nil {
		var names []string
		for n := range hp.Members {
			names = append(names, n)
		}
		sort.Strings(names)
		for _, n := range names {
			t, ok := hp.Members[n].(*ssa.Type)
			if !ok {
				continue
			}
			fn := w.Method("api/http", n, "ServeHTTP")
			if fn == nil {
				continue
			}
			_ = t
			c.seeFn(funcName(fn))
			we := writeEffects(eff.Of(fn))
			if len(we) > 0 {
				nUpload++
				checkGate(c, eff, fn, "http."+n+".ServeHTTP", true)
			} else {
				c.Hold("R17.2", "http."+n+".ServeHTTP", w.FnPos(fn), "no write effect reachable")
			}
		}
	}
	if nUpload == 0 {
		c.Violate("R17.1", "expected:upload-handler", "api/http", "no HTTP handler with a write effect found (reference: gitUploadFileHandler stores a blob)")
	}

	checkUserFromCtx(c)
	checkCtxWithUser(c)
	checkScalarDecoders(c)
	checkSentinelAgreementAndStaging(c)
	// "records exactly the requested change": the comment a prefix designates (shared with C13)
	checkC13Scans(c)
}

// gateCalls returns the UserFromCtx calls of fn whose context argument is the
// function's own request context.
func gateCalls(fn *ssa.Function, handler bool) []*Call {
	var out []*Call
	for _, call := range CallsNamed(fn, "api/auth.UserFromCtx") {
		args := call.Args()
		if len(args) < 1 || call.Value() == nil {
			continue
		}
		a := stripConv(args[0])
		ok := false
		if handler {
			// r.Context() on the *http.Request parameter
			if cv, isCall := a.(*ssa.Call); isCall {
				n, _ := callName(cv.Common())
				if n == "net/http.Request.Context" && len(cv.Common().Args) == 1 {
					if p, isParam := cv.Common().Args[0].(*ssa.Parameter); isParam && p.Parent() == fn {
						ok = true
					}
				}
			}
		} else if p, isParam := a.(*ssa.Parameter); isParam && p.Parent() == fn && typeShortName(p.Type()) == "context.Context" {
			ok = true
		}
		if ok {
			out = append(out, call)
		}
	}
	return out
}

func checkGate(c *Ctx, eff *effSummaries, fn *ssa.Function, key string, handler bool) {
	w := c.W
	gates := gateCalls(fn, handler)
	nSites := 0
	for _, call := range Calls(fn) {
		c.Sites++
		se := eff.SiteEffects(call)
		we := writeEffects(se)
		if len(we) == 0 {
			continue
		}
		nSites++
		okey := key + "→" + call.Name
		gated := false
		for _, g := range gates {
			if dominatedBySuccess(g.Value(), call.Instr) {
				gated = true
				break
			}
		}
		detail := fmt.Sprintf("may reach %s", strings.Join(we, ","))
		if wit := se[we[0]]; wit != nil && wit.Via != nil {
			detail += " via " + eff.Explain(wit.Via, we[0])
		}
		c.Check(gated, "R17.1", okey, w.InstrPos(call.Instr),
			detail+"; dominated by the success edge of auth.UserFromCtx(own ctx)",
			detail+"; NOT dominated by the success edge of auth.UserFromCtx on the request's own context")
	}
	for _, a := range fn.AnonFuncs {
		if we := writeEffects(eff.Of(a)); len(we) > 0 {
			c.Undecided("R17.1", key+"→closure", w.FnPos(a), "closure with write effects inside a mutation resolver: gate dominance not decidable")
		}
	}
	if nSites == 0 {
		c.Info("R17.1", key+":no-write", w.FnPos(fn), "no write-effect call site found in this mutation")
	}
}

func checkReadOnly(c *Ctx, eff *effSummaries, fn *ssa.Function, key string) {
	c.Sites += len(Calls(fn))
	m := eff.Of(fn)
	we := writeEffects(m)
	if len(we) == 0 {
		c.Hold("R17.2", key, c.W.FnPos(fn), "no write effect reachable (read-side: "+strings.Join(classesOf(m), ",")+")")
		return
	}
	c.Violate("R17.2", key, c.W.FnPos(fn), "read-only resolver may reach "+strings.Join(we, ",")+": "+eff.Explain(fn, we[0]))
}

func checkUserFromCtx(c *Ctx) {
	w := c.W
	fn := w.Func("api/auth", "UserFromCtx")
	if fn == nil {
		c.Undecided("R17.1u", "anchor:auth.UserFromCtx", "api/auth", "function not found")
		return
	}
	c.seeFn(funcName(fn))
	// find v, ok := ctx.Value(key).(entity.Id)
	var okBranches []Branch // edges where ok is true
	for _, b := range fn.Blocks {
		for _, ins := range b.Instrs {
			ta, isTA := ins.(*ssa.TypeAssert)
			if !isTA || !ta.CommaOk {
				continue
			}
			cv, isCall := ta.X.(*ssa.Call)
			if !isCall {
				continue
			}
			if n, _ := callName(cv.Common()); n != "context.Context.Value" {
				continue
			}
			if len(cv.Common().Args) != 1 {
				continue
			}
			// key must be the package-private identityCtxKey global, same as CtxWithUser uses
			for _, r := range *ta.Referrers() {
				if e, isE := r.(*ssa.Extract); isE && e.Index == 1 {
					for _, u := range condUsers(e) {
						if u.Neg {
							okBranches = append(okBranches, Branch{u.If, 1})
						} else {
							okBranches = append(okBranches, Branch{u.If, 0})
						}
					}
				}
			}
		}
	}
	pos := w.FnPos(fn)
	if len(okBranches) == 0 {
		c.Violate("R17.1u", "auth.UserFromCtx:ok-test", pos, "no branch on the comma-ok result of ctx.Value(key).(entity.Id) found")
		return
	}
	good := true
	detail := ""
	for _, r := range Returns(fn) {
		c.Sites++
		dom := false
		for _, ob := range okBranches {
			if len(ob.Block().Preds) == 1 && ob.Block().Dominates(r.Block()) {
				dom = true
			}
		}
		if dom {
			continue
		}
		if returnKind(r) != RetError {
			good = false
			detail = "return at " + w.InstrPos(r) + " may succeed without a user in the context"
		}
	}
	c.Check(good, "R17.1u", "auth.UserFromCtx:absent-user-is-error", pos, "every return outside the ok edge carries a non-nil error", detail)

	// same key object in CtxWithUser and UserFromCtx
	cw := w.Func("api/auth", "CtxWithUser")
	if cw == nil {
		c.Undecided("R17.1u", "anchor:auth.CtxWithUser", "api/auth", "function not found")
		return
	}
	keyOf := func(f *ssa.Function, callee string, argIdx int) string {
		for _, call := range Calls(f) {
			if call.Name != callee {
				continue
			}
			args := call.Instr.Common().Args
			if argIdx < len(args) {
				v := stripConv(args[argIdx])
				if u, ok := v.(*ssa.UnOp); ok {
					if g, ok := u.X.(*ssa.Global); ok {
						return g.Name()
					}
				}
			}
		}
		return ""
	}
	k1 := keyOf(cw, "context.WithValue", 1)
	k2 := keyOf(fn, "context.Context.Value", 0)
	c.Check(k1 != "" && k1 == k2, "R17.1u", "auth:context-key-agrees", pos, "CtxWithUser and UserFromCtx use the package variable "+k1, fmt.Sprintf("CtxWithUser stores under %q, UserFromCtx reads %q", k1, k2))
}

func checkCtxWithUser(c *Ctx) {
	w := c.W
	nCalls, nMw := 0, 0
	for _, f := range w.ModFns {
		for _, call := range Calls(f) {
			switch call.Name {
			case "api/auth.CtxWithUser":
				nCalls++
				c.Sites++
				root := f
				for root.Parent() != nil {
					root = root.Parent()
				}
				c.Check(funcName(root) == "api/auth.Middleware", "R17.3", "CtxWithUser←"+funcName(root), w.InstrPos(call.Instr),
					"called from the middleware", "a user is attached to a context outside auth.Middleware")
			case "api/auth.Middleware":
				nMw++
				c.Sites++
				// dominated by the false edge of a branch on a field named readOnly
				ok := false
				for _, b := range f.Blocks {
					if len(b.Instrs) == 0 {
						continue
					}
					iff, isIf := b.Instrs[len(b.Instrs)-1].(*ssa.If)
					if !isIf {
						continue
					}
					cond := iff.Cond
					neg := false
					for {
						if u, isU := cond.(*ssa.UnOp); isU && u.Op.String() == "!" {
							cond = u.X
							neg = !neg
							continue
						}
						break
					}
					_, fname, isField := loadOfField(cond)
					if !isField || fname != "readOnly" {
						continue
					}
					edge := 1 // readOnly false
					if neg {
						edge = 0
					}
					sb := b.Succs[edge]
					if len(sb.Preds) == 1 && sb.Dominates(call.Instr.Block()) {
						ok = true
					}
				}
				c.Check(ok, "R17.3", "Middleware←"+funcName(f), w.InstrPos(call.Instr),
					"installed only on the not-read-only edge", "auth.Middleware is installed on a path where the read-only option may be set")
			}
		}
	}
	if nCalls == 0 {
		c.Violate("R17.3", "expected:CtxWithUser-call", "api/auth", "no call of CtxWithUser found (reference: auth.Middleware)")
	}
	if nMw == 0 {
		c.Violate("R17.3", "expected:Middleware-call", "commands", "no call of auth.Middleware found (reference: commands.runWebUI)")
	}
}

// checkRecorded: R17.4
func checkRecorded(c *Ctx, fn *ssa.Function, key string) {
	w := c.W
	gates := gateCalls(fn, false)
	gateUser := map[ssa.Value]bool{}
	for _, g := range gates {
		for _, v := range resultValues(g.Value(), 0) {
			gateUser[v] = true
		}
	}
	isCommit := func(i ssa.Instruction) bool {
		ci, ok := i.(ssa.CallInstruction)
		if !ok {
			return false
		}
		n, _ := callName(ci.Common())
		return n == "cache.CachedEntityBase.Commit" || n == "cache.CachedEntityBase.CommitAsNeeded" || n == "cache.BugCache.Commit" || n == "cache.RepoCacheBug.NewRaw" || n == "cache.RepoCacheBug.New" || n == "cache.RepoCacheBug.NewWithFiles"
	}
	var commits []ssa.Instruction
	for _, call := range Calls(fn) {
		if isCommit(call.Instr) {
			commits = append(commits, call.Instr)
		}
	}
	for _, call := range Calls(fn) {
		recvT, m := lastDot(call.Name)
		isEditor := recvT == "cache.BugCache" && strings.HasSuffix(m, "Raw")
		isNew := call.Name == "cache.RepoCacheBug.NewRaw"
		// an editing method that does not take the author explicitly acts as the repository's configured identity
		if (recvT == "cache.BugCache" || recvT == "cache.RepoCacheBug") && !isEditor && !isNew {
			if fnv := call.Fn; fnv != nil {
				for _, inner := range Calls(bodyOf(fnv)) {
					if strings.HasSuffix(inner.Name, ".getUserIdentity") || hasField(inner.Instr.Common().Value, "getUserIdentity") {
						c.Violate("R17.4", key+"→"+m+":author", w.InstrPos(call.Instr), "the mutation edits through "+call.Name+", which acts as the repository's configured identity instead of the authenticated request user")
					}
				}
			}
		}
		if !isEditor && !isNew {
			if recvT == "cache.BugCache" && m == "Snapshot" || call.Name == "cache.CachedEntityBase.Snapshot" {
				// snapshot for the payload must come after a commit
				ok := false
				for _, cm := range commits {
					if v, isV := cm.(ssa.Value); isV && dominatedBySuccess(v, call.Instr) {
						ok = true
					}
				}
				c.Sites++
				c.Check(ok, "R17.4", key+":snapshot-after-commit", w.InstrPos(call.Instr), "Snapshot() dominated by the successful commit", "the returned snapshot is not taken after a successful commit")
			}
			continue
		}
		c.Sites++
		args := call.Args()
		okAuthor := false
		if len(args) > 0 {
			a := stripConv(args[0])
			okAuthor = gateUser[a]
		}
		c.Check(okAuthor, "R17.4", key+"→"+m+":author", w.InstrPos(call.Instr), "author is the user returned by the gate", "the author argument is not the user returned by auth.UserFromCtx")
		if isEditor {
			bad, path, _ := pathAvoiding(fn, call.Instr, isSuccessReturn, func(i ssa.Instruction) bool { return isCommit(i) })
			c.Check(!bad, "R17.4", key+"→"+m+":committed", w.InstrPos(call.Instr), "every path to a success return passes Commit()", "a success return is reachable without Commit(): "+blocksString(w, path))
		}
	}
}

// checkScalarDecoders: R17.5
func checkScalarDecoders(c *Ctx) {
	w := c.W
	n := 0
	for _, f := range w.ModFns {
		if f.Name() != "UnmarshalGQL" || f.Signature.Recv() == nil || len(f.Blocks) == 0 {
			continue
		}
		n++
		c.seeFn(funcName(f))
		key := funcName(f)
		bad := ""
		for _, b := range f.Blocks {
			for _, ins := range b.Instrs {
				ta, ok := ins.(*ssa.TypeAssert)
				if !ok || ta.CommaOk {
					continue
				}
				c.Sites++
				if _, isIface := ta.AssertedType.Underlying().(*types.Interface); isIface {
					continue
				}
				// is there a comma-ok assertion on the same value to another concrete type whose ok edge dominates this?
				for _, r := range *ta.X.Referrers() {
					ta2, ok := r.(*ssa.TypeAssert)
					if !ok || !ta2.CommaOk || types.Identical(ta2.AssertedType, ta.AssertedType) {
						continue
					}
					if _, isIface := ta2.AssertedType.Underlying().(*types.Interface); isIface {
						continue
					}
					for _, rr := range *ta2.Referrers() {
						e, isE := rr.(*ssa.Extract)
						if !isE || e.Index != 1 {
							continue
						}
						for _, u := range condUsers(e) {
							edge := 0
							if u.Neg {
								edge = 1
							}
							sb := u.If.Block().Succs[edge]
							if sb.Dominates(ta.Block()) {
								bad = fmt.Sprintf("asserts %s at %s on the path where the value was checked to be %s", short(ta.AssertedType.String()), w.InstrPos(ta), short(ta2.AssertedType.String()))
							}
						}
					}
				}
			}
		}
		c.Check(bad == "", "R17.5", key, w.FnPos(f), "no contradictory assertion", bad+" — decoding always panics")
	}
	if n == 0 {
		c.Violate("R17.5", "expected:UnmarshalGQL", "module", "no UnmarshalGQL scalar decoder found (reference: entity.Id, entity.CombinedId, repository.Hash, …)")
	}
}

// R17.6: producer and consumers of the 'no user' verdict agree. R17.7: only valid operations are staged.
func checkSentinelAgreementAndStaging(c *Ctx) {
	w := c.W
	c.Doc("R17.6", "the way auth.UserFromCtx reports 'no user attached' and the way every caller tests for it agree: if the bare sentinel ErrNotAuthenticated is returned, == and errors.Is both work; if it is wrapped, every test must be errors.Is — a caller still comparing with == would take an anonymous request for a failure (the userIdentity query must answer null, the upload must answer 403)")
	c.Doc("R17.7", "every editing function of package entities/bug appends the operation it built to the bug only after that operation's Validate() succeeded: a mutation refused for invalid arguments leaves nothing staged, the cached snapshot unchanged and the bug committable")
	// R17.6 producer
	fn := w.Func("api/auth", "UserFromCtx")
	isSentinel := func(v ssa.Value) bool {
		if u, isU := v.(*ssa.UnOp); isU {
			if g, isG := u.X.(*ssa.Global); isG && g.Name() == "ErrNotAuthenticated" {
				return true
			}
		}
		return false
	}
	if fn != nil {
		form := ""
		eidx := errResultIndex(fn)
		for _, r := range Returns(fn) {
			ev := ReturnResult(r, eidx)
			if isSentinel(ev) {
				form = "bare"
			}
			if cv, isCall := ev.(*ssa.Call); isCall {
				for _, a := range variadicOperands(cv.Common().Args[len(cv.Common().Args)-1]) {
					if isSentinel(a) {
						form = "wrapped"
					}
				}
				for _, a := range cv.Common().Args {
					if isSentinel(a) {
						form = "wrapped"
					}
				}
			}
		}
		nCons := 0
		for _, f := range w.ModFns {
			if isInstance(f) || w.isTestHelper(f) {
				continue
			}
			for _, b := range f.Blocks {
				for _, ins := range b.Instrs {
					switch x := ins.(type) {
					case *ssa.BinOp:
						if (x.Op == token.EQL || x.Op == token.NEQ) && (isSentinel(x.X) || isSentinel(x.Y)) {
							nCons++
							c.Sites++
							c.Check(form == "bare", "R17.6", funcName(f)+":tests-no-user-with-==", w.InstrPos(x), "== against the bare sentinel UserFromCtx returns", "this compares the error with == against ErrNotAuthenticated, but UserFromCtx returns it "+map[string]string{"wrapped": "wrapped", "": "in a form that was not recognised"}[form]+": an anonymous request is treated as a failure here (a query that should answer null returns an error, or a write endpoint no longer answers 'forbidden')")
						}
					case *ssa.Call:
						if n, _ := callName(x.Common()); n == "errors.Is" && len(x.Common().Args) == 2 && isSentinel(stripConv(x.Common().Args[1])) {
							nCons++
							c.Sites++
							c.Hold("R17.6", funcName(f)+":tests-no-user-with-errors.Is", w.InstrPos(x), "errors.Is works with either form")
						}
					}
				}
			}
		}
		if nCons == 0 {
			c.Violate("R17.6", "expected:no-user-tests", "api", "no caller distinguishes 'no user' from a failure any more (reference: upload handler, userIdentity query)")
		}
	}
	// R17.7
	n := 0
	for _, f := range w.ModFns {
		if isInstance(f) || fnPkgPath(f) != modPath+"/entities/bug" || w.isTestHelper(f) || f.Parent() != nil {
			continue
		}
		if f.Signature.Recv() != nil {
			continue
		}
		for _, cl := range Calls(f) {
			if !strings.HasSuffix(cl.Name, "Interface.Append") && cl.Name != "entities/bug.Bug.Append" {
				continue
			}
			args := cl.Args()
			if len(args) == 0 {
				continue
			}
			n++
			c.Sites++
			c.seeFn(funcName(f))
			op := stripConv(args[len(args)-1])
			ok := false
			for _, vc := range Calls(f) {
				if !strings.HasSuffix(vc.Name, ".Validate") || vc.Value() == nil {
					continue
				}
				recv := vc.Recv()
				if recv == nil {
					continue
				}
				if stripConv(recv) == op && dominatedBySuccess(vc.Value(), cl.Instr) {
					ok = true
				}
			}
			c.Check(ok, "R17.7", funcName(f)+":validate-before-append", w.InstrPos(cl.Instr), "appended after its Validate() succeeded", "the operation is appended to the bug without (or before) a successful Validate(): a refused edit stays staged, shows in the cached snapshot and makes every later commit of the bug fail")
		}
	}
	if n < 8 {
		c.Violate("R17.7", "expected:editing-functions", "entities/bug", fmt.Sprintf("%d operation-appending functions found (reference 10)", n))
	}
}

// checkMutatorLocksPaired (R18.1 restricted to package cache): a refused mutation must leave the bug
// usable — an editing method of the cache that returns with its mutex held makes every later query
// and mutation on that bug hang.
func checkMutatorLocksPaired(c *Ctx) {
	w := c.W
	lw := newLockWorld(w)
	c.Doc("R18.1", "every Lock/RLock taken by a function of package cache is released on every exit of the function (the editing methods the mutation resolvers call; an error exit that keeps the mutex blocks every later request on that bug)")
	exemptHold := map[string]bool{"cache.CachedEntityBase.Lock": true, "cache.IdentityCache.Lock": true}
	n := 0
	for _, fn := range w.ModFns {
		if isInstance(fn) || w.isTestHelper(fn) || fnPkgPath(fn) != modPath+"/cache" {
			continue
		}
		li := lw.info(fn)
		if li.NOps == 0 || exemptHold[funcName(fn)] {
			continue
		}
		n++
		c.Sites += li.NOps
		c.seeFn(funcName(fn))
		if len(li.Findings) == 0 {
			c.Hold("R18.1", funcName(fn), w.FnPos(fn), fmt.Sprintf("%d lock operations paired on all paths", li.NOps))
			continue
		}
		for _, f := range li.Findings {
			c.Violate("R18.1", funcName(fn)+":"+lockFindingKey(f.What), f.Pos, f.What)
		}
	}
	c.Check(n >= 30, "R18.1", "expected:cache-lock-functions", "cache", fmt.Sprintf("%d functions of package cache with lock operations", n), fmt.Sprintf("only %d functions with lock operations found in package cache (reference ≥ 30)", n))
}

// R17.8: a label-change request records exactly the change. bug.ChangeLabels puts a label into the
// operation's added list only when it is neither repeated in the request nor already set, and into the
// removed list only when it is not repeated and is set; a request that changes nothing is refused.
func checkChangeLabelsRecordsOnlyChanges(c *Ctx) {
	w := c.W
	c.Doc("R17.8", "bug.ChangeLabels: the append to the list handed to NewLabelChangeOperation as 'added' ('removed') is unreachable, within the iteration, from the 'already in this request' edge and from the 'already set' ('not set') edge of the membership tests on the request's own list and on the snapshot's labels; the operation is built only after the 'nothing added or removed' refusal")
	fn := w.Func("entities/bug", "ChangeLabels")
	if fn == nil {
		c.Undecided("R17.8", "anchor:bug.ChangeLabels", "entities/bug", "not found")
		return
	}
	c.seeFn(funcName(fn))
	pos := w.FnPos(fn)
	var mk *ssa.Call
	for _, cl := range Calls(fn) {
		if cl.Name == "entities/bug.NewLabelChangeOperation" {
			mk, _ = cl.Instr.(*ssa.Call)
		}
	}
	if mk == nil || len(mk.Common().Args) < 4 {
		c.Undecided("R17.8", "ChangeLabels:operation", pos, "no NewLabelChangeOperation(author, time, added, removed) call found")
		return
	}
	// membership tests: If on a call of a membership predicate (labelExist)
	type test struct {
		blk   *ssa.BasicBlock
		onOwn bool // tested list is the request's own accumulated list
		list  ssa.Value
	}
	for idx, which := range []string{"added", "removed"} {
		list := mk.Common().Args[2+idx]
		aps := appendCallsOf(list)
		if len(aps) == 0 {
			c.Check(false, "R17.8", "ChangeLabels:"+which, pos, "", "the "+which+" list of the operation is not built by appends")
			continue
		}
		bad := ""
		nTests := 0
		for _, ap := range aps {
			hdr := enclosingLoopHeader(ap.Block())
			if hdr == nil {
				bad = "a label is put into the " + which + " list outside the loop over the request"
				continue
			}
			for _, b := range fn.Blocks {
				if !inLoop(b, hdr) || len(b.Instrs) == 0 {
					continue
				}
				iff, ok := b.Instrs[len(b.Instrs)-1].(*ssa.If)
				if !ok {
					continue
				}
				neg := false
				cond := iff.Cond
				if u, isU := cond.(*ssa.UnOp); isU && u.Op == token.NOT {
					neg, cond = true, u.X
				}
				cv, isCall := cond.(*ssa.Call)
				if !isCall || len(cv.Common().Args) != 2 {
					continue
				}
				callee := cv.Common().StaticCallee()
				if callee == nil || membershipPred(callee) == nil {
					continue
				}
				c.Sites++
				tested := cv.Common().Args[0]
				own := false
				for _, a2 := range appendCallsOf(tested) {
					for _, a1 := range aps {
						if a1 == a2 {
							own = true
						}
					}
				}
				if ph, isPhi := tested.(*ssa.Phi); isPhi {
					for _, e := range ph.Edges {
						for _, a1 := range aps {
							if e == ssa.Value(a1) {
								own = true
							}
						}
					}
				}
				onSnap := hasField(tested, "Labels")
				if !own && !onSnap {
					continue
				}
				nTests++
				// the edge after which nothing may be recorded: member of own list (duplicate); for added: member of the snapshot; for removed: not a member
				skipOnMember := own || which == "added"
				edge := 0
				if !skipOnMember {
					edge = 1
				}
				if neg {
					edge = 1 - edge
				}
				if reachWithoutEdge(b.Succs[edge], ap.Block(), func(x *ssa.BasicBlock, s int) bool { return x.Succs[s] == hdr }) || b.Succs[edge] == ap.Block() {
					what := "is already set on the bug"
					if own {
						what = "was already given in this request"
					} else if which == "removed" {
						what = "is not set on the bug"
					}
					bad = "a label that " + what + " still reaches the " + which + " list (test at " + w.InstrPos(iff) + ")"
				}
			}
		}
		if nTests < 2 && bad == "" {
			bad = fmt.Sprintf("only %d membership tests guard the %s list (two expected: the request's own list, the bug's labels)", nTests, which)
		}
		c.Check(bad == "", "R17.8", "ChangeLabels:"+which+"-only-real-changes", pos, "recorded only when neither repeated nor already "+map[string]string{"added": "set", "removed": "absent"}[which],
			bad+": the operation committed under the user's name records a change that did not happen, and a request that changes nothing is no longer refused")
	}
	// refusal of the empty change before the operation is built
	okRefuse := false
	for _, r := range Returns(fn) {
		if returnKind(r) != RetError {
			continue
		}
		nLen := 0
		dom := false
		for _, cc := range controlConds(r.Block(), nil) {
			bo, isBo := cc.If.Cond.(*ssa.BinOp)
			if !isBo {
				continue
			}
			for _, side := range []ssa.Value{bo.X, bo.Y} {
				if lc, isCall := side.(*ssa.Call); isCall {
					if bi, isB := lc.Common().Value.(*ssa.Builtin); isB && bi.Name() == "len" && len(appendCallsOf(lc.Common().Args[0])) > 0 {
						nLen++
						if cc.If.Block().Dominates(mk.Block()) {
							dom = true
						}
					}
				}
			}
		}
		if nLen >= 2 && dom {
			okRefuse = true
		}
	}
	c.Check(okRefuse, "R17.8", "ChangeLabels:empty-change-refused", pos, "a request that adds and removes nothing is refused before an operation is built", "no refusal of an empty change dominates the construction of the operation")
}
