package main

// R12.9 / R11.9: the data path excerpt ← snapshot and filter → excerpt field.
//
// The query is evaluated against excerpts, not against bugs: the answer is "exactly the bugs that
// satisfy it" only if every excerpt field holds the snapshot value of the same meaning, and every
// filter reads the excerpt field of its qualifier. Both are visible in the shape of the code.

import (
	"fmt"
	"go/token"
	"go/types"
	"sort"
	"strings"

	"golang.org/x/tools/go/ssa"
)

// feedTokens: the struct fields ("field:<Struct>.<F>") and calls ("call:<short name>") the value v is
// computed from, followed through phis, appends, range elements, receivers and arguments of calls, and
// the results of same-package helpers.
func feedTokens(v ssa.Value) map[string]bool {
	out := map[string]bool{}
	seen := map[ssa.Value]bool{}
	var walk func(v ssa.Value, depth int)
	walk = func(v ssa.Value, depth int) {
		if v == nil || seen[v] || depth > 12 {
			return
		}
		seen[v] = true
		for _, o := range origins(v) {
			switch o.Kind {
			case "field":
				st := ""
				if o.Val != nil {
					t := o.Val.Type()
					if p, ok := t.Underlying().(*types.Pointer); ok {
						t = p.Elem()
					}
					st = typeShortName(t)
				}
				out["field:"+st+"."+o.Name] = true
				walk(o.Val, depth+1)
			case "call":
				cv, ok := o.Val.(*ssa.Call)
				if !ok {
					continue
				}
				if b, isB := cv.Common().Value.(*ssa.Builtin); isB {
					switch b.Name() {
					case "append":
						walk(cv.Common().Args[0], depth+1)
						for _, av := range appendedValues(cv) {
							walk(av, depth+1)
						}
					case "len", "cap":
						out["call:"+b.Name()] = true
						walk(cv.Common().Args[0], depth+1)
					default:
						out["call:"+b.Name()] = true
					}
					continue
				}
				short := o.Name
				if i := strings.LastIndex(short, "."); i >= 0 {
					short = short[i+1:]
				}
				out["call:"+short] = true
				if cv.Common().IsInvoke() {
					walk(cv.Common().Value, depth+1)
				}
				for _, a := range cv.Common().Args {
					walk(a, depth+1)
				}
				// a helper of the module: what it returns is computed from (its parameters stand for the arguments walked above)
				if callee := cv.Common().StaticCallee(); callee != nil && len(callee.Blocks) > 0 && callee.Pkg != nil && cv.Parent() != nil && callee.Pkg == cv.Parent().Pkg && depth < 6 {
					for _, r := range Returns(callee) {
						if o.Idx < len(r.Results) {
							walk(ReturnResult(r, o.Idx), depth+3)
						}
					}
				}
			case "binop":
				if bo, ok := o.Val.(*ssa.BinOp); ok {
					walk(bo.X, depth+1)
					walk(bo.Y, depth+1)
				}
			case "unop":
				if u, ok := o.Val.(*ssa.UnOp); ok {
					walk(u.X, depth+1)
				}
			case "make":
				// a slice filled element by element: the stored / appended values
				for _, r := range *o.Val.Referrers() {
					if ia, ok := r.(*ssa.IndexAddr); ok {
						for _, r2 := range *ia.Referrers() {
							if st, ok := r2.(*ssa.Store); ok && st.Addr == ia {
								walk(st.Val, depth+1)
							}
						}
					}
				}
			case "param":
				out["param:"+o.Name] = true
			case "const":
				out["const"] = true
			}
		}
	}
	walk(v, 0)
	return out
}

func tokensWithPrefix(m map[string]bool, prefix string) []string {
	var out []string
	for k := range m {
		if strings.HasPrefix(k, prefix) {
			out = append(out, strings.TrimPrefix(k, prefix))
		}
	}
	sort.Strings(out)
	return out
}

// structStores: field name → values stored into the fields of the struct allocated in fn and returned.
func structStores(fn *ssa.Function, structName string) map[string][]ssa.Value {
	out := map[string][]ssa.Value{}
	for _, b := range fn.Blocks {
		for _, ins := range b.Instrs {
			st, ok := ins.(*ssa.Store)
			if !ok {
				continue
			}
			fa, ok := st.Addr.(*ssa.FieldAddr)
			if !ok {
				continue
			}
			t := fa.X.Type()
			if p, isP := t.Underlying().(*types.Pointer); isP {
				t = p.Elem()
			}
			if typeShortName(t) != structName {
				continue
			}
			out[fieldName(fa)] = append(out[fieldName(fa)], st.Val)
		}
	}
	return out
}

func structFieldNames(t types.Type) []string {
	st := derefStruct(t)
	if st == nil {
		return nil
	}
	var out []string
	for i := 0; i < st.NumFields(); i++ {
		out = append(out, st.Field(i).Name())
	}
	return out
}

func checkExcerptDataPath(c *Ctx, rule string) {
	w := c.W
	c.Doc(rule, "what a query is evaluated against: every field of BugExcerpt is filled by NewBugExcerpt from the snapshot field (or bug accessor) of the same meaning and from no other one; every field of IdentityExcerpt from the identity accessor of its name; every filter of cache/filter.go reads the excerpt field of its qualifier and no other one")
	// ---- (A) NewBugExcerpt
	fn := w.Func("cache", "NewBugExcerpt")
	if fn == nil {
		c.Undecided(rule, "anchor:cache.NewBugExcerpt", "cache", "not found")
		return
	}
	c.seeFn(funcName(fn))
	pos := w.FnPos(fn)
	stores := structStores(fn, "cache.BugExcerpt")
	var snapT types.Type
	if sn := w.Pkg("entities/bug"); sn != nil {
		if o := sn.Types.Scope().Lookup("Snapshot"); o != nil {
			snapT = o.Type()
		}
	}
	snapFields := map[string]bool{}
	for _, f := range structFieldNames(snapT) {
		snapFields[f] = true
	}
	if len(snapFields) == 0 {
		c.Undecided(rule, "anchor:bug.Snapshot", "entities/bug", "type not found")
		return
	}
	// fields whose source is not the snapshot field of the same name; one line of reason each
	type src struct {
		fields []string // Snapshot fields
		calls  []string // accessor calls that must feed the value
		why    string
	}
	special := map[string]src{
		"id":                {nil, []string{"Id"}, "the bug's id"},
		"CreateLamportTime": {nil, []string{"CreateLamportTime"}, "sort key 'creation': the bug's creation Lamport time"},
		"EditLamportTime":   {nil, []string{"EditLamportTime"}, "sort key 'edit': the bug's edit Lamport time"},
		"CreateUnixTime":    {nil, []string{"FirstOp", "Time", "Unix"}, "wall-clock time of the first operation"},
		"EditUnixTime":      {nil, []string{"EditTime", "Unix"}, "wall-clock time of the last edit (Snapshot.EditTime)"},
		"AuthorId":          {[]string{"Author"}, []string{"Id"}, "author: qualifier: id of Snapshot.Author"},
		"LenComments":       {[]string{"Comments"}, []string{"len"}, "number of Snapshot.Comments"},
		"CreateMetadata":    {nil, []string{"FirstOp", "AllMetadata"}, "metadata: qualifier: metadata of the create operation"},
		"Actors":            {[]string{"Actors"}, []string{"Id"}, "ids of Snapshot.Actors"},
		"Participants":      {[]string{"Participants"}, []string{"Id"}, "ids of Snapshot.Participants"},
	}
	var exT types.Type
	if cp := w.Pkg("cache"); cp != nil {
		if o := cp.Types.Scope().Lookup("BugExcerpt"); o != nil {
			exT = o.Type()
		}
	}
	// accessors that identify which aspect of the bug is read
	distinguished := map[string]bool{"CreateLamportTime": true, "EditLamportTime": true, "FirstOp": true, "LastOp": true, "EditTime": true, "AllMetadata": true, "ImmutableMetadata": true, "MutableMetadata": true, "len": true, "CreateTime": true}
	n := 0
	for _, f := range structFieldNames(exT) {
		vals := stores[f]
		key := "NewBugExcerpt:" + f
		if len(vals) == 0 {
			c.Check(false, rule, key, pos, "", "the excerpt field "+f+" is never filled: what is filtered or sorted on it is the zero value")
			continue
		}
		c.Sites++
		n++
		tok := map[string]bool{}
		for _, v := range vals {
			for k := range feedTokens(v) {
				tok[k] = true
			}
		}
		gotFields := tokensWithPrefix(tok, "field:entities/bug.Snapshot.")
		var gotCalls []string
		for _, cl := range tokensWithPrefix(tok, "call:") {
			if distinguished[cl] {
				gotCalls = append(gotCalls, cl)
			}
		}
		var want src
		if s, ok := special[f]; ok {
			want = s
		} else if snapFields[f] {
			want = src{[]string{f}, nil, "the snapshot field of the same name"}
		} else {
			c.Info(rule, key, pos, fmt.Sprintf("no reference source for this field (fed by snapshot fields %v, accessors %v)", gotFields, gotCalls))
			continue
		}
		bad := ""
		if strings.Join(gotFields, ",") != strings.Join(sortedCopy(want.fields), ",") {
			bad = fmt.Sprintf("is computed from the snapshot fields %v, expected %v", gotFields, sortedCopy(want.fields))
		}
		if bad == "" {
			wantCalls := map[string]bool{}
			for _, cl := range want.calls {
				wantCalls[cl] = true
				if !tok["call:"+cl] {
					bad = fmt.Sprintf("is not computed through %s()", cl)
				}
			}
			for _, cl := range gotCalls {
				if !wantCalls[cl] {
					bad = fmt.Sprintf("is computed through %s(), which is not its source", cl)
				}
			}
		}
		c.Check(bad == "", rule, key, pos, fmt.Sprintf("%s ← snapshot fields %v, accessors %v (%s)", f, gotFields, want.calls, want.why),
			"the excerpt field "+f+" "+bad+" ("+want.why+"): queries and listings are answered from the excerpt")
	}
	// the metadata of the create operation is complete only once the snapshot was compiled (set-metadata operations
	// attach their values to their target when they are applied): it is read after Snapshot()
	{
		var snapCall, metaCall ssa.Instruction
		for _, cl := range Calls(fn) {
			if strings.HasSuffix(cl.Name, ".Snapshot") && snapCall == nil {
				snapCall = cl.Instr
			}
			if strings.HasSuffix(cl.Name, ".AllMetadata") {
				metaCall = cl.Instr
			}
		}
		if metaCall != nil {
			c.Sites++
			c.Check(snapCall != nil && instrDominates(snapCall, metaCall), rule, "NewBugExcerpt:metadata-after-compile", w.InstrPos(metaCall), "AllMetadata() is read after Snapshot()",
				"the create operation's metadata is copied before the snapshot is compiled: values attached by set-metadata operations (how bridges record the tracker ids) are applied to it during compilation, so an excerpt built from a freshly read bug (rebuild, pull) lacks them and metadata: queries miss the bug")
		}
	}
	c.Check(n >= 10, rule, "NewBugExcerpt:fields-covered", pos, fmt.Sprintf("%d excerpt fields examined", n), fmt.Sprintf("only %d excerpt fields found (at least 10 expected)", n))

	// ---- (A') NewIdentityExcerpt: field F ← accessor F()
	if ifn := w.Func("cache", "NewIdentityExcerpt"); ifn != nil {
		c.seeFn(funcName(ifn))
		st := structStores(ifn, "cache.IdentityExcerpt")
		var names []string
		for f := range st {
			names = append(names, f)
		}
		sort.Strings(names)
		for _, f := range names {
			c.Sites++
			tok := map[string]bool{}
			for _, v := range st[f] {
				for k := range feedTokens(v) {
					tok[k] = true
				}
			}
			wantCall := f
			if f == "id" {
				wantCall = "Id"
			}
			var other []string
			for _, cl := range tokensWithPrefix(tok, "call:") {
				if cl != wantCall {
					other = append(other, cl)
				}
			}
			c.Check(tok["call:"+wantCall] && len(other) == 0, rule, "NewIdentityExcerpt:"+f, w.FnPos(ifn), f+" ← "+wantCall+"()",
				fmt.Sprintf("the identity excerpt field %s is computed from %v instead of %s(): author/actor/participant matching reads it", f, tokensWithPrefix(tok, "call:"), wantCall))
		}
		c.Check(len(names) >= 4, rule, "NewIdentityExcerpt:fields-covered", w.FnPos(ifn), fmt.Sprintf("%d fields", len(names)), "fewer than 4 identity excerpt fields are filled")
	} else {
		c.Undecided(rule, "anchor:cache.NewIdentityExcerpt", "cache", "not found")
	}

	// ---- (B) filters read the field of their qualifier
	filterField := map[string]string{
		"StatusFilter":      "Status",
		"AuthorFilter":      "AuthorId",
		"MetadataFilter":    "CreateMetadata",
		"LabelFilter":       "Labels",
		"ActorFilter":       "Actors",
		"ParticipantFilter": "Participants",
		"TitleFilter":       "Title",
		"NoLabelFilter":     "Labels",
	}
	sp := w.SSAPkg("cache")
	nf := 0
	if sp != nil {
		var names []string
		for name, m := range sp.Members {
			if f, ok := m.(*ssa.Function); ok && strings.HasSuffix(name, "Filter") && f.Signature.Results().Len() == 1 && typeShortName(f.Signature.Results().At(0).Type()) == "cache.Filter" {
				names = append(names, name)
			}
		}
		sort.Strings(names)
		for _, name := range names {
			f := sp.Members[name].(*ssa.Function)
			c.seeFn(funcName(f))
			read := map[string]bool{}
			var visit func(g *ssa.Function, depth int)
			visit = func(g *ssa.Function, depth int) {
				for _, b := range g.Blocks {
					for _, ins := range b.Instrs {
						var base ssa.Value
						var fname string
						switch x := ins.(type) {
						case *ssa.FieldAddr:
							base, fname = x.X, fieldName(x)
						case *ssa.Field:
							base, fname = x.X, fieldName(x)
						default:
							continue
						}
						t := base.Type()
						if p, isP := t.Underlying().(*types.Pointer); isP {
							t = p.Elem()
						}
						if typeShortName(t) == "cache.BugExcerpt" {
							read[fname] = true
						}
					}
				}
				if depth < 2 {
					for _, an := range g.AnonFuncs {
						visit(an, depth+1)
					}
				}
			}
			visit(f, 0)
			var got []string
			for k := range read {
				got = append(got, k)
			}
			sort.Strings(got)
			c.Sites++
			nf++
			want, known := filterField[name]
			if !known {
				c.Info(rule, "filter:"+name, w.FnPos(f), fmt.Sprintf("no reference field for this filter (reads %v)", got))
				continue
			}
			c.Check(len(got) == 1 && got[0] == want, rule, "filter:"+name, w.FnPos(f), name+" reads BugExcerpt."+want+" only",
				fmt.Sprintf("%s reads the excerpt fields %v; its qualifier is answered from %s", name, got, want))
		}
	}
	c.Check(nf >= 8, rule, "filter:covered", pos, fmt.Sprintf("%d filter constructors examined", nf), fmt.Sprintf("only %d filter constructors found (8 expected)", nf))
	_ = token.ADD
}

func sortedCopy(in []string) []string {
	out := append([]string{}, in...)
	sort.Strings(out)
	return out
}

// R12.10: the CLI's repair of the quotes the shell removed (commands/bug.repairQuery) cuts an argument
// wherever the tokenizer will cut it again: at every ':' — a limit on the number of parts quotes
// "sub:multi word" as one value and the parser then sees another qualifier.
func checkRepairQuery(c *Ctx) {
	w := c.W
	c.Doc("R12.10", "commands/bug.repairQuery splits every argument at every ':' (strings.Split, or SplitN without an effective limit: the tokenizer cuts a field into up to 3 chunks), wraps exactly the parts containing a space in double quotes, and joins the parts with the same separator and the arguments with a space")
	fn := w.Func("commands/bug", "repairQuery")
	if fn == nil {
		c.Info("R12.10", "anchor:repairQuery", "commands/bug", "no repairQuery: the CLI passes the query as typed")
		return
	}
	c.seeFn(funcName(fn))
	pos := w.FnPos(fn)
	var split, joinParts, joinArgs, contains *Call
	for _, cl := range Calls(fn) {
		switch cl.Name {
		case "strings.Split", "strings.SplitN":
			split = cl
		case "strings.Join":
			if a := cl.Args(); len(a) == 2 {
				if s, ok := constString(a[1]); ok && s == " " {
					joinArgs = cl
				} else {
					joinParts = cl
				}
			}
		case "strings.Contains":
			contains = cl
		}
	}
	if split == nil {
		c.Info("R12.10", "repairQuery:splits-at-every-colon", pos, "the repair does not use strings.Split / SplitN: not interpreted")
		return
	}
	c.Sites++
	sep, _ := constString(split.Args()[1])
	bad := ""
	if sep != ":" {
		bad = fmt.Sprintf("the arguments are split on %q, the tokenizer splits fields on ':'", sep)
	}
	if split.Name == "strings.SplitN" {
		if n, ok := constInt(split.Args()[2]); !ok {
			bad = "the number of parts is limited by a computed value"
		} else if n >= 0 && n < 3 {
			bad = fmt.Sprintf("an argument is cut into at most %d parts: in qualifier:sub:multi word the part after the first ':' is quoted as a whole and parsed as the value of the qualifier", n)
		}
	}
	c.Check(bad == "", "R12.10", "repairQuery:splits-at-every-colon", w.InstrPos(split.Instr), "every argument is cut at every ':'", bad)
	okJoin := joinParts != nil && joinArgs != nil
	if okJoin {
		s, isS := constString(joinParts.Args()[1])
		okJoin = isS && s == sep
	}
	c.Check(okJoin, "R12.10", "repairQuery:joined-as-split", pos, "the parts are joined with the separator they were split on and the arguments with a space",
		"the repaired parts are not joined with the separator they were split on (and the arguments with one space)")
	// the quoting: exactly under Contains(part, " ")
	okQuote, why := false, "no strings.Contains(part, \" \") test found"
	if contains != nil {
		if s, ok := constString(contains.Args()[1]); ok && s == " " {
			why = "no store of the quoted part under the test"
			for _, b := range fn.Blocks {
				for _, ins := range b.Instrs {
					st, isSt := ins.(*ssa.Store)
					if !isSt {
						continue
					}
					if _, isIdx := st.Addr.(*ssa.IndexAddr); !isIdx {
						continue
					}
					quoted := false
					for _, t := range templatesOf(st.Val) {
						if t.Shape() == "\"‹›\"" && len(t.Holes()) == 1 {
							quoted = true
						}
					}
					if !quoted {
						continue
					}
					c.Sites++
					if dominatedByTrue(contains.Value(), b) {
						okQuote = true
					} else {
						why = "a part is quoted at " + w.InstrPos(st) + " without having been tested for a space"
					}
				}
			}
		}
	}
	c.Check(okQuote, "R12.10", "repairQuery:quotes-parts-with-space", pos, "a part is wrapped in double quotes exactly when it contains a space", why)
}

// dominatedByTrue: block b is dominated by the true edge of an If on cond.
func dominatedByTrue(cond ssa.Value, b *ssa.BasicBlock) bool {
	if cond == nil {
		return false
	}
	for _, r := range *cond.Referrers() {
		iff, ok := r.(*ssa.If)
		if !ok {
			continue
		}
		t := iff.Block().Succs[0]
		if len(t.Preds) == 1 && t.Dominates(b) {
			return true
		}
	}
	return false
}

// R11.10: a damaged cache file is noticed. RepoCache.load answers for every sub-cache, and the only way
// past a failed load is the rebuild.
func checkLoadAllOrRebuild(c *Ctx, rule string) {
	w := c.W
	c.Doc(rule, "RepoCache.load loads every sub-cache of c.subcaches and its result carries the failure of any of them (each Load handed to ErrWaitGroup.Go and the result of Wait returned, or a direct call whose error is returned or joined; ErrWaitGroup.Go joins every non-nil result into the error Wait returns); the opener leaves without rebuilding only on the nil outcome of load")
	fn := w.Method("cache", "RepoCache", "load")
	if fn == nil {
		c.Undecided(rule, "anchor:RepoCache.load", "cache", "not found")
		return
	}
	c.seeFn(funcName(fn))
	pos := w.FnPos(fn)
	n := 0
	for _, b := range fn.Blocks {
		for _, ins := range b.Instrs {
			switch x := ins.(type) {
			case *ssa.MakeClosure:
				f, _ := x.Fn.(*ssa.Function)
				if f == nil || !strings.HasSuffix(f.Name(), "Load$bound") {
					continue
				}
				n++
				c.Sites++
				key := "RepoCache.load:every-failure-reported"
				// handed to ErrWaitGroup.Go on a group whose Wait is what load returns
				var grp ssa.Value
				for _, r := range *x.Referrers() {
					if cv, ok := r.(*ssa.Call); ok {
						if nm, _ := callName(cv.Common()); strings.HasSuffix(nm, "multierr.ErrWaitGroup.Go") && len(cv.Common().Args) == 2 {
							grp = cv.Common().Args[0]
						}
					}
				}
				ok := grp != nil
				why := "the bound Load is not handed to ErrWaitGroup.Go"
				if ok {
					for _, r := range Returns(fn) {
						res := ReturnResult(r, 0)
						good := false
						for _, o := range origins(res) {
							if o.Kind == "call" && strings.HasSuffix(o.Name, "multierr.ErrWaitGroup.Wait") {
								if cv := o.Val.(*ssa.Call); len(cv.Common().Args) == 1 && cv.Common().Args[0] == grp {
									good = true
								}
							}
						}
						if !good {
							ok, why = false, "load returns at "+w.InstrPos(r)+" something else than the result of Wait on the group the loads were started on"
						}
					}
				}
				c.Check(ok && enclosingLoopHeader(b) != nil && feedTokens(x.Bindings[0])["field:cache.RepoCache.subcaches"], rule, key, w.InstrPos(x),
					"every sub-cache of c.subcaches is loaded through the error group whose Wait is returned", why+" (or the loads do not range over c.subcaches)")
			case *ssa.Call:
				nm, _ := callName(x.Common())
				if !strings.HasSuffix(nm, ".Load") || !x.Common().IsInvoke() {
					continue
				}
				n++
				c.Sites++
				key := "RepoCache.load:every-failure-reported"
				ok := errorPropagated(x, nil)
				if !ok {
					// joined / collected: the error is an argument of a call whose result reaches the return
					for _, ev := range errValues(x) {
						for _, r := range *ev.Referrers() {
							if cv, isCall := r.(*ssa.Call); isCall {
								for _, ret := range Returns(fn) {
									for _, o := range origins(ReturnResult(ret, 0)) {
										if o.Val == ssa.Value(cv) {
											ok = true
										}
									}
								}
								// or appended to a collection (errs = append(errs, err))
								if bi, isB := cv.Common().Value.(*ssa.Builtin); isB && bi.Name() == "append" {
									ok = true
								}
							}
						}
					}
				}
				c.Check(ok && enclosingLoopHeader(b) != nil && feedTokens(x.Common().Value)["field:cache.RepoCache.subcaches"], rule, key, w.InstrPos(x),
					"the error of each Load is returned or joined",
					"the error of a sub-cache's Load is neither returned at once nor joined into the result: when another sub-cache loads fine afterwards the failure is overwritten, no rebuild happens and the session runs without that sub-cache's excerpts")
			}
		}
	}
	c.Check(n >= 1, rule, "RepoCache.load:loads-found", pos, fmt.Sprintf("%d Load site(s)", n), "no Load of a sub-cache found in RepoCache.load")

	// ErrWaitGroup: Go joins, Wait returns the joined error
	goFn := w.Method("util/multierr", "ErrWaitGroup", "Go")
	waitFn := w.Method("util/multierr", "ErrWaitGroup", "Wait")
	if goFn == nil || waitFn == nil {
		c.Undecided(rule, "anchor:ErrWaitGroup.Go/Wait", "util/multierr", "not found")
	} else {
		c.seeFn(funcName(goFn))
		c.seeFn(funcName(waitFn))
		joined := false
		// the goroutine body and the same-package helpers it calls with the task's error
		scan := append([]*ssa.Function{}, goFn.AnonFuncs...)
		taskErrParam := map[*ssa.Function]map[int]bool{}
		for _, an := range goFn.AnonFuncs {
			for _, cl := range Calls(an) {
				callee := cl.Instr.Common().StaticCallee()
				if callee == nil || len(callee.Blocks) == 0 || !samePkgFn(callee, goFn) {
					continue
				}
				for i, a := range cl.Instr.Common().Args {
					for _, o := range origins(a) {
						if o.Kind == "call" {
							if c2, isC := o.Val.(*ssa.Call); isC && !c2.Common().IsInvoke() && c2.Common().StaticCallee() == nil {
								if taskErrParam[callee] == nil {
									taskErrParam[callee] = map[int]bool{}
									scan = append(scan, callee)
								}
								taskErrParam[callee][i] = true
							}
						}
					}
				}
			}
		}
		for _, an := range scan {
			for _, b := range an.Blocks {
				for _, ins := range b.Instrs {
					st, ok := ins.(*ssa.Store)
					if !ok {
						continue
					}
					fa, ok := st.Addr.(*ssa.FieldAddr)
					if !ok || fieldName(fa) != "err" {
						continue
					}
					c.Sites++
					tok := feedTokens(st.Val)
					if tok["call:Join"] && tok["field:util/multierr.ErrWaitGroup.err"] {
						// the joined value includes the result of the task
						for _, o := range origins(st.Val) {
							if cv, isCall := o.Val.(*ssa.Call); isCall && o.Kind == "call" {
								for _, a := range cv.Common().Args {
									for _, o2 := range origins(a) {
										if o2.Kind == "param" && taskErrParam[an][o2.Idx] {
											joined = true
										}
										if o2.Kind == "call" {
											if c2, isC := o2.Val.(*ssa.Call); isC && !c2.Common().IsInvoke() {
												for _, o3 := range origins(c2.Common().Value) {
													if o3.Kind == "freevar" || o3.Kind == "param" {
														joined = true
													}
												}
											}
										}
									}
								}
							}
						}
					}
				}
			}
		}
		c.Check(joined, rule, "ErrWaitGroup.Go:joins-every-error", w.FnPos(goFn), "g.err = Join(g.err, <result of the task>)", "the task's error is not joined with the errors already collected: a later result replaces (or loses) an earlier failure")
		okWait := false
		for _, r := range Returns(waitFn) {
			tok := feedTokens(ReturnResult(r, 0))
			if tok["field:util/multierr.ErrWaitGroup.err"] {
				okWait = true
			}
		}
		waited := false
		for _, cl := range Calls(waitFn) {
			if cl.Name == "sync.WaitGroup.Wait" {
				waited = true
			}
		}
		c.Check(okWait && waited, rule, "ErrWaitGroup.Wait:returns-the-joined-error", w.FnPos(waitFn), "waits for the tasks, then returns g.err", "Wait does not return the collected error after waiting for the tasks")
	}

	// the opener: past a failed load only through the rebuild
	nOpen := 0
	for _, f := range w.ModFns {
		if fnPkgPath(f) != modPath+"/cache" {
			continue
		}
		for _, cl := range Calls(f) {
			if cl.Name != "cache.RepoCache.load" {
				continue
			}
			cv, isCall := cl.Instr.(*ssa.Call)
			if !isCall {
				continue
			}
			nOpen++
			c.Sites++
			c.seeFn(funcName(f))
			isErr := func(v ssa.Value) bool { return stripConv(v) == ssa.Value(cv) }
			hasRebuild := func(b *ssa.BasicBlock) bool {
				for _, ins := range b.Instrs {
					if ci, ok := ins.(ssa.CallInstruction); ok {
						if callReaches(ci, func(n string) bool { return n == "cache.RepoCache.buildCache" }, 2) {
							return true
						}
					}
				}
				return false
			}
			bad := ""
			for _, r := range Returns(f) {
				if returnKind(r) == RetError {
					continue
				}
				if r.Block() == cv.Block() {
					continue
				}
				if reachWithoutEdge(cv.Block(), r.Block(), func(b *ssa.BasicBlock, s int) bool {
					return nilEdge(b, s, isErr) || hasRebuild(b.Succs[s])
				}) && !hasRebuild(r.Block()) {
					bad = "the return at " + w.InstrPos(r) + " is reachable after a failed load without rebuilding"
				}
			}
			// the error itself returned to the caller is fine (the caller decides); a func without result must rebuild
			c.Check(bad == "", rule, funcName(f)+":failed-load-rebuilds", w.InstrPos(cv), "the only exits after load that skip buildCache are on its nil outcome (or fail)", bad+": the session serves a cache that could not be loaded")
		}
	}
	c.Check(nOpen >= 1, rule, "RepoCache.load:called-by-the-opener", pos, fmt.Sprintf("%d call site(s)", nOpen), "no call of RepoCache.load found")
}

// R11.11: whoever consumes the results of the cache's MergeAll reads them to the end. The channels are
// unbuffered and SubCache.MergeAll rewrites the cache file only after its last result was taken: a consumer
// that stops at some result leaves the producers blocked for ever, and the entities merged so far have their
// refs moved (and their in-memory excerpt refreshed) while the file on disk keeps the old excerpts.
func checkMergeResultsDrained(c *Ctx, rule string) {
	w := c.W
	c.Doc(rule, "every loop that ranges over the channel returned by RepoCache.MergeAll / SubCache.MergeAll / cacheMgmt.MergeAll is left by exhaustion only (no return or break inside the loop)")
	isCacheMergeAll := func(n string) bool {
		return n == "cache.RepoCache.MergeAll" || n == "cache.SubCache.MergeAll" || n == "cache.cacheMgmt.MergeAll" || n == "cache.RepoCacheBug.MergeAll" || n == "cache.RepoCacheIdentity.MergeAll"
	}
	n := 0
	for _, f := range w.ModFns {
		if isInstance(f) || w.isTestHelper(f) || len(f.Blocks) == 0 {
			continue
		}
		for _, h := range f.Blocks {
			if !isLoopHeader(h) {
				continue
			}
			var src *ssa.Call
			for _, ins := range h.Instrs {
				if u, ok := ins.(*ssa.UnOp); ok && u.Op == token.ARROW && u.CommaOk {
					for _, o := range origins(u.X) {
						if o.Kind == "call" && isCacheMergeAll(o.Name) {
							src, _ = o.Val.(*ssa.Call)
						}
					}
				}
			}
			if src == nil {
				continue
			}
			n++
			c.Sites++
			c.seeFn(funcName(f))
			bad := ""
			for _, b := range f.Blocks {
				if b == h || !inLoop(b, h) {
					continue
				}
				for _, s := range b.Succs {
					if !inLoop(s, h) {
						bad = w.InstrPos(firstPosInstr(s))
					}
				}
			}
			c.Check(bad == "", rule, funcName(f)+":drains-merge-results", w.InstrPos(firstPosInstr(h)), "the results are read to the end",
				"the loop over the merge results is left at "+bad+" before the channel is exhausted: the merging goroutines block on their next send, SubCache.MergeAll never reaches its write of the cache file, and the next session loads excerpts that predate the refs already moved by this pull")
		}
	}
	c.Check(n >= 3, rule, "expected:merge-result-consumers", "module", fmt.Sprintf("%d consumers of the cache's merge results", n), fmt.Sprintf("only %d consumers found (reference 4)", n))
}

// R11.12: a command that has staged an operation commits it before it ends, whatever it then reports.
// Staging through the cache already refreshes the excerpt, the index and the cache file; a process that
// exits between staging and Commit leaves them describing an operation that git does not hold.
func checkCommandsCommitWhatTheyStage(c *Ctx, rule string) {
	w := c.W
	c.Doc(rule, "in package commands: after a successful call of an editing method of cache.BugCache (AddComment…, ChangeLabels, SetTitle, Open, Close, EditComment…, SetMetadata) no return — with or without error — is reachable that does not pass Commit / CommitAsNeeded of a cache entity")
	staging := map[string]bool{"AddComment": true, "AddCommentWithFiles": true, "AddCommentRaw": true, "ChangeLabels": true, "ChangeLabelsRaw": true, "ForceChangeLabels": true, "ForceChangeLabelsRaw": true,
		"SetTitle": true, "SetTitleRaw": true, "Open": true, "OpenRaw": true, "Close": true, "CloseRaw": true, "EditComment": true, "EditCommentRaw": true, "EditCreateComment": true, "EditCreateCommentRaw": true, "SetMetadata": true, "SetMetadataRaw": true}
	isCommit := func(i ssa.Instruction) bool {
		ci, ok := i.(ssa.CallInstruction)
		if !ok {
			return false
		}
		n, _ := callName(ci.Common())
		return strings.HasPrefix(n, "cache.") && (strings.HasSuffix(n, ".Commit") || strings.HasSuffix(n, ".CommitAsNeeded"))
	}
	n := 0
	for _, f := range w.ModFns {
		if isInstance(f) || w.isTestHelper(f) || !strings.HasPrefix(fnPkgPath(f), modPath+"/commands") || len(f.Blocks) == 0 {
			continue
		}
		for _, cl := range Calls(f) {
			if !strings.HasPrefix(cl.Name, "cache.BugCache.") {
				continue
			}
			_, m := lastDot(cl.Name)
			if !staging[m] || cl.Value() == nil {
				continue
			}
			n++
			c.Sites++
			c.seeFn(funcName(f))
			bad := false
			var p []*ssa.BasicBlock
			sbs := successBlocks(cl.Value())
			if len(sbs) == 0 {
				// the error is tested later (after printing the per-label results): every path from the call
				bad, p, _ = pathAvoiding(f, cl.Instr, isAnyReturn, isCommit)
				// paths on which the staging call itself failed are fine: they return its error; keep only returns not fed by that error
				if bad {
					bad = false
					for _, r := range Returns(f) {
						reach, pp, _ := pathAvoiding(f, cl.Instr, func(i ssa.Instruction) bool { return i == ssa.Instruction(r) }, isCommit)
						if !reach {
							continue
						}
						fromCall := false
						for _, rv := range r.Results {
							for _, o := range origins(rv) {
								if o.Val == cl.Value() {
									fromCall = true
								}
							}
						}
						if !fromCall {
							bad, p = true, pp
						}
					}
				}
			} else {
				for _, sb := range sbs {
					if found, pp, _ := pathSearch(f, nil, sb, isAnyReturn, isCommit, false); found {
						bad, p = true, pp
					}
				}
			}
			c.Check(!bad, rule, funcName(f)+":"+m+":committed-before-returning", w.InstrPos(cl.Instr), "every exit after the staging passes Commit",
				"after "+m+" staged an operation the command can return without committing it ("+blocksString(w, p)+"): the excerpt, the index and the cache file written at staging time describe an operation that is not in git — every later session lists a state a rebuilt cache does not have")
		}
	}
	c.Check(n >= 8, rule, "expected:staging-calls-in-commands", "commands", fmt.Sprintf("%d staging calls", n), fmt.Sprintf("only %d staging calls found in package commands (reference ≥ 10)", n))
}
