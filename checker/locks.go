package main

// A-LOCK: path-sensitive lockset dataflow per function (pairing, locks held at each
// instruction), guarded-by table, same-receiver re-entry, class-level lock order graph.

import (
	"fmt"
	"go/token"
	"go/types"
	"sort"
	"strings"

	"golang.org/x/tools/go/ssa"
)

type lockOp struct {
	Key   string // textual path of the mutex (e.g. "sc.mu")
	Class string // type.field of the mutex (instantiated type)
	Mode  byte   // 'W' or 'R'
	Delta int    // +1 acquire, -1 release
	Base  ssa.Value
}

func valueKey(v ssa.Value) string {
	switch x := v.(type) {
	case *ssa.FieldAddr:
		return valueKey(x.X) + "." + fieldName(x)
	case *ssa.Field:
		return valueKey(x.X) + "." + fieldName(x)
	case *ssa.Parameter:
		return x.Name()
	case *ssa.FreeVar:
		return x.Name()
	case *ssa.Global:
		return x.Name()
	case *ssa.UnOp:
		if x.Op == token.MUL {
			return valueKey(x.X)
		}
	case *ssa.Alloc:
		if x.Comment != "" {
			return x.Comment
		}
	}
	return v.Name()
}

func mutexClass(addr ssa.Value) string {
	if fa, ok := addr.(*ssa.FieldAddr); ok {
		t := fa.X.Type()
		if p, ok := t.Underlying().(*types.Pointer); ok {
			t = p.Elem()
		}
		return short(types.TypeString(t, nil)) + "." + fieldName(fa)
	}
	return short(addr.Type().String())
}

func asLockOp(cc *ssa.CallCommon) (lockOp, bool) {
	f := cc.StaticCallee()
	if f == nil || f.Pkg == nil || f.Pkg.Pkg.Path() != "sync" || f.Signature.Recv() == nil || len(cc.Args) == 0 {
		return lockOp{}, false
	}
	if !strings.Contains(f.Signature.Recv().Type().String(), "Mutex") {
		return lockOp{}, false
	}
	op := lockOp{Key: valueKey(cc.Args[0]), Class: mutexClass(cc.Args[0])}
	if fa, ok := cc.Args[0].(*ssa.FieldAddr); ok {
		op.Base = fa.X
	}
	switch f.Name() {
	case "Lock":
		op.Mode, op.Delta = 'W', 1
	case "Unlock":
		op.Mode, op.Delta = 'W', -1
	case "RLock":
		op.Mode, op.Delta = 'R', 1
	case "RUnlock":
		op.Mode, op.Delta = 'R', -1
	default:
		return lockOp{}, false
	}
	return op, true
}

type lockState struct {
	held     map[string]int // key#mode -> count
	deferred map[string]int
}

func (s lockState) clone() lockState {
	n := lockState{map[string]int{}, map[string]int{}}
	for k, v := range s.held {
		if v != 0 {
			n.held[k] = v
		}
	}
	for k, v := range s.deferred {
		if v != 0 {
			n.deferred[k] = v
		}
	}
	return n
}

func (s lockState) String() string {
	var ks []string
	for k, v := range s.held {
		if v != 0 {
			ks = append(ks, fmt.Sprintf("%s:%d", k, v))
		}
	}
	for k, v := range s.deferred {
		if v != 0 {
			ks = append(ks, fmt.Sprintf("d!%s:%d", k, v))
		}
	}
	sort.Strings(ks)
	return strings.Join(ks, ",")
}

type lockFinding struct {
	Pos, What string
	Ins       ssa.Instruction
}

type lockInfo struct {
	fn *ssa.Function
	// locks that may be held when the instruction executes (union over paths) and that are held on all paths
	may  map[ssa.Instruction]map[string]bool
	must map[ssa.Instruction]map[string]bool
	// pairing findings
	Findings []lockFinding
	NOps     int
	classOf  map[string]string
}

// analyseLocks runs the lockset dataflow on fn.
func analyseLocks(w *World, fn *ssa.Function) *lockInfo {
	li := &lockInfo{fn: fn, may: map[ssa.Instruction]map[string]bool{}, must: map[ssa.Instruction]map[string]bool{}, classOf: map[string]string{}}
	if len(fn.Blocks) == 0 {
		return li
	}
	has := false
	for _, b := range fn.Blocks {
		for _, ins := range b.Instrs {
			if ci, ok := ins.(ssa.CallInstruction); ok {
				if _, ok := asLockOp(ci.Common()); ok {
					has = true
					li.NOps++
				}
			}
		}
	}
	if !has {
		return li
	}
	type item struct {
		b  *ssa.BasicBlock
		st lockState
	}
	seen := map[string]bool{}
	work := []item{{fn.Blocks[0], lockState{map[string]int{}, map[string]int{}}}}
	reported := map[string]bool{}
	report := func(ins ssa.Instruction, what string) {
		k := w.InstrPos(ins) + what
		if !reported[k] {
			reported[k] = true
			li.Findings = append(li.Findings, lockFinding{w.InstrPos(ins), what, ins})
		}
	}
	record := func(ins ssa.Instruction, st lockState) {
		cur := map[string]bool{}
		for k, v := range st.held {
			if v > 0 {
				cur[k] = true
			}
		}
		if m, ok := li.may[ins]; ok {
			for k := range cur {
				m[k] = true
			}
			mu := li.must[ins]
			for k := range mu {
				if !cur[k] {
					delete(mu, k)
				}
			}
		} else {
			li.may[ins] = map[string]bool{}
			li.must[ins] = map[string]bool{}
			for k := range cur {
				li.may[ins][k] = true
				li.must[ins][k] = true
			}
		}
	}
	steps := 0
	for len(work) > 0 {
		it := work[0]
		work = work[1:]
		steps++
		if steps > 20000 {
			report(fn.Blocks[0].Instrs[0], "lock analysis did not converge")
			break
		}
		st := it.st.clone()
		for _, ins := range it.b.Instrs {
			record(ins, st)
			switch x := ins.(type) {
			case *ssa.Call:
				if op, ok := asLockOp(x.Common()); ok {
					k := op.Key + "#" + string(op.Mode)
					li.classOf[k] = op.Class
					st.held[k] += op.Delta
					if st.held[k] < 0 {
						report(ins, "release of "+op.Key+" which is not held on this path")
						st.held[k] = 0
					}
					if op.Delta > 0 && (st.held[op.Key+"#W"] > 1 || (st.held[op.Key+"#W"] > 0 && st.held[op.Key+"#R"] > 0)) {
						report(ins, "acquires "+op.Key+" while already holding it")
					}
				}
			case *ssa.Defer:
				if op, ok := asLockOp(x.Common()); ok {
					k := op.Key + "#" + string(op.Mode)
					li.classOf[k] = op.Class
					st.deferred[k] += op.Delta
				} else if mc, ok := x.Common().Value.(*ssa.MakeClosure); ok {
					// deferred closure that unlocks
					if f, ok := mc.Fn.(*ssa.Function); ok {
						for _, b2 := range f.Blocks {
							for _, i2 := range b2.Instrs {
								if c2, ok := i2.(*ssa.Call); ok {
									if op, ok := asLockOp(c2.Common()); ok {
										// map the free variable to the binding
										key := op.Key
										for fi, fv := range f.FreeVars {
											if strings.HasPrefix(key, fv.Name()) && fi < len(mc.Bindings) {
												key = valueKey(mc.Bindings[fi]) + strings.TrimPrefix(key, fv.Name())
											}
										}
										st.deferred[key+"#"+string(op.Mode)] += op.Delta
									}
								}
							}
						}
					}
				}
			case *ssa.Return:
				fin := st.clone()
				for k, d := range fin.deferred {
					fin.held[k] += d
				}
				var heldKeys []string
				for k, v := range fin.held {
					if v > 0 {
						heldKeys = append(heldKeys, k)
					}
				}
				sort.Strings(heldKeys)
				if len(heldKeys) > 0 {
					report(ins, "returns with "+strings.Join(heldKeys, ", ")+" still held")
				}
			case *ssa.Panic:
				// deferred unlocks run; nothing to report
			}
		}
		for _, s := range it.b.Succs {
			sig := fmt.Sprintf("%d|%s", s.Index, st.String())
			if seen[sig] {
				continue
			}
			seen[sig] = true
			work = append(work, item{s, st})
		}
	}
	return li
}

// holds reports whether mutex path key (either mode, or write mode only) is held on all paths at ins.
func (li *lockInfo) holds(ins ssa.Instruction, key string, writeOnly bool) bool {
	m := li.must[ins]
	if m[key+"#W"] {
		return true
	}
	return !writeOnly && m[key+"#R"]
}

// ---- guarded-by table ----

type guardedField struct {
	Pkg, Type, Field, Mutex string
	Exempt                  map[string]string // function name -> reason
}

func guardedByTable() []guardedField {
	return []guardedField{
		{"cache", "SubCache", "excerpts", "mu", map[string]string{
			"cache.NewSubCache":      "constructor",
			"cache.SubCache.Build$1": "runs before the cache is published (load-or-build at open)",
		}},
		{"cache", "SubCache", "cached", "mu", map[string]string{
			"cache.NewSubCache":      "constructor",
			"cache.SubCache.Build$1": "runs before the cache is published (load-or-build at open)",
		}},
		{"cache", "RepoCache", "userIdentityId", "muUserIdentity", map[string]string{}},
		{"repository", "GoGitRepo", "clocks", "clocksMutex", map[string]string{
			"repository.OpenGoGitRepo": "constructor", "repository.InitGoGitRepo": "constructor", "repository.InitBareGoGitRepo": "constructor",
		}},
		{"repository", "GoGitRepo", "indexes", "indexesMutex", map[string]string{
			"repository.OpenGoGitRepo": "constructor", "repository.InitGoGitRepo": "constructor", "repository.InitBareGoGitRepo": "constructor",
			"repository.GoGitRepo.Close": "shutdown: the repository is closed by its single owner after all users are done",
		}},
		{"cache", "withSnapshot", "snap", "mu", map[string]string{}},
	}
}

// fieldAccessKind: how the field whose address is fa is used: "write" (stored, or the map/slice it holds is updated/deleted from) or "read".
func fieldAccessKind(fa *ssa.FieldAddr) string {
	kind := "read"
	for _, r := range *fa.Referrers() {
		switch x := r.(type) {
		case *ssa.Store:
			if x.Addr == fa {
				kind = "write"
			}
		case *ssa.UnOp:
			for _, r2 := range *x.Referrers() {
				switch y := r2.(type) {
				case *ssa.MapUpdate:
					if y.Map == x {
						kind = "write"
					}
				case *ssa.Call:
					if b, ok := y.Common().Value.(*ssa.Builtin); ok && b.Name() == "delete" && y.Common().Args[0] == x {
						kind = "write"
					}
				}
			}
		}
	}
	return kind
}

type lockWorld struct {
	w     *World
	infos map[*ssa.Function]*lockInfo
}

func newLockWorld(w *World) *lockWorld { return &lockWorld{w, map[*ssa.Function]*lockInfo{}} }

func (lw *lockWorld) info(fn *ssa.Function) *lockInfo {
	if li, ok := lw.infos[fn]; ok {
		return li
	}
	li := analyseLocks(lw.w, fn)
	lw.infos[fn] = li
	return li
}

// callersHold: every call site of fn (hybrid graph, module callers) holds the mutex of the
// receiver it passes.
func (lw *lockWorld) callersHold(fn *ssa.Function, mutexField string, writeOnly bool, depth int) (bool, string) {
	w := lw.w
	n := 0
	for _, caller := range w.ModFns {
		if isInstance(caller) != isInstance(fn) && fn.Origin() == nil {
			// compare like with like: generic origins call generic origins
		}
		for _, cl := range Calls(caller) {
			if cl.Fn == nil {
				continue
			}
			target := cl.Fn
			if o := target.Origin(); o != nil {
				target = o
			}
			self := fn
			if o := self.Origin(); o != nil {
				self = o
			}
			if target != self || isInstance(caller) {
				continue
			}
			n++
			recv := cl.Recv()
			if recv == nil {
				return false, "called without receiver from " + funcName(caller)
			}
			key := valueKey(recv) + "." + mutexField
			if lw.info(caller).holds(cl.Instr, key, writeOnly) {
				continue
			}
			if isFreshLocal(recv) {
				continue // constructor
			}
			if depth < 2 {
				if ok, _ := lw.callersHold(caller, mutexField, writeOnly, depth+1); ok {
					continue
				}
			}
			return false, "called from " + funcName(caller) + " at " + w.InstrPos(cl.Instr) + " without " + key
		}
	}
	if n == 0 {
		return false, "no caller found"
	}
	return true, ""
}

// ---- same-receiver re-entry ----

// selfAcquires: mutex fields (relative path from the receiver, e.g. "mu" or "SubCache.mu") that method fn
// may acquire on its own receiver, directly or through calls on the same receiver.
func (lw *lockWorld) selfAcquires(fn *ssa.Function, seen map[*ssa.Function]bool) map[string]byte {
	out := map[string]byte{}
	if fn == nil || seen[fn] || len(fn.Params) == 0 || fn.Signature.Recv() == nil {
		return out
	}
	seen[fn] = true
	recv := fn.Params[0]
	rk := valueKey(recv)
	for _, cl := range Calls(fn) {
		if _, isDefer := cl.Instr.(*ssa.Defer); isDefer {
			continue
		}
		if _, isGo := cl.Instr.(*ssa.Go); isGo {
			continue
		}
		if op, ok := asLockOp(cl.Instr.Common()); ok {
			if op.Delta > 0 && strings.HasPrefix(op.Key, rk+".") {
				rel := strings.TrimPrefix(op.Key, rk+".")
				if out[rel] != 'W' {
					out[rel] = op.Mode
				}
			}
			continue
		}
		if cl.Fn == nil || !lw.w.inModule(cl.Fn) {
			continue
		}
		r := cl.Recv()
		if r == nil {
			continue
		}
		k := valueKey(r)
		if k != rk && !strings.HasPrefix(k, rk+".") {
			continue
		}
		prefix := strings.TrimPrefix(strings.TrimPrefix(k, rk), ".")
		for rel, m := range lw.selfAcquires(bodyOf(cl.Fn), seen) {
			full := rel
			if prefix != "" {
				full = prefix + "." + rel
			}
			if out[full] != 'W' {
				out[full] = m
			}
		}
	}
	return out
}

type reentry struct {
	Caller *ssa.Function
	Call   *Call
	Key    string
}

func (lw *lockWorld) reentries(fns []*ssa.Function) []reentry {
	var out []reentry
	for _, fn := range fns {
		li := lw.info(fn)
		if li.NOps == 0 {
			continue
		}
		for _, cl := range Calls(fn) {
			if _, isDefer := cl.Instr.(*ssa.Defer); isDefer {
				continue
			}
			if _, isGo := cl.Instr.(*ssa.Go); isGo {
				continue
			}
			held := li.may[cl.Instr]
			if len(held) == 0 || cl.Fn == nil || !lw.w.inModule(cl.Fn) {
				continue
			}
			if _, ok := asLockOp(cl.Instr.Common()); ok {
				continue
			}
			r := cl.Recv()
			if r == nil {
				continue
			}
			rk := valueKey(r)
			for rel, mode := range lw.selfAcquires(bodyOf(cl.Fn), map[*ssa.Function]bool{}) {
				key := rk + "." + rel
				// Go's RWMutex: a second RLock deadlocks when a writer is queued; any combination with W deadlocks outright
				if held[key+"#W"] || held[key+"#R"] {
					_ = mode
					out = append(out, reentry{fn, cl, key})
				}
			}
		}
	}
	return out
}

// ---- class-level lock order ----

type orderEdge struct {
	From, To string
	Where    string
}

func (lw *lockWorld) mayAcquireClasses(roots []*ssa.Function) map[*ssa.Function]map[string]bool {
	w := lw.w
	direct := map[*ssa.Function]map[string]bool{}
	parent := w.Reach(roots, nil)
	var fns []*ssa.Function
	for f := range parent {
		fns = append(fns, f)
	}
	for _, f := range fns {
		m := map[string]bool{}
		for _, cl := range Calls(f) {
			if _, isDefer := cl.Instr.(*ssa.Defer); isDefer {
				continue
			}
			if op, ok := asLockOp(cl.Instr.Common()); ok && op.Delta > 0 {
				m[op.Class] = true
			}
		}
		direct[f] = m
	}
	for changed := true; changed; {
		changed = false
		for _, f := range fns {
			for _, e := range w.Callees(f) {
				if _, isGo := e.Site.(*ssa.Go); isGo {
					continue
				}
				cm, ok := direct[e.Callee]
				if !ok {
					continue
				}
				for c := range cm {
					if !direct[f][c] {
						direct[f][c] = true
						changed = true
					}
				}
			}
		}
	}
	return direct
}

func (lw *lockWorld) orderEdges(roots []*ssa.Function) []orderEdge {
	w := lw.w
	acq := lw.mayAcquireClasses(roots)
	var edges []orderEdge
	seen := map[string]bool{}
	for f := range acq {
		li := lw.info(f)
		if li.NOps == 0 {
			continue
		}
		for _, cl := range Calls(f) {
			if _, isDefer := cl.Instr.(*ssa.Defer); isDefer {
				continue
			}
			if _, isGo := cl.Instr.(*ssa.Go); isGo {
				continue
			}
			held := li.may[cl.Instr]
			if len(held) == 0 {
				continue
			}
			var to []string
			if op, ok := asLockOp(cl.Instr.Common()); ok {
				if op.Delta > 0 {
					to = append(to, op.Class)
				}
			} else {
				for _, callee := range w.SiteCallees(cl.Instr) {
					for c := range acq[callee] {
						to = append(to, c)
					}
				}
			}
			for hk := range held {
				from := li.classOf[hk]
				if from == "" {
					continue
				}
				for _, t := range to {
					if t == from {
						continue
					}
					k := from + "→" + t
					if !seen[k] {
						seen[k] = true
						edges = append(edges, orderEdge{from, t, funcName(f) + " at " + w.InstrPos(cl.Instr)})
					}
				}
			}
		}
	}
	sort.Slice(edges, func(i, j int) bool { return edges[i].From+edges[i].To < edges[j].From+edges[j].To })
	return edges
}

func findCycle(edges []orderEdge) []orderEdge {
	adj := map[string][]orderEdge{}
	for _, e := range edges {
		adj[e.From] = append(adj[e.From], e)
	}
	state := map[string]int{}
	var stack []orderEdge
	var cyc []orderEdge
	var dfs func(n string) bool
	dfs = func(n string) bool {
		state[n] = 1
		for _, e := range adj[n] {
			if state[e.To] == 1 {
				cyc = append(append([]orderEdge{}, stack...), e)
				// trim to the cycle
				for i, s := range cyc {
					if s.From == e.To {
						cyc = cyc[i:]
						break
					}
				}
				return true
			}
			if state[e.To] == 0 {
				stack = append(stack, e)
				if dfs(e.To) {
					return true
				}
				stack = stack[:len(stack)-1]
			}
		}
		state[n] = 2
		return false
	}
	var nodes []string
	for n := range adj {
		nodes = append(nodes, n)
	}
	sort.Strings(nodes)
	for _, n := range nodes {
		if state[n] == 0 && dfs(n) {
			return cyc
		}
	}
	return nil
}

// isFreshLocal: v is (a load of a local cell holding) a value allocated in this function.
func isFreshLocal(v ssa.Value) bool {
	switch x := v.(type) {
	case *ssa.Alloc:
		return true
	case *ssa.UnOp:
		if al, ok := x.X.(*ssa.Alloc); ok && x.Op == token.MUL {
			n := 0
			for _, r := range *al.Referrers() {
				if st, ok := r.(*ssa.Store); ok && st.Addr == al {
					n++
					if _, isAlloc := st.Val.(*ssa.Alloc); !isAlloc {
						return false
					}
				}
			}
			return n > 0
		}
	}
	return false
}

// bodyOf: an instantiation over type parameters (a call inside a generic body) is only a thin
// wrapper around the generic function: analyse the generic body instead.
func bodyOf(f *ssa.Function) *ssa.Function {
	if f == nil {
		return nil
	}
	if o := f.Origin(); o != nil {
		parametric := len(f.Blocks) == 0
		for _, ta := range f.TypeArgs() {
			if _, ok := ta.(*types.TypeParam); ok {
				parametric = true
			}
		}
		if parametric {
			return o
		}
	}
	return f
}
