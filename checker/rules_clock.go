package main

// C05 rules (and the pieces of C01/C06 that concern clocks and the merge commit).

import (
	"fmt"
	"go/constant"
	"go/token"
	"go/types"
	"strings"

	"golang.org/x/tools/go/ssa"
)

func pkgConstString(w *World, pkg, name string) (string, bool) {
	p := w.Pkg(pkg)
	if p == nil {
		return "", false
	}
	c, ok := p.Types.Scope().Lookup(name).(*types.Const)
	if !ok || c.Val().Kind() != constant.String {
		return "", false
	}
	return constant.StringVal(c.Val()), true
}

// sprintfFormat: v is fmt.Sprintf(<const format>, ...): returns the format and the variadic operands.
func sprintfFormat(v ssa.Value) (string, []ssa.Value, bool) {
	c, ok := v.(*ssa.Call)
	if !ok {
		return "", nil, false
	}
	if n, _ := callName(c.Common()); n != "fmt.Sprintf" {
		return "", nil, false
	}
	args := c.Common().Args
	if len(args) < 1 {
		return "", nil, false
	}
	f, ok := constString(args[0])
	if !ok {
		return "", nil, false
	}
	var ops []ssa.Value
	if len(args) > 1 {
		ops = variadicOperands(args[1])
	}
	return f, ops, true
}

func variadicOperands(v ssa.Value) []ssa.Value {
	sl, ok := v.(*ssa.Slice)
	if !ok {
		return nil
	}
	al, ok := sl.X.(*ssa.Alloc)
	if !ok {
		return nil
	}
	type ent struct {
		idx int64
		v   ssa.Value
	}
	var es []ent
	for _, r := range *al.Referrers() {
		ia, ok := r.(*ssa.IndexAddr)
		if !ok {
			continue
		}
		k, _ := constInt(ia.Index)
		for _, r2 := range *ia.Referrers() {
			if st, ok := r2.(*ssa.Store); ok {
				es = append(es, ent{k, stripConv(st.Val)})
			}
		}
	}
	out := make([]ssa.Value, len(es))
	for _, e := range es {
		if int(e.idx) < len(out) {
			out[e.idx] = e.v
		}
	}
	return out
}

// clockKind: the clock-name argument is Sprintf(editClockPattern|creationClockPattern, ns): "edit"/"create"/"".
func clockKind(w *World, v ssa.Value) string {
	f, _, ok := sprintfFormat(stripConv(v))
	if !ok {
		return ""
	}
	if e, ok := pkgConstString(w, "entity/dag", "editClockPattern"); ok && f == e {
		return "edit"
	}
	if cr, ok := pkgConstString(w, "entity/dag", "creationClockPattern"); ok && f == cr {
		return "create"
	}
	return ""
}

// storedFieldValues: values stored into field `field` of the struct at base (an Alloc or pointer value) within fn.
func storedFieldValues(fn *ssa.Function, base ssa.Value, field string) []*ssa.Store {
	var out []*ssa.Store
	for _, b := range fn.Blocks {
		for _, ins := range b.Instrs {
			st, ok := ins.(*ssa.Store)
			if !ok {
				continue
			}
			fa, ok := st.Addr.(*ssa.FieldAddr)
			if ok && fa.X == base && fieldName(fa) == field {
				out = append(out, st)
			}
		}
	}
	return out
}

// incrementOrigin: v is (possibly through a field of the receiver assigned in the same function)
// result 0 of RepoClock.Increment; returns the call.
func incrementOrigin(fn *ssa.Function, v ssa.Value, depth int) *ssa.Call {
	v = stripConv(v)
	if ex, ok := v.(*ssa.Extract); ok && ex.Index == 0 {
		if c, ok := ex.Tuple.(*ssa.Call); ok {
			if n, _ := callName(c.Common()); strings.HasSuffix(n, ".Increment") && strings.HasPrefix(n, "repository.") {
				return c
			}
		}
	}
	if depth > 2 {
		return nil
	}
	if base, fld, ok := loadOfField(v); ok {
		ins, _ := v.(ssa.Instruction)
		var found *ssa.Call
		for _, st := range storedFieldValues(fn, base, fld) {
			if ins != nil && !instrDominates(st, ins) {
				continue
			}
			if c := incrementOrigin(fn, st.Val, depth+1); c != nil {
				found = c
			} else {
				return nil
			}
		}
		return found
	}
	if phi, ok := v.(*ssa.Phi); ok {
		var found *ssa.Call
		for _, e := range phi.Edges {
			c := incrementOrigin(fn, e, depth+1)
			if c == nil {
				return nil
			}
			found = c
		}
		return found
	}
	return nil
}

// writtenPacks: operationPack composite literals of fn that are the receiver of operationPack.Write.
func writtenPacks(fn *ssa.Function) map[*ssa.Alloc]*Call {
	out := map[*ssa.Alloc]*Call{}
	for _, cl := range CallsNamed(fn, "entity/dag.operationPack.Write") {
		if al, ok := cl.Recv().(*ssa.Alloc); ok {
			out[al] = cl
		}
	}
	return out
}

// R5.1
func checkPackStamping(c *Ctx, rule string) {
	w := c.W
	c.Doc(rule, "every operationPack handed to Write has EditTime = result of repo.Increment(<edit clock of the namespace>) and, if set, CreateTime = result of repo.Increment(<creation clock>) assigned only when the entity has no previous commit")
	n := 0
	for _, fn := range w.ModFns {
		if isInstance(fn) || fnPkgPath(fn) != modPath+"/entity/dag" {
			continue
		}
		packs := writtenPacks(fn)
		for al, wr := range packs {
			n++
			c.seeFn(funcName(fn))
			key := funcName(fn) + ":pack"
			pos := w.InstrPos(wr.Instr)
			ed := storedFieldValues(fn, al, "EditTime")
			c.Sites += len(ed)
			okE, why := len(ed) > 0, "EditTime is never set on a pack that is written"
			for _, st := range ed {
				ic := incrementOrigin(fn, st.Val, 0)
				if ic == nil {
					okE, why = false, "EditTime of a written pack is not the result of repo.Increment ("+st.Val.String()+" at "+w.InstrPos(st)+")"
					break
				}
				if clockKind(w, ic.Common().Args[0]) != "edit" {
					okE, why = false, "EditTime is taken from a clock other than the namespace's edit clock"
					break
				}
			}
			c.Check(okE, rule, key+":EditTime", pos, "EditTime ← Increment(edit clock)", why)
			cr := storedFieldValues(fn, al, "CreateTime")
			okC, whyC := true, "CreateTime left unset or ← Increment(creation clock) on first commit only"
			for _, st := range cr {
				c.Sites++
				if k, isK := constInt(st.Val); isK && k == 0 {
					continue
				}
				ic := incrementOrigin(fn, st.Val, 0)
				if ic == nil || clockKind(w, ic.Common().Args[0]) != "create" {
					okC, whyC = false, "CreateTime of a written pack is not the result of repo.Increment(creation clock)"
					break
				}
				// only when there is no previous commit: control dependent on lastCommit == ""
				guarded := false
				for _, cc := range controlConds(st.Block(), nil) {
					bo, ok := cc.If.Cond.(*ssa.BinOp)
					if !ok {
						continue
					}
					if hasField(bo.X, "lastCommit") || hasField(bo.Y, "lastCommit") {
						op := bo.Op
						if cc.Edge == 1 {
							op = negateOp(op)
						}
						if op == token.EQL {
							guarded = true
						}
					}
				}
				if !guarded {
					okC, whyC = false, "a creation time is stamped on a pack that is not the first commit of the entity"
				}
			}
			c.Check(okC, rule, key+":CreateTime", pos, whyC, whyC)
		}
	}
	if n < 2 {
		c.Violate(rule, "expected:written-packs", "entity/dag", fmt.Sprintf("%d operationPack literals reach Write (reference: 2 — Entity.Commit and merge)", n))
	}
}

// R1.3 / R6.2: the merge commit
func checkMergeCommitPack(c *Ctx) {
	w := c.W
	c.Doc("R1.3", "the pack written with two parents by dag.merge has no operations, no creation time, and an edit time incremented after both the remote and the local ref were read successfully; its parents are the two heads")
	fn := w.Func("entity/dag", "merge")
	if fn == nil {
		c.Undecided("R1.3", "anchor:entity/dag.merge", "entity/dag", "not found")
		return
	}
	c.seeFn(funcName(fn))
	n := 0
	for al, wr := range writtenPacks(fn) {
		n++
		pos := w.InstrPos(wr.Instr)
		// Operations nil/empty
		okOps := true
		for _, st := range storedFieldValues(fn, al, "Operations") {
			c.Sites++
			if !isNilConst(st.Val) {
				okOps = false
			}
		}
		c.Check(okOps, "R1.3", "entity/dag.merge:merge-pack-empty", pos, "Operations is nil", "the merge commit's pack carries operations")
		okCr := true
		for _, st := range storedFieldValues(fn, al, "CreateTime") {
			if k, isK := constInt(st.Val); !isK || k != 0 {
				okCr = false
			}
		}
		c.Check(okCr, "R1.3", "entity/dag.merge:merge-pack-no-create-time", pos, "CreateTime is 0", "the merge commit's pack carries a creation time")
		// EditTime increment dominated by both reads
		var inc *ssa.Call
		for _, st := range storedFieldValues(fn, al, "EditTime") {
			inc = incrementOrigin(fn, st.Val, 0)
		}
		if inc == nil {
			c.Violate("R1.3", "entity/dag.merge:merge-pack-time", pos, "the merge commit's edit time is not a fresh repo.Increment")
		} else {
			sides := map[string]bool{}
			for _, cl := range Calls(fn) {
				if readFuncs[cl.Name] && cl.Value() != nil && dominatedBySuccess(cl.Value(), inc) {
					a := cl.Args()
					sides[refSide(a[len(a)-1])] = true
				}
			}
			c.Check(sides["remote"] && sides["local"], "R1.3", "entity/dag.merge:merge-pack-time", w.InstrPos(inc),
				"Increment happens after both branches were read (and so witnessed)",
				fmt.Sprintf("the merge commit's edit time is incremented without both branches having been read first (remote read: %v, local read: %v): it may not exceed the times of both heads", sides["remote"], sides["local"]))
		}
		// parents: ResolveRef(local), ResolveRef(remote)
		args := wr.Args()
		sides := map[string]bool{}
		if len(args) >= 3 {
			for _, pv := range variadicOperands(args[2]) {
				if rc := hasOriginCall(pv, "repository.RepoData.ResolveRef", 0); rc != nil {
					sides[refSide(rc.Common().Args[0])] = true
				}
			}
		}
		c.Check(sides["remote"] && sides["local"], "R1.3", "entity/dag.merge:merge-parents", pos, "parents are the local and the remote head", "the merge commit does not have both heads as parents")
	}
	if n == 0 {
		c.Violate("R1.3", "entity/dag.merge:expected:merge-pack", w.FnPos(fn), "merge no longer writes a merge commit pack")
	}
}

// R5.3
func checkWitnessAll(c *Ctx, rule string) {
	w := c.W
	c.Doc(rule, "the success return of dag.read is dominated by a loop over the pack map — which receives, unconditionally, the pack of every commit visited — whose body witnesses CreateTime on the creation clock and EditTime on the edit clock of every pack and propagates errors")
	fn := readFn(c, rule)
	if fn == nil {
		return
	}
	pos := w.FnPos(fn)
	var succ *ssa.Return
	for _, r := range Returns(fn) {
		if returnKind(r) != RetError {
			succ = r
		}
	}
	seen := map[string]bool{}
	isRangedPack := func(base ssa.Value) bool {
		if ex, isEx := base.(*ssa.Extract); isEx {
			if nx, isNx := ex.Tuple.(*ssa.Next); isNx {
				if r, isR := nx.Iter.(*ssa.Range); isR && isPackMap(r.X.Type()) {
					return true
				}
			}
		}
		return false
	}
	// a witness event: the clock kind, the pack field witnessed, and the instruction of read at which it happens
	type wev struct {
		kind, fld string
		site      *Call // in read: the Witness call itself, or the call of the helper that witnesses
		direct    *Call // the Witness call (in read or in the helper)
	}
	var events []wev
	for _, cl := range Calls(fn) {
		if strings.HasSuffix(cl.Name, ".Witness") && strings.HasPrefix(cl.Name, "repository.") {
			c.Sites++
			args := cl.Args()
			base, fld, ok := loadOfField(stripConv(args[1]))
			if ok && isRangedPack(base) {
				events = append(events, wev{clockKind(w, args[0]), fld, cl, cl})
			}
			continue
		}
		// a same-package helper handed the ranged pack, witnessing that pack's times unconditionally
		h := cl.Fn
		if h == nil || h.Pkg != fn.Pkg || len(h.Blocks) == 0 || h == fn {
			continue
		}
		for ai, a := range cl.Instr.Common().Args {
			if !isRangedPack(a) || ai >= len(h.Params) {
				continue
			}
			for _, hc := range Calls(h) {
				if !strings.HasSuffix(hc.Name, ".Witness") || !strings.HasPrefix(hc.Name, "repository.") {
					continue
				}
				c.Sites++
				hargs := hc.Args()
				base, fld, ok := loadOfField(stripConv(hargs[1]))
				if !ok || !isSameParam(base, h.Params[ai]) {
					continue
				}
				// inside the helper: error propagated, conditional on nothing but the success of earlier steps
				okIn := errorPropagated(hc.Value(), nil)
				for _, cc := range controlConds(hc.Block(), nil) {
					if e := errEdge(cc.If, defaultFail); e >= 0 && e != cc.Edge {
						continue
					}
					okIn = false
				}
				if okIn {
					events = append(events, wev{clockKind(w, hargs[0]), fld, cl, hc})
				}
			}
		}
	}
	for _, ev := range events {
		kind, fld, cl := ev.kind, ev.fld, ev.site
		want := map[string]string{"create": "CreateTime", "edit": "EditTime"}[kind]
		if want == "" || fld != want {
			c.Violate(rule, "entity/dag.read:witness-"+kind+fld, w.InstrPos(ev.direct.Instr), fmt.Sprintf("pack.%s is witnessed on the %q clock", fld, kind))
			continue
		}
		if !errorPropagated(cl.Value(), nil) {
			c.Violate(rule, "entity/dag.read:witness-"+kind, w.InstrPos(cl.Instr), "error of Witness is dropped")
			continue
		}
		hdr := enclosingLoopHeader(cl.Block())
		if hdr == nil || succ == nil || !hdr.Dominates(succ.Block()) {
			continue
		}
		// unconditional within the loop
		cond := ""
		for _, cc := range controlConds(cl.Block(), hdr.Idom()) {
			if isLoopHeader(cc.If.Block()) {
				continue
			}
			if e := errEdge(cc.If, defaultFail); e >= 0 && e != cc.Edge {
				continue
			}
			cond = w.InstrPos(cc.If)
		}
		if cond != "" {
			c.Violate(rule, "entity/dag.read:witness-"+kind, w.InstrPos(cl.Instr), "witnessing is conditional on "+cond)
			continue
		}
		seen[kind] = true
	}
	c.Check(seen["edit"], rule, "entity/dag.read:witness-edit", pos, "every pack's EditTime is witnessed before success", "no unconditional Witness(edit clock, pack.EditTime) over all packs before the success return")
	c.Check(seen["create"], rule, "entity/dag.read:witness-create", pos, "every pack's CreateTime is witnessed before success", "no unconditional Witness(creation clock, pack.CreateTime) over all packs before the success return")

	// the pack map receives every visited commit: MapUpdate keyed by commit.Hash with the readOperationPack result,
	// in a loop over the slice that received every ReadCommit result, unconditionally.
	okAll, detail := false, "no insertion of each commit's pack into the pack map found"
	for _, b := range fn.Blocks {
		for _, ins := range b.Instrs {
			mu, ok := ins.(*ssa.MapUpdate)
			if !ok || !isPackMap(mu.Map.Type()) {
				continue
			}
			c.Sites++
			if packRole(mu.Value) != "self" || !hasField(mu.Key, "Hash") {
				detail = "pack map insertion does not store the pack read for the commit under the commit's hash"
				continue
			}
			hdr := enclosingLoopHeader(mu.Block())
			var stop *ssa.BasicBlock
			if hdr != nil {
				stop = hdr.Idom()
			}
			cond := ""
			for _, cc := range controlConds(mu.Block(), stop) {
				if isLoopHeader(cc.If.Block()) {
					continue
				}
				if e := errEdge(cc.If, defaultFail); e >= 0 && e != cc.Edge {
					continue
				}
				cond = w.InstrPos(cc.If)
			}
			if cond != "" {
				detail = "packs are stored in the map only under the condition at " + cond
				continue
			}
			okAll = true
		}
	}
	c.Check(okAll, rule, "entity/dag.read:all-packs-in-map", pos, "every visited commit's pack is stored in the map that is witnessed", detail)
	// every commit reachable is visited: all parents are enqueued unless already visited
	checkBFSComplete(c, rule, fn)
}

func checkBFSComplete(c *Ctx, rule string, fn *ssa.Function) {
	w := c.W
	// an append to the queue of an element of commit.Parents exists whose only condition is "not yet visited"
	ok, detail := false, "no loop enqueuing every parent of every visited commit found"
	for _, b := range fn.Blocks {
		for _, ins := range b.Instrs {
			call, isCall := ins.(*ssa.Call)
			if !isCall {
				continue
			}
			bi, isB := call.Common().Value.(*ssa.Builtin)
			if !isB || bi.Name() != "append" || len(call.Common().Args) < 2 {
				continue
			}
			if !strings.HasSuffix(call.Type().String(), "repository.Hash") {
				continue
			}
			vals := appendedValues(call)
			isParent := false
			for _, v := range vals {
				if hasField(v, "Parents") {
					isParent = true
				}
			}
			if !isParent {
				continue
			}
			c.Sites++
			hdr := enclosingLoopHeader(call.Block())
			var stop *ssa.BasicBlock
			if hdr != nil {
				stop = hdr.Idom()
			}
			bad := ""
			for _, cc := range controlConds(call.Block(), stop) {
				if isLoopHeader(cc.If.Block()) {
					continue
				}
				// allowed: comma-ok of the visited-set lookup on its not-found edge
				if ex, isEx := cc.If.Cond.(*ssa.Extract); isEx && ex.Index == 1 {
					if lk, isLk := ex.Tuple.(*ssa.Lookup); isLk && hasField(lk.Index, "Parents") && cc.Edge == 1 {
						continue
					}
				}
				bad = w.InstrPos(cc.If)
			}
			if bad != "" {
				detail = "parents are enqueued only under the condition at " + bad
				continue
			}
			ok = true
		}
	}
	c.Check(ok, rule, "entity/dag.read:all-ancestors-visited", w.FnPos(fn), "every parent not yet visited is enqueued", detail)
	// no loop of read is left before it is exhausted, except to a failing return: a break in the
	// parents loop skips ancestors, a break in a checking loop skips commits
	exits, loops := earlyLoopExits(fn)
	c.Sites += loops
	if len(exits) == 0 {
		c.Hold(rule, "entity/dag.read:loops-run-to-exhaustion", w.FnPos(fn), fmt.Sprintf("%d loops, left only at exhaustion or to a failing return", loops))
	} else {
		e := exits[0]
		pos := w.FnPos(fn)
		for _, ins := range e.From.Instrs {
			if ins.Pos().IsValid() {
				pos = w.InstrPos(ins)
			}
		}
		c.Violate(rule, "entity/dag.read:loops-run-to-exhaustion", pos, fmt.Sprintf("the loop at %s is left before every element was handled (block %d → %d): commits, parents or packs are skipped, so parts of the history are neither checked nor read", w.InstrPos(firstPosInstr(e.Header)), e.From.Index, e.To.Index))
	}
	// a refused history leaves no trace: once a clock was witnessed, read cannot fail any more
	// except by a witness error itself
	okTrace, whyTrace := true, ""
	nW := 0
	witnessNames := map[string]bool{}
	isWitnessSite := func(cl *Call) bool {
		if strings.HasSuffix(cl.Name, ".Witness") && strings.HasPrefix(cl.Name, "repository.") {
			return true
		}
		// a same-package helper that witnesses
		if h := cl.Fn; h != nil && h.Pkg == fn.Pkg && h != fn && len(h.Blocks) > 0 {
			for _, hc := range Calls(h) {
				if strings.HasSuffix(hc.Name, ".Witness") && strings.HasPrefix(hc.Name, "repository.") {
					witnessNames[cl.Name] = true
					return true
				}
			}
		}
		return false
	}
	for _, cl := range Calls(fn) {
		if !isWitnessSite(cl) {
			continue
		}
		nW++
		c.Sites++
		found, _, at := pathAvoiding(fn, cl.Instr, func(i ssa.Instruction) bool {
			r, isRet := i.(*ssa.Return)
			if !isRet || returnKind(r) != RetError {
				return false
			}
			idx := errResultIndex(fn)
			if idx < 0 {
				return false
			}
			for _, o := range origins(ReturnResult(r, idx)) {
				if o.Kind == "call" && (strings.HasSuffix(o.Name, ".Witness") || witnessNames[o.Name]) {
					continue
				}
				return true
			}
			return false
		}, nil)
		if found {
			okTrace = false
			whyTrace = fmt.Sprintf("after the clock was witnessed at %s, read can still refuse the history at %s: a refused (possibly hostile) history has then already pushed the local clocks to its values", w.InstrPos(cl.Instr), w.InstrPos(at))
		}
	}
	if nW > 0 {
		c.Check(okTrace, rule, "entity/dag.read:refusal-before-witness", w.FnPos(fn), "every refusal precedes the first witness", whyTrace)
	}
}

// R5.2
func checkMemClock(c *Ctx) {
	w := c.W
	c.Doc("R5.2", "MemClock.counter is written only by: initialisation of a fresh clock, atomic add of a positive constant (Increment), compare-and-swap cur→other dominated by 'other > cur' (Witness); PersistedClock.Increment/Witness reach Write() on every non-error path; PersistedClock.MemClock is replaced only by read()/constructors")
	n := 0
	for _, fn := range w.ModFns {
		for _, b := range fn.Blocks {
			for _, ins := range b.Instrs {
				fa, ok := ins.(*ssa.FieldAddr)
				if !ok || fieldName(fa) != "counter" || typeShortName(fa.X.Type()) != "util/lamport.MemClock" {
					continue
				}
				for _, r := range *fa.Referrers() {
					c.Sites++
					key := funcName(fn) + ":counter"
					pos := w.InstrPos(r)
					switch x := r.(type) {
					case *ssa.Store:
						_, fresh := fa.X.(*ssa.Alloc)
						n++
						c.Check(fresh, "R5.2", key+":store", pos, "initialisation of a fresh clock", "plain store into the counter of an existing clock (can move the clock backwards)")
					case *ssa.UnOp:
						// plain read
					case *ssa.Call:
						name, _ := callName(x.Common())
						switch name {
						case "sync/atomic.LoadUint64":
						case "sync/atomic.AddUint64":
							n++
							k, isK := constInt(x.Common().Args[1])
							c.Check(isK && k > 0, "R5.2", key+":add", pos, "atomic add of a positive constant", "the clock is advanced by a non-constant or non-positive amount")
						case "sync/atomic.CompareAndSwapUint64":
							n++
							okCAS, why := casIsMax(fn, x)
							c.Check(okCAS, "R5.2", key+":cas", pos, why, why)
						default:
							c.Violate("R5.2", key+":"+name, pos, "the counter's address is passed to "+name+" (not an accepted writer)")
						}
					default:
						c.Undecided("R5.2", key+":use", pos, "unrecognised use of the counter's address")
					}
				}
			}
		}
	}
	if n < 4 {
		c.Violate("R5.2", "expected:counter-writers", "util/lamport", fmt.Sprintf("%d writers of MemClock.counter found (reference: 2 constructors, Increment, Witness)", n))
	}
	for _, m := range []string{"Increment", "Witness"} {
		fn := w.Method("util/lamport", "PersistedClock", m)
		if fn == nil {
			c.Undecided("R5.2", "anchor:PersistedClock."+m, "util/lamport", "not found")
			continue
		}
		c.seeFn(funcName(fn))
		isWrite := func(i ssa.Instruction) bool {
			ci, ok := i.(ssa.CallInstruction)
			if !ok {
				return false
			}
			n, _ := callName(ci.Common())
			return n == "util/lamport.PersistedClock.Write"
		}
		bad, p, _ := pathAvoiding(fn, nil, isSuccessReturn, isWrite)
		c.Check(!bad, "R5.2", "PersistedClock."+m+":persist-before-ack", w.FnPos(fn), "every non-error return passes Write()", "a non-error return is reachable without persisting the clock: "+blocksString(w, p))
		// the outcome of persisting is the outcome reported: the error returned on a non-failing exit is
		// Write's own result, or nil on the success edge of Write
		okErr, whyErr := true, ""
		eidx := errResultIndex(fn)
		var writes []*ssa.Call
		for _, cl := range CallsNamed(fn, "util/lamport.PersistedClock.Write") {
			if cv, isCall := cl.Instr.(*ssa.Call); isCall {
				writes = append(writes, cv)
			}
		}
		for _, r := range Returns(fn) {
			if returnKind(r) == RetError || eidx < 0 {
				continue
			}
			c.Sites++
			ev := ReturnResult(r, eidx)
			fromWrite := false
			for _, o := range origins(ev) {
				if o.Kind == "call" && o.Name == "util/lamport.PersistedClock.Write" {
					fromWrite = true
				}
			}
			if fromWrite {
				continue
			}
			dominated := false
			for _, wc := range writes {
				if dominatedBySuccess(wc, r) {
					dominated = true
				}
			}
			if !dominated {
				okErr, whyErr = false, "the return at "+w.InstrPos(r)+" reports success whatever Write() returned: a failed write of the clock file is swallowed, the value handed out is not on disk and is handed out again after a restart"
			}
		}
		c.Check(okErr, "R5.2", "PersistedClock."+m+":persist-error-reported", w.FnPos(fn), "a failed Write() fails the operation", whyErr)
		// and the in-memory operation is performed
		okMem := len(CallsNamed(fn, "util/lamport.MemClock."+m)) > 0
		c.Check(okMem, "R5.2", "PersistedClock."+m+":delegates", w.FnPos(fn), "delegates to MemClock."+m, "does not perform MemClock."+m)
	}
	// stores to PersistedClock.MemClock
	nRead := 0
	for _, fn := range w.ModFns {
		for _, b := range fn.Blocks {
			for _, ins := range b.Instrs {
				st, ok := ins.(*ssa.Store)
				if !ok {
					continue
				}
				fa, ok := st.Addr.(*ssa.FieldAddr)
				if !ok || fieldName(fa) != "MemClock" || typeShortName(fa.X.Type()) != "util/lamport.PersistedClock" {
					continue
				}
				c.Sites++
				name := funcName(fn)
				_, fresh := fa.X.(*ssa.Alloc)
				okW := fresh || name == "util/lamport.PersistedClock.read"
				c.Check(okW, "R5.2", name+":replace-MemClock", w.InstrPos(st), "constructor or read()", "the in-memory clock of a persisted clock is replaced outside read()/constructors")
				if name == "util/lamport.PersistedClock.read" {
					// the value loaded is the value parsed from the file, under a successful parse of exactly one number
					okVal, whyVal := false, "the clock installed by read() is not NewMemClockWithTime(<value parsed from the clock file>)"
					if cv, isCall := st.Val.(*ssa.Call); isCall {
						if n, _ := callName(cv.Common()); n == "util/lamport.NewMemClockWithTime" && len(cv.Common().Args) == 1 {
							// the argument is a load of the local the scanner wrote into
							if ld, isLd := cv.Common().Args[0].(*ssa.UnOp); isLd {
								if al, isAl := ld.X.(*ssa.Alloc); isAl {
									for _, r := range *al.Referrers() {
										if mi, isMI := r.(*ssa.MakeInterface); isMI {
											_ = mi
											for _, sc := range CallsNamed(fn, "fmt.Sscanf", "fmt.Sscan", "strconv.ParseUint") {
												if scv, isSC := sc.Instr.(*ssa.Call); isSC && dominatedBySuccess(scv, st) {
													okVal = true
												}
											}
										}
									}
								}
							}
							// or the result of a strconv parse
							for _, o := range origins(cv.Common().Args[0]) {
								if o.Kind == "call" && strings.HasPrefix(o.Name, "strconv.Parse") {
									if scv, isSC := o.Val.(*ssa.Call); isSC && dominatedBySuccess(scv, st) {
										okVal = true
									}
								}
								// or the result of a same-package parsing helper: installed on the helper's success edge, and
								// every success return of the helper lies behind a successful scan / parse
								if hc, isHC := o.Val.(*ssa.Call); isHC && o.Kind == "call" && o.Idx == 0 {
									h := hc.Common().StaticCallee()
									if h != nil && len(h.Blocks) > 0 && fnPkgPath(h) == fnPkgPath(fn) && dominatedBySuccess(hc, st) {
										for _, sc := range CallsNamed(h, "fmt.Sscanf", "fmt.Sscan", "strconv.ParseUint") {
											scv, isSC := sc.Instr.(*ssa.Call)
											if !isSC {
												continue
											}
											all, nRet := true, 0
											for _, r := range Returns(h) {
												if returnKind(r) == RetError {
													continue
												}
												nRet++
												if !dominatedBySuccess(scv, r) {
													all = false
												}
											}
											if all && nRet > 0 {
												okVal = true
											}
										}
									}
								}
							}
						} else {
							whyVal = "read() installs " + n + "(…) on some path: a clock file without a readable value restarts the clock instead of failing the load (the repository would then rebuild it from the stored entities), so the clock can go backward across a restart"
						}
					}
					c.Check(okVal, "R5.2", name+":loads-parsed-value#"+fmt.Sprint(nRead), w.InstrPos(st), "NewMemClockWithTime(value parsed successfully from the file)", whyVal)
					nRead++
				}
			}
		}
	}
}

// casIsMax: CompareAndSwap(addr, cur, other) with cur = atomic load of the same address and the
// call dominated by the edge where other > cur.
func casIsMax(fn *ssa.Function, cas *ssa.Call) (bool, string) {
	args := cas.Common().Args
	cur, other := args[1], args[2]
	if lc, ok := cur.(*ssa.Call); ok {
		if n, _ := callName(lc.Common()); n != "sync/atomic.LoadUint64" {
			return false, "the expected old value of the compare-and-swap is not a load of the counter"
		}
	} else {
		return false, "the expected old value of the compare-and-swap is not a load of the counter"
	}
	for _, cc := range controlConds(cas.Block(), nil) {
		bo, ok := cc.If.Cond.(*ssa.BinOp)
		if !ok {
			continue
		}
		op := bo.Op
		x, y := bo.X, bo.Y
		if cc.Edge == 1 {
			op = negateOp(op)
		}
		if x == cur && y == other {
			x, y, op = y, x, swapOp(op)
		}
		if x == other && y == cur && op == token.GTR {
			return true, "compare-and-swap cur→other only where other > cur"
		}
		if x == other && y == cur {
			return false, "the counter is replaced where other " + op.String() + " cur (must be: other > cur)"
		}
	}
	return false, "the compare-and-swap is not guarded by other > cur: the clock can move backwards"
}

// R5.4
func checkClockRebuild(c *Ctx) {
	w := c.W
	c.Doc("R5.4", "(a) OpenGoGitRepo: an error from getClock for any clock of a loader schedules that loader, every scheduled loader's Witnesser is run and its error fails the open; (b) dag.ClockLoader lists the creation and the edit clock of every definition and its witnesser reads the clocks of every ref of each definition; (c) every non-test call of OpenGoGitRepo passes clock loaders")
	fn := w.Func("repository", "OpenGoGitRepo")
	if fn == nil {
		c.Undecided("R5.4", "anchor:repository.OpenGoGitRepo", "repository", "not found")
		return
	}
	c.seeFn(funcName(fn))
	pos := w.FnPos(fn)
	// (a1) getClock on elements of loader.Clocks; its failure edge clears a flag
	var flagPhis []*ssa.Phi
	okGet := false
	for _, cl := range CallsNamed(fn, "repository.GoGitRepo.getClock") {
		c.Sites++
		if !hasField(cl.Args()[0], "Clocks") {
			continue
		}
		okGet = true
		for _, fb := range failureBlocks(cl.Value()) {
			// a phi somewhere receives const false from fb (or a block it jumps to)
			for _, b := range fn.Blocks {
				for _, ins := range b.Instrs {
					phi, ok := ins.(*ssa.Phi)
					if !ok {
						continue
					}
					for i, e := range phi.Edges {
						if k, isK := e.(*ssa.Const); isK && k.Value != nil && k.Value.String() == "false" && (b.Preds[i] == fb) {
							flagPhis = append(flagPhis, phi)
						}
					}
				}
			}
		}
	}
	// the probing loop extracted into a helper answering "all clocks exist": it probes every element of the list
	// it is given and answers false when a probe failed
	var helperFlags []ssa.Value
	if !okGet {
		for _, cl := range Calls(fn) {
			h := cl.Fn
			if h == nil || len(h.Blocks) == 0 || fnPkgPath(h) != fnPkgPath(fn) || cl.Value() == nil {
				continue
			}
			if b, isB := cl.Value().Type().Underlying().(*types.Basic); !isB || b.Kind() != types.Bool {
				continue
			}
			passesClocks := false
			for _, a := range cl.Args() {
				if hasField(a, "Clocks") {
					passesClocks = true
				}
			}
			if !passesClocks {
				continue
			}
			probes := false
			for _, g := range CallsNamed(h, "repository.GoGitRepo.getClock") {
				fromParam := false
				for _, o := range origins(g.Args()[0]) {
					if o.Kind == "param" {
						fromParam = true
					}
				}
				if !fromParam || enclosingLoopHeader(g.Block()) == nil {
					continue
				}
				for _, fb := range failureBlocks(g.Value()) {
					for _, b := range h.Blocks {
						for _, ins := range b.Instrs {
							phi, ok := ins.(*ssa.Phi)
							if !ok {
								continue
							}
							for i, e := range phi.Edges {
								if k, isK := e.(*ssa.Const); isK && k.Value != nil && k.Value.String() == "false" && b.Preds[i] == fb {
									for _, r := range Returns(h) {
										if len(r.Results) == 1 && phiReaches(r.Results[0], phi) {
											probes = true
										}
									}
								}
							}
						}
					}
				}
			}
			if probes && len(earlyLoopExitsNoFail(h)) == 0 {
				okGet = true
				helperFlags = append(helperFlags, cl.Value())
			}
		}
	}
	c.Check(okGet, "R5.4", "OpenGoGitRepo:probe-each-clock", pos, "getClock is probed for every clock named by a loader", "the clocks named by the loaders are not probed")
	// (a2) loader appended to the run list when the flag is false
	okSched := false
	for _, b := range fn.Blocks {
		for _, ins := range b.Instrs {
			call, ok := ins.(*ssa.Call)
			if !ok {
				continue
			}
			bi, isB := call.Common().Value.(*ssa.Builtin)
			if !isB || bi.Name() != "append" || !strings.Contains(call.Type().String(), "ClockLoader") {
				continue
			}
			for _, cc := range controlConds(call.Block(), nil) {
				cond := cc.If.Cond
				edge := cc.Edge
				if u, isU := cond.(*ssa.UnOp); isU && u.Op == token.NOT {
					cond = u.X
					edge = 1 - edge
				}
				for _, fp := range flagPhis {
					if phiReaches(cond, fp) && edge == 1 {
						okSched = true
					}
				}
				for _, hv := range helperFlags {
					if cond == hv && edge == 1 {
						okSched = true
					}
				}
			}
		}
	}
	c.Check(okSched, "R5.4", "OpenGoGitRepo:any-clock-error-schedules-loader", pos, "a loader is scheduled when a probe failed", "a failing clock probe (missing or unreadable clock) does not schedule the loader")
	// (a3) Witnesser invoked, error fails open
	okRun, okErr := false, false
	for _, f := range append([]*ssa.Function{fn}, fn.AnonFuncs...) {
		for _, cl := range Calls(f) {
			if cl.Name == "" {
				if _, fld, ok := loadOfField(cl.Instr.Common().Value); ok && fld == "Witnesser" {
					okRun = true
				}
			}
			if cl.Name == "golang.org/x/sync/errgroup.Group.Wait" && cl.Value() != nil && errorPropagated(cl.Value(), nil) {
				okErr = true
			}
		}
	}
	c.Check(okRun, "R5.4", "OpenGoGitRepo:run-witnesser", pos, "scheduled loaders' Witnesser is run", "the Witnesser of scheduled loaders is not run")
	c.Check(okErr, "R5.4", "OpenGoGitRepo:loader-error-fails-open", pos, "a loader error fails the open", "errors of the clock loaders are dropped")

	// (b) dag.ClockLoader
	cf := w.Func("entity/dag", "ClockLoader")
	if cf == nil {
		c.Undecided("R5.4", "anchor:dag.ClockLoader", "entity/dag", "not found")
	} else {
		c.seeFn(funcName(cf))
		kinds := map[string]bool{}
		for _, cl := range Calls(cf) {
			if bi, ok := cl.Instr.Common().Value.(*ssa.Builtin); ok && bi.Name() == "append" {
				for _, v := range appendedValues(cl.Value()) {
					if k := clockKind(w, v); k != "" {
						kinds[k] = true
					}
				}
			}
		}
		c.Check(kinds["edit"] && kinds["create"], "R5.4", "dag.ClockLoader:names-both-clocks", w.FnPos(cf), "lists the creation and edit clock of every definition", fmt.Sprintf("the loader does not list both clocks (create: %v, edit: %v): a missing one is not detected at open", kinds["create"], kinds["edit"]))
		okRead := false
		for _, cl := range CallsDeep(cf) {
			if cl.Name == "entity/dag.ReadAllClocksNoCheck" {
				okRead = true
			}
		}
		c.Check(okRead, "R5.4", "dag.ClockLoader:reads-all-refs", w.FnPos(cf), "witnesser reads the clocks of every entity", "the witnesser does not read the stored entities' clocks")
	}
	// ReadAllClocksNoCheck / readClockNoCheck witness both clocks from the parsed tree entries
	rf := w.Func("entity/dag", "readClockNoCheck")
	if rf != nil {
		c.seeFn(funcName(rf))
		seen := map[string]string{}
		for _, cl := range Calls(rf) {
			if strings.HasSuffix(cl.Name, ".Witness") && strings.HasPrefix(cl.Name, "repository.") {
				k := clockKind(w, cl.Args()[0])
				if rc := hasOriginCall(cl.Args()[1], "entity/dag.readOperationPackClock", -1); rc != nil {
					for _, o := range origins(cl.Args()[1]) {
						if o.Kind == "call" && o.Name == "entity/dag.readOperationPackClock" {
							seen[k] = fmt.Sprint(o.Idx)
						}
					}
				}
			}
		}
		// the edit time witnessed is that of the head commit (the one resolved from the ref), never of an ancestor
		okHead := true
		for _, cl := range Calls(rf) {
			if strings.HasSuffix(cl.Name, ".Witness") && strings.HasPrefix(cl.Name, "repository.") && clockKind(w, cl.Args()[0]) == "edit" {
				for _, o := range origins(cl.Args()[1]) {
					if o.Kind == "call" && o.Name == "entity/dag.readOperationPackClock" {
						commitArg := o.Val.(*ssa.Call).Common().Args[1]
						for _, sv := range reachingValues(rf, commitArg) {
							for _, co := range origins(sv) {
								if co.Kind == "call" && strings.HasSuffix(co.Name, ".ReadCommit") {
									rc := co.Val.(*ssa.Call)
									if hasOriginCall(rc.Common().Args[0], "repository.RepoData.ResolveRef", 0) == nil || hasField(rc.Common().Args[0], "Parents") {
										okHead = false
									}
								}
							}
						}
					}
				}
			}
		}
		c.Check(okHead, "R5.4", "dag.readClockNoCheck:edit-time-of-head", w.FnPos(rf), "the edit clock is rebuilt from the head commit", "the edit time witnessed when rebuilding clocks can come from an ancestor commit instead of the head: the rebuilt clock is lower than times stored in reachable commits")
		c.Check(seen["create"] == "0" && seen["edit"] == "1", "R5.4", "dag.readClockNoCheck:witness-roles", w.FnPos(rf), "creation clock ← create time, edit clock ← edit time", fmt.Sprintf("clock rebuild witnesses the wrong values (create clock ← result %q, edit clock ← result %q of readOperationPackClock)", seen["create"], seen["edit"]))
	}
	// all refs of the namespace: ReadAllClocksNoCheck lists refs/‹Namespace›/ and reads every ref listed
	if ra := w.Func("entity/dag", "ReadAllClocksNoCheck"); ra != nil {
		c.seeFn(funcName(ra))
		okPrefix, whyP := false, "no listing of the entity refs found"
		var listed ssa.Value
		for _, cl := range Calls(ra) {
			if !strings.HasSuffix(cl.Name, ".ListRefs") {
				continue
			}
			c.Sites++
			listed = cl.Value()
			for _, t := range templatesOf(cl.Args()[0]) {
				h := t.Holes()
				if strings.HasPrefix(t.Shape(), "refs/‹›/") && len(h) == 1 && isNamespaceHole(h[0]) {
					okPrefix = true
				} else {
					okPrefix, whyP = false, "the refs listed to rebuild the clocks are "+t.String()+", not refs/‹Namespace›/: the rebuild runs, succeeds and witnesses nothing — the clocks restart at 1 below the stored entities"
					break
				}
			}
		}
		c.Check(okPrefix, "R5.4", "dag.ReadAllClocksNoCheck:lists-the-namespace", w.FnPos(ra), "lists refs/‹Namespace›/", whyP)
		okEach := false
		for _, cl := range CallsNamed(ra, "entity/dag.readClockNoCheck") {
			a := cl.Args()
			if len(a) < 3 {
				continue
			}
			fromList := false
			for _, o := range origins(a[2]) {
				if listed != nil && o.Kind == "call" && o.Val == listed {
					fromList = true
				}
			}
			exits, _ := earlyLoopExits(ra)
			if fromList && enclosingLoopHeader(cl.Block()) != nil && errorPropagated(cl.Value(), nil) && len(exits) == 0 {
				only, _ := onlyControlledBy(cl.Block(), func(cc controlCond) bool {
					e := errEdge(cc.If, defaultFail)
					return e >= 0 && e != cc.Edge
				})
				okEach = only
			}
		}
		c.Check(okEach, "R5.4", "dag.ReadAllClocksNoCheck:reads-every-ref", w.FnPos(ra), "every listed ref is read, errors propagated", "not every listed ref has its clocks read (filtered, left early, or errors dropped)")
	} else {
		c.Undecided("R5.4", "anchor:dag.ReadAllClocksNoCheck", "entity/dag", "not found")
	}
	// one clock instance per name and process (R5.5)
	c.Doc("R5.5", "GoGitRepo.getClock hands out one instance per clock name for the life of the process: it answers from the clocks map first, and a clock it loads is put into that map before it is returned; MemClock.Witness retries when its compare-and-swap lost against a concurrent update (it never returns having recorded nothing)")
	if gc := w.Method("repository", "GoGitRepo", "getClock"); gc != nil {
		c.seeFn(funcName(gc))
		okLookup, okStore := false, true
		nLoaded := 0
		for _, b := range gc.Blocks {
			for _, ins := range b.Instrs {
				lk, isLk := ins.(*ssa.Lookup)
				if !isLk || !lk.CommaOk {
					continue
				}
				if _, fld, isF := loadOfField(lk.X); !isF || fld != "clocks" {
					continue
				}
				// found edge returns the value looked up
				for _, r := range *lk.Referrers() {
					ex, isEx := r.(*ssa.Extract)
					if !isEx || ex.Index != 1 {
						continue
					}
					for _, u := range condUsers(ex) {
						te := 0
						if u.Neg {
							te = 1
						}
						tb := u.If.Block().Succs[te]
						if ret, isRet := tb.Instrs[len(tb.Instrs)-1].(*ssa.Return); isRet && returnKind(ret) != RetError {
							for _, o := range origins(ReturnResult(ret, 0)) {
								if o.Val == ssa.Value(lk) || (o.Kind == "unknown" && strings.Contains(o.Name, lk.Name())) {
									okLookup = true
								}
							}
							if ex0, isE0 := stripConv(ReturnResult(ret, 0)).(*ssa.Extract); isE0 && ex0.Tuple == ssa.Value(lk) {
								okLookup = true
							}
						}
					}
				}
			}
		}
		for _, r := range Returns(gc) {
			if returnKind(r) == RetError {
				continue
			}
			for _, o := range origins(ReturnResult(r, 0)) {
				if o.Kind != "call" || !(strings.HasSuffix(o.Name, "LoadPersistedClock") || strings.HasSuffix(o.Name, "NewPersistedClock")) {
					continue
				}
				nLoaded++
				stored := false
				for _, b := range gc.Blocks {
					for _, ins := range b.Instrs {
						if mu, isMU := ins.(*ssa.MapUpdate); isMU && instrDominates(mu, r) {
							if _, fld, isF := loadOfField(mu.Map); isF && fld == "clocks" {
								for _, o2 := range origins(mu.Value) {
									if o2.Val == o.Val {
										stored = true
									}
								}
							}
						}
					}
				}
				if !stored {
					okStore = false
				}
			}
		}
		c.Sites += 2
		c.Check(okLookup, "R5.5", "GoGitRepo.getClock:answers-from-memory-first", w.FnPos(gc), "a clock already handed out is answered from the clocks map", "getClock does not answer from the in-memory clocks map first: the clock is re-read from its file on every use, and when the file disappears under a running process the clock restarts at 1 although this process has already handed out higher times")
		c.Check(okStore && nLoaded > 0, "R5.5", "GoGitRepo.getClock:loaded-clock-remembered", w.FnPos(gc), "a loaded clock is stored in the clocks map before it is returned", "a clock loaded from its file is returned without being remembered: two users of the same clock name get two instances")
	} else {
		c.Undecided("R5.5", "anchor:GoGitRepo.getClock", "repository", "not found")
	}
	// clocks are never taken away: no entry of the clocks table is deleted and no clock file removed (a rebuild only witnesses upwards)
	{
		bad := ""
		for _, f := range w.ModFns {
			if fnPkgPath(f) != modPath+"/repository" || isInstance(f) || w.isTestHelper(f) {
				continue
			}
			for _, cl := range Calls(f) {
				if bi, ok := cl.Instr.Common().Value.(*ssa.Builtin); ok && bi.Name() == "delete" {
					if _, fld, isF := loadOfField(cl.Instr.Common().Args[0]); isF && fld == "clocks" {
						bad = "an entry of the clocks table is deleted at " + w.InstrPos(cl.Instr)
					}
					continue
				}
				if strings.HasSuffix(cl.Name, ".Remove") || strings.HasSuffix(cl.Name, ".RemoveAll") {
					for _, a := range cl.Args() {
						if !isStringType(a.Type()) {
							continue
						}
						for _, t := range templatesOf(a) {
							if strings.HasPrefix(t.String(), "clocks") || strings.Contains(t.String(), "/clocks") {
								bad = "a clock file is removed at " + w.InstrPos(cl.Instr)
							}
						}
					}
				}
			}
		}
		c.Sites++
		c.Check(bad == "", "R5.5", "repository:clocks-never-taken-away", "repository", "no deletion from the clocks table, no removal of a clock file", bad+": a surviving clock that was ahead of the stored entities (after a removal, an identity change, an aborted commit) restarts from what a rebuild finds — times already handed out are handed out again")
	}
	// the clocks table never replaces an instance it has handed out
	{
		nIns := 0
		for _, f := range w.ModFns {
			if fnPkgPath(f) != modPath+"/repository" || isInstance(f) || w.isTestHelper(f) {
				continue
			}
			for _, b := range f.Blocks {
				for _, ins := range b.Instrs {
					mu, ok := ins.(*ssa.MapUpdate)
					if !ok {
						continue
					}
					if _, fld, isF := loadOfField(mu.Map); !isF || fld != "clocks" {
						continue
					}
					if !strings.Contains(typeShortName(mu.Map.Type()), "lamport") && !strings.Contains(mu.Map.Type().String(), "lamport") {
						continue
					}
					nIns++
					c.Sites++
					c.seeFn(funcName(f))
					okAbsent := false
					// (a) the not-found edge of a comma-ok look-up of the same map with the same key
					for _, b2 := range f.Blocks {
						if len(b2.Instrs) == 0 {
							continue
						}
						iff, isIf := b2.Instrs[len(b2.Instrs)-1].(*ssa.If)
						if !isIf {
							continue
						}
						ex, isEx := iff.Cond.(*ssa.Extract)
						if !isEx || ex.Index != 1 {
							continue
						}
						lk, isLk := ex.Tuple.(*ssa.Lookup)
						if !isLk {
							continue
						}
						if _, fld2, isF2 := loadOfField(lk.X); !isF2 || fld2 != "clocks" {
							continue
						}
						if !(lk.Index == mu.Key || sameExpr(lk.Index, mu.Key, 0)) {
							continue
						}
						if edgeDominates(b2, 1, b) {
							okAbsent = true
						}
					}
					// (b) the failure edge of getClock(same key)
					for _, cl := range Calls(f) {
						if cl.Name != "repository.GoGitRepo.getClock" {
							continue
						}
						cv, isCall := cl.Instr.(*ssa.Call)
						if !isCall || len(cv.Common().Args) < 2 || !(cv.Common().Args[1] == mu.Key || sameExpr(cv.Common().Args[1], mu.Key, 0)) {
							continue
						}
						for _, fb := range failureBlocksThroughPhi(cv) {
							if fb.Dominates(b) {
								okAbsent = true
							}
						}
						for _, fb := range failureBlocks(cv) {
							if fb.Dominates(b) {
								okAbsent = true
							}
						}
					}
					c.Check(okAbsent, "R5.5", funcName(f)+":clock-inserted-only-when-absent", w.InstrPos(mu), "the table entry is written only where the name was found absent",
						"an entry of the clocks table is overwritten although the name may already have an instance: a goroutine that obtained the old instance keeps incrementing it while the table hands out the reloaded one, so two commits get the same time (and a later read refuses the history)")
				}
			}
		}
		c.Check(nIns >= 3, "R5.5", "expected:clock-table-insertions", "repository", fmt.Sprintf("%d insertions into the clocks table", nIns), fmt.Sprintf("only %d insertions into the clocks table found (reference 3)", nIns))
	}
	// the creation of a clock that does not exist yet is atomic with the look-up that missed it
	if goc := w.Method("repository", "GoGitRepo", "GetOrCreateClock"); goc != nil {
		c.seeFn(funcName(goc))
		lw := newLockWorld(w)
		li := lw.info(goc)
		var lookup *ssa.Call
		for _, cl := range Calls(goc) {
			if cl.Name == "repository.GoGitRepo.getClock" {
				lookup, _ = cl.Instr.(*ssa.Call)
			}
		}
		var ins *ssa.MapUpdate
		for _, b := range goc.Blocks {
			for _, i := range b.Instrs {
				if mu, ok := i.(*ssa.MapUpdate); ok {
					if _, fld, isF := loadOfField(mu.Map); isF && fld == "clocks" {
						ins = mu
					}
				}
			}
		}
		if lookup == nil || ins == nil {
			c.Check(false, "R5.5", "GoGitRepo.GetOrCreateClock:check-and-create-atomic", w.FnPos(goc), "", "look-up through getClock or insertion into the clocks map not found")
		} else {
			c.Sites++
			base, _, _ := loadOfField(ins.Map)
			mkey := valueKey(base) + ".clocksMutex"
			ok := li.holds(lookup, mkey, true) && li.holds(ins, mkey, true)
			why := "the look-up or the insertion runs without " + mkey + " held for writing"
			if ok {
				for _, cl := range Calls(goc) {
					if op, isOp := asLockOp(cl.Instr.Common()); isOp && op.Delta < 0 && op.Key == mkey {
						if _, isDefer := cl.Instr.(*ssa.Defer); isDefer {
							continue
						}
						a, _, _ := pathSearch(goc, lookup, nil, func(i ssa.Instruction) bool { return i == cl.Instr }, func(i ssa.Instruction) bool { return i == ssa.Instruction(ins) }, false)
						b2, _, _ := pathSearch(goc, cl.Instr, nil, func(i ssa.Instruction) bool { return i == ssa.Instruction(ins) }, nil, false)
						if a && b2 {
							ok, why = false, "the mutex is released at "+w.InstrPos(cl.Instr)+" between the look-up that missed the clock and its insertion"
						}
					}
				}
			}
			c.Check(ok, "R5.5", "GoGitRepo.GetOrCreateClock:check-and-create-atomic", w.InstrPos(ins), "look-up and insertion under one hold of "+mkey,
				why+": two goroutines using a clock that does not exist yet each create their own instance starting at 1 — the same time is handed out twice and a witnessed time is forgotten")
		}
	} else {
		c.Undecided("R5.5", "anchor:GoGitRepo.GetOrCreateClock", "repository", "not found")
	}
	if mw := w.Method("util/lamport", "MemClock", "Witness"); mw != nil {
		okRetry, n := true, 0
		for _, cl := range CallsNamed(mw, "sync/atomic.CompareAndSwapUint64") {
			n++
			c.Sites++
			cv, _ := cl.Instr.(*ssa.Call)
			for _, u := range condUsers(cv) {
				fe := 1
				if u.Neg {
					fe = 0
				}
				fb := u.If.Block().Succs[fe]
				isLoad := func(i ssa.Instruction) bool {
					ci, ok := i.(ssa.CallInstruction)
					if !ok {
						return false
					}
					nn, _ := callName(ci.Common())
					return nn == "sync/atomic.LoadUint64"
				}
				if found, _, _ := pathSearch(mw, nil, fb, isAnyReturn, isLoad, false); found {
					okRetry = false
				}
			}
			if len(condUsers(cv)) == 0 {
				okRetry = false
			}
		}
		c.Check(okRetry && n > 0, "R5.5", "MemClock.Witness:cas-retried", w.FnPos(mw), "a lost compare-and-swap reloads the counter and tries again", "when the compare-and-swap loses against a concurrent update Witness returns without having recorded the witnessed time: the next Increment can hand out a time not above what was just seen")
	}
	// (c) callers
	nCalls := 0
	for _, f := range w.ModFns {
		for _, cl := range CallsNamed(f, "repository.OpenGoGitRepo") {
			nCalls++
			c.Sites++
			args := cl.Args()
			key := "OpenGoGitRepo←" + funcName(f)
			if len(args) == 3 && isNilConst(args[2]) {
				c.Violate("R5.4", key, w.InstrPos(cl.Instr), "the repository is opened without clock loaders: missing clocks are not rebuilt from the stored entities, new commits can get times below existing ones")
			} else {
				c.Hold("R5.4", key, w.InstrPos(cl.Instr), "clock loaders passed")
			}
		}
	}
	if nCalls == 0 {
		c.Violate("R5.4", "expected:OpenGoGitRepo-callers", "module", "no caller of OpenGoGitRepo found")
	}
}

func phiReaches(v ssa.Value, target *ssa.Phi) bool {
	seen := map[ssa.Value]bool{}
	var walk func(v ssa.Value) bool
	walk = func(v ssa.Value) bool {
		if v == ssa.Value(target) {
			return true
		}
		if seen[v] {
			return false
		}
		seen[v] = true
		if p, ok := v.(*ssa.Phi); ok {
			for _, e := range p.Edges {
				if walk(e) {
					return true
				}
			}
		}
		return false
	}
	return walk(v)
}

func init() {
	register("C05",
		"Static clock discipline: every operation pack that is written is stamped by repo.Increment on the right clock (creation time only on the first commit); MemClock.counter has only monotone writers (atomic add of a positive constant; compare-and-swap to a strictly larger witnessed value; initialisation); the persisted clock writes its file before acknowledging Increment/Witness; dag.read witnesses, unconditionally and with errors propagated, the creation and edit time of the pack of every commit it visited (and visits every ancestor) before it can succeed; missing clocks schedule the loaders at open, the loader names both clocks of each entity type and re-reads every ref, and every product call of OpenGoGitRepo passes loaders.",
		[]string{"atomic.AddUint64/CompareAndSwapUint64 semantics", "numeric relations between clock values across restarts are implied by these shapes, not computed", "identity versions take their times from repo.AllClocks (checked under C09/C04)"},
		func(c *Ctx) {
			checkPackStamping(c, "R5.1")
			checkMemClock(c)
			checkWitnessAll(c, "R5.3")
			checkMergeCommitPack(c)
			checkClockRebuild(c)
			// two writers side by side hand out the same clock values: a refused command must not delete the holder's lock (shared with C19)
			checkNoCloseAfterFailedOpen(c, isBackendClose)
		})
}

// reachingValues: v itself, or — when v is a load of a local cell — the values of the stores into
// that cell from which the load can be reached (flow-sensitive, unlike origins()).
func reachingValues(fn *ssa.Function, v ssa.Value) []ssa.Value {
	u, ok := v.(*ssa.UnOp)
	if !ok || u.Op != token.MUL {
		return []ssa.Value{v}
	}
	al, ok := u.X.(*ssa.Alloc)
	if !ok {
		return []ssa.Value{v}
	}
	var out []ssa.Value
	for _, r := range *al.Referrers() {
		st, ok := r.(*ssa.Store)
		if !ok || st.Addr != al {
			continue
		}
		if reach, _, _ := pathSearch(fn, st, nil, func(i ssa.Instruction) bool { return i == ssa.Instruction(u) }, nil, false); reach {
			out = append(out, st.Val)
		}
	}
	if len(out) == 0 {
		return []ssa.Value{v}
	}
	return out
}

// earlyLoopExitsNoFail: edges leaving a loop of f from another block than its header (whatever they lead to).
func earlyLoopExitsNoFail(f *ssa.Function) []loopExit {
	var out []loopExit
	for _, h := range f.Blocks {
		if !isLoopHeader(h) {
			continue
		}
		for _, b := range f.Blocks {
			if b == h || !inLoop(b, h) {
				continue
			}
			for _, s := range b.Succs {
				if !inLoop(s, h) {
					out = append(out, loopExit{h, b, s})
				}
			}
		}
	}
	return out
}
