package main

import (
	"fmt"
	"go/token"
	"go/types"
	"sort"
	"strings"

	"golang.org/x/tools/go/ssa"
)

func init() {
	register("C15",
		"Static fencing of everything git-bug can write: (R15.1) every call into go-git that can mutate a repository (objects, references, config, remotes, fetch/push, worktree, branches, tags, index, shallow) is made from its one allowed wrapper in package repository, the worktree/branch/tag/index mutators from nowhere; (R15.2) the ref name given to every ref-moving primitive outside package repository is, by string-template evaluation, refs/‹namespace›/… or refs/remotes/‹remote›/‹namespace›/… with the namespace coming from an entity definition; (R15.3) the fetch and push refspecs are refs/‹p›/*:refs/remotes/‹remote›/‹p›/* and refs/‹p›/*:refs/‹p›/* and callers pass entity namespaces only; (R15.4) direct os/ioutil file writers exist only in a reviewed set and the local storage is rooted at <git dir>/git-bug; (R15.5) every configuration write uses a key starting with git-bug.; (R15.6) StoreTree encodes the sorted copy of the entries with git's directory ordering and the marker entries point at the stored empty blob.",
		[]string{"go-git writes only what it is asked to write through these entry points", "git fsck validity of the encoded objects is go-git's"},
		runC15)
	register("C14",
		"Static analysis of the removal paths: (R14.1) the names given to RemoveRef are, by string-template evaluation, exactly refs/‹ns›/‹id› and refs/remotes/‹remote›/‹ns›/‹id› for every remote of GetRemotes(), in the same shape as the fetch destination and the prefix MergeAll lists; identities remove only refs that a ListRefs on the full id returned as a single match; (R14.2) SubCache.Remove/RemoveAll pass, on every success path, the entity-level removal, the deletion from loaded set, excerpts, LRU and index and the rewrite of the cache file; (R14.3) wipe removes entities, the user identity selection, the git-bug configuration section and the local storage, in that order, closing the backend on every exit.",
		[]string{"RemoveRef on a missing ref is a no-op (idempotence at run time is not explored)", "go-git removes exactly the named reference"},
		runC14)
}

// go-git mutators and the only module functions allowed to call them
var gogitMutators = map[string][]string{
	"SetEncodedObject": {"repository.GoGitRepo.StoreData", "repository.GoGitRepo.StoreTree", "repository.GoGitRepo.StoreCommit", "repository.GoGitRepo.StoreSignedCommit"},
	"SetReference":     {"repository.GoGitRepo.UpdateRef", "repository.GoGitRepo.CopyRef"},
	"RemoveReference":  {"repository.GoGitRepo.RemoveRef"},
	"SetConfig":        {"repository.goGitConfigWriter.StoreString", "repository.goGitConfigWriter.StoreBool", "repository.goGitConfigWriter.StoreTimestamp", "repository.goGitConfigWriter.RemoveAll"},
	"Fetch":            {"repository.GoGitRepo.FetchRefs"},
	"FetchContext":     {"repository.GoGitRepo.FetchRefs"},
	"Push":             {"repository.GoGitRepo.PushRefs"},
	"PushContext":      {"repository.GoGitRepo.PushRefs"},
	"CreateRemote":     {"repository.GoGitRepo.AddRemote"},
	"PlainInit":        {"repository.InitGoGitRepo", "repository.InitBareGoGitRepo"},
	// never:
	"Worktree": {}, "CreateBranch": {}, "DeleteBranch": {}, "CreateTag": {}, "DeleteTag": {}, "DeleteRemote": {},
	"SetIndex": {}, "SetShallow": {}, "CheckAndSetReference": {}, "PackRefs": {}, "Prune": {}, "RepackObjects": {},
	"DeleteObject": {}, "DeleteLooseObject": {}, "PlainClone": {}, "Clone": {}, "CreateRemoteAnonymous": {}, "Merge": {}, "ResolveRevision": nil,
}

func runC15(c *Ctx) {
	w := c.W
	// what git-bug attaches stays reachable from its refs (shared with C04)
	checkFilesTravel(c)
	checkRefTargets(c)
	checkStorageUnderDetectedGitDir(c, "R15.14")
	checkOneRefspecPerNamespace(c, "R15.15")
	checkWhoRemovesRefs(c, "R15.16")
	c.Doc("R15.1", "go-git mutators are called only from their wrapper in package repository; worktree/branch/tag/index/shallow mutators from nowhere")
	c.Doc("R15.2", "ref argument of UpdateRef/CopyRef(dest)/RemoveRef outside package repository evaluates to refs/‹ns›/… or refs/remotes/‹remote›/‹ns›/…")
	c.Doc("R15.3", "fetch refspec refs/‹p›/*:refs/remotes/‹remote›/‹p›/*, push refspec refs/‹p›/*:refs/‹p›/*; callers pass entity namespaces")
	c.Doc("R15.4", "os/ioutil writers only in the reviewed set; local storage root = Join(<git dir>, \"git-bug\")")
	c.Doc("R15.5", "every ConfigWrite key template starts with git-bug.")
	c.Doc("R15.6", "StoreTree sorts a copy with the '/'-suffix rule for trees before encoding; version/clock marker entries point at StoreData(empty)")
	nGoGit := 0
	for _, fn := range w.ModFns {
		if isInstance(fn) {
			continue
		}
		for _, cl := range Calls(fn) {
			recv, m := lastDot(cl.Name)
			if !strings.HasPrefix(recv, "github.com/go-git/go-git/v5") {
				continue
			}
			allowed, isMut := gogitMutators[m]
			if !isMut || allowed == nil {
				continue
			}
			nGoGit++
			c.Sites++
			root := fn
			for root.Parent() != nil {
				root = root.Parent()
			}
			caller := funcName(root)
			ok := false
			for _, a := range allowed {
				if a == caller {
					ok = true
				}
			}
			if w.isTestHelper(fn) {
				ok = true
			}
			c.Check(ok, "R15.1", caller+"→go-git."+m, w.InstrPos(cl.Instr), "allowed wrapper", "go-git mutator "+cl.Name+" is called from "+caller+", which is not its wrapper: git-bug could touch the host repository outside its own refs/objects/config")
		}
	}
	if nGoGit < 8 {
		c.Violate("R15.1", "expected:go-git-mutator-sites", "repository", fmt.Sprintf("%d go-git mutator call sites found (reference 11)", nGoGit))
	}

	// R15.2
	nRef := 0
	for _, fn := range w.ModFns {
		if isInstance(fn) || fnPkgPath(fn) == modPath+"/repository" || w.isTestHelper(fn) {
			continue
		}
		for _, cl := range Calls(fn) {
			e := primEffect(cl.Name)
			var arg ssa.Value
			switch e {
			case "REF:UpdateRef", "REF:RemoveRef":
				arg = cl.Args()[0]
			case "REF:CopyRef":
				arg = cl.Args()[1]
			default:
				continue
			}
			nRef++
			c.Sites++
			c.seeFn(funcName(fn))
			ts := refTemplatesThroughCallers(w, fn, arg, 0)
			var shapes []string
			ok := len(ts) > 0
			for _, t := range ts {
				shapes = append(shapes, t.String())
				if !validRefTemplate(t) {
					ok = false
				}
			}
			sort.Strings(shapes)
			key := fmt.Sprintf("%s:%s", funcName(fn), strings.TrimPrefix(e, "REF:"))
			c.Check(ok, "R15.2", key, w.InstrPos(cl.Instr), strings.Join(shapes, " | "), "ref name "+strings.Join(shapes, " | ")+" is not provably under refs/‹namespace›/ or refs/remotes/‹remote›/‹namespace›/")
		}
	}
	if nRef < 8 {
		c.Violate("R15.2", "expected:ref-sites", "module", fmt.Sprintf("%d ref-moving call sites outside package repository (reference 10)", nRef))
	}
	checkRefspecs(c)
	checkFetchPushOptions(c)
	checkSubcacheNamespaces(c)
	checkFileWriters(c)
	checkConfigKeys(c)
	checkStoreTree(c)
	checkTreeModes(c)
	checkRootDirs(c)
	checkCommitIdentsClean(c)
	checkEditorFileInStorage(c)
	// a file id that is not a git hash never reaches a tree (shared with C07)
	checkHashIsValidCanonical(c, "R7.12")
	checkTreeNamesAndGitDir(c)
}

// refTemplates: templates of a ref-name argument; an element of a ListRefs result is replaced by the
// template of the prefix that was listed (+ "…").
func refTemplates(fn *ssa.Function, arg ssa.Value) []Template {
	ts := templatesOf(arg)
	var out []Template
	for _, t := range ts {
		if len(t) == 1 && t[0].Hole != "" && strings.Contains(t[0].Hole, "ListRefs") {
			// find the ListRefs call(s) of this function
			for _, cl := range Calls(fn) {
				if strings.HasSuffix(cl.Name, ".ListRefs") {
					for _, pt := range templatesOf(cl.Args()[0]) {
						out = append(out, concatT(pt, hole("listed-suffix")))
					}
				}
			}
			continue
		}
		out = append(out, t)
	}
	return dedupT(out)
}

func isNamespaceHole(h string) bool {
	return h == "field:Namespace" || h == "global:Namespace"
}

// validRefTemplate: refs/‹ns›/… or refs/remotes/‹remote›/‹ns›/… (ns = hole field:Namespace or the literals bugs/identities)
func validRefTemplate(t Template) bool {
	s := t.Shape()
	holes := t.Holes()
	nsLits := []string{"bugs", "identities"}
	if !strings.HasPrefix(s, "refs/") {
		return false
	}
	rest := strings.TrimPrefix(s, "refs/")
	hi := 0
	takeNs := func(r string) (string, bool) {
		for _, l := range nsLits {
			if strings.HasPrefix(r, l+"/") {
				return strings.TrimPrefix(r, l+"/"), true
			}
		}
		if strings.HasPrefix(r, "‹›/") && hi < len(holes) && isNamespaceHole(holes[hi]) {
			hi++
			return strings.TrimPrefix(r, "‹›/"), true
		}
		return r, false
	}
	if strings.HasPrefix(rest, "remotes/") {
		rest = strings.TrimPrefix(rest, "remotes/")
		if !strings.HasPrefix(rest, "‹›/") || hi >= len(holes) || isNamespaceHole(holes[hi]) {
			return false
		}
		hi++
		rest = strings.TrimPrefix(rest, "‹›/")
	}
	_, ok := takeNs(rest)
	return ok
}

func checkRefspecs(c *Ctx) {
	w := c.W
	for _, t := range []struct{ m, want string }{
		{"FetchRefs", "refs/‹param:prefix›/*:refs/remotes/‹param:remote›/‹param:prefix›/*"},
		{"PushRefs", "refs/‹param:prefix›/*:refs/‹param:prefix›/*"},
	} {
		fn := w.Method("repository", "GoGitRepo", t.m)
		if fn == nil {
			c.Undecided("R15.3", "anchor:GoGitRepo."+t.m, "repository", "not found")
			continue
		}
		c.seeFn(funcName(fn))
		fetchShape := "refs/‹param:prefix›/*:refs/remotes/‹param:remote›/‹param:prefix›/*"
		found := map[string]bool{}
		for _, cl := range CallsNamed(fn, "fmt.Sprintf") {
			c.Sites++
			for _, tt := range templatesOf(cl.Value()) {
				s := tt.String()
				s = strings.ReplaceAll(s, "‹elem-of:param:prefixes›", "‹param:prefix›")
				s = strings.ReplaceAll(s, "‹var:prefix›", "‹param:prefix›")
				if strings.Contains(s, "refs/") {
					found[s] = true
				}
			}
		}
		ok := found[t.want]
		var all []string
		for s := range found {
			all = append(all, s)
			if s != t.want && s != fetchShape {
				ok = false
			}
		}
		sort.Strings(all)
		c.Check(ok, "R15.3", "GoGitRepo."+t.m+":refspec", w.FnPos(fn), strings.Join(all, " | "), fmt.Sprintf("refspecs are %q, expected %q: refs outside the git-bug namespaces could be fetched or pushed", all, t.want))
	}
	// fetch must not follow tags
	if ff := w.Method("repository", "GoGitRepo", "FetchRefs"); ff != nil {
		noTags := int64(-1)
		if gp := w.ByPath["github.com/go-git/go-git/v5"]; gp != nil {
			if k, ok := gp.Types.Scope().Lookup("NoTags").(*types.Const); ok {
				if v, ok := constantInt(k); ok {
					noTags = v
				}
			}
		}
		ok := false
		for _, b := range ff.Blocks {
			for _, ins := range b.Instrs {
				if st, isSt := ins.(*ssa.Store); isSt {
					if fa, isFA := st.Addr.(*ssa.FieldAddr); isFA && fieldName(fa) == "Tags" && strings.HasSuffix(typeShortName(fa.X.Type()), "FetchOptions") {
						if k, isK := constInt(st.Val); isK && k == noTags {
							ok = true
						}
					}
				}
			}
		}
		c.Check(ok, "R15.3", "GoGitRepo.FetchRefs:no-tags", w.FnPos(ff), "FetchOptions.Tags = NoTags", "the fetch follows tags (go-git's default): remote tags pointing at fetched or known objects are created as refs/tags/… in the host repository")
	}
	// callers pass namespaces only
	n := 0
	for _, fn := range w.ModFns {
		if isInstance(fn) || fnPkgPath(fn) == modPath+"/repository" {
			continue
		}
		for _, cl := range Calls(fn) {
			if !strings.HasSuffix(cl.Name, ".FetchRefs") && !strings.HasSuffix(cl.Name, ".PushRefs") || !strings.HasPrefix(cl.Name, "repository.") {
				continue
			}
			n++
			c.Sites++
			args := cl.Args()
			ok := len(args) == 2
			var what []string
			if ok {
				for _, p := range sliceElementValues(args[1]) {
					for _, tt := range templatesOf(p) {
						what = append(what, tt.String())
						okT := false
						if len(tt) == 1 && (isNamespaceHole(tt[0].Hole) || tt[0].Lit == "bugs" || tt[0].Lit == "identities" || tt[0].Hole == "call:cache.cacheMgmt.GetNamespace") {
							okT = true
						}
						if !okT {
							ok = false
						}
					}
				}
			}
			c.Check(ok && len(what) > 0, "R15.3", funcName(fn)+"→"+strings.TrimPrefix(cl.Name, "repository.RepoData."), w.InstrPos(cl.Instr), "prefix "+strings.Join(what, ","), "fetch/push prefix "+strings.Join(what, ",")+" is not an entity namespace")
		}
	}
	if n < 4 {
		c.Violate("R15.3", "expected:fetch-push-callers", "module", fmt.Sprintf("%d callers (reference 4)", n))
	}
}

func checkFileWriters(c *Ctx) {
	w := c.W
	reviewed := map[string]string{
		"repository.openBleveIndex":               "bleve index directory under localStorage.Root()/indexes",
		"repository.makeIndex":                    "bleve index directory under localStorage.Root()/indexes",
		"repository.bleveIndex.Clear":             "removes and recreates its own index directory",
		"repository.bleveIndex.makeIndex":         "bleve index directory under localStorage.Root()/indexes",
		"repository.GoGitRepo.EraseFromDisk":      "test-only helper of the TestedRepo interface",
		"commands/input.launchEditor":             "editor scratch file created through LocalStorage, removed afterwards",
		"commands/input.LaunchEditorWithTemplate": "editor scratch file through LocalStorage",
		"commands/input.LaunchEditor":             "editor scratch file through LocalStorage",
		"util/lamport.PersistedClock.Write":       "clock file under localStorage/clocks (billy util.WriteFile)",
		"cache.SubCache.write":                    "cache file under localStorage/cache",
		"cache.RepoCache.lock":                    "lock file under localStorage",
		"cache.RepoCache.Close":                   "removes the lock file",
		"cache.repoIsAvailable":                   "removes a stale lock file",
	}
	n := 0
	for _, fn := range w.ModFns {
		if isInstance(fn) || w.isTestHelper(fn) {
			continue
		}
		p := fnPkgPath(fn)
		if strings.HasPrefix(p, modPath+"/misc") || strings.HasPrefix(p, modPath+"/webui") || strings.HasPrefix(p, modPath+"/doc") {
			continue
		}
		for _, cl := range Calls(fn) {
			e := primEffect(cl.Name)
			if effClass(e) != "OSFILE" && effClass(e) != "FILE" {
				continue
			}
			n++
			c.Sites++
			root := fn
			for root.Parent() != nil {
				root = root.Parent()
			}
			name := funcName(root)
			why, ok := reviewed[name]
			if effClass(e) == "FILE" && !ok {
				// billy / LocalStorage writers are confined to the local storage by construction (rooted filesystem)
				if strings.HasPrefix(cl.Name, "repository.LocalStorage") || strings.Contains(cl.Name, "go-billy") {
					ok, why = true, "through the LocalStorage filesystem (rooted at <git dir>/git-bug)"
				}
			}
			c.Check(ok, "R15.4", name+"→"+cl.Name, w.InstrPos(cl.Instr), why, "file-system writer "+cl.Name+" outside the reviewed set: git-bug may write outside .git/git-bug")
		}
	}
	if n < 5 {
		c.Violate("R15.4", "expected:file-writers", "module", fmt.Sprintf("%d file writer sites (reference ≥ 8)", n))
	}
	// local storage root
	og := w.Func("repository", "OpenGoGitRepo")
	if og != nil {
		ok := false
		for _, cl := range Calls(og) {
			if strings.HasSuffix(cl.Name, "osfs.New") {
				for _, tt := range templatesOf(cl.Args()[0]) {
					s := tt.String()
					if strings.HasSuffix(s, "/‹param:namespace›") || strings.HasSuffix(s, "/git-bug") {
						ok = true
					}
				}
			}
		}
		c.Check(ok, "R15.4", "OpenGoGitRepo:local-storage-root", w.FnPos(og), "local storage = Join(<git dir>, namespace)", "the local storage is not rooted at <git dir>/<namespace>")
	}
	// the namespace passed by the product callers is the constant git-bug
	for _, fn := range w.ModFns {
		for _, cl := range CallsNamed(fn, "repository.OpenGoGitRepo") {
			if w.isTestHelper(fn) || strings.HasPrefix(fnPkgPath(fn), modPath+"/misc") {
				continue
			}
			ok := false
			for _, tt := range templatesOf(cl.Args()[1]) {
				if tt.String() == "git-bug" {
					ok = true
				}
			}
			c.Check(ok, "R15.4", funcName(fn)+":storage-namespace", w.InstrPos(cl.Instr), "namespace git-bug", "the repository is opened with a local storage namespace other than git-bug")
		}
	}
}

func checkConfigKeys(c *Ctx) {
	w := c.W
	n := 0
	for _, fn := range w.ModFns {
		if isInstance(fn) || fnPkgPath(fn) == modPath+"/repository" || w.isTestHelper(fn) {
			continue
		}
		for _, cl := range Calls(fn) {
			e := primEffect(cl.Name)
			if effClass(e) != "CONFIG" {
				continue
			}
			n++
			c.Sites++
			ts := templatesOf(cl.Args()[0])
			ok := len(ts) > 0
			var shapes []string
			for _, t := range ts {
				s := t.String()
				shapes = append(shapes, s)
				if !(strings.HasPrefix(s, "git-bug.") || s == "git-bug") {
					ok = false
				}
			}
			c.Check(ok, "R15.5", funcName(fn)+":"+strings.TrimPrefix(e, "CONFIG:"), w.InstrPos(cl.Instr), strings.Join(shapes, " | "), "configuration key "+strings.Join(shapes, " | ")+" is not under the git-bug. section: a foreign key could be written or removed")
		}
	}
	if n < 5 {
		c.Violate("R15.5", "expected:config-writes", "module", fmt.Sprintf("%d configuration write sites (reference ≥ 8)", n))
	}
}

func checkStoreTree(c *Ctx) {
	w := c.W
	fn := w.Method("repository", "GoGitRepo", "StoreTree")
	if fn == nil {
		c.Undecided("R15.6", "anchor:GoGitRepo.StoreTree", "repository", "not found")
		return
	}
	c.seeFn(funcName(fn))
	var sortCall *Call
	for _, cl := range Calls(fn) {
		if cl.Name == "sort.Slice" || cl.Name == "sort.SliceStable" {
			sortCall = cl
		}
	}
	if sortCall == nil {
		c.Violate("R15.6", "GoGitRepo.StoreTree:sorted", w.FnPos(fn), "entries are not sorted before encoding: git requires tree entries in its canonical order")
		return
	}
	sorted := stripConv(sortCall.Args()[0])
	// entries appended to tree.Entries come from ranging over the sorted slice, after the sort
	ok := false
	for _, b := range fn.Blocks {
		for _, ins := range b.Instrs {
			st, isSt := ins.(*ssa.Store)
			if !isSt {
				continue
			}
			fa, isFA := st.Addr.(*ssa.FieldAddr)
			if !isFA || fieldName(fa) != "Name" {
				continue
			}
			// value: field Name of element of sorted
			for _, o := range origins(st.Val) {
				if o.Kind == "field" && o.Name == "Name" {
					// range copies the element into a local: follow the stores into it
					if al, isAl := o.Val.(*ssa.Alloc); isAl {
						for _, r := range *al.Referrers() {
							if s2, isS := r.(*ssa.Store); isS && s2.Addr == al {
								if u, isU := s2.Val.(*ssa.UnOp); isU {
									if ia, isIA := u.X.(*ssa.IndexAddr); isIA && sameSlice(ia.X, sorted) && sortCall.Instr.Block().Dominates(st.Block()) {
										ok = true
									}
								}
							}
						}
					}
					if u, isU := o.Val.(*ssa.UnOp); isU {
						if ia, isIA := u.X.(*ssa.IndexAddr); isIA && sameSlice(ia.X, sorted) && sortCall.Instr.Block().Dominates(st.Block()) {
							ok = true
						}
					}
					if ia, isIA := o.Val.(*ssa.IndexAddr); isIA && sameSlice(ia.X, sorted) && sortCall.Instr.Block().Dominates(st.Block()) {
						ok = true
					}
				}
			}
		}
	}
	c.Check(ok, "R15.6", "GoGitRepo.StoreTree:sorted", w.InstrPos(sortCall.Instr), "the encoded entries are those of the sorted copy", "the entries encoded are not taken from the sorted copy (or are encoded before sorting)")
	// comparator appends "/" to tree names
	okSlash := false
	if mc, isMC := sortCall.Args()[1].(*ssa.MakeClosure); isMC {
		less := mc.Fn.(*ssa.Function)
		// "name + '/'" under "ObjectType == Tree", for both elements: inline, or through a same-package
		// key function applied to each element
		slashes := func(f *ssa.Function) int {
			n := 0
			for _, b := range f.Blocks {
				for _, ins := range b.Instrs {
					bo, isBo := ins.(*ssa.BinOp)
					if !isBo || bo.Op.String() != "+" {
						continue
					}
					if s, isS := constString(bo.Y); !isS || s != "/" {
						continue
					}
					for _, cc := range controlConds(b, nil) {
						if cb, isCB := cc.If.Cond.(*ssa.BinOp); isCB && cb.Op == token.EQL && cc.Edge == 0 && (hasField(cb.X, "ObjectType") || hasField(cb.Y, "ObjectType")) {
							n++
							break
						}
					}
				}
			}
			return n
		}
		nSlash := slashes(less)
		for _, cl := range Calls(less) {
			if h := cl.Fn; h != nil && h.Pkg == less.Pkg && len(h.Blocks) > 0 {
				nSlash += slashes(h)
			}
		}
		okSlash = nSlash >= 2
	}
	c.Check(okSlash, "R15.6", "GoGitRepo.StoreTree:dir-ordering", w.InstrPos(sortCall.Instr), "tree names compare with a trailing '/'", "the comparator does not apply git's rule that directories sort as name+'/'")
	// marker entries → empty blob
	wr := w.Method("entity/dag", "operationPack", "Write")
	if wr != nil {
		var empty *ssa.Call
		for _, cl := range Calls(wr) {
			if strings.HasSuffix(cl.Name, ".StoreData") {
				a := cl.Args()[0]
				if sl, isSl := a.(*ssa.Slice); isSl {
					if al, isAl := sl.X.(*ssa.Alloc); isAl && strings.Contains(al.Type().String(), "[0]") {
						empty = cl.Value().(*ssa.Call)
					}
				}
			}
		}
		okM := empty != nil
		nMarker := 0
		if okM {
			for _, b := range wr.Blocks {
				for _, ins := range b.Instrs {
					st, isSt := ins.(*ssa.Store)
					if !isSt {
						continue
					}
					fa, isFA := st.Addr.(*ssa.FieldAddr)
					if !isFA || fieldName(fa) != "Name" {
						continue
					}
					f, _, isSp := sprintfFormat(stripConv(st.Val))
					if !isSp || !strings.HasSuffix(f, "%d") {
						continue
					}
					nMarker++
					// Hash of the same entry
					for _, hs := range storedFieldValuesAny(wr, fa.X, "Hash") {
						if hc := hasOriginCall(hs.Val, "repository.RepoData.StoreData", 0); hc != empty {
							okM = false
						}
					}
				}
			}
		}
		c.Check(okM && nMarker >= 3, "R15.6", "operationPack.Write:markers-point-at-empty-blob", w.FnPos(wr), "version and clock marker entries reference the stored empty blob", "a marker tree entry does not reference the stored empty blob: the tree would point at a missing or foreign object")
	}
}

// R15.7 / R15.8
func checkTreeNamesAndGitDir(c *Ctx) {
	w := c.W
	c.Doc("R15.7", "the entries of the attached-files tree get distinct names: the number formatted into the name is a counter carried across all operations of the pack and incremented once per entry")
	c.Doc("R15.8", "isGitDir answers true only after all of HEAD, objects and refs were found, and false as soon as one is missing: git-bug never treats a linked work tree's admin directory (or another partial directory) as the repository")
	mk := w.Method("entity/dag", "operationPack", "makeExtraTree")
	if mk == nil {
		c.Undecided("R15.7", "anchor:operationPack.makeExtraTree", "entity/dag", "not found")
	} else {
		c.seeFn(funcName(mk))
		ok, why := false, "no numbered entry name found"
		for _, cl := range CallsNamed(mk, "fmt.Sprintf") {
			c.Sites++
			_, ops, isSp := sprintfFormat(cl.Value())
			if !isSp || len(ops) != 1 {
				continue
			}
			outer := outermostLoopHeader(cl.Block())
			carried := false
			seen := map[ssa.Value]bool{}
			var walk func(v ssa.Value)
			walk = func(v ssa.Value) {
				if seen[v] {
					return
				}
				seen[v] = true
				if phi, isPhi := v.(*ssa.Phi); isPhi {
					if phi.Block() == outer {
						carried = true
					}
					for _, e := range phi.Edges {
						walk(e)
					}
				}
				if bo, isBo := v.(*ssa.BinOp); isBo {
					walk(bo.X)
				}
			}
			walk(ops[0])
			// incremented in the block that appends the entry
			inc := false
			for _, r := range *ops[0].Referrers() {
				if bo, isBo := r.(*ssa.BinOp); isBo && bo.Op == token.ADD && bo.Block() == cl.Block() {
					if k, isK := constInt(bo.Y); isK && k == 1 {
						inc = true
					}
				}
			}
			if carried && inc {
				ok = true
			} else if !carried {
				why = "the number in the entry name restarts for every operation: two operations with attachments produce duplicate names in one tree (git fsck: duplicateEntries)"
			} else {
				why = "the counter is not incremented with each entry"
			}
		}
		c.Check(ok, "R15.7", "operationPack.makeExtraTree:unique-names", w.FnPos(mk), "names numbered by a pack-wide counter", why)
	}
	ig := w.Func("repository", "isGitDir")
	if ig == nil {
		c.Undecided("R15.8", "anchor:repository.isGitDir", "repository", "not found")
		return
	}
	c.seeFn(funcName(ig))
	markers := map[string]bool{}
	for _, b := range ig.Blocks {
		for _, ins := range b.Instrs {
			if st, isSt := ins.(*ssa.Store); isSt {
				if s, isS := constString(st.Val); isS {
					markers[s] = true
				}
			}
		}
	}
	okMarkers := markers["HEAD"] && markers["objects"] && markers["refs"]
	okTrue, okFalse := true, false
	for _, r := range Returns(ig) {
		c.Sites++
		if k, isK := r.Results[0].(*ssa.Const); isK && k.Value != nil && k.Value.String() == "true" {
			if enclosingLoopHeader(r.Block()) != nil || r.Block().Comment != "rangeindex.done" && r.Block().Comment != "for.done" {
				okTrue = false
			}
		}
	}
	for _, cl := range CallsNamed(ig, "os.Stat") {
		// on the error edge (possibly after the not-exist test) false is returned
		for _, fb := range failureBlocks(cl.Value()) {
			if strictlyFails(fb, func(r *ssa.Return) bool {
				k, isK := r.Results[0].(*ssa.Const)
				return isK && k.Value != nil && k.Value.String() == "false"
			}) {
				okFalse = true
			}
		}
	}
	c.Check(okMarkers && okTrue && okFalse, "R15.8", "repository.isGitDir:all-markers", w.FnPos(ig), "true only after HEAD, objects and refs were all found", "isGitDir can answer true without all of HEAD, objects and refs being present (or does not answer false when one is missing)")
}

func storedFieldValuesAny(fn *ssa.Function, base ssa.Value, field string) []*ssa.Store {
	return storedFieldValues(fn, base, field)
}

// ---- C14 ----

func runC14(c *Ctx) {
	w := c.W
	checkRebuildAndCLIRemoval(c)
	checkRemoveUsesResolvedId(c, "R14.8")
	checkRemovalErrorsReported(c, "R14.9")
	checkConfigSectionRemoval(c, "R14.10")
	checkRemoveIndexUnderLock(c, "R14.11", newLockWorld(w))
	checkRefsToIdsTotal(c, "R14.12")
	c.Doc("R14.1", "RemoveRef arguments evaluate to refs/‹ns›/‹id› and refs/remotes/‹remote›/‹ns›/‹id›, remote ranging over the keys of GetRemotes(); same remote-ref shape as the fetch destination and the MergeAll prefix; identity.Remove removes single full-id matches of ListRefs only")
	c.Doc("R14.2", "SubCache.Remove/RemoveAll: entity removal, delete from cached/excerpts, lru.Remove, index removal, write() on every success path")
	c.Doc("R14.3", "runWipe: RemoveAll → ClearUserIdentity → LocalConfig().RemoveAll(\"git-bug\") → Close → LocalStorage.RemoveAll(\".\"), backend closed on every error exit before Close")
	// dag.Remove
	rm := w.Func("entity/dag", "Remove")
	if rm == nil {
		c.Undecided("R14.1", "anchor:dag.Remove", "entity/dag", "not found")
	} else {
		c.seeFn(funcName(rm))
		var shapes []string
		for _, cl := range Calls(rm) {
			if primEffect(cl.Name) != "REF:RemoveRef" {
				continue
			}
			c.Sites++
			for _, t := range templatesOf(cl.Args()[0]) {
				shapes = append(shapes, t.String())
			}
		}
		sort.Strings(shapes)
		got := strings.Join(shapes, " | ")
		wantLocal := "refs/‹field:Namespace›/‹param:id›"
		wantRemote := "refs/remotes/‹key-of:call:repository.RepoCommon.GetRemotes›/‹field:Namespace›/‹param:id›"
		hasL, hasR := false, false
		extra := ""
		for _, s := range shapes {
			switch s {
			case wantLocal:
				hasL = true
			case wantRemote:
				hasR = true
			default:
				extra = s
			}
		}
		c.Check(hasL && hasR && extra == "", "R14.1", "dag.Remove:refs", w.FnPos(rm), got, "the refs removed are "+got+"; expected exactly "+wantLocal+" and "+wantRemote+" (a swapped or missing component makes the removal a silent no-op and the entity comes back at the next merge)")
		// errors propagated, all matches removed (loop unconditional)
		for _, cl := range Calls(rm) {
			if primEffect(cl.Name) == "REF:RemoveRef" {
				okE := cl.Value() != nil && errorPropagated(cl.Value(), nil)
				c.Check(okE && unconditionalInLoop(w, cl.Instr) == "", "R14.1", "dag.Remove:every-ref", w.InstrPos(cl.Instr), "every collected ref is removed, errors returned", "not every collected ref is removed (conditional or error dropped)")
			}
		}
	}
	// agreement with fetch destination and MergeAll prefix
	fetchDest := ""
	if ff := w.Method("repository", "GoGitRepo", "FetchRefs"); ff != nil {
		for _, cl := range CallsNamed(ff, "fmt.Sprintf") {
			for _, t := range templatesOf(cl.Value()) {
				s := t.Shape()
				if i := strings.Index(s, ":"); i >= 0 {
					fetchDest = s[i+1:]
				}
			}
		}
	}
	mergePrefix := ""
	if ma := w.Func("entity/dag", "MergeAll"); ma != nil {
		for _, cl := range CallsDeep(ma) {
			if strings.HasSuffix(cl.Name, ".ListRefs") {
				for _, t := range templatesOf(cl.Args()[0]) {
					mergePrefix = t.Shape()
				}
			}
		}
	}
	removeRemote := ""
	if rm != nil {
		for _, cl := range Calls(rm) {
			if primEffect(cl.Name) == "REF:RemoveRef" {
				for _, t := range templatesOf(cl.Args()[0]) {
					if strings.HasPrefix(t.Shape(), "refs/remotes/") {
						removeRemote = t.Shape()
					}
				}
			}
		}
	}
	// refs/remotes/‹›/‹›/* vs refs/remotes/‹›/‹›/ vs refs/remotes/‹›/‹›/‹›
	norm := func(s string) string {
		s = strings.TrimSuffix(s, "*")
		s = strings.TrimSuffix(s, "‹›")
		return s
	}
	c.Check(fetchDest != "" && norm(fetchDest) == norm(mergePrefix) && norm(mergePrefix) == norm(removeRemote), "R14.1", "remote-ref-shape-agreement", "entity/dag", fmt.Sprintf("fetch → %s, merge lists %s, remove deletes %s", fetchDest, mergePrefix, removeRemote), fmt.Sprintf("the three sites disagree on the remote-tracking ref layout: fetch → %q, MergeAll lists %q, Remove deletes %q", fetchDest, mergePrefix, removeRemote))
	// and the order of holes (remote first, then namespace) in MergeAll and Remove
	if ma := w.Func("entity/dag", "MergeAll"); ma != nil {
		for _, cl := range CallsDeep(ma) {
			if strings.HasSuffix(cl.Name, ".ListRefs") {
				for _, t := range templatesOf(cl.Args()[0]) {
					h := t.Holes()
					ok := len(h) == 2 && !isNamespaceHole(h[0]) && isNamespaceHole(h[1])
					c.Check(ok, "R14.1", "dag.MergeAll:remote-prefix-order", w.InstrPos(cl.Instr), t.String(), "MergeAll lists "+t.String()+": remote and namespace are not in the order the fetch refspec uses")
				}
			}
		}
	}

	// identity.Remove
	ir := w.Func("entities/identity", "Remove")
	if ir == nil {
		c.Undecided("R14.1", "anchor:identity.Remove", "entities/identity", "not found")
	} else {
		c.seeFn(funcName(ir))
		// every RemoveRef argument is an element [0] of a ListRefs result guarded by len == 1; ListRefs prefixes end with the id
		okArgs := true
		// the values handed to RemoveRef: directly, or through a same-package helper that removes
		// the elements of a slice it is given
		var removed [][]ssa.Value
		for _, cl := range Calls(ir) {
			if primEffect(cl.Name) == "REF:RemoveRef" {
				removed = append(removed, appendedValuesOfElem(cl.Args()[0]))
				continue
			}
			h := cl.Fn
			if h == nil || h.Pkg != ir.Pkg || h == ir || len(h.Blocks) == 0 {
				continue
			}
			for _, hc := range Calls(h) {
				if primEffect(hc.Name) != "REF:RemoveRef" {
					continue
				}
				u, isU := hc.Args()[0].(*ssa.UnOp)
				if !isU {
					okArgs = false
					continue
				}
				ia, isIA := u.X.(*ssa.IndexAddr)
				if !isIA {
					okArgs = false
					continue
				}
				found := false
				for i, pp := range h.Params {
					if isSameParam(ia.X, pp) && i < len(cl.Instr.Common().Args) {
						removed = append(removed, appendedValues(cl.Instr.Common().Args[i]))
						found = true
					}
				}
				if !found {
					okArgs = false
				}
			}
		}
		if len(removed) == 0 {
			okArgs = false
		}
		for _, vals := range removed {
			c.Sites++
			if len(vals) == 0 {
				okArgs = false
			}
			for _, v := range vals {
				u, isU := v.(*ssa.UnOp)
				if !isU {
					okArgs = false
					continue
				}
				ia, isIA := u.X.(*ssa.IndexAddr)
				if !isIA || hasOriginCall(ia.X, "repository.RepoData.ListRefs", 0) == nil {
					okArgs = false
					continue
				}
				if !lenGuardedEq(ia, ia.X, 1) {
					okArgs = false
				}
			}
		}
		c.Check(okArgs, "R14.1", "identity.Remove:only-single-full-matches", w.FnPos(ir), "removes refs[0] of a ListRefs that returned exactly one ref", "identity.Remove can remove a ref that is not the single match of the id")
		var pre []string
		okPre := true
		for _, cl := range Calls(ir) {
			if strings.HasSuffix(cl.Name, ".ListRefs") {
				for _, t := range templatesOf(cl.Args()[0]) {
					s := t.String()
					pre = append(pre, s)
					if !(s == "refs/identities/‹param:id›" || s == "refs/remotes/‹key-of:call:repository.RepoCommon.GetRemotes›/identities/‹param:id›") {
						okPre = false
					}
				}
			}
		}
		c.Check(okPre && len(pre) == 2, "R14.1", "identity.Remove:prefixes", w.FnPos(ir), strings.Join(pre, " | "), "identity.Remove lists "+strings.Join(pre, " | ")+": expected the local ref and, per remote, the remote-tracking ref of the full id")
	}

	checkRemovalSteps(c)
	checkForgetsAfterRemoval(c, "R14.2")
	checkGetRemotesComplete(c)
	checkIndexClearComplete(c)
	// a removal whose last write was lost is repaired at the next start: any count mismatch rebuilds (shared with C11)
	checkLoadHeuristic(c)
	// a failed removal leaves the sub-cache usable: locks released on every exit (shared with C18)
	checkMutatorLocksPaired(c)
	// a removed reference is really removed, wherever git stores it (shared with C06)
	checkIndexReopen(c)
	// "only it": the prefix given to Remove designates one entity or the removal is refused (shared with C13)
	checkC13Scans(c)

	// R14.3
	rw := w.Func("commands", "runWipe")
	if rw == nil {
		c.Undecided("R14.3", "anchor:commands.runWipe", "commands", "not found")
		return
	}
	c.seeFn(funcName(rw))
	// a step is a call in runWipe itself, or a call of a same-package helper that contains the step
	// (inner[site] is then the step inside the helper, innerFn[site] the helper)
	inner := map[*Call]*Call{}
	innerFn := map[*Call]*ssa.Function{}
	find := func(pred func(cl *Call) bool) *Call {
		for _, cl := range Calls(rw) {
			if pred(cl) && cl.Value() != nil {
				return cl
			}
		}
		for _, cl := range Calls(rw) {
			callee := cl.Instr.Common().StaticCallee()
			if callee == nil || len(callee.Blocks) == 0 || !samePkgFn(callee, rw) || cl.Value() == nil {
				continue
			}
			for _, c2 := range Calls(callee) {
				if pred(c2) && c2.Value() != nil {
					inner[cl] = c2
					innerFn[cl] = callee
					return cl
				}
			}
		}
		return nil
	}
	entities := find(func(cl *Call) bool { return cl.Name == "cache.RepoCache.RemoveAll" })
	cfg := find(func(cl *Call) bool {
		if !strings.HasSuffix(cl.Name, ".RemoveAll") || !strings.Contains(cl.Name, "Config") {
			return false
		}
		s, ok := constString(cl.Args()[0])
		return ok && s == "git-bug"
	})
	closeC := find(func(cl *Call) bool { return cl.Name == "cache.RepoCache.Close" && !inErrorExit(cl) })
	storage := find(func(cl *Call) bool {
		if !strings.HasSuffix(cl.Name, ".RemoveAll") || !strings.Contains(cl.Name, "LocalStorage") {
			return false
		}
		s, ok := constString(cl.Args()[0])
		return ok && s == "."
	})
	c.Sites += 4
	if entities == nil || cfg == nil || closeC == nil || storage == nil {
		missing := []string{}
		for k, v := range map[string]*Call{"entity removal": entities, "configuration section removal": cfg, "backend close": closeC, "local storage removal": storage} {
			if v == nil {
				missing = append(missing, k)
			}
		}
		sort.Strings(missing)
		c.Violate("R14.3", "runWipe:steps", w.FnPos(rw), "wipe lacks the step(s): "+strings.Join(missing, ", ")+" — something of git-bug is left behind")
		return
	}
	for _, st := range []struct {
		key string
		cl  *Call
	}{{"RemoveAll", entities}, {"config-section", cfg}, {"Close", closeC}, {"local-storage", storage}} {
		okErr := errorPropagated(st.cl.Value(), nil)
		if in := inner[st.cl]; in != nil && okErr {
			okErr = errorPropagated(in.Value(), nil)
		}
		c.Check(okErr, "R14.3", "runWipe:"+st.key+":error", w.InstrPos(st.cl.Instr), "error returned", "the error of step "+st.key+" is dropped")
	}
	// order: entities → config → close → storage
	c.Check(dominatedBySuccess(entities.Value(), cfg.Instr) && dominatedBySuccess(entities.Value(), closeC.Instr), "R14.3", "runWipe:entities-first", w.InstrPos(entities.Instr), "entities are removed first", "the configuration or the backend is torn down before (or without) the entities having been removed")
	// the configuration removal may only be skipped when there is nothing to remove
	okCfg, whyCfg := true, ""
	{
		cfgFn, cfgIn := rw, cfg
		targets := []ssa.Instruction{closeC.Instr}
		if in := inner[cfg]; in != nil {
			// the step lives in a helper: inside it, every success return is a target; in runWipe the helper's success precedes Close
			cfgFn, cfgIn = innerFn[cfg], in
			targets = nil
			for _, r := range Returns(cfgFn) {
				if returnKind(r) != RetError {
					targets = append(targets, r)
				}
			}
			if !dominatedBySuccess(cfg.Value(), closeC.Instr) {
				okCfg, whyCfg = false, "the backend is closed without the configuration section having been removed"
			}
		}
		if okCfg {
			okCfg, whyCfg = configRemovalUnskippable(w, cfgFn, cfgIn, targets)
		}
	}
	c.Check(okCfg, "R14.3", "runWipe:config-section", w.InstrPos(cfg.Instr), "the git-bug section is removed whenever it has keys", whyCfg)
	c.Check(dominatedBySuccess(closeC.Value(), storage.Instr), "R14.3", "runWipe:close-before-storage", w.InstrPos(storage.Instr), "the local storage is removed after the backend was closed", "the local storage is removed while the backend is still open (its files are recreated on close) or without closing")
	// the identity selection lives in the section removed
	if ik, ok := pkgConstString(w, "entities/identity", "identityConfigKey"); ok {
		c.Check(strings.HasPrefix(ik, "git-bug."), "R14.3", "runWipe:identity-selection-in-section", w.FnPos(rw), "the user identity key "+ik+" is in the section removed", "the user identity selection ("+ik+") is not covered by the section wipe removes")
	}
	// success only after the last step
	for _, r := range Returns(rw) {
		if returnKind(r) == RetError {
			continue
		}
		c.Check(dominatedBySuccess(storage.Value(), r) || returnsValue(r, storage.Value()), "R14.3", "runWipe:success-after-all-steps", w.InstrPos(r), "success only after every step", "wipe can report success before all steps were performed")
	}
	// every error exit before Close closes the backend
	for _, r := range Returns(rw) {
		if returnKind(r) != RetError {
			continue
		}
		if closeC.Instr.Block().Dominates(r.Block()) {
			continue
		}
		closed := false
		for _, ins := range r.Block().Instrs {
			if isBackendClose(ins) {
				closed = true
			}
		}
		c.Check(closed, "R14.3", "runWipe:error-exit-closes", w.InstrPos(r), "the backend is closed on this error exit", "an error exit of wipe leaves the backend open (lock file left behind)")
	}
}

// inErrorExit: the call sits in a block that returns an error (cleanup on an error path)
func inErrorExit(cl *Call) bool {
	b := cl.Block()
	if len(b.Instrs) == 0 {
		return false
	}
	r, ok := b.Instrs[len(b.Instrs)-1].(*ssa.Return)
	return ok && returnKind(r) == RetError && cl.Value() != nil && len(*cl.Value().Referrers()) == 0
}

func returnsAfter(cl *Call) bool { return true }

func returnsValue(r *ssa.Return, v ssa.Value) bool {
	for _, x := range r.Results {
		if x == v {
			return true
		}
	}
	return false
}

func deleteOf(field string) func(ssa.Instruction) bool {
	return func(i ssa.Instruction) bool {
		call, ok := i.(*ssa.Call)
		if !ok {
			return false
		}
		bi, ok := call.Common().Value.(*ssa.Builtin)
		if !ok || bi.Name() != "delete" {
			return false
		}
		_, fld, isF := loadOfField(call.Common().Args[0])
		return isF && fld == field
	}
}

// appendedValuesOfElem: v is an element of a local slice built by append: the appended values; else v itself.
func appendedValuesOfElem(v ssa.Value) []ssa.Value {
	if u, ok := v.(*ssa.UnOp); ok {
		if ia, ok := u.X.(*ssa.IndexAddr); ok {
			if vals := appendedValues(ia.X); len(vals) > 0 {
				return vals
			}
		}
	}
	return []ssa.Value{v}
}

// lenGuardedEq: the branch edges dominating ins imply len(s) == n exactly.
func lenGuardedEq(ins ssa.Instruction, s ssa.Value, n int64) bool {
	lo, hi := int64(0), int64(1<<40)
	for _, cc := range controlConds(ins.Block(), nil) {
		cond := cc.If.Cond
		edge := cc.Edge
		for {
			if u, ok := cond.(*ssa.UnOp); ok && u.Op == token.NOT {
				cond = u.X
				edge = 1 - edge
				continue
			}
			break
		}
		bo, ok := cond.(*ssa.BinOp)
		if !ok || !isCmpOp(bo.Op) {
			continue
		}
		x, y, op := bo.X, bo.Y, bo.Op
		isLenOf := func(v ssa.Value) bool {
			c, ok := v.(*ssa.Call)
			if !ok {
				return false
			}
			b, ok := c.Common().Value.(*ssa.Builtin)
			return ok && b.Name() == "len" && sameSlice(c.Common().Args[0], s)
		}
		if isLenOf(y) {
			x, y, op = y, x, swapOp(op)
		}
		if !isLenOf(x) {
			continue
		}
		k, isK := constInt(y)
		if !isK {
			continue
		}
		if edge == 1 {
			op = negateOp(op)
		}
		switch op {
		case token.EQL:
			lo, hi = maxI(lo, k), minI(hi, k)
		case token.GTR:
			lo = maxI(lo, k+1)
		case token.GEQ:
			lo = maxI(lo, k)
		case token.LSS:
			hi = minI(hi, k-1)
		case token.LEQ:
			hi = minI(hi, k)
		}
	}
	return lo == n && hi == n
}

func maxI(a, b int64) int64 {
	if a > b {
		return a
	}
	return b
}
func minI(a, b int64) int64 {
	if a < b {
		return a
	}
	return b
}

// sliceElementValues: values stored into a slice value (variadic literal, append chain, or make + indexed stores).
func sliceElementValues(v ssa.Value) []ssa.Value {
	return sliceElementValuesDepth(v, 0)
}

func sliceElementValuesDepth(v ssa.Value, depth int) []ssa.Value {
	// a slice built by a same-package helper: the elements of what the helper returns
	if cv, isCall := v.(*ssa.Call); isCall && depth < 2 {
		if h := cv.Common().StaticCallee(); h != nil && cv.Parent() != nil {
			hb := bodyOf(h)
			if hb != nil && len(hb.Blocks) > 0 && fnPkgPath(hb) != "" && fnPkgPath(hb) == fnPkgPath(cv.Parent()) {
				var out []ssa.Value
				for _, r := range Returns(hb) {
					if len(r.Results) >= 1 {
						out = append(out, sliceElementValuesDepth(ReturnResult(r, 0), depth+1)...)
					}
				}
				if len(out) > 0 {
					return out
				}
			}
		}
	}
	if ops := variadicOperands(v); len(ops) > 0 {
		return ops
	}
	if vals := appendedValues(v); len(vals) > 0 {
		return vals
	}
	var out []ssa.Value
	// a slice variable captured by a closure lives in a cell: every load of the cell is the same slice
	if ld, ok := v.(*ssa.UnOp); ok && ld.Op == token.MUL {
		if al, ok := ld.X.(*ssa.Alloc); ok && al.Referrers() != nil {
			for _, r := range *al.Referrers() {
				switch x := r.(type) {
				case *ssa.UnOp:
					if x != ld && x.Referrers() != nil {
						for _, r2 := range *x.Referrers() {
							if ia, ok := r2.(*ssa.IndexAddr); ok {
								for _, r3 := range *ia.Referrers() {
									if st, ok := r3.(*ssa.Store); ok && st.Addr == ia {
										out = append(out, st.Val)
									}
								}
							}
						}
					}
				case *ssa.Store:
					if x.Addr == ssa.Value(al) {
						if _, isLoad := x.Val.(*ssa.UnOp); !isLoad {
							out = append(out, sliceElementValues(x.Val)...)
						}
					}
				}
			}
		}
	}
	refs := v.Referrers()
	if refs == nil {
		return out
	}
	for _, r := range *refs {
		if ia, ok := r.(*ssa.IndexAddr); ok {
			for _, r2 := range *ia.Referrers() {
				if st, ok := r2.(*ssa.Store); ok && st.Addr == ia {
					out = append(out, st.Val)
				}
			}
		}
	}
	return out
}

// checkSubcacheNamespaces: SubCache.GetNamespace returns the namespace field, which NewSubCache callers set to an entity namespace constant.
func checkSubcacheNamespaces(c *Ctx) {
	w := c.W
	gn := w.Method("cache", "SubCache", "GetNamespace")
	ok := gn != nil
	if ok {
		for _, r := range Returns(gn) {
			if !hasField(r.Results[0], "namespace") {
				ok = false
			}
		}
	}
	c.Check(ok, "R15.3", "cache.SubCache.GetNamespace", "cache", "returns the namespace field", "GetNamespace does not return the sub-cache's namespace")
	n := 0
	for _, fn := range w.ModFns {
		if isInstance(fn) {
			continue
		}
		for _, cl := range CallsNamed(fn, "cache.NewSubCache") {
			n++
			args := cl.Args()
			okNs := false
			if len(args) >= 9 {
				for _, tt := range templatesOf(args[8]) {
					s := tt.String()
					if s == "bugs" || s == "identities" {
						okNs = true
					}
				}
			}
			c.Check(okNs, "R15.3", funcName(fn)+":subcache-namespace", w.InstrPos(cl.Instr), "entity namespace constant", "a sub-cache is created with a namespace that is not an entity namespace constant")
		}
	}
	if n < 2 {
		c.Violate("R15.3", "expected:NewSubCache-callers", "cache", "fewer than 2 sub-caches")
	}
}

// R14.4: a rebuild starts from nothing. R14.5: the CLI removes exactly what it was told.
func checkRebuildAndCLIRemoval(c *Ctx) {
	w := c.W
	c.Doc("R14.4", "SubCache.Build installs a fresh, empty excerpt map and clears the index unconditionally before the first excerpt is stored: excerpts loaded from a stale cache file (for instance after a removal interrupted before the cache file was rewritten) cannot survive the rebuild that the count mismatch triggers")
	c.Doc("R14.5", "the entity removed by a command is the one its argument names: the prefix handed to SubCache.Remove from package commands comes from the command line only, not from a resolution that can fall back to the selected entity")
	// R14.4
	var build *ssa.Function
	for _, fn := range w.ModFns {
		if fnPkgPath(fn) == modPath+"/cache" && fn.Parent() != nil && fn.Parent().Name() == "Build" && !isInstance(fn.Parent()) {
			if r := fn.Parent().Signature.Recv(); r != nil && strings.Contains(typeShortName(r.Type()), "SubCache") {
				build = fn
			}
		}
	}
	if build == nil {
		c.Undecided("R14.4", "anchor:SubCache.Build", "cache", "goroutine body not found")
	} else {
		build = bodyOf(build)
		c.seeFn(funcName(build))
		var reset *ssa.Store
		var firstUse ssa.Instruction
		for _, b := range build.Blocks {
			for _, ins := range b.Instrs {
				switch x := ins.(type) {
				case *ssa.Store:
					if fa, isFA := x.Addr.(*ssa.FieldAddr); isFA && fieldName(fa) == "excerpts" {
						if _, isMk := x.Val.(*ssa.MakeMap); isMk {
							reset = x
						}
					}
				case *ssa.MapUpdate:
					if _, fld, ok := loadOfField(x.Map); ok && fld == "excerpts" && firstUse == nil {
						firstUse = x
					}
				}
			}
		}
		c.Sites++
		okReset, why := false, "Build does not install a fresh excerpt map"
		if reset != nil {
			conds := controlConds(reset.Block(), nil)
			switch {
			case len(conds) > 0:
				why = "the excerpt map is reset only under the condition at " + w.InstrPos(conds[0].If) + ": excerpts already loaded from the cache file survive the rebuild, a removed entity comes back as a ghost that can be listed but neither resolved nor removed"
			case firstUse != nil && !instrDominates(reset, firstUse):
				why = "excerpts are stored before the map is reset"
			default:
				okReset = true
			}
		}
		c.Check(okReset, "R14.4", "SubCache.Build:starts-from-empty-excerpts", w.FnPos(build), "fresh excerpt map, unconditionally, before the first store", why)
		okClear := false
		for _, cl := range Calls(build) {
			if primEffect(cl.Name) == "INDEX:Clear" && len(controlConds(cl.Block(), nil)) <= 1 {
				// at most the success of GetIndex
				okClear = true
				for _, cc := range controlConds(cl.Block(), nil) {
					if bo, isBo := cc.If.Cond.(*ssa.BinOp); !isBo || !isErrorType(bo.X.Type()) {
						okClear = false
					}
				}
			}
		}
		c.Check(okClear, "R14.4", "SubCache.Build:clears-index", w.FnPos(build), "the index is cleared before it is refilled", "Build does not clear the search index unconditionally before refilling it")
	}
	// R14.5
	n := 0
	var selRoots []*ssa.Function
	for _, fn := range w.ModFns {
		if fnPkgPath(fn) == modPath+"/commands/select" && (fn.Name() == "Resolve" || fn.Name() == "selected") {
			selRoots = append(selRoots, fn)
		}
	}
	reachesSelection := func(f *ssa.Function) bool {
		if f == nil {
			return false
		}
		reach := w.Reach([]*ssa.Function{f}, nil)
		for r := range reach {
			if fnPkgPath(r) == modPath+"/commands/select" && (strings.HasPrefix(r.Name(), "Resolve") || r.Name() == "selected") {
				return true
			}
			if o := r.Origin(); o != nil && fnPkgPath(o) == modPath+"/commands/select" {
				return true
			}
		}
		return false
	}
	_ = selRoots
	for _, fn := range w.ModFns {
		if isInstance(fn) || !strings.HasPrefix(fnPkgPath(fn), modPath+"/commands") || w.isTestHelper(fn) {
			continue
		}
		for _, cl := range Calls(fn) {
			if !strings.HasSuffix(cl.Name, "SubCache.Remove") {
				continue
			}
			n++
			c.Sites++
			c.seeFn(funcName(fn))
			args := cl.Args()
			bad := ""
			if len(args) > 0 {
				for _, o := range deepCallOrigins(args[len(args)-1], 0) {
					cv, isCall := o.Val.(*ssa.Call)
					if !isCall {
						continue
					}
					callees := w.SiteCallees(cv)
					if f := cv.Common().StaticCallee(); f != nil {
						callees = append(callees, f)
					}
					for _, callee := range callees {
						if reachesSelection(callee) {
							bad = "the prefix removed comes from " + o.Name + ", which falls back to the selected entity when the argument matches nothing: repeating 'rm X' (or a typo) removes the selected, unrelated entity and reports success"
						}
					}
				}
			}
			c.Check(bad == "", "R14.5", funcName(fn)+"→Remove:names-its-target", w.InstrPos(cl.Instr), "the prefix removed is the command-line argument", bad)
		}
	}
	if n == 0 {
		c.Violate("R14.5", "expected:cli-remove-sites", "commands", "no call of SubCache.Remove from the commands found (reference: bug rm)")
	}
}

// deepCallOrigins: the calls a value comes from, following the receivers of method calls
// (b.Id().String() comes from String, from Id, and from whatever produced b).
func deepCallOrigins(v ssa.Value, depth int) []Origin {
	var out []Origin
	if depth > 5 {
		return out
	}
	for _, o := range origins(v) {
		if o.Kind != "call" {
			continue
		}
		out = append(out, o)
		cv, isCall := o.Val.(*ssa.Call)
		if !isCall {
			continue
		}
		var recv ssa.Value
		if cv.Common().IsInvoke() {
			recv = cv.Common().Value
		} else if f := cv.Common().StaticCallee(); f != nil && f.Signature.Recv() != nil && len(cv.Common().Args) > 0 {
			recv = cv.Common().Args[0]
		}
		for recv != nil {
			// the receiver may be an embedded field of the value that matters
			if fa, isFA := recv.(*ssa.FieldAddr); isFA {
				recv = fa.X
				continue
			}
			if fl, isF := recv.(*ssa.Field); isF {
				recv = fl.X
				continue
			}
			break
		}
		if recv != nil {
			out = append(out, deepCallOrigins(recv, depth+1)...)
		}
	}
	return out
}

// R15.10: a ref is only ever set to the result of a successful write or resolution.
func checkRefTargets(c *Ctx) {
	w := c.W
	c.Doc("R15.10", "the hash handed to UpdateRef outside package repository is the result of a call (pack/commit write, ResolveRef) and the UpdateRef is dominated by the success edge of that call: a failed write can never leave a ref pointing at the zero hash or at a half-written object")
	n := 0
	for _, fn := range w.ModFns {
		if isInstance(fn) || fnPkgPath(fn) == modPath+"/repository" || w.isTestHelper(fn) {
			continue
		}
		for _, cl := range Calls(fn) {
			if primEffect(cl.Name) != "REF:UpdateRef" {
				continue
			}
			args := cl.Args()
			if len(args) < 2 {
				continue
			}
			n++
			c.Sites++
			c.seeFn(funcName(fn))
			ok, why := true, ""
			nCalls, nOther := 0, 0
			for _, o := range origins(args[1]) {
				switch o.Kind {
				case "call":
					nCalls++
					cv, isCall := o.Val.(*ssa.Call)
					if !isCall || !errResultOfCall(cv) {
						continue
					}
					// the call's error is tested, and its failure never reaches this ref update
					fbs := failureBlocksThroughPhi(cv)
					if len(fbs) == 0 {
						ok, why = false, "the hash comes from "+o.Name+" at "+w.InstrPos(cv)+" whose error is not checked before the ref is set: when that call fails the ref is set to the zero hash — 'git fsck' reports an invalid pointer and the previous head becomes a dangling commit"
						continue
					}
					for _, fb := range fbs {
						if found, _, _ := pathSearch(fn, nil, fb, func(i ssa.Instruction) bool { return i == cl.Instr }, nil, false); found {
							ok, why = false, "after "+o.Name+" failed at "+w.InstrPos(cv)+" the ref update is still reachable: the ref can be set to a hash that was never written"
						}
					}
				case "const":
					// initial value of a loop-carried variable; alone it would be a constant ref target
				default:
					nOther++
				}
			}
			if nCalls == 0 && nOther == 0 {
				ok, why = false, "a constant hash is written to a ref"
			}
			if nCalls == 0 && nOther > 0 && ok {
				// parameter or field: the caller's obligation
				c.Info("R15.10", funcName(fn)+":UpdateRef#"+fmt.Sprint(n), w.InstrPos(cl.Instr), "hash handed in by the caller")
				continue
			}
			c.Check(ok, "R15.10", funcName(fn)+":UpdateRef@"+refShape(cl), w.InstrPos(cl.Instr), "ref set to the result of a successful call", why)
		}
	}
	if n < 4 {
		c.Violate("R15.10", "expected:UpdateRef-sites", "module", fmt.Sprintf("%d UpdateRef sites outside package repository (reference 6)", n))
	}
}

func errResultOfCall(cv *ssa.Call) bool {
	sig := cv.Common().Signature()
	if sig == nil {
		return false
	}
	for i := 0; i < sig.Results().Len(); i++ {
		if isErrorType(sig.Results().At(i).Type()) {
			return true
		}
	}
	return false
}

// refShape: a stable discriminator of an UpdateRef site: the template of its ref argument
func refShape(cl *Call) string {
	args := cl.Args()
	if len(args) == 0 {
		return "?"
	}
	var shapes []string
	for _, t := range templatesOf(args[0]) {
		shapes = append(shapes, t.String())
	}
	sort.Strings(shapes)
	s := strings.Join(shapes, "|")
	if s == "" {
		s = "?"
	}
	if len(s) > 60 {
		s = s[:60]
	}
	return s + "←" + originNames(args[1])
}

func originNames(v ssa.Value) string {
	var ns []string
	for _, o := range origins(v) {
		if o.Kind == "call" {
			_, m := lastDot(o.Name)
			ns = append(ns, m)
		} else {
			ns = append(ns, o.Kind)
		}
	}
	sort.Strings(ns)
	return strings.Join(ns, ",")
}

// refTemplatesThroughCallers: like refTemplates, but a ref name that is (an element of) a parameter of
// an unexported function is replaced by what the function's callers in the module pass for it
// (depth 2): a loop over refs moved into a helper keeps the shape of the names it is given.
func refTemplatesThroughCallers(w *World, fn *ssa.Function, arg ssa.Value, depth int) []Template {
	ts := refTemplates(fn, arg)
	if depth >= 2 {
		return ts
	}
	var out []Template
	for _, t := range ts {
		pname := ""
		elemMode := false
		if len(t) == 1 && strings.HasPrefix(t[0].Hole, "param:") {
			pname = strings.TrimPrefix(t[0].Hole, "param:")
		}
		if len(t) == 1 && strings.HasPrefix(t[0].Hole, "elem-of:param:") {
			pname = strings.TrimPrefix(t[0].Hole, "elem-of:param:")
			elemMode = true
		}
		root := fn
		for root.Parent() != nil {
			root = root.Parent()
		}
		if pname == "" || root != fn || (fn.Object() != nil && fn.Object().Exported()) {
			out = append(out, t)
			continue
		}
		pidx := -1
		for i, pp := range fn.Params {
			if pp.Name() == pname {
				pidx = i
			}
		}
		var subst []Template
		for _, g := range w.ModFns {
			if isInstance(g) || g == fn || fnPkgPath(g) != fnPkgPath(fn) {
				continue
			}
			for _, cl := range Calls(g) {
				if cl.Fn != fn || pidx < 0 || pidx >= len(cl.Instr.Common().Args) {
					continue
				}
				a := cl.Instr.Common().Args[pidx]
				if elemMode {
					// the elements of the slice handed over
					vals := appendedValues(a)
					if len(vals) == 0 {
						vals = sliceElementValues(a)
					}
					for _, ev := range vals {
						subst = append(subst, refTemplatesThroughCallers(w, g, ev, depth+1)...)
					}
					continue
				}
				subst = append(subst, refTemplatesThroughCallers(w, g, a, depth+1)...)
			}
		}
		if len(subst) == 0 {
			out = append(out, t)
		} else {
			out = append(out, subst...)
		}
	}
	return dedupT(out)
}

// viaHelper: i is a call of a same-package helper (one level) whose body contains an instruction satisfying
// pred — unconditionally within its loop when uncond is set. Extracting a block into a helper keeps the step.
func viaHelper(w *World, i ssa.Instruction, pred func(ssa.Instruction) bool, uncond bool) bool {
	ci, ok := i.(ssa.CallInstruction)
	if !ok || i.Parent() == nil {
		return false
	}
	h := ci.Common().StaticCallee()
	if h == nil {
		return false
	}
	hb := bodyOf(h)
	if hb == nil || len(hb.Blocks) == 0 || fnPkgPath(hb) == "" || fnPkgPath(hb) != fnPkgPath(bodyOf(i.Parent())) {
		return false
	}
	for _, b := range hb.Blocks {
		for _, ins := range b.Instrs {
			if pred(ins) && (!uncond || unconditionalInLoop(w, ins) == "") {
				return true
			}
		}
	}
	return false
}

// checkForgetsAfterRemoval: the cache forgets an entity only once its references are gone: a removal that
// failed half-way must leave the entity addressable (and removable again) in this session. Shared with C13
// (every prefix of the id of an existing entity resolves).
func checkForgetsAfterRemoval(c *Ctx, rule string) {
	w := c.W
	isCall := func(pred func(n string, cl *Call) bool) func(ssa.Instruction) bool {
		return func(i ssa.Instruction) bool {
			ci, ok := i.(ssa.CallInstruction)
			if !ok {
				return false
			}
			n, _ := callName(ci.Common())
			return pred(n, &Call{Instr: ci})
		}
	}
	removalP := func(i ssa.Instruction) bool {
		ci, ok := i.(ssa.CallInstruction)
		if !ok {
			return false
		}
		n, _ := callName(ci.Common())
		return n == "cache.Actions.Remove" || n == "cache.Actions.RemoveAll" || hasField(ci.Common().Value, "Remove") || hasField(ci.Common().Value, "RemoveAll")
	}
	forget := map[string]func(ssa.Instruction) bool{
		"delete-cached":   deleteOf("cached"),
		"delete-excerpts": deleteOf("excerpts"),
		"lru-remove": isCall(func(n string, cl *Call) bool {
			return strings.HasSuffix(n, ".Remove") && cl.Recv() != nil && strings.Contains(valueKey(cl.Recv()), ".lru")
		}),
		"index-removal": isCall(func(n string, cl *Call) bool { return n == "repository.Index.Remove" || n == "repository.Index.Clear" }),
	}
	for _, m := range []string{"Remove", "RemoveAll"} {
		fn := w.Method("cache", "SubCache", m)
		if fn == nil {
			c.Undecided(rule, "anchor:SubCache."+m, "cache", "not found")
			continue
		}
		c.seeFn(funcName(fn))
		var removal *ssa.Call
		for _, cl := range Calls(fn) {
			if removalP(cl.Instr) {
				removal, _ = cl.Instr.(*ssa.Call)
			}
		}
		if removal == nil {
			c.Undecided(rule, "SubCache."+m+":forgets-only-after-the-refs-are-gone", w.FnPos(fn), "no entity-level removal call found")
			continue
		}
		early, n := "", 0
		for _, b := range fn.Blocks {
			for _, ins := range b.Instrs {
				for _, k := range []string{"delete-cached", "delete-excerpts", "lru-remove", "index-removal"} {
					if forget[k](ins) || viaHelper(w, ins, forget[k], false) {
						c.Sites++
						n++
						if !dominatedBySuccess(removal, ins) {
							early = k + " at " + w.InstrPos(ins)
						}
					}
				}
			}
		}
		c.Check(early == "" && n >= 3, rule, "SubCache."+m+":forgets-only-after-the-refs-are-gone", w.FnPos(fn), fmt.Sprintf("%d in-memory and index deletions, each dominated by the success of the entity removal", n),
			"SubCache."+m+" performs "+early+" before the removal of the references has succeeded: when that removal fails the entity still exists in git (and on the remotes' tracking refs) but the session no longer knows it — every prefix of its id answers not-found and it cannot be removed again")
	}
}

// lenCmpTaken: when block b ends in a comparison of len(x) (isArg(x)) with a constant, returns the
// predicate "successor succ is taken when len(x) == n".
func lenCmpTaken(b *ssa.BasicBlock, succ int, isArg func(ssa.Value) bool) (func(n int64) bool, bool) {
	if len(b.Instrs) == 0 {
		return nil, false
	}
	iff, isIf := b.Instrs[len(b.Instrs)-1].(*ssa.If)
	if !isIf {
		return nil, false
	}
	bo, isBo := iff.Cond.(*ssa.BinOp)
	if !isBo || !isCmpOp(bo.Op) {
		return nil, false
	}
	op, lenV, kV := bo.Op, bo.X, bo.Y
	if _, isK := constInt(kV); !isK {
		op, lenV, kV = swapOp(bo.Op), bo.Y, bo.X
	}
	k, isK := constInt(kV)
	lc, isLen := lenV.(*ssa.Call)
	if !isK || !isLen {
		return nil, false
	}
	if bi, isB := lc.Common().Value.(*ssa.Builtin); !isB || bi.Name() != "len" || !isArg(lc.Common().Args[0]) {
		return nil, false
	}
	return func(n int64) bool {
		t := false
		switch op {
		case token.GTR:
			t = n > k
		case token.GEQ:
			t = n >= k
		case token.LSS:
			t = n < k
		case token.LEQ:
			t = n <= k
		case token.EQL:
			t = n == k
		case token.NEQ:
			t = n != k
		}
		if succ == 0 {
			return t
		}
		return !t
	}, true
}

// R14.6: "every configured remote". The removal (and the clean-up of tracking refs) ranges over the keys
// of GetRemotes(): a configured remote that GetRemotes leaves out keeps its tracking refs, and a merge
// without a new fetch brings the removed entity back.
func checkGetRemotesComplete(c *Ctx) {
	w := c.W
	c.Doc("R14.6", "GoGitRepo.GetRemotes reports every remote of the configuration that has a URL: the entry is added inside a range over cfg.Remotes, keyed by the remote's name, under no other condition than 'at least one URL'; no push path fetches (GoGitRepo.PushRefs and the entity-level Push reach no fetch): tracking refs re-appear only through an explicit fetch")
	fn := w.Method("repository", "GoGitRepo", "GetRemotes")
	if fn == nil {
		c.Undecided("R14.6", "anchor:GoGitRepo.GetRemotes", "repository", "not found")
		return
	}
	c.seeFn(funcName(fn))
	n := 0
	for _, b := range fn.Blocks {
		for _, ins := range b.Instrs {
			mu, ok := ins.(*ssa.MapUpdate)
			if !ok {
				continue
			}
			n++
			c.Sites++
			hdr := enclosingLoopHeader(b)
			bad := ""
			if hdr == nil {
				bad = "the entry is not added inside a loop over the configured remotes"
			} else {
				// the key is the range key of a map field Remotes
				okKey := false
				if ex, isEx := mu.Key.(*ssa.Extract); isEx && ex.Index == 1 {
					if nx, isNx := ex.Tuple.(*ssa.Next); isNx {
						if rg, isRg := nx.Iter.(*ssa.Range); isRg && hasField(rg.X, "Remotes") {
							okKey = true
						}
					}
				}
				if !okKey {
					bad = "the entry is not keyed by the name of the remote being visited (range key of cfg.Remotes)"
				}
				for _, cc := range controlConds(b, hdr) {
					if !inLoop(cc.If.Block(), hdr) || cc.If.Block() == hdr {
						continue
					}
					taken, isLen := lenCmpTaken(cc.If.Block(), cc.Edge, func(v ssa.Value) bool { return hasField(v, "URLs") })
					if !isLen {
						bad = "the entry is added under a condition that is not a test of the number of URLs (" + w.InstrPos(cc.If) + ")"
						continue
					}
					if !(taken(1) && taken(2) && taken(3) && taken(1<<20)) {
						bad = "a remote is left out although it has a URL (condition at " + w.InstrPos(cc.If) + ")"
					}
				}
			}
			c.Check(bad == "", "R14.6", "GoGitRepo.GetRemotes:every-remote-with-a-url", w.InstrPos(mu), "every remote of cfg.Remotes with at least one URL is reported under its name",
				bad+": the removal of an entity does not visit that remote, its tracking refs stay and a merge without a new fetch resurrects the entity")
		}
	}
	c.Check(n >= 1, "R14.6", "GoGitRepo.GetRemotes:entry-site-found", w.FnPos(fn), fmt.Sprintf("%d map insertion(s)", n), "no insertion into the result map found")

	// no push path fetches
	isFetch := func(name string) bool {
		return name == "repository.GoGitRepo.FetchRefs" || strings.HasSuffix(name, "git.Repository.Fetch") || strings.HasSuffix(name, "git.Remote.Fetch") || strings.HasSuffix(name, "git.Repository.FetchContext") || strings.HasSuffix(name, "git.Remote.FetchContext") || strings.HasSuffix(name, ".FetchRefs")
	}
	var pushFns []*ssa.Function
	if f := w.Method("repository", "GoGitRepo", "PushRefs"); f != nil {
		pushFns = append(pushFns, f)
	}
	if f := w.Func("entity/dag", "Push"); f != nil {
		pushFns = append(pushFns, f)
	}
	if f := w.Func("entities/identity", "Push"); f != nil {
		pushFns = append(pushFns, f)
	}
	if f := w.Method("cache", "RepoCache", "Push"); f != nil {
		pushFns = append(pushFns, f)
	}
	c.Check(len(pushFns) == 4, "R14.6", "push:anchors", "module", "PushRefs, dag.Push, identity.Push, RepoCache.Push", fmt.Sprintf("only %d of the 4 push functions found", len(pushFns)))
	for _, f := range pushFns {
		c.seeFn(funcName(f))
		bad := ""
		for _, cl := range CallsDeep(f) {
			c.Sites++
			if isFetch(cl.Name) || callReaches(cl.Instr, isFetch, 2) {
				bad = cl.Name + " at " + w.InstrPos(cl.Instr)
			}
		}
		c.Check(bad == "", "R14.6", funcName(f)+":push-does-not-fetch", w.FnPos(f), "no fetch reachable from the push",
			"the push reaches a fetch ("+bad+"): the tracking refs of entities removed locally are re-created without the user having fetched, and the next merge brings the removed entities back")
	}
}

// R15.3 (options): what the fetch and the push may do besides moving the refs named by the refspecs.
func checkFetchPushOptions(c *Ctx) {
	w := c.W
	// option fields that widen the effect of the transfer beyond the refspecs' additions/updates
	widening := map[string]string{
		"Prune":      "deletes every ref of the destination pattern that the other side does not have: refs/remotes/<remote>/bugs/* is shared with the tracking branches of host branches named bugs/…",
		"Force":      "overwrites non-fast-forward refs for every refspec",
		"FollowTags": "pushes annotated tags of the host repository",
		"Atomic":     "",
	}
	n := 0
	for _, m := range []string{"FetchRefs", "PushRefs"} {
		fn := w.Method("repository", "GoGitRepo", m)
		if fn == nil {
			continue
		}
		set := map[string]bool{}
		bad := ""
		for _, b := range fn.Blocks {
			for _, ins := range b.Instrs {
				st, isSt := ins.(*ssa.Store)
				if !isSt {
					continue
				}
				fa, isFA := st.Addr.(*ssa.FieldAddr)
				if !isFA {
					continue
				}
				tn := typeShortName(fa.X.Type())
				if !strings.HasSuffix(tn, "FetchOptions") && !strings.HasSuffix(tn, "PushOptions") {
					continue
				}
				n++
				c.Sites++
				f := fieldName(fa)
				set[f] = true
				if why, isW := widening[f]; isW && why != "" {
					if k, isK := st.Val.(*ssa.Const); !isK || k.Value == nil || k.Value.String() != "false" {
						bad = tn + "." + f + " is set at " + w.InstrPos(st) + ": it " + why
					}
				}
			}
		}
		var fields []string
		for f := range set {
			fields = append(fields, f)
		}
		sort.Strings(fields)
		c.Check(bad == "", "R15.3", "GoGitRepo."+m+":options-do-not-widen", w.FnPos(fn), "options set: "+strings.Join(fields, ", ")+"; no Prune / Force / FollowTags", bad)
	}
	c.Check(n >= 6, "R15.3", "expected:transfer-option-stores", "repository", fmt.Sprintf("%d option fields examined", n), fmt.Sprintf("only %d fetch/push option stores found (reference 7)", n))
}

// R15.6 (modes): every entry of a stored tree gets the mode of its own object type.
func checkTreeModes(c *Ctx) {
	w := c.W
	fn := w.Method("repository", "GoGitRepo", "StoreTree")
	if fn == nil {
		return // reported by checkStoreTree
	}
	n := 0
	for _, b := range fn.Blocks {
		for _, ins := range b.Instrs {
			st, isSt := ins.(*ssa.Store)
			if !isSt {
				continue
			}
			fa, isFA := st.Addr.(*ssa.FieldAddr)
			if !isFA || fieldName(fa) != "Mode" || !strings.HasSuffix(typeShortName(fa.X.Type()), "object.TreeEntry") {
				continue
			}
			n++
			c.Sites++
			hdr := enclosingLoopHeader(b)
			key := "GoGitRepo.StoreTree:mode-of-each-entry"
			// interpretable form: constants selected by tests made in this iteration
			bad, interpretable := "", true
			seen := map[ssa.Value]bool{}
			var walk func(v ssa.Value)
			walk = func(v ssa.Value) {
				if seen[v] {
					return
				}
				seen[v] = true
				switch x := v.(type) {
				case *ssa.Const:
				case *ssa.Phi:
					if hdr != nil && x.Block() == hdr {
						bad = "the mode is carried over from the previous entry (a variable initialised before the loop): once a sub-tree was seen, every following blob is recorded with the directory mode, and git refuses the tree ('bad tree object')"
						return
					}
					if hdr != nil && !inLoop(x.Block(), hdr) {
						interpretable = false
						return
					}
					for _, e := range x.Edges {
						walk(e)
					}
				default:
					interpretable = false
				}
			}
			walk(st.Val)
			if bad != "" {
				c.Violate("R15.6", key, w.InstrPos(st), bad)
			} else if !interpretable {
				c.Info("R15.6", key, w.InstrPos(st), "the mode is not a per-iteration choice between constants: not interpreted")
			} else {
				// the directory mode exactly for ObjectType == Tree
				dirOK := false
				if ph, isPhi := st.Val.(*ssa.Phi); isPhi {
					for i, e := range ph.Edges {
						k, isK := e.(*ssa.Const)
						if !isK || k.Value == nil {
							continue
						}
						if v, okV := constInt(k); okV && v == 0o040000 {
							pb := ph.Block().Preds[i]
							for _, cc := range controlConds(pb, hdr) {
								if bo, isBo := cc.If.Cond.(*ssa.BinOp); isBo && bo.Op == token.EQL && cc.Edge == 0 && (hasField(bo.X, "ObjectType") || hasField(bo.Y, "ObjectType")) {
									dirOK = true
								}
							}
						}
					}
				}
				c.Check(dirOK, "R15.6", key, w.InstrPos(st), "Regular by default, Dir on the ObjectType == Tree edge, decided per entry", "the directory mode is not selected by the entry's own ObjectType == Tree test")
			}
		}
	}
	c.Check(n == 1, "R15.6", "GoGitRepo.StoreTree:mode-store-found", w.FnPos(fn), "one store of TreeEntry.Mode", fmt.Sprintf("%d stores of TreeEntry.Mode found (one expected)", n))
}

// R15.11: directories git-bug derives its own storage from are used only when they could be determined.
func checkRootDirs(c *Ctx) {
	w := c.W
	c.Doc("R15.11", "the result of os.UserConfigDir / UserHomeDir / UserCacheDir / Getwd / filepath.Abs / EvalSymlinks in the packages of the git-bug binary is used only when its error was tested or returned (an undetermined directory is the empty string: paths built from it are relative to the current directory, i.e. inside the host work tree); the keyring's FileDir is rooted at os.UserConfigDir()")
	roots := map[string]bool{"os.UserConfigDir": true, "os.UserHomeDir": true, "os.UserCacheDir": true, "os.Getwd": true, "path/filepath.Abs": true, "path/filepath.EvalSymlinks": true}
	inBinary := func(p string) bool {
		for _, pre := range []string{"repository", "commands", "cache", "bridge", "entity", "entities", "api", "termui", "util", "query"} {
			if p == modPath+"/"+pre || strings.HasPrefix(p, modPath+"/"+pre+"/") {
				return true
			}
		}
		return false
	}
	n := 0
	for _, fn := range w.ModFns {
		if isInstance(fn) || !inBinary(fnPkgPath(fn)) {
			continue
		}
		for _, cl := range Calls(fn) {
			if !roots[cl.Name] {
				continue
			}
			cv, isCall := cl.Instr.(*ssa.Call)
			if !isCall {
				continue
			}
			n++
			c.Sites++
			c.seeFn(funcName(fn))
			tested := false
			for _, ev := range resultValues(cv, 1) {
				nn, isn := nilTests(ev)
				if len(nn)+len(isn) > 0 {
					tested = true
				}
				for _, r := range *ev.Referrers() {
					if _, isRet := r.(*ssa.Return); isRet {
						tested = true
					}
				}
			}
			used := false
			for _, pv := range resultValues(cv, 0) {
				if len(*pv.Referrers()) > 0 {
					used = true
				}
			}
			c.Check(tested || !used, "R15.11", funcName(fn)+":"+cl.Name, w.InstrPos(cv), "the directory is used only after its error was tested",
				"the directory answered by "+cl.Name+" is used although its error is dropped: when it cannot be determined the path is empty and what is joined to it lands relative to the current directory — inside the user's work tree")
		}
	}
	c.Check(n >= 3, "R15.11", "expected:root-dir-sites", "module", fmt.Sprintf("%d sites", n), fmt.Sprintf("only %d root-directory calls found (reference 3)", n))
	// the keyring
	if fn := w.Func("repository", "defaultKeyring"); fn != nil {
		c.seeFn(funcName(fn))
		ok, found := false, false
		for _, b := range fn.Blocks {
			for _, ins := range b.Instrs {
				st, isSt := ins.(*ssa.Store)
				if !isSt {
					continue
				}
				fa, isFA := st.Addr.(*ssa.FieldAddr)
				if !isFA || fieldName(fa) != "FileDir" {
					continue
				}
				found = true
				c.Sites++
				if jc, isCall := st.Val.(*ssa.Call); isCall {
					if nm, _ := callName(jc.Common()); nm == "path/filepath.Join" {
						for _, ev := range sliceElementValues(jc.Common().Args[0]) {
							if cv := hasOriginCall(ev, "os.UserConfigDir", 0); cv != nil && dominatedBySuccess(cv, st) {
								ok = true
							}
							break
						}
					}
				}
			}
		}
		c.Check(found && ok, "R15.11", "repository.defaultKeyring:rooted-at-the-user-config-dir", w.FnPos(fn), "FileDir = Join(<os.UserConfigDir(), on its success edge>, …)", "the keyring directory is not rooted at a successfully determined os.UserConfigDir()")
	} else {
		c.Undecided("R15.11", "anchor:repository.defaultKeyring", "repository", "not found")
	}
}

// configRemovalUnskippable: in fn, the removal of the git-bug configuration section (cfg) may be skipped on the
// way to a target only when the section has no keys (a len(ReadAll("git-bug")) test), or on an error exit.
func configRemovalUnskippable(w *World, fn *ssa.Function, cfg *Call, targets []ssa.Instruction) (bool, string) {
	var guard *ssa.If
	for _, cc := range controlConds(cfg.Block(), nil) {
		if e := errEdge(cc.If, defaultFail); e >= 0 && e != cc.Edge {
			continue
		}
		isLenOfReadAll := false
		if bo, isBo := cc.If.Cond.(*ssa.BinOp); isBo {
			for _, side := range []ssa.Value{bo.X, bo.Y} {
				if lc, isCall := side.(*ssa.Call); isCall {
					if bi, isB := lc.Common().Value.(*ssa.Builtin); isB && bi.Name() == "len" {
						if ra := hasOriginCall(lc.Common().Args[0], "repository.ConfigRead.ReadAll", 0); ra != nil {
							if s, ok := constString(ra.Common().Args[0]); ok && s == "git-bug" {
								isLenOfReadAll = true
							}
						}
					}
				}
			}
		}
		if isLenOfReadAll {
			guard = cc.If
			continue
		}
		return false, "the configuration removal is conditional on " + w.InstrPos(cc.If)
	}
	if len(targets) == 0 {
		return false, "no normal exit after the configuration removal"
	}
	from := cfg.Block()
	if guard != nil {
		// on the "has keys" edge the removal cannot be bypassed on the way to a target
		for _, sb := range guard.Block().Succs {
			if sb.Dominates(cfg.Block()) {
				from = sb
			}
		}
		for _, t := range targets {
			if !guard.Block().Dominates(t.Block()) {
				return false, "the backend can be closed without the configuration test having run"
			}
		}
	} else {
		for _, t := range targets {
			if !dominatedBySuccess(cfg.Value(), t) {
				return false, "the backend is closed without the configuration section having been removed"
			}
		}
	}
	for _, t := range targets {
		t := t
		if bad, p, _ := pathSearch(fn, nil, from, func(i ssa.Instruction) bool { return i == t }, func(i ssa.Instruction) bool { return i == cfg.Instr }, false); bad && guard != nil {
			return false, "with configuration keys present, Close is reachable without removing them: " + blocksString(w, p)
		}
	}
	return true, ""
}

// R14.7: clearing the search index clears all of it. SubCache.RemoveAll (wipe) and SubCache.Build rely on
// Index.Clear to leave no document of a removed entity behind.
func checkIndexClearComplete(c *Ctx) {
	w := c.W
	c.Doc("R14.7", "bleveIndex.Clear empties the index whatever its size: it closes the index, removes its directory and creates a new one, each step on the success edge of the previous one; a Clear written as search-and-delete must size the search by the document count (bleve answers 10 hits by default)")
	fn := w.Method("repository", "bleveIndex", "Clear")
	if fn == nil {
		c.Undecided("R14.7", "anchor:bleveIndex.Clear", "repository", "not found")
		return
	}
	c.seeFn(funcName(fn))
	pos := w.FnPos(fn)
	var closeC, rm, mk, search *Call
	for _, cl := range Calls(fn) {
		c.Sites++
		switch {
		case strings.HasSuffix(cl.Name, "bleve.Index.Close") || strings.HasSuffix(cl.Name, "Index.Close"):
			closeC = cl
		case cl.Name == "os.RemoveAll":
			rm = cl
		case cl.Name == "repository.bleveIndex.makeIndex":
			mk = cl
		case strings.HasSuffix(cl.Name, "Index.Search") || strings.HasSuffix(cl.Name, "Index.SearchInContext"):
			search = cl
		}
	}
	switch {
	case closeC != nil && rm != nil && mk != nil:
		okPath := hasField(rm.Args()[0], "path")
		ok := okPath && dominatedBySuccess(closeC.Value(), rm.Instr) && dominatedBySuccess(rm.Value(), mk.Instr)
		okRet := false
		for _, r := range Returns(fn) {
			if returnsValue(r, mk.Value()) || dominatedBySuccess(mk.Value(), r) {
				okRet = true
			}
			if len(r.Results) == 1 {
				for _, o := range origins(ReturnResult(r, 0)) {
					if o.Val == mk.Value() {
						okRet = true
					}
				}
			}
		}
		c.Check(ok && okRet, "R14.7", "bleveIndex.Clear:whole-index", pos, "close → remove the index directory → new index, each on success of the previous", "Clear does not remove the index directory (b.path) between closing the index and creating the new one, or reports success before the new index exists")
	case closeC != nil && mk != nil && rm == nil && search == nil:
		c.Check(false, "R14.7", "bleveIndex.Clear:whole-index", pos, "", "Clear closes the index and opens it again without removing its directory in between: every document is still there, so removed entities stay searchable after wipe and survive a rebuild")
	case search != nil:
		sized := false
		for _, b := range fn.Blocks {
			for _, ins := range b.Instrs {
				if st, ok := ins.(*ssa.Store); ok {
					if fa, isFA := st.Addr.(*ssa.FieldAddr); isFA && fieldName(fa) == "Size" {
						if hasOriginCall(st.Val, "github.com/blevesearch/bleve.Index.DocCount", -1) != nil || strings.Contains(originNames(st.Val), "DocCount") {
							sized = true
						}
					}
				}
			}
		}
		if enclosingLoopHeader(search.Block()) != nil {
			sized = true // repeated until nothing is left
		}
		c.Check(sized, "R14.7", "bleveIndex.Clear:whole-index", w.InstrPos(search.Instr), "the search is sized by the document count", "Clear deletes the hits of one search whose size is not the document count: bleve answers 10 hits by default, so an index with more documents keeps the others — removed entities stay searchable after wipe and survive a rebuild")
	default:
		c.Info("R14.7", "bleveIndex.Clear:whole-index", pos, "Clear is neither remove-and-recreate nor search-and-delete: not interpreted")
	}
}

// checkRemovalSteps (R14.2): SubCache.Remove / RemoveAll perform every step of a removal on every success
// path. Shared with C11: a step left out (the LRU entry, the excerpt) makes the cache disagree with a rebuild.
func checkRemovalSteps(c *Ctx) {
	w := c.W
	c.Doc("R14.2", "SubCache.Remove/RemoveAll: entity removal, delete from cached/excerpts, lru.Remove, index removal, write() on every success path")
	// R14.2
	for _, m := range []string{"Remove", "RemoveAll"} {
		fn := w.Method("cache", "SubCache", m)
		if fn == nil {
			c.Undecided("R14.2", "anchor:SubCache."+m, "cache", "not found")
			continue
		}
		c.seeFn(funcName(fn))
		need := map[string]func(ssa.Instruction) bool{
			"entity-removal": func(i ssa.Instruction) bool {
				ci, ok := i.(ssa.CallInstruction)
				if !ok {
					return false
				}
				n, _ := callName(ci.Common())
				return n == "cache.Actions.Remove" || n == "cache.Actions.RemoveAll" || hasField(ci.Common().Value, "Remove") || hasField(ci.Common().Value, "RemoveAll")
			},
			"delete-cached":   deleteOf("cached"),
			"delete-excerpts": deleteOf("excerpts"),
			"lru-remove": func(i ssa.Instruction) bool {
				ci, ok := i.(ssa.CallInstruction)
				if !ok {
					return false
				}
				n, _ := callName(ci.Common())
				cl := &Call{Instr: ci}
				return strings.HasSuffix(n, ".Remove") && cl.Recv() != nil && strings.Contains(valueKey(cl.Recv()), ".lru")
			},
			"index-removal": func(i ssa.Instruction) bool {
				ci, ok := i.(ssa.CallInstruction)
				if !ok {
					return false
				}
				n, _ := callName(ci.Common())
				return n == "repository.Index.Remove" || n == "repository.Index.Clear"
			},
			"write": func(i ssa.Instruction) bool {
				ci, ok := i.(ssa.CallInstruction)
				if !ok {
					return false
				}
				n, _ := callName(ci.Common())
				return n == "cache.SubCache.write"
			},
		}
		var names []string
		for k := range need {
			names = append(names, k)
		}
		sort.Strings(names)
		for _, k := range names {
			c.Sites++
			pred := need[k]
			if k == "delete-cached" || k == "delete-excerpts" || k == "lru-remove" {
				// inside loops for RemoveAll: existence on all paths is checked as "no success path avoids the loop header of a loop containing it"
				found := false
				for _, b := range fn.Blocks {
					for _, ins := range b.Instrs {
						if pred(ins) && unconditionalInLoop(w, ins) == "" {
							found = true
						}
						if viaHelper(w, ins, pred, true) {
							if bad, _, _ := pathSearch(fn, nil, nil, isSuccessReturn, func(i2 ssa.Instruction) bool { return i2 == ins }, false); !bad {
								found = true
							}
						}
					}
				}
				if m == "RemoveAll" {
					c.Check(found, "R14.2", "SubCache."+m+":"+k, w.FnPos(fn), "present and unconditional", "SubCache."+m+" does not perform "+k+" for every entity")
					continue
				}
			}
			bad, p, _ := pathSearch(fn, nil, nil, isSuccessReturn, func(i2 ssa.Instruction) bool { return pred(i2) || viaHelper(w, i2, pred, false) }, false)
			c.Check(!bad, "R14.2", "SubCache."+m+":"+k, w.FnPos(fn), "on every success path", "SubCache."+m+" can succeed without "+k+": "+blocksString(w, p))
		}
	}
}

// R15.12: the author and committer lines of the commits git-bug writes are well formed whatever the host
// repository's configuration says. go-git writes Name and Email verbatim; git refuses a commit whose ident
// contains '<', '>' or a newline outside the delimiters.
func checkCommitIdentsClean(c *Ctx) {
	w := c.W
	c.Doc("R15.12", "in package repository every value stored into the Name or Email of an object.Signature is a constant or the result of a function whose rune mapping, tabulated from its SSA, drops '<', '>', newline and NUL and keeps ordinary characters; a configuration value never reaches an ident verbatim")
	n := 0
	for _, f := range w.ModFns {
		if fnPkgPath(f) != modPath+"/repository" || isInstance(f) || w.isTestHelper(f) {
			continue
		}
		for _, b := range f.Blocks {
			for _, ins := range b.Instrs {
				st, ok := ins.(*ssa.Store)
				if !ok {
					continue
				}
				fa, ok := st.Addr.(*ssa.FieldAddr)
				if !ok || (fieldName(fa) != "Name" && fieldName(fa) != "Email") || !strings.HasSuffix(typeShortName(fa.X.Type()), "object.Signature") {
					continue
				}
				n++
				c.Sites++
				c.seeFn(funcName(f))
				ok2, why := false, "the value is not a constant or the result of a cleaning function"
				if _, isK := st.Val.(*ssa.Const); isK {
					ok2 = true
				}
				if cv, isCall := st.Val.(*ssa.Call); isCall {
					if callee := cv.Common().StaticCallee(); callee != nil && len(callee.Blocks) > 0 {
						ok2, why = identCleaner(callee)
					}
				}
				c.Check(ok2, "R15.12", fmt.Sprintf("%s:%s.%s", funcName(f), identRole(fa), fieldName(fa)), w.InstrPos(st), "cleaned before it is written into the ident",
					"the "+fieldName(fa)+" of a commit ident is written without cleaning ("+why+"): with a configured name like \"Jane Doe <jane@example.com>\" every commit git-bug writes is refused by git fsck --strict and by servers that check received objects")
			}
		}
	}
	c.Check(n >= 4, "R15.12", "expected:ident-stores", "repository", fmt.Sprintf("%d ident fields written", n), fmt.Sprintf("only %d ident field stores found (reference 4)", n))
}

func identRole(fa *ssa.FieldAddr) string {
	if fa2, ok := fa.X.(*ssa.FieldAddr); ok {
		return fieldName(fa2)
	}
	return "ident"
}

// identCleaner: f returns strings.Map(p, <its argument>) where p, evaluated on its SSA, maps '<', '>',
// '\n' and NUL to a negative value (dropped) and letters, digits, space, '@', '.', '-' to themselves.
func identCleaner(f *ssa.Function) (bool, string) {
	var pred *ssa.Function
	for _, cl := range Calls(f) {
		if cl.Name == "strings.Map" && len(cl.Args()) == 2 {
			for _, g := range funcValuesOf(cl.Args()[0], 0) {
				pred = g
			}
		}
	}
	if pred == nil {
		return false, funcName(f) + " does not clean with strings.Map (not interpreted)"
	}
	eval := func(r rune) (int64, error) {
		env := &fenv{concrete: true, cells: map[int]*fval{}}
		rs, err := env.run(pred, []fval{{k: fInt, i: int64(r)}}, 0)
		if err != nil || len(rs) != 1 {
			return 0, fmt.Errorf("%v", err)
		}
		return rs[0].i, nil
	}
	for _, r := range []rune{'<', '>', '\n', 0} {
		v, err := eval(r)
		if err != nil {
			return false, "the rune mapping of " + funcName(f) + " is not interpretable: " + err.Error()
		}
		if v >= 0 {
			return false, fmt.Sprintf("%s keeps %q", funcName(f), r)
		}
	}
	for _, r := range []rune{'a', 'Z', '0', ' ', '@', '.', '-', 'é', '日'} {
		v, err := eval(r)
		if err != nil || v != int64(r) {
			return false, fmt.Sprintf("%s does not keep %q", funcName(f), r)
		}
	}
	return true, ""
}

// R15.13: the scratch file of the editor lives in .git/git-bug. LaunchEditor receives a name relative to
// the local storage; outside the storage interface that name is meaningless (it would resolve against the
// current directory, i.e. the work tree), so it may only be used through the storage or joined to its root.
func checkEditorFileInStorage(c *Ctx) {
	w := c.W
	c.Doc("R15.13", "in commands/input.LaunchEditor and LaunchEditorWithTemplate the relative file name parameter is used only as an argument of a local-storage operation (billy file system method, util.WriteFile on the storage) or of filepath.Join with the storage root as first element — never in a command line, a format string or an os call")
	n := 0
	for _, name := range []string{"LaunchEditor", "LaunchEditorWithTemplate"} {
		fn := w.Func("commands/input", name)
		if fn == nil {
			c.Undecided("R15.13", "anchor:input."+name, "commands/input", "not found")
			continue
		}
		c.seeFn(funcName(fn))
		var param *ssa.Parameter
		for _, p := range fn.Params {
			if p.Name() == "fileName" || (isStringType(p.Type()) && param == nil) {
				param = p
			}
		}
		if param == nil {
			c.Undecided("R15.13", "input."+name+":file-name-parameter", w.FnPos(fn), "no string parameter")
			continue
		}
		bad := ""
		var visit func(v ssa.Value, depth int)
		seen := map[ssa.Value]bool{}
		visit = func(v ssa.Value, depth int) {
			if seen[v] || depth > 4 {
				return
			}
			seen[v] = true
			for _, r := range *v.Referrers() {
				switch x := r.(type) {
				case ssa.CallInstruction:
					n++
					c.Sites++
					nm, _ := callName(x.Common())
					okUse := false
					switch {
					case strings.Contains(nm, "billy.") || strings.Contains(nm, "go-billy"):
						okUse = true
					case nm == "util.WriteFile" || strings.HasSuffix(nm, "util.WriteFile"):
						okUse = true
					case nm == "commands/input.LaunchEditor" || nm == "commands/input.LaunchEditorWithTemplate":
						okUse = true
					case nm == "path/filepath.Join":
						// first element is the storage root
						for _, ev := range sliceElementValues(x.Common().Args[0]) {
							if strings.Contains(originNames(ev), "Root") {
								okUse = true
							}
							break
						}
					}
					if !okUse {
						bad = "it is handed to " + nm + " at " + w.InstrPos(x)
					}
				case *ssa.MakeInterface:
					visit(x, depth+1)
				case *ssa.Store:
					// into the backing array of a variadic argument list: follow the slice to its call
					if ia, isIA := x.Addr.(*ssa.IndexAddr); isIA {
						if al, isAl := ia.X.(*ssa.Alloc); isAl {
							for _, r2 := range *al.Referrers() {
								if sl, isSl := r2.(*ssa.Slice); isSl {
									visit(sl, depth+1)
								}
							}
						}
					}
				case *ssa.Defer:
				}
			}
		}
		visit(param, 0)
		c.Check(bad == "", "R15.13", "input."+name+":file-name-only-through-the-storage", w.FnPos(fn), "the relative name is used through the local storage or joined to its root",
			"the file name relative to .git/git-bug is used outside the storage ("+bad+"): the editor (or the read) resolves it against the current directory and leaves the scratch file in the user's work tree")
	}
	c.Check(n >= 3, "R15.13", "expected:file-name-uses", "commands/input", fmt.Sprintf("%d uses of the file name examined", n), fmt.Sprintf("only %d uses of the file name found", n))
}
