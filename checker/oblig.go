package main

// Obligations, known findings, evidence files, violation reports.

import (
	"bufio"
	"encoding/json"
	"fmt"
	"os"
	"path/filepath"
	"sort"
	"strings"
)

type Obligation struct {
	Rule    string `json:"rule"`
	Key     string `json:"key"` // construct key, never a line number
	Pos     string `json:"pos"`
	Verdict string `json:"verdict"` // "holds" | "violated" | "undecided" | "info"
	Detail  string `json:"detail,omitempty"`
}

func (o Obligation) ID() string { return o.Rule + "|" + o.Key }

type Ctx struct {
	W        *World
	Prop     string
	Tier     string
	Obs      []Obligation
	Sites    int // call sites / instructions / AST nodes examined (evidence "evaluations")
	FnsSeen  map[string]bool
	Assume   []string
	Explain  string
	RuleDocs map[string]string
	// thorough tier only: results of the variant battery (battery.go)
	Sensitivity map[string]any
}

func (c *Ctx) seeFn(name string) {
	if c.FnsSeen == nil {
		c.FnsSeen = map[string]bool{}
	}
	c.FnsSeen[name] = true
}

func (c *Ctx) add(rule, key, pos, verdict, detail string) {
	c.Obs = append(c.Obs, Obligation{rule, key, pos, verdict, detail})
}
func (c *Ctx) Hold(rule, key, pos, detail string)    { c.add(rule, key, pos, "holds", detail) }
func (c *Ctx) Violate(rule, key, pos, detail string) { c.add(rule, key, pos, "violated", detail) }
func (c *Ctx) Undecided(rule, key, pos, detail string) {
	c.add(rule, key, pos, "undecided", detail)
}
func (c *Ctx) Info(rule, key, pos, detail string) { c.add(rule, key, pos, "info", detail) }

// Check records holds/violated according to ok.
func (c *Ctx) Check(ok bool, rule, key, pos, okDetail, badDetail string) bool {
	if ok {
		c.Hold(rule, key, pos, okDetail)
	} else {
		c.Violate(rule, key, pos, badDetail)
	}
	return ok
}

func (c *Ctx) Doc(rule, text string) {
	if c.RuleDocs == nil {
		c.RuleDocs = map[string]string{}
	}
	c.RuleDocs[rule] = text
}

// ---- known findings ----

type knownFinding struct {
	Prop, Key, Text string
}

func loadKnownFindings(path string) ([]knownFinding, error) {
	f, err := os.Open(path)
	if err != nil {
		if os.IsNotExist(err) {
			return nil, nil
		}
		return nil, err
	}
	defer f.Close()
	var out []knownFinding
	sc := bufio.NewScanner(f)
	sc.Buffer(make([]byte, 1<<20), 1<<20)
	for sc.Scan() {
		line := strings.TrimSpace(sc.Text())
		if !strings.HasPrefix(line, "finding:") {
			continue // "fixed:" lines and comments suppress nothing
		}
		rest := strings.TrimSpace(strings.TrimPrefix(line, "finding:"))
		parts := strings.SplitN(rest, " :: ", 2)
		head := parts[0]
		text := ""
		if len(parts) == 2 {
			text = parts[1]
		}
		var prop, key string
		if i := strings.Index(head, "property="); i >= 0 {
			r := head[i+len("property="):]
			if j := strings.IndexByte(r, ' '); j >= 0 {
				prop = r[:j]
			} else {
				prop = r
			}
		}
		if i := strings.Index(head, "key="); i >= 0 {
			key = strings.TrimSpace(head[i+len("key="):])
		}
		if prop != "" && key != "" {
			out = append(out, knownFinding{prop, key, text})
		}
	}
	return out, sc.Err()
}

// ---- finishing a property run ----

type violationReport struct {
	Property   string     `json:"property"`
	Tier       string     `json:"tier"`
	Obligation Obligation `json:"obligation"`
	RuleDoc    string     `json:"rule_doc,omitempty"`
	Repo       string     `json:"repo"`
}

func sanitize(s string) string {
	var b strings.Builder
	for _, r := range s {
		switch {
		case r >= 'a' && r <= 'z', r >= 'A' && r <= 'Z', r >= '0' && r <= '9', r == '.', r == '-', r == '_':
			b.WriteRune(r)
		default:
			b.WriteByte('_')
		}
	}
	out := b.String()
	if len(out) > 100 {
		out = out[:100]
	}
	return out
}

// finish prints verdict lines, writes evidence and violation reports; returns exit code.
func (c *Ctx) finish(verifDir string, wall float64, seed int64) int {
	known, err := loadKnownFindings(filepath.Join(verifDir, "known_findings.txt"))
	if err != nil {
		fmt.Printf("cannot read known findings: %v\n", err)
	}
	sort.SliceStable(c.Obs, func(i, j int) bool {
		if c.Obs[i].Rule != c.Obs[j].Rule {
			return c.Obs[i].Rule < c.Obs[j].Rule
		}
		return c.Obs[i].Key < c.Obs[j].Key
	})
	// duplicates (same rule|key from several instantiations): violated wins, then undecided
	merged := map[string]int{}
	var obs []Obligation
	rank := map[string]int{"info": 0, "holds": 1, "undecided": 2, "violated": 3}
	for _, o := range c.Obs {
		if i, ok := merged[o.ID()]; ok {
			if rank[o.Verdict] > rank[obs[i].Verdict] {
				obs[i] = o
			}
			continue
		}
		merged[o.ID()] = len(obs)
		obs = append(obs, o)
	}
	c.Obs = obs

	vdir := filepath.Join(verifDir, "evidence", "violations")
	os.MkdirAll(vdir, 0o755)
	// remove stale reports of this property
	if old, _ := filepath.Glob(filepath.Join(vdir, c.Prop+"-*.json")); len(old) > 0 {
		for _, f := range old {
			os.Remove(f)
		}
	}
	nViol, nKnown, nHold, nInfo := 0, 0, 0, 0
	var knownHit []string
	for _, o := range c.Obs {
		switch o.Verdict {
		case "holds":
			nHold++
		case "info":
			nInfo++
		case "violated", "undecided":
			isKnown := false
			for _, k := range known {
				if k.Prop == c.Prop && k.Key == o.ID() {
					isKnown = true
					fmt.Printf("KNOWN-FINDING: property=%s %s @ %s :: %s\n", c.Prop, o.ID(), o.Pos, k.Text)
					knownHit = append(knownHit, o.ID())
					break
				}
			}
			if isKnown {
				nKnown++
				continue
			}
			nViol++
			rep := violationReport{c.Prop, c.Tier, o, c.RuleDocs[o.Rule], c.W.RepoDir}
			path := filepath.Join(vdir, fmt.Sprintf("%s-%02d-%s.json", c.Prop, nViol, sanitize(o.ID())))
			data, _ := json.MarshalIndent(rep, "", " ")
			os.WriteFile(path, data, 0o644)
			fmt.Printf("  %s %s [%s] at %s: %s\n", strings.ToUpper(o.Verdict), o.Rule, o.Key, o.Pos, o.Detail)
			fmt.Printf("VIOLATION property=%s replay=%s\n", c.Prop, path)
		}
	}

	// evidence
	samples := []Obligation{}
	perRule := map[string]int{}
	for _, o := range c.Obs {
		if perRule[o.Rule] < 4 || o.Verdict == "violated" || o.Verdict == "undecided" {
			samples = append(samples, o)
		}
		perRule[o.Rule]++
	}
	var fns []string
	for f := range c.FnsSeen {
		fns = append(fns, f)
	}
	sort.Strings(fns)
	rules := []string{}
	for r := range perRule {
		rules = append(rules, r)
	}
	sort.Strings(rules)
	ruleCounts := map[string]int{}
	for r, n := range perRule {
		ruleCounts[r] = n
	}
	decided := nHold + nViol + nKnown
	ev := map[string]any{
		"property_id": c.Prop,
		"tier":        c.Tier,
		"seed":        seed,
		"level":       "other",
		"coverage": map[string]any{
			"explanation":          c.Explain,
			"obligations":          decided,
			"discharged":           nHold,
			"evaluations":          c.Sites,
			"distinct_nontrivial":  decided,
			"rule":                 "one obligation per (rule, source construct) pair, keyed rule|construct; an obligation is non-trivial when the rule had to inspect a path, dominator, value origin or table of /repo's current source to decide it (informational entries are not counted); evaluations = call sites / instructions / syntax nodes examined by the rules",
			"samples":              samples,
			"rules":                c.RuleDocs,
			"obligations_per_rule": ruleCounts,
			"informational":        nInfo,
			"functions_analysed":   fns,
			"packages_loaded":      len(c.W.ByPath),
			"module_functions":     len(c.W.ModFns),
			"callgraph":            callgraphNote(c.W),
			"known_findings_hit":   knownHit,
			"exhaustive":           false,
		},
		"assumptions": c.Assume,
		"wall_s":      wall,
		"violations":  nViol,
	}
	if c.Sensitivity != nil {
		ev["coverage"].(map[string]any)["sensitivity"] = c.Sensitivity
	}
	data, _ := json.MarshalIndent(ev, "", " ")
	os.MkdirAll(filepath.Join(verifDir, "evidence"), 0o755)
	if err := os.WriteFile(filepath.Join(verifDir, "evidence", c.Prop+".json"), data, 0o644); err != nil {
		fmt.Printf("cannot write evidence: %v\n", err)
		return 2
	}
	fmt.Printf("%s %s: %d obligations (%d hold, %d known findings, %d violated/undecided, %d informational), %d sites examined, %.1fs\n",
		c.Prop, c.Tier, decided, nHold, nKnown, nViol, nInfo, c.Sites, wall)
	if nViol > 0 {
		return 1
	}
	return 0
}

func callgraphNote(w *World) string {
	if w.vtaG == nil {
		return "none needed (intraprocedural rules, static callees)"
	}
	return fmt.Sprintf("hybrid: VTA over %d functions, CHA callees at %d dynamic sites VTA left unresolved", len(w.All), w.Fallbacks)
}
