package main

import (
	"fmt"
	"go/token"
	"go/types"
	"reflect"
	"sort"
	"strings"

	"golang.org/x/tools/go/ssa"
)

func init() {
	register("C04",
		"Round-trip and id stability are value statements; decided here are their structural necessary conditions: every entity.DeriveId call hashes exactly the bytes that are stored (writers), that were read (readers) or that the same marshaller will write (predictors); writer and reader tables agree (tree-entry names and the pack field each one carries, JSON field names of the pack wrapper, every field of versionJSON written and read back into the same version field); operation type dispatch is a bijection between type constants, concrete types, their Validate and their constructors, with an error for unknown types; operations that carry file hashes expose them so that Write references them from the commit; every write path validates before the first object is written; every serialised text field of an operation is checked in Validate with the right polarity; packs are split per author.",
		[]string{"encoding/json is deterministic for these types", "equality of field values after a round trip is not computed", "transport of the extra tree by git push/fetch"},
		runC04)
}

func runC04(c *Ctx) {
	checkDeriveIdSites(c)
	checkTreeEntryTables(c)
	checkPackJSONTables(c)
	checkVersionJSON(c)
	checkIdentityVersionEntry(c)
	checkOpDispatch(c)
	checkFilesTravel(c)
	checkValidateBeforePersist(c)
	checkOpFieldValidation(c)
	checkAuthorSplit(c)
	checkEntityIdFirstOp(c)
	checkComparator(c, "R1.1") // "same order" on every read: the pack order must be a total function of stored data
	checkOpsConcatenation(c)
	checkFirstVersionFrozen(c)
	checkPayloadNotAliased(c)
	checkStateOnlyOnSuccess(c, "R4.11")
	// every acknowledged commit stays in the stored history: one live instance per entity (shared with C18)
	checkSingleInstance(c, newLockWorld(c.W))
	// "logical times … read through the cache and a second replica after push/pull": what is read is
	// witnessed (so the next commit sorts after it) and what is pulled is what the cache serves
	checkWitnessAll(c, "R5.3")
	checkCacheMergeFold(c, "R2.6")
	// what was written is read back: read refuses nothing but the documented contradictions, merge commits are exempt from the hop limit (shared with C03)
	checkReadGuards(c)
	checkMetadataNotAliased(c, "R4.12")
	// "it passes validation there": the keys a pack is verified with are those in force at its own edit time (shared with C08)
	runC08(c)
}

// R4.1
func checkDeriveIdSites(c *Ctx) {
	w := c.W
	c.Doc("R4.1", "the argument of every entity.DeriveId call is (writer) the very value passed to StoreData, (reader) the bytes returned by ReadData / handed to UnmarshalJSON / the raw message handed to the operation unmarshaler, or (predictor) json.Marshal of the function's own receiver or operation parameter")
	n := 0
	for _, fn := range w.ModFns {
		if isInstance(fn) || w.isTestHelper(fn) {
			continue
		}
		for _, cl := range CallsNamed(fn, "entity.DeriveId") {
			n++
			c.Sites++
			c.seeFn(funcName(fn))
			arg := cl.Args()[0]
			key := funcName(fn) + ":DeriveId"
			pos := w.InstrPos(cl.Instr)
			ok, why := false, ""
			os := origins(arg)
			for _, o := range os {
				switch {
				case o.Kind == "call" && o.Name == "encoding/json.Marshal" && o.Idx == 0:
					mc := o.Val.(*ssa.Call)
					marg := stripConv(mc.Common().Args[0])
					if _, isParam := marg.(*ssa.Parameter); !isParam {
						ok, why = false, "hashes json.Marshal of something other than the function's own receiver/parameter"
						break
					}
					// writer: must be the same value that is stored, if the function stores at all
					stores := false
					same := false
					for _, sc := range Calls(fn) {
						if strings.HasSuffix(sc.Name, ".StoreData") {
							for _, so := range origins(sc.Args()[0]) {
								if so.Kind == "call" && so.Name == "encoding/json.Marshal" {
									stores = true
									if so.Val == o.Val {
										same = true
									}
								}
							}
						}
					}
					if stores && !same {
						ok, why = false, "the bytes hashed are not the bytes passed to StoreData"
					} else if stores {
						ok, why = true, "writer: hashes the value passed to StoreData"
					} else {
						ok, why = true, "predictor: hashes json.Marshal of its own receiver/parameter"
					}
				case o.Kind == "call" && strings.HasSuffix(o.Name, ".ReadData") && o.Idx == 0:
					ok, why = true, "reader: hashes the bytes returned by ReadData"
				case o.Kind == "param":
					p := o.Val.(*ssa.Parameter)
					if strings.Contains(p.Type().String(), "byte") || strings.Contains(p.Type().String(), "RawMessage") {
						ok, why = true, "reader: hashes the raw bytes it was handed"
					} else {
						ok, why = false, "hashes a parameter that is not raw bytes"
					}
				case o.Kind == "field" && o.Name == "Operations":
					// element of aux.Operations ([]json.RawMessage): must be the value handed to the unmarshaler
					handed := false
					for _, uc := range Calls(fn) {
						if hasField(uc.Instr.Common().Value, "OperationUnmarshaler") {
							if len(uc.Instr.Common().Args) > 0 && stripConv(uc.Instr.Common().Args[0]) == stripConv(arg) {
								handed = true
							}
						}
					}
					ok, why = handed, "reader: hashes the raw message handed to the operation unmarshaler"
					if !handed {
						why = "the raw message hashed is not the one decoded"
					}
				default:
					ok, why = false, "hashes a value of unexpected origin ("+o.String()+")"
				}
				if !ok {
					break
				}
			}
			if len(os) == 0 {
				why = "origin of the hashed value unknown"
			}
			c.Check(ok, "R4.1", key, pos, why, why+": the id would not be the hash of the stored form")
		}
	}
	if n < 7 {
		c.Violate("R4.1", "expected:DeriveId-sites", "module", fmt.Sprintf("%d DeriveId sites (reference 8: operationPack.Id/Write, readOperationPack, unmarshallPack, IdOperation, version.Id/Write/UnmarshalJSON)", n))
	}
	// readOperationPack: the bytes hashed are the bytes decoded
	if fn := w.Func("entity/dag", "readOperationPack"); fn != nil {
		ok := false
		for _, d := range CallsNamed(fn, "entity.DeriveId") {
			for _, u := range CallsNamed(fn, "entity/dag.unmarshallPack") {
				if a := u.Args(); len(a) == 3 && a[2] == d.Args()[0] {
					ok = true
				}
			}
		}
		c.Check(ok, "R4.1", "entity/dag.readOperationPack:hash-what-is-decoded", w.FnPos(fn), "the blob hashed is the blob decoded", "the blob whose hash becomes the pack id is not the blob that is decoded")
	}
}

// tagName extracts the json name of a struct field tag.
func tagName(tag string) string {
	v := reflect.StructTag(tag).Get("json")
	if i := strings.IndexByte(v, ','); i >= 0 {
		v = v[:i]
	}
	return v
}

// R4.2 (a)
func checkTreeEntryTables(c *Ctx) {
	w := c.W
	c.Doc("R4.2", "writer/reader table agreement: (a) each clock tree-entry prefix carries the same pack field in Write, readOperationPack and readOperationPackClock, the ops entry name written is the one read; (b) the JSON names of the pack wrapper agree; (c) every field of versionJSON is written from and read back into the same version field; (d) the identity tree entry name written is the one required")
	wr := w.Method("entity/dag", "operationPack", "Write")
	rd := w.Func("entity/dag", "readOperationPack")
	rc := w.Func("entity/dag", "readOperationPackClock")
	if wr == nil || rd == nil || rc == nil {
		c.Undecided("R4.2", "anchor:pack-io", "entity/dag", "Write/readOperationPack/readOperationPackClock not found")
		return
	}
	c.seeFn(funcName(wr))
	c.seeFn(funcName(rd))
	c.seeFn(funcName(rc))
	// writer: prefix -> field
	wmap := map[string]string{}
	for _, cl := range CallsNamed(wr, "fmt.Sprintf") {
		c.Sites++
		f, ops, ok := sprintfFormat(cl.Value())
		if !ok || !strings.HasSuffix(f, "%d") || len(ops) != 1 {
			continue
		}
		flds := originFields(ops[0])
		if len(flds) == 1 {
			wmap[strings.TrimSuffix(f, "%d")] = flds[0]
		}
	}
	// reader: prefix -> field of the returned pack
	parsePrefix := func(v ssa.Value) []string {
		var out []string
		for _, o := range origins(v) {
			if o.Kind == "call" && o.Name == "strconv.ParseUint" {
				pc := o.Val.(*ssa.Call)
				if tp, ok := pc.Common().Args[0].(*ssa.Call); ok {
					if n, _ := callName(tp.Common()); n == "strings.TrimPrefix" {
						if pf, ok := constString(tp.Common().Args[1]); ok {
							out = append(out, pf)
						}
					}
				}
			}
		}
		sort.Strings(out)
		return out
	}
	rmap := map[string]string{}
	for _, b := range rd.Blocks {
		for _, ins := range b.Instrs {
			st, ok := ins.(*ssa.Store)
			if !ok {
				continue
			}
			fa, ok := st.Addr.(*ssa.FieldAddr)
			if !ok || typeShortName(fa.X.Type()) != "entity/dag.operationPack" {
				continue
			}
			for _, pf := range parsePrefix(st.Val) {
				if old, dup := rmap[pf]; dup && old != fieldName(fa) {
					rmap[pf] = old + "+" + fieldName(fa)
				} else {
					rmap[pf] = fieldName(fa)
				}
			}
		}
	}
	// the TrimPrefix constant must be the HasPrefix constant of the guarding case
	pos := w.FnPos(rd)
	for _, want := range []struct{ constName, field string }{{"editClockEntryPrefix", "EditTime"}, {"createClockEntryPrefix", "CreateTime"}} {
		pf, ok := pkgConstString(w, "entity/dag", want.constName)
		if !ok {
			c.Undecided("R4.2", "tree-entry:"+want.constName, "entity/dag", "constant not found")
			continue
		}
		c.Check(wmap[pf] == want.field, "R4.2", "operationPack.Write:"+want.constName, w.FnPos(wr), "entry "+pf+"<n> carries "+want.field, fmt.Sprintf("Write stores %q under the %q entry (expected %s)", wmap[pf], pf, want.field))
		c.Check(rmap[pf] == want.field, "R4.2", "readOperationPack:"+want.constName, pos, "entry "+pf+"<n> is read into "+want.field, fmt.Sprintf("readOperationPack reads the %q entry into %q (expected %s)", pf, rmap[pf], want.field))
	}
	// clock-only reader: result index by prefix
	cmap := map[string]int{}
	for _, r := range Returns(rc) {
		if returnKind(r) == RetError {
			continue
		}
		for i := 0; i < 2 && i < len(r.Results); i++ {
			for _, pf := range parsePrefix(r.Results[i]) {
				cmap[pf] = i
			}
		}
	}
	ep, _ := pkgConstString(w, "entity/dag", "editClockEntryPrefix")
	cp, _ := pkgConstString(w, "entity/dag", "createClockEntryPrefix")
	ci, okc := cmap[cp]
	ei, oke := cmap[ep]
	c.Check(okc && oke && ci == 0 && ei == 1, "R4.2", "readOperationPackClock:roles", w.FnPos(rc), "returns (create, edit) from the matching entries", "the clock-only reader returns the clock entries in the wrong roles")
	// HasPrefix constant == TrimPrefix constant within each case (reader)
	for _, fn := range []*ssa.Function{rd, rc} {
		for _, tp := range CallsNamed(fn, "strings.TrimPrefix") {
			c.Sites++
			pf, _ := constString(tp.Args()[1])
			okCase := false
			for _, cc := range controlConds(tp.Block(), nil) {
				if hc, ok := cc.If.Cond.(*ssa.Call); ok {
					if n, _ := callName(hc.Common()); n == "strings.HasPrefix" && cc.Edge == 0 {
						if hp, _ := constString(hc.Common().Args[1]); hp == pf {
							okCase = true
						}
					}
				}
			}
			c.Check(okCase, "R4.2", funcName(fn)+":case-prefix:"+pf, w.InstrPos(tp.Instr), "the prefix trimmed is the prefix tested", "an entry is parsed with prefix "+pf+" under a case that tests another prefix")
		}
	}
	// ops entry
	opsName, _ := pkgConstString(w, "entity/dag", "opsEntryName")
	wOK := false
	for _, b := range wr.Blocks {
		for _, ins := range b.Instrs {
			st, ok := ins.(*ssa.Store)
			if !ok {
				continue
			}
			fa, ok := st.Addr.(*ssa.FieldAddr)
			if !ok || fieldName(fa) != "Name" {
				continue
			}
			if s, isS := constString(st.Val); isS && s == opsName {
				// the Hash of the same entry is the StoreData(data) result
				for _, b2 := range wr.Blocks {
					for _, i2 := range b2.Instrs {
						if st2, ok := i2.(*ssa.Store); ok {
							if fa2, ok := st2.Addr.(*ssa.FieldAddr); ok && fieldName(fa2) == "Hash" && fa2.X == fa.X {
								if sc := hasOriginCall(st2.Val, "repository.RepoData.StoreData", 0); sc != nil {
									if hasOriginCall(sc.Common().Args[0], "encoding/json.Marshal", 0) != nil {
										wOK = true
									}
								}
							}
						}
					}
				}
			}
		}
	}
	c.Check(wOK, "R4.2", "operationPack.Write:ops-entry", w.FnPos(wr), "the entry named "+opsName+" points at the stored operations blob", "the operations blob is not referenced under the entry name the reader looks for")
	rOK := false
	for _, b := range rd.Blocks {
		for _, ins := range b.Instrs {
			if bo, ok := ins.(*ssa.BinOp); ok && bo.Op == token.EQL {
				if s, isS := constString(bo.Y); isS && s == opsName && hasField(bo.X, "Name") {
					rOK = true
				}
			}
		}
	}
	c.Check(rOK, "R4.2", "readOperationPack:ops-entry", pos, "reads the entry named "+opsName, "the reader does not look for the entry name the writer uses")
}

// anonStructTags returns the json names of the tagged anonymous struct allocated in fn.
func anonStructTags(fn *ssa.Function) map[string]string {
	for _, b := range fn.Blocks {
		for _, ins := range b.Instrs {
			al, ok := ins.(*ssa.Alloc)
			if !ok {
				continue
			}
			pt, ok := al.Type().(*types.Pointer)
			if !ok {
				continue
			}
			st, ok := pt.Elem().(*types.Struct) // unnamed
			if !ok || st.NumFields() == 0 {
				continue
			}
			out := map[string]string{}
			for i := 0; i < st.NumFields(); i++ {
				if n := tagName(st.Tag(i)); n != "" {
					out[n] = st.Field(i).Name()
				}
			}
			if len(out) > 0 {
				return out
			}
		}
	}
	return nil
}

// R4.2 (b)
func checkPackJSONTables(c *Ctx) {
	w := c.W
	mj := w.Method("entity/dag", "operationPack", "MarshalJSON")
	up := w.Func("entity/dag", "unmarshallPack")
	if mj == nil || up == nil {
		c.Undecided("R4.2", "anchor:pack-json", "entity/dag", "MarshalJSON/unmarshallPack not found")
		return
	}
	a, b := anonStructTags(mj), anonStructTags(up)
	c.Sites += len(a) + len(b)
	ok := len(a) > 0 && len(a) == len(b)
	for k, f := range a {
		if b[k] != f {
			ok = false
		}
	}
	c.Check(ok, "R4.2", "operationPack:json-names", w.FnPos(mj), fmt.Sprintf("wrapper fields agree: %v", a), fmt.Sprintf("the pack is written with JSON names %v and read with %v", a, b))
}

// R4.2 (c)
func checkVersionJSON(c *Ctx) {
	w := c.W
	mj := w.Method("entities/identity", "version", "MarshalJSON")
	uj := w.Method("entities/identity", "version", "UnmarshalJSON")
	if mj == nil || uj == nil {
		c.Undecided("R4.2", "anchor:version-json", "entities/identity", "not found")
		return
	}
	c.seeFn(funcName(mj))
	c.seeFn(funcName(uj))
	p := w.Pkg("entities/identity")
	vj, _ := p.Types.Scope().Lookup("versionJSON").Type().Underlying().(*types.Struct)
	if vj == nil {
		c.Undecided("R4.2", "anchor:versionJSON", "entities/identity", "type not found")
		return
	}
	// writer: versionJSON.X <- v.y
	wmap := map[string]string{}
	for _, b := range mj.Blocks {
		for _, ins := range b.Instrs {
			st, ok := ins.(*ssa.Store)
			if !ok {
				continue
			}
			fa, ok := st.Addr.(*ssa.FieldAddr)
			if !ok || typeShortName(fa.X.Type()) != "entities/identity.versionJSON" {
				continue
			}
			if fl := originFields(st.Val); len(fl) == 1 {
				wmap[fieldName(fa)] = fl[0]
			} else if _, isC := st.Val.(*ssa.Const); isC {
				wmap[fieldName(fa)] = "<const>"
			}
		}
	}
	// reader: v.y <- aux.X
	rmap := map[string]string{}
	for _, b := range uj.Blocks {
		for _, ins := range b.Instrs {
			st, ok := ins.(*ssa.Store)
			if !ok {
				continue
			}
			fa, ok := st.Addr.(*ssa.FieldAddr)
			if !ok || typeShortName(fa.X.Type()) != "entities/identity.version" {
				continue
			}
			if fl := originFields(st.Val); len(fl) == 1 {
				rmap[fl[0]] = fieldName(fa)
			}
		}
	}
	for i := 0; i < vj.NumFields(); i++ {
		f := vj.Field(i).Name()
		c.Sites++
		if f == "FormatVersion" {
			c.Check(wmap[f] == "<const>", "R4.2", "version.MarshalJSON:"+f, w.FnPos(mj), "format version constant written", "the format version is not written")
			continue
		}
		wv, wok := wmap[f]
		rv, rok := rmap[f]
		switch {
		case !wok:
			c.Violate("R4.2", "version.MarshalJSON:"+f, w.FnPos(mj), "field "+f+" of the stored form is never written")
		case !rok:
			c.Violate("R4.2", "version.UnmarshalJSON:"+f, w.FnPos(uj), "field "+f+" of the stored form is never read back")
		case wv != rv:
			c.Violate("R4.2", "version:json-roundtrip:"+f, w.FnPos(uj), fmt.Sprintf("%s is written from version.%s but read back into version.%s", f, wv, rv))
		default:
			c.Hold("R4.2", "version:json-roundtrip:"+f, w.FnPos(uj), f+" ↔ version."+wv)
		}
	}
}

// R4.2 (d)
func checkIdentityVersionEntry(c *Ctx) {
	w := c.W
	name, ok := pkgConstString(w, "entities/identity", "versionEntryName")
	cm := w.Method("entities/identity", "Identity", "Commit")
	rd := w.Func("entities/identity", "read")
	if !ok || cm == nil || rd == nil {
		c.Undecided("R4.2", "anchor:identity-version-entry", "entities/identity", "not found")
		return
	}
	wOK := false
	for _, f := range fnAndHelpers(cm, 2) {
		for _, b := range f.Blocks {
			for _, ins := range b.Instrs {
				if st, isSt := ins.(*ssa.Store); isSt {
					if fa, isFA := st.Addr.(*ssa.FieldAddr); isFA && fieldName(fa) == "Name" {
						if s, isS := constString(st.Val); isS && s == name {
							wOK = true
						}
					}
				}
			}
		}
	}
	rOK := false
	for _, g := range guardsDeep(rd, nil, 0) {
		gg, o := g.oriented(func(v ssa.Value) bool { return hasField(v, "Name") })
		if o && gg.Op == token.NEQ {
			if s, isS := constString(gg.Y); isS && s == name {
				rOK = true
			}
		}
	}
	c.Check(wOK && rOK, "R4.2", "identity:version-entry-name", w.FnPos(cm), "Commit writes and read requires the entry "+name, "the identity tree entry name written and the one required on read differ")
}

// R4.3
func checkOpDispatch(c *Ctx) {
	w := c.W
	c.Doc("R4.3", "bug.operationUnmarshaler: every OperationType constant of package bug has a case; the type allocated in the case validates against, and is constructed with, the same constant; no two constants share a concrete type (generic dag operations excepted); unknown types return an error")
	fn := w.Func("entities/bug", "operationUnmarshaler")
	if fn == nil {
		c.Undecided("R4.3", "anchor:operationUnmarshaler", "entities/bug", "not found")
		return
	}
	c.seeFn(funcName(fn))
	p := w.Pkg("entities/bug")
	// constants of type dag.OperationType in package bug
	consts := map[int64]string{}
	for _, n := range p.Types.Scope().Names() {
		if k, ok := p.Types.Scope().Lookup(n).(*types.Const); ok && typeShortName(k.Type()) == "entity/dag.OperationType" {
			if v, ok := constantInt(k); ok {
				consts[v] = n
			}
		}
	}
	// case K -> allocated type
	caseType := map[int64]string{}
	for _, b := range fn.Blocks {
		for _, ins := range b.Instrs {
			bo, ok := ins.(*ssa.BinOp)
			if !ok || bo.Op != token.EQL {
				continue
			}
			k, isK := constInt(bo.Y)
			if !isK {
				continue
			}
			for _, u := range condUsers(bo) {
				e := 0
				if u.Neg {
					e = 1
				}
				tb := u.If.Block().Succs[e]
				for _, i2 := range tb.Instrs {
					if al, isAl := i2.(*ssa.Alloc); isAl {
						caseType[k] = typeShortName(al.Type())
					}
				}
			}
		}
	}
	// the table idiom: the unmarshaler calls an element of a package-level array / map of factories
	// indexed by the type; the cases are then the entries the package initialiser stores into that table
	for _, cl := range Calls(fn) {
		var tbl *ssa.Global
		if ld, isLd := cl.Instr.Common().Value.(*ssa.UnOp); isLd {
			if ia, isIA := ld.X.(*ssa.IndexAddr); isIA {
				tbl, _ = ia.X.(*ssa.Global)
			}
		}
		if lk, isLk := cl.Instr.Common().Value.(*ssa.Lookup); isLk {
			if ld, isLd := lk.X.(*ssa.UnOp); isLd {
				tbl, _ = ld.X.(*ssa.Global)
			}
		}
		if ex, isEx := cl.Instr.Common().Value.(*ssa.Extract); isEx {
			if lk, isLk := ex.Tuple.(*ssa.Lookup); isLk {
				if ld, isLd := lk.X.(*ssa.UnOp); isLd {
					tbl, _ = ld.X.(*ssa.Global)
				}
			}
		}
		if tbl == nil || tbl.Pkg == nil {
			continue
		}
		initFn := tbl.Pkg.Func("init")
		if initFn == nil {
			continue
		}
		factoryType := func(v ssa.Value) string {
			var f *ssa.Function
			switch x := v.(type) {
			case *ssa.Function:
				f = x
			case *ssa.MakeClosure:
				f, _ = x.Fn.(*ssa.Function)
			}
			if f == nil {
				return ""
			}
			for _, b := range f.Blocks {
				for _, ins := range b.Instrs {
					if al, isAl := ins.(*ssa.Alloc); isAl && al.Heap {
						return typeShortName(al.Type())
					}
				}
			}
			return ""
		}
		for _, b := range initFn.Blocks {
			for _, ins := range b.Instrs {
				switch x := ins.(type) {
				case *ssa.Store:
					ia, isIA := x.Addr.(*ssa.IndexAddr)
					if !isIA || ia.X != ssa.Value(tbl) {
						// a literal built in a temporary and copied into the global
						if isIA {
							if al, isAl := ia.X.(*ssa.Alloc); isAl {
								copied := false
								for _, r := range *al.Referrers() {
									if ld, isLd := r.(*ssa.UnOp); isLd {
										for _, r2 := range *ld.Referrers() {
											if st2, isSt := r2.(*ssa.Store); isSt && st2.Addr == ssa.Value(tbl) {
												copied = true
											}
										}
									}
								}
								if !copied {
									continue
								}
							} else {
								continue
							}
						} else {
							continue
						}
					}
					if k, isK := constInt(ia.Index); isK {
						if t := factoryType(x.Val); t != "" {
							caseType[k] = t
						}
					}
				case *ssa.MapUpdate:
					fromTbl := false
					for _, r := range referrersOf(x.Map) {
						if st2, isSt := r.(*ssa.Store); isSt && st2.Addr == ssa.Value(tbl) {
							fromTbl = true
						}
					}
					if !fromTbl {
						continue
					}
					if k, isK := constInt(x.Key); isK {
						if t := factoryType(x.Value); t != "" {
							caseType[k] = t
						}
					}
				}
			}
		}
	}
	c.Sites += len(caseType)
	pos := w.FnPos(fn)
	typeSeen := map[string]int64{}
	var ks []int64
	for k := range consts {
		ks = append(ks, k)
	}
	sort.Slice(ks, func(i, j int) bool { return ks[i] < ks[j] })
	for _, k := range ks {
		name := consts[k]
		if k == 0 { // the zero value is "unset", validated against in OpBase.Validate
			continue
		}
		t, ok := caseType[k]
		if !ok {
			c.Violate("R4.3", "operationUnmarshaler:"+name, pos, "operation type "+name+" has no decoding case: such operations cannot be read back")
			continue
		}
		if prev, dup := typeSeen[t]; dup {
			c.Violate("R4.3", "operationUnmarshaler:"+name, pos, fmt.Sprintf("%s and %s are both decoded as %s", consts[prev], name, t))
			continue
		}
		typeSeen[t] = k
		if strings.HasPrefix(t, "entity/dag.") {
			// a generic operation carries its type constant as data: the constructors of package bug that pass
			// this constant to a dag constructor must build the very type decoded under it
			built := ""
			for _, f := range w.ModFns {
				if isInstance(f) || fnPkgPath(f) != modPath+"/entities/bug" || f.Parent() != nil {
					continue
				}
				for _, cl := range Calls(f) {
					if !strings.HasPrefix(cl.Name, "entity/dag.New") {
						continue
					}
					a := cl.Args()
					if len(a) == 0 {
						continue
					}
					if kk, isK := constInt(a[0]); isK && kk == k && cl.Value() != nil {
						built = typeShortName(cl.Value().Type())
					}
				}
			}
			if built != "" && built != t {
				c.Violate("R4.3", "operationUnmarshaler:"+name, pos, fmt.Sprintf("%s is built as %s but decoded as %s: its payload is dropped when it is read back", name, built, t))
				continue
			}
			c.Hold("R4.3", "operationUnmarshaler:"+name, pos, "generic operation "+t+" (carries its own type), built and decoded as the same type")
			continue
		}
		// Validate constant and constructor constant
		tn := strings.TrimPrefix(t, "entities/bug.")
		vk, vok := validateConst(w, tn)
		ck, cok := constructorConst(w, t)
		switch {
		case !vok:
			c.Violate("R4.3", "operationUnmarshaler:"+name, pos, t+".Validate does not check the operation type against a constant")
		case vk != k:
			c.Violate("R4.3", "operationUnmarshaler:"+name, pos, fmt.Sprintf("%s is decoded as %s, whose Validate expects %s", name, t, consts[vk]))
		case !cok:
			c.Violate("R4.3", "operationUnmarshaler:"+name, pos, "no constructor of "+t+" found")
		case ck != k:
			c.Violate("R4.3", "operationUnmarshaler:"+name, pos, fmt.Sprintf("%s is constructed with type %s but decoded under %s", t, consts[ck], name))
		default:
			c.Hold("R4.3", "operationUnmarshaler:"+name, pos, name+" ↔ "+t)
		}
	}
	// unknown type → error (no panic, no silent nil)
	hasPanic := false
	for _, b := range fn.Blocks {
		for _, ins := range b.Instrs {
			if _, ok := ins.(*ssa.Panic); ok {
				hasPanic = true
			}
		}
	}
	// the final Unmarshal into op must not be reachable with op == nil: all paths to it pass an Alloc
	c.Check(!hasPanic, "R4.3", "operationUnmarshaler:unknown-type", pos, "unknown types do not panic", "an unknown operation type panics")
}

func constantInt(k *types.Const) (int64, bool) {
	v := k.Val()
	if v == nil {
		return 0, false
	}
	s := v.ExactString()
	var n int64
	_, err := fmt.Sscan(s, &n)
	return n, err == nil
}

func validateConst(w *World, typ string) (int64, bool) {
	fn := w.Method("entities/bug", typ, "Validate")
	if fn == nil {
		return 0, false
	}
	for _, cl := range CallsNamed(fn, "entity/dag.OpBase.Validate") {
		a := cl.Args()
		if len(a) == 2 {
			return constIntOK(a[1])
		}
	}
	return 0, false
}

func constIntOK(v ssa.Value) (int64, bool) { return constInt(v) }

func constructorConst(w *World, fullType string) (int64, bool) {
	for _, fn := range w.ModFns {
		if fnPkgPath(fn) != modPath+"/entities/bug" || fn.Parent() != nil {
			continue
		}
		allocs := false
		for _, b := range fn.Blocks {
			for _, ins := range b.Instrs {
				if al, ok := ins.(*ssa.Alloc); ok && typeShortName(al.Type()) == fullType {
					allocs = true
				}
			}
		}
		if !allocs {
			continue
		}
		for _, cl := range CallsNamed(fn, "entity/dag.NewOpBase") {
			return constInt(cl.Args()[0])
		}
	}
	return 0, false
}

// R4.4
func checkFilesTravel(c *Ctx) {
	w := c.W
	c.Doc("R4.4", "every bug operation type with a []repository.Hash field implements dag.OperationWithFiles and GetFiles returns that field; Write stores the tree built by makeExtraTree (over all operations' GetFiles) and references it from the commit tree before StoreTree")
	p := w.Pkg("entities/bug")
	dp := w.Pkg("entity/dag")
	owf, _ := dp.Types.Scope().Lookup("OperationWithFiles").Type().Underlying().(*types.Interface)
	n := 0
	for _, name := range p.Types.Scope().Names() {
		tn, ok := p.Types.Scope().Lookup(name).(*types.TypeName)
		if !ok || !strings.HasSuffix(name, "Operation") {
			continue
		}
		st, ok := tn.Type().Underlying().(*types.Struct)
		if !ok {
			continue
		}
		for i := 0; i < st.NumFields(); i++ {
			f := st.Field(i)
			if f.Type().String() != "[]"+modPath+"/repository.Hash" {
				continue
			}
			n++
			c.Sites++
			impl := owf != nil && types.Implements(types.NewPointer(tn.Type()), owf)
			if !impl {
				c.Violate("R4.4", name+":GetFiles", w.Pos(tn.Pos()), name+" carries file hashes in "+f.Name()+" but does not implement OperationWithFiles: the blobs are not referenced from the commit and git may prune or not transfer them")
				continue
			}
			gf := w.Method("entities/bug", name, "GetFiles")
			okRet := gf != nil
			if gf != nil {
				for _, r := range Returns(gf) {
					if !hasField(r.Results[0], f.Name()) {
						okRet = false
					}
				}
			}
			c.Check(okRet, "R4.4", name+":GetFiles", w.Pos(tn.Pos()), "GetFiles returns ."+f.Name(), name+".GetFiles does not return the "+f.Name()+" field")
		}
	}
	if n < 3 {
		c.Violate("R4.4", "expected:operations-with-files", "entities/bug", fmt.Sprintf("%d operation types with file lists (reference 3)", n))
	}
	wr := w.Method("entity/dag", "operationPack", "Write")
	mk := w.Method("entity/dag", "operationPack", "makeExtraTree")
	if wr == nil || mk == nil {
		c.Undecided("R4.4", "anchor:makeExtraTree", "entity/dag", "not found")
		return
	}
	// makeExtraTree: ranges over Operations, asserts OperationWithFiles, appends an entry per GetFiles element
	okMk := false
	for _, cl := range Calls(mk) {
		if strings.HasSuffix(cl.Name, "OperationWithFiles.GetFiles") {
			if hasField(cl.Recv(), "Operations") {
				okMk = unconditionalInLoopExceptOk(w, cl.Instr)
			}
		}
	}
	c.Check(okMk, "R4.4", "operationPack.makeExtraTree:all-operations", w.FnPos(mk), "collects GetFiles of every operation of the pack", "makeExtraTree does not collect the files of every operation")
	{
		var exits []string
		for _, e := range earlyLoopExitsNoFail(mk) {
			exits = append(exits, w.InstrPos(e.From.Instrs[len(e.From.Instrs)-1]))
		}
		c.Check(len(exits) == 0, "R4.4", "operationPack.makeExtraTree:every-file-visited", w.FnPos(mk), "no loop over operations or files is left before its end", "a loop of makeExtraTree is left early at "+strings.Join(exits, ", ")+": the files listed after that point (a hash repeated before a new one, say) are not referenced by the commit — the operation is recorded, but the blob is unreachable, is not pushed and is collected by git gc")
	}
	// every Hash stored in the entries comes from GetFiles
	okEntries := false
	for _, b := range mk.Blocks {
		for _, ins := range b.Instrs {
			if st, ok := ins.(*ssa.Store); ok {
				if fa, ok := st.Addr.(*ssa.FieldAddr); ok && fieldName(fa) == "Hash" {
					okEntries = hasOriginCall(st.Val, "entity/dag.OperationWithFiles.GetFiles", -1) != nil
				}
			}
		}
	}
	c.Check(okEntries, "R4.4", "operationPack.makeExtraTree:entries", w.FnPos(mk), "one tree entry per attached file hash", "the extra tree entries do not point at the operations' files")
	// Write: StoreTree(extraTree) result is the Hash of an entry appended to tree, before the final StoreTree
	okW := false
	whyCond := ""
	for _, cl := range Calls(wr) {
		if !strings.HasSuffix(cl.Name, ".StoreTree") {
			continue
		}
		if hasOriginCall(cl.Args()[0], "entity/dag.operationPack.makeExtraTree", -1) == nil {
			continue
		}
		// the extra tree is stored whenever it has entries: the only condition is on its length
		for _, cc := range controlConds(cl.Block(), nil) {
			okCond := false
			if bo, isBo := cc.If.Cond.(*ssa.BinOp); isBo {
				if lc, isCall := bo.X.(*ssa.Call); isCall {
					if bi, isB := lc.Common().Value.(*ssa.Builtin); isB && bi.Name() == "len" && hasOriginCall(lc.Common().Args[0], "entity/dag.operationPack.makeExtraTree", -1) != nil {
						okCond = true
					}
				}
				if isErrorType(bo.X.Type()) {
					okCond = true // a previous step succeeded
				}
			}
			if !okCond {
				whyCond = "storing the tree of attached files is additionally conditional on " + w.InstrPos(cc.If) + ": the files attached by some packs are not referenced from their commit, git does not transfer them and gc deletes them"
			}
		}
		// its result is stored in a TreeEntry.Hash that is appended to the slice passed to another StoreTree
		for _, b := range wr.Blocks {
			for _, ins := range b.Instrs {
				if st, ok := ins.(*ssa.Store); ok {
					if fa, ok := st.Addr.(*ssa.FieldAddr); ok && fieldName(fa) == "Hash" {
						if hc := hasOriginCall(st.Val, cl.Name, 0); hc != nil && hc == cl.Value() {
							okW = true
						}
					}
				}
			}
		}
	}
	c.Check(okW, "R4.4", "operationPack.Write:extra-tree-referenced", w.FnPos(wr), "the stored extra tree is referenced from the commit's tree", "the tree of attached files is not stored or not referenced from the commit tree")
	c.Check(whyCond == "", "R4.4", "operationPack.Write:extra-tree-whenever-files", w.FnPos(wr), "stored whenever there are attached files", whyCond)
}

func unconditionalInLoopExceptOk(w *World, ins ssa.Instruction) bool {
	hdr := enclosingLoopHeader(ins.Block())
	var stop *ssa.BasicBlock
	if hdr != nil {
		stop = hdr.Idom()
	}
	for _, cc := range controlConds(ins.Block(), stop) {
		if isLoopHeader(cc.If.Block()) {
			continue
		}
		if ex, ok := cc.If.Cond.(*ssa.Extract); ok && ex.Index == 1 && cc.Edge == 0 {
			if _, isTA := ex.Tuple.(*ssa.TypeAssert); isTA {
				// the other edge (not an OperationWithFiles) must go on with the next element, not leave the loop
				other := cc.If.Block().Succs[1]
				if hdr != nil && (other == hdr || inLoop(other, hdr)) {
					continue
				}
				return false
			}
		}
		return false
	}
	return true
}

// R4.5
func checkValidateBeforePersist(c *Ctx) {
	w := c.W
	eff := newEffects(w)
	c.Doc("R4.5", "in Entity.Commit, operationPack.Write, version.Write and Identity.Commit the first object write is dominated by the success edge of the receiver's Validate()")
	for _, t := range []struct{ pkg, typ, m string }{
		{"entity/dag", "Entity", "Commit"}, {"entity/dag", "operationPack", "Write"},
		{"entities/identity", "version", "Write"}, {"entities/identity", "Identity", "Commit"},
	} {
		fn := w.Method(t.pkg, t.typ, t.m)
		key := t.typ + "." + t.m
		if fn == nil {
			c.Undecided("R4.5", "anchor:"+key, t.pkg, "not found")
			continue
		}
		c.seeFn(funcName(fn))
		var vals []*Call
		for _, cl := range Calls(fn) {
			if strings.HasSuffix(cl.Name, "."+t.typ+".Validate") && cl.Value() != nil {
				if p, ok := cl.Recv().(*ssa.Parameter); ok && p == fn.Params[0] {
					vals = append(vals, cl)
				}
			}
		}
		bad := ""
		n := 0
		for _, cl := range Calls(fn) {
			c.Sites++
			se := eff.SiteEffects(cl)
			if len(effectsOfClass(se, "OBJ", "REF")) == 0 {
				continue
			}
			n++
			ok := false
			for _, v := range vals {
				if dominatedBySuccess(v.Value(), cl.Instr) {
					ok = true
				}
			}
			if !ok {
				bad = cl.Name + " at " + w.InstrPos(cl.Instr)
			}
		}
		c.Check(bad == "" && n > 0, "R4.5", key, w.FnPos(fn), "every write is dominated by a successful Validate() of the receiver", "a write ("+bad+") is reachable without a successful Validate() of the receiver")
	}
}

// R4.6
func checkOpFieldValidation(c *Ctx) {
	w := c.W
	c.Doc("R4.6", "in each operation's Validate every exported serialised payload field is read, and every util/text predicate applied to it guards a failure with the right polarity (Empty: fails when true; Safe, SafeOneLine, ValidUrl: fails when false); nested validators' errors are propagated")
	polarity := map[string]bool{"util/text.Empty": true, "util/text.Safe": false, "util/text.SafeOneLine": false, "util/text.ValidUrl": false}
	type target struct{ pkg, typ string }
	var targets []target
	p := w.Pkg("entities/bug")
	for _, name := range p.Types.Scope().Names() {
		if strings.HasSuffix(name, "Operation") {
			if _, ok := p.Types.Scope().Lookup(name).Type().Underlying().(*types.Struct); ok {
				targets = append(targets, target{"entities/bug", name})
			}
		}
	}
	targets = append(targets, target{"entity/dag", "SetMetadataOperation"})
	n := 0
	for _, t := range targets {
		fn := w.Method(t.pkg, t.typ, "Validate")
		if fn == nil {
			continue
		}
		c.seeFn(funcName(fn))
		st := w.Pkg(t.pkg).Types.Scope().Lookup(t.typ).Type().Underlying().(*types.Struct)
		read := map[string]bool{}
		for _, b := range fn.Blocks {
			for _, ins := range b.Instrs {
				if fa, ok := ins.(*ssa.FieldAddr); ok {
					read[fieldName(fa)] = true
				}
			}
		}
		for i := 0; i < st.NumFields(); i++ {
			f := st.Field(i)
			if f.Embedded() || !f.Exported() || f.Name() == "Files" {
				continue
			}
			n++
			c.Sites++
			c.Check(read[f.Name()], "R4.6", t.typ+".Validate:"+f.Name(), w.FnPos(fn), "field is examined by Validate", "the serialised field "+f.Name()+" is never examined by "+t.typ+".Validate: invalid content would be committed and then refused by every reader")
		}
		// predicate polarity
		for _, pg := range predGuards(fn, nil) {
			want, known := polarity[pg.Name]
			if !known {
				continue
			}
			c.Sites++
			flds := originFields(pg.Call.Common().Args[0])
			c.Check(pg.FailsWhen == want, "R4.6", fmt.Sprintf("%s.Validate:%s(%s)", t.typ, strings.TrimPrefix(pg.Name, "util/text."), strings.Join(flds, ",")), w.InstrPos(pg.Call), "polarity ok", "the check "+pg.Name+" fails on the wrong outcome")
		}
		// predicates whose result does not guard anything
		for _, cl := range Calls(fn) {
			if _, known := polarity[cl.Name]; !known || cl.Value() == nil {
				continue
			}
			guarded := false
			for _, pg := range predGuards(fn, nil) {
				if pg.Call == cl.Value() {
					guarded = true
				}
			}
			if !guarded {
				c.Violate("R4.6", t.typ+".Validate:unused-"+cl.Name, w.InstrPos(cl.Instr), "the result of "+cl.Name+" does not lead to a refusal")
			}
		}
		// nested Validate calls propagate
		for _, cl := range Calls(fn) {
			if strings.HasSuffix(cl.Name, ".Validate") && cl.Value() != nil && len(errValues(cl.Value())) > 0 {
				c.Sites++
				c.Check(errorPropagated(cl.Value(), nil), "R4.6", t.typ+".Validate:"+cl.Name, w.InstrPos(cl.Instr), "error propagated", "the error of "+cl.Name+" is dropped")
			}
		}
	}
	// reference instances (confirmed by reading; a missing one is a violation, new ones are simply checked)
	have := map[string]bool{}
	for _, o := range c.Obs {
		if o.Rule == "R4.6" && o.Verdict == "holds" {
			have[o.Key] = true
		}
	}
	for _, want := range []string{
		"AddCommentOperation.Validate:Safe(Message)",
		"CreateOperation.Validate:Empty(Title)", "CreateOperation.Validate:SafeOneLine(Title)", "CreateOperation.Validate:Safe(Message)",
		"EditCommentOperation.Validate:Safe(Message)", "EditCommentOperation.Validate:entity.Id.Validate",
		"LabelChangeOperation.Validate:entities/bug.Label.Validate",
		"SetStatusOperation.Validate:entities/common.Status.Validate",
		"SetTitleOperation.Validate:Empty(Title)", "SetTitleOperation.Validate:SafeOneLine(Title)", "SetTitleOperation.Validate:SafeOneLine(Was)",
		"SetMetadataOperation.Validate:SafeOneLine(NewMetadata)", "SetMetadataOperation.Validate:Safe(NewMetadata)", "SetMetadataOperation.Validate:entity.Id.Validate",
		"AddCommentOperation.Validate:entity/dag.OpBase.Validate", "CreateOperation.Validate:entity/dag.OpBase.Validate", "EditCommentOperation.Validate:entity/dag.OpBase.Validate",
		"LabelChangeOperation.Validate:entity/dag.OpBase.Validate", "SetStatusOperation.Validate:entity/dag.OpBase.Validate", "SetTitleOperation.Validate:entity/dag.OpBase.Validate",
		"SetMetadataOperation.Validate:entity/dag.OpBase.Validate",
	} {
		if !have[want] {
			c.Violate("R4.6", "expected:"+want, "entities/bug", "the content check "+want+" that the pinned tree performs is gone: such content would be committed locally and refused by every reader")
		}
	}
	// both label lists are validated
	if lf := w.Method("entities/bug", "LabelChangeOperation", "Validate"); lf != nil {
		flds := map[string]bool{}
		for _, cl := range CallsNamed(lf, "entities/bug.Label.Validate") {
			for _, f := range originFields(cl.Recv()) {
				flds[f] = true
			}
		}
		c.Check(flds["Added"] && flds["Removed"], "R4.6", "LabelChangeOperation.Validate:both-lists", w.FnPos(lf), "added and removed labels are validated", "not both label lists are validated")
	}
	if n < 8 {
		c.Violate("R4.6", "expected:op-fields", "entities/bug", fmt.Sprintf("%d payload fields found (reference ≥ 10)", n))
	}
}

// R4.7
func checkAuthorSplit(c *Ctx) {
	w := c.W
	c.Doc("R4.7", "Entity.Commit closes a pack when the next staged operation's author id differs from the current pack's author id")
	fn := w.Method("entity/dag", "Entity", "Commit")
	if fn == nil {
		c.Undecided("R4.7", "anchor:Entity.Commit", "entity/dag", "not found")
		return
	}
	ok := false
	for _, b := range fn.Blocks {
		for _, ins := range b.Instrs {
			bo, isBo := ins.(*ssa.BinOp)
			if !isBo || (bo.Op != token.NEQ && bo.Op != token.EQL) {
				continue
			}
			cx, okx := bo.X.(*ssa.Call)
			cy, oky := bo.Y.(*ssa.Call)
			if !okx || !oky {
				continue
			}
			nx, _ := callName(cx.Common())
			ny, _ := callName(cy.Common())
			if !strings.HasSuffix(nx, ".Id") || !strings.HasSuffix(ny, ".Id") {
				continue
			}
			c.Sites++
			fromStaging := hasOriginCall(cx.Common().Value, "entity/dag.Operation.Author", -1) != nil || hasOriginCall(cy.Common().Value, "entity/dag.Operation.Author", -1) != nil
			if !fromStaging {
				continue
			}
			// the "differs" edge leaves the inner loop
			for _, u := range condUsers(bo) {
				e := 0
				if u.Neg {
					e = 1
				}
				if bo.Op == token.EQL {
					e = 1 - e
				}
				diff := u.If.Block().Succs[e]
				if !reaches(diff, u.If.Block()) || !sameInnerLoop(diff, u.If.Block()) {
					ok = true
				}
			}
		}
	}
	c.Check(ok, "R4.7", "Entity.Commit:split-per-author", w.FnPos(fn), "a change of author id closes the pack", "staged operations of different authors are not split into separate packs")
	// an operation taken off the staging list goes into the pack being built: after the pop, the append of that
	// iteration has happened or cannot be avoided
	{
		var pops []*ssa.Store
		var appends []*ssa.Call
		for _, b := range fn.Blocks {
			for _, ins := range b.Instrs {
				if st, isSt := ins.(*ssa.Store); isSt {
					if fa, isFA := st.Addr.(*ssa.FieldAddr); isFA && fieldName(fa) == "staging" {
						if sl, isSl := st.Val.(*ssa.Slice); isSl && sl.Low != nil && enclosingLoopHeader(b) != nil {
							pops = append(pops, st)
						}
					}
				}
				if cv, isCall := ins.(*ssa.Call); isCall {
					if bi, isB := cv.Common().Value.(*ssa.Builtin); isB && bi.Name() == "append" && enclosingLoopHeader(b) != nil {
						if _, fld, isF := loadOfField(cv.Common().Args[0]); !isF || fld != "ops" {
							appends = append(appends, cv)
						}
					}
				}
			}
		}
		bad := ""
		for _, pop := range pops {
			c.Sites++
			hdr := enclosingLoopHeader(pop.Block())
			covered := false
			inApp := map[*ssa.BasicBlock]bool{}
			for _, ap := range appends {
				if enclosingLoopHeader(ap.Block()) == hdr {
					inApp[ap.Block()] = true
					if instrDominates(ap, pop) {
						covered = true
					}
					if ap.Block() == pop.Block() {
						covered = true
					}
				}
			}
			if covered {
				continue
			}
			// from the pop, can the iteration end (back to the header or out of the loop) without an append?
			seen := map[*ssa.BasicBlock]bool{}
			q := []*ssa.BasicBlock{}
			for _, sb := range pop.Block().Succs {
				q = append(q, sb)
			}
			for len(q) > 0 && bad == "" {
				x := q[0]
				q = q[1:]
				if seen[x] {
					continue
				}
				seen[x] = true
				if inApp[x] {
					continue
				}
				if x == hdr || !inLoop(x, hdr) {
					bad = "after the operation was taken off the staging list at " + w.InstrPos(pop) + " the iteration can end without it having been put into the pack"
					break
				}
				q = append(q, x.Succs...)
			}
		}
		c.Check(len(pops) > 0 && bad == "", "R4.7", "Entity.Commit:popped-operation-is-packed", w.FnPos(fn), "every operation removed from the staging list is in the pack", bad+": when the author changes, the first operation of the next author is dropped — Commit reports success and the acknowledged operation is stored nowhere")
	}
}

func sameInnerLoop(a, b *ssa.BasicBlock) bool {
	return enclosingLoopHeader(a) == enclosingLoopHeader(b)
}

// entity id = id of the first operation
func checkEntityIdFirstOp(c *Ctx) {
	w := c.W
	c.Doc("R4.8", "Entity.Id() is the Id() of FirstOp(), and FirstOp() returns element 0 of the stored operations (or of the staging area when nothing is stored)")
	idf := w.Method("entity/dag", "Entity", "Id")
	fo := w.Method("entity/dag", "Entity", "FirstOp")
	if idf == nil || fo == nil {
		c.Undecided("R4.8", "anchor:Entity.Id", "entity/dag", "not found")
		return
	}
	ok := false
	for _, r := range Returns(idf) {
		if ic := hasOriginCall(r.Results[0], "entity/dag.Operation.Id", -1); ic != nil {
			if hasOriginCall(ic.Common().Value, "entity/dag.Entity.FirstOp", -1) != nil {
				ok = true
			}
		}
	}
	c.Check(ok, "R4.8", "Entity.Id:first-op", w.FnPos(idf), "id of the first operation", "Entity.Id() is not the id of the first operation")
	// FirstOp: first return inside range over ops must yield the first element: returns within a loop body on the first iteration
	okF := true
	nRet := 0
	for _, r := range Returns(fo) {
		if isNilConst(r.Results[0]) {
			continue
		}
		nRet++
		u, isU := r.Results[0].(*ssa.UnOp)
		if !isU {
			okF = false
			continue
		}
		ia, isIA := u.X.(*ssa.IndexAddr)
		if !isIA {
			okF = false
			continue
		}
		_, fld, isF := loadOfField(ia.X)
		if !isF || (fld != "ops" && fld != "staging") {
			okF = false
		}
		if k, ok := foldInt(ia.Index); !ok || k != 0 {
			okF = false
		}
	}
	c.Check(okF && nRet == 2, "R4.8", "Entity.FirstOp:element-zero", w.FnPos(fo), "first stored operation, else first staged", "FirstOp does not return the first element of ops/staging")
}

// foldInt folds constant integer additions (go/ssa leaves "-1 + 1" of a range loop that returns
// in its first iteration unfolded).
func foldInt(v ssa.Value) (int64, bool) {
	if k, ok := constInt(v); ok {
		return k, true
	}
	if bo, ok := v.(*ssa.BinOp); ok && bo.Op == token.ADD {
		a, oka := foldInt(bo.X)
		b, okb := foldInt(bo.Y)
		if oka && okb {
			return a + b, true
		}
	}
	return 0, false
}

// R4.9: a version of an identity is modified in place only while it is neither stored nor
// identified: the identity's id is the id of its first version, predicted from the bytes that
// will be written, so a first version whose id was already computed (and possibly handed to
// operations as their author) must not change any more.
func checkFirstVersionFrozen(c *Ctx) {
	w := c.W
	c.Doc("R4.9", "in every method of Identity that modifies a version in place (version.SetMetadata), every path to the modification either appended a fresh Clone first, or took the false edge of 'last version is committed (commitHash != \"\")' and the false edge of one of 'it is the only version', 'its id is not unset', 'its id is not empty': a version that is stored, or whose id was already computed, is never changed")
	unset, okU := pkgConstString(w, "entity", "UnsetId")
	if !okU {
		unset = "unset"
	}
	n := 0
	for _, fn := range w.ModFns {
		if isInstance(fn) || fnPkgPath(fn) != modPath+"/entities/identity" || w.isTestHelper(fn) || len(fn.Blocks) == 0 {
			continue
		}
		if fn.Signature.Recv() == nil || typeShortName(fn.Signature.Recv().Type()) != "entities/identity.Identity" {
			continue
		}
		for _, cl := range CallsNamed(fn, "entities/identity.version.SetMetadata") {
			n++
			c.Sites++
			c.seeFn(funcName(fn))
			target := cl.Block()
			cloneBlock := map[*ssa.BasicBlock]bool{}
			for _, cc := range CallsNamed(fn, "entities/identity.version.Clone") {
				cloneBlock[cc.Block()] = true
			}
			// classify a branch edge
			classify := func(b *ssa.BasicBlock, succ int) string {
				iff, isIf := b.Instrs[len(b.Instrs)-1].(*ssa.If)
				if !isIf {
					return ""
				}
				bo, isBo := iff.Cond.(*ssa.BinOp)
				if !isBo {
					return ""
				}
				op := bo.Op
				if succ == 1 {
					op = negateOp(op)
				}
				if lc, isCall := bo.X.(*ssa.Call); isCall {
					if bi, isB := lc.Common().Value.(*ssa.Builtin); isB && bi.Name() == "len" {
						if k, isK := constInt(bo.Y); isK && k == 1 && op == token.NEQ {
							return "not-only-version"
						}
					}
					return ""
				}
				_, fld, isFld := loadOfField(bo.X)
				if !isFld {
					return ""
				}
				s, isS := constString(bo.Y)
				if !isS {
					return ""
				}
				switch {
				case fld == "commitHash" && s == "" && op == token.EQL:
					return "not-committed"
				case fld == "id" && (s == unset || s == "") && op == token.EQL:
					return "id-not-computed"
				}
				return ""
			}
			bad := ""
			var dfs func(b *ssa.BasicBlock, facts map[string]bool, onPath map[*ssa.BasicBlock]bool)
			dfs = func(b *ssa.BasicBlock, facts map[string]bool, onPath map[*ssa.BasicBlock]bool) {
				if bad != "" || onPath[b] || cloneBlock[b] {
					return
				}
				if b == target {
					if !(facts["not-committed"] && (facts["not-only-version"] || facts["id-not-computed"])) {
						var missing []string
						if !facts["not-committed"] {
							missing = append(missing, "the last version may already be stored")
						}
						if !(facts["not-only-version"] || facts["id-not-computed"]) {
							missing = append(missing, "it may be the first version with its id already computed")
						}
						bad = strings.Join(missing, "; ")
					}
					return
				}
				onPath[b] = true
				for i, s := range b.Succs {
					f2 := facts
					if k := classify(b, i); k != "" {
						f2 = map[string]bool{k: true}
						for kk := range facts {
							f2[kk] = true
						}
					}
					dfs(s, f2, onPath)
				}
				delete(onPath, b)
			}
			dfs(fn.Blocks[0], map[string]bool{}, map[*ssa.BasicBlock]bool{})
			c.Check(bad == "", "R4.9", funcName(fn)+":version-modified-only-while-unidentified", w.InstrPos(cl.Instr), "in-place modification only of a version that is neither stored nor identified", "a version is modified in place on a path where "+bad+": the identity's id (hash of its first version) changes after it was handed out, operations already signed with it can no longer resolve their author")
		}
	}
	if n == 0 {
		c.Violate("R4.9", "expected:in-place-version-modification", "entities/identity", "no in-place modification of a version found (reference: Identity.SetMetadata)")
	}
	// version.Id() caches the predicted id, so the value handed out is the value compared later
	if vid := w.Method("entities/identity", "version", "Id"); vid != nil {
		cached := false
		for _, cl := range CallsNamed(vid, "entity.DeriveId") {
			if cv, isCall := cl.Instr.(*ssa.Call); isCall {
				for _, r := range *cv.Referrers() {
					if st, isSt := r.(*ssa.Store); isSt {
						if fa, isFA := st.Addr.(*ssa.FieldAddr); isFA && fieldName(fa) == "id" {
							cached = true
						}
					}
				}
			}
		}
		c.Check(cached, "R4.9", "version.Id:predicted-id-recorded", w.FnPos(vid), "the predicted id is recorded in the version", "version.Id() does not record the id it predicts: SetMetadata cannot know the id was handed out")
	}
}

// R4.10: the payload of an operation is never shared with state that is modified in place. An
// operation's id is the hash of its serialised payload and is cached after the first computation;
// if a snapshot's slice that is appended to / sorted in place aliases the slice of an operation,
// a later operation's Apply rewrites the earlier one's payload after its id was handed out.
func checkPayloadNotAliased(c *Ctx) {
	w := c.W
	c.Doc("R4.10", "in the Apply methods of package entities/bug, a Snapshot field of slice type that is modified in place somewhere in the package (sorted, stored through an index, appended to itself) is never assigned an operation's own slice field: only fresh slices or appends")
	sp := w.SSAPkg("entities/bug")
	if sp == nil {
		c.Undecided("R4.10", "anchor:entities/bug", "entities/bug", "package not found")
		return
	}
	isSnapField := func(v ssa.Value) (string, bool) {
		fa, ok := v.(*ssa.FieldAddr)
		if !ok {
			return "", false
		}
		if typeShortName(fa.X.Type()) != "entities/bug.Snapshot" {
			return "", false
		}
		return fieldName(fa), true
	}
	var fns []*ssa.Function
	for _, f := range w.ModFns {
		if fnPkgPath(f) == modPath+"/entities/bug" && !isInstance(f) && !w.isTestHelper(f) {
			fns = append(fns, f)
		}
	}
	// fields modified in place
	inPlace := map[string]string{}
	for _, f := range fns {
		for _, b := range f.Blocks {
			for _, ins := range b.Instrs {
				switch x := ins.(type) {
				case *ssa.Call:
					n, _ := callName(x.Common())
					if strings.HasPrefix(n, "sort.") || strings.HasPrefix(n, "slices.Sort") {
						for _, a := range x.Common().Args {
							for _, fld := range originFields(a) {
								inPlace[fld] = n + " in " + funcName(f)
							}
						}
					}
					if bi, ok := x.Common().Value.(*ssa.Builtin); ok && bi.Name() == "append" {
						for _, fld := range originFields(x.Common().Args[0]) {
							inPlace[fld] = "append in " + funcName(f)
						}
					}
				case *ssa.Store:
					if ia, ok := x.Addr.(*ssa.IndexAddr); ok {
						for _, fld := range originFields(ia.X) {
							inPlace[fld] = "indexed store in " + funcName(f)
						}
					}
				}
			}
		}
	}
	n := 0
	done := map[string]bool{}
	for _, f := range fns {
		if f.Name() != "Apply" || f.Signature.Recv() == nil {
			continue
		}
		c.seeFn(funcName(f))
		recv := f.Params[0]
		for _, b := range f.Blocks {
			for _, ins := range b.Instrs {
				st, ok := ins.(*ssa.Store)
				if !ok {
					continue
				}
				fld, isSnap := isSnapField(st.Addr)
				if !isSnap {
					continue
				}
				if _, isSlice := st.Val.Type().Underlying().(*types.Slice); !isSlice {
					continue
				}
				n++
				c.Sites++
				how, mutated := inPlace[fld]
				aliases := ""
				for _, o := range origins(st.Val) {
					if o.Kind == "field" {
						// a field of the operation (the receiver), taken as a whole slice
						for _, o2 := range origins(o.Val) {
							if o2.Kind == "param" && o2.Val == ssa.Value(recv) {
								aliases = o.Name
							}
						}
						if o.Val == ssa.Value(recv) {
							aliases = o.Name
						}
					}
				}
				key := fmt.Sprintf("%s:Snapshot.%s", strings.TrimPrefix(funcName(f), "entities/bug."), fld)
				if done[key] {
					if !(aliases != "" && mutated) {
						continue
					}
					key += ":aliased"
				}
				done[key] = true
				if aliases != "" && mutated {
					c.Violate("R4.10", key, w.InstrPos(st), fmt.Sprintf("Snapshot.%s is assigned the operation's own slice .%s, and Snapshot.%s is modified in place (%s): a later operation rewrites this operation's payload after its id was computed — what is committed differs from what was accepted, and the id no longer is the hash of the stored form", fld, aliases, fld, how))
				} else {
					c.Hold("R4.10", key, w.InstrPos(st), "a fresh slice / an append")
				}
			}
		}
	}
	c.Check(n >= 4 && len(inPlace) >= 1, "R4.10", "expected:snapshot-slice-stores", "entities/bug", fmt.Sprintf("%d stores of slices into Snapshot fields examined; in-place modified fields: %d", n, len(inPlace)), fmt.Sprintf("only %d slice stores into Snapshot fields / %d in-place modified fields found", n, len(inPlace)))
}

// R4.11: an object's state takes the result of a fallible call only when the call succeeded. A field of
// the receiver assigned straight from `x, err = f()` holds f's zero value after a failure: Entity.Commit
// that forgets its last commit this way writes a parent-less commit at the next attempt and moves the ref
// onto it — the earlier history becomes unreachable and the entity gets another id.
func checkStateOnlyOnSuccess(c *Ctx, rule string) {
	w := c.W
	c.Doc(rule, "in packages entity/dag, entities/identity, entities/bug and cache: a store into a field reachable from the method's receiver whose value is a hash or an id returned by a call that also returns an error is dominated by the success edge of that call")
	n := 0
	for _, f := range w.ModFns {
		p := fnPkgPath(f)
		if isInstance(f) || w.isTestHelper(f) || len(f.Blocks) == 0 {
			continue
		}
		if p != modPath+"/entity/dag" && p != modPath+"/entities/identity" && p != modPath+"/entities/bug" && p != modPath+"/cache" {
			continue
		}
		if f.Signature.Recv() == nil || len(f.Params) == 0 {
			continue
		}
		recv := f.Params[0]
		for _, b := range f.Blocks {
			for _, ins := range b.Instrs {
				st, ok := ins.(*ssa.Store)
				if !ok {
					continue
				}
				fa, ok := st.Addr.(*ssa.FieldAddr)
				if !ok {
					continue
				}
				// the struct written is the receiver (or reached from it)
				fromRecv := fa.X == ssa.Value(recv)
				if !fromRecv {
					for _, o := range origins(fa.X) {
						if o.Kind == "param" && o.Val == ssa.Value(recv) {
							fromRecv = true
						}
						if o.Kind == "field" {
							for _, o2 := range origins(o.Val) {
								if o2.Kind == "param" && o2.Val == ssa.Value(recv) {
									fromRecv = true
								}
							}
						}
					}
				}
				if !fromRecv {
					continue
				}
				ex, ok := st.Val.(*ssa.Extract)
				if !ok {
					continue
				}
				cv, ok := ex.Tuple.(*ssa.Call)
				if !ok || !errResultOfCall(cv) || isErrorType(ex.Type()) {
					continue
				}
				// state that names git objects (commit / tree / blob hashes) or entities: its zero value is not "nothing happened" but "no parent"
				if tn := typeShortName(ex.Type()); tn != "repository.Hash" && tn != "entity.Id" {
					continue
				}
				n++
				c.Sites++
				c.seeFn(funcName(f))
				nm, _ := callName(cv.Common())
				c.Check(dominatedBySuccess(cv, st), rule, funcName(f)+":"+fieldName(fa)+"←"+nm, w.InstrPos(st), "assigned on the success edge of the call",
					"the field ."+fieldName(fa)+" is assigned the result of "+nm+" before its error is tested: after a failure the object holds the zero value (for Entity.lastCommit: the next commit is written without parent and the ref moved onto it)")
			}
		}
	}
	c.Check(n >= 1, rule, "expected:state-from-fallible-calls", "module", fmt.Sprintf("%d field stores fed by a fallible call", n), "no field store fed by a fallible call found")
}
