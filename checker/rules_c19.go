package main

import (
	"fmt"
	"go/token"
	"strings"
	"syscall"

	"golang.org/x/tools/go/ssa"
)

func init() {
	register("C19",
		"Process schedules cannot be enumerated; the acquire/release discipline is decided: (R19.1) every cobra.Command literal whose PreRunE loads the backend has a RunE that is execenv.CloseBackend(env, …) or a function closing the backend on all its exits, and every direct call of a LoadBackend pre-run is followed by a deferred Close; (R19.2) inside execenv an error return reachable after the backend was loaded closes it; CloseBackend closes on success and on failure of the wrapped function; (R19.3) repoIsAvailable removes a lock file only on the edge where its holder is not running, refuses with the pid otherwise; lock() writes the file only after that check succeeded; RepoCache.Close removes the lock file on its success path; (R19.4) the lock file is created with exclusive-create semantics.",
		[]string{"os.Process.Signal(0) reports the state of the process truthfully; pid reuse and kill timing are not modelled", "cobra runs RunE only when PreRunE succeeded"},
		runC19)
}

func isBackendClose(i ssa.Instruction) bool {
	ci, ok := i.(ssa.CallInstruction)
	if !ok {
		return false
	}
	n, _ := callName(ci.Common())
	return n == "cache.RepoCache.Close"
}

// closesBackendOnAllExits: every path from entry to a return passes a RepoCache.Close call.
func closesBackendOnAllExits(fn *ssa.Function) (bool, []*ssa.BasicBlock) {
	bad, p, _ := pathSearch(fn, nil, nil, isAnyReturn, isBackendClose, false)
	return !bad, p
}

func runC19(c *Ctx) {
	w := c.W
	c.Doc("R19.1", "PreRunE = execenv.LoadBackend*(env) ⇒ RunE = execenv.CloseBackend(env, …) or a function closing the backend on every exit; a direct call of the pre-run is followed by a deferred Close")
	c.Doc("R19.2", "in execenv, an error return reachable after the backend was loaded successfully passes Backend.Close(); CloseBackend calls Close whatever the wrapped function returned")
	c.Doc("R19.3", "lock removal only on the !IsRunning edge; live holder ⇒ error; lock written only after repoIsAvailable succeeded; Close removes the lock on success")
	c.Doc("R19.4", "the lock file is opened with O_CREATE|O_EXCL (no truncating Create after a separate existence test)")
	checkWebUIAndIsRunning(c)
	checkLockContentParsable(c)
	checkInterruptCleaners(c)
	checkNoSendBeforeHandover(c, "R19.9")
	checkNoValidationBetweenPreRunAndRun(c)
	checkOpenEventsRelayed(c)
	checkSignalsCaught(c, "R19.12")
	checkCleanerAfterOpen(c, "R19.14")
	checkServerStoppedBeforeLockReleased(c, "R19.13")
	isLoad := func(n string) bool {
		return n == "commands/execenv.LoadBackend" || n == "commands/execenv.LoadBackendEnsureUser"
	}
	nCmd, nDirect := 0, 0
	for _, fn := range w.ModFns {
		if isInstance(fn) || !strings.HasPrefix(fnPkgPath(fn), modPath+"/commands") {
			continue
		}
		for _, b := range fn.Blocks {
			for _, ins := range b.Instrs {
				st, ok := ins.(*ssa.Store)
				if !ok {
					continue
				}
				fa, ok := st.Addr.(*ssa.FieldAddr)
				if !ok || fieldName(fa) != "PreRunE" || !strings.HasSuffix(typeShortName(fa.X.Type()), "cobra.Command") {
					continue
				}
				var load *ssa.Call
				for _, o := range origins(st.Val) {
					if o.Kind == "call" && isLoad(o.Name) {
						load = o.Val.(*ssa.Call)
					}
				}
				if load == nil {
					continue
				}
				nCmd++
				c.Sites++
				c.seeFn(funcName(fn))
				key := funcName(fn) + ":command"
				pos := w.InstrPos(st)
				var runE ssa.Value
				for _, s2 := range storedFieldValues(fn, fa.X, "RunE") {
					runE = s2.Val
				}
				if runE == nil {
					for _, s2 := range storedFieldValues(fn, fa.X, "Run") {
						runE = s2.Val
					}
				}
				if runE == nil {
					c.Violate("R19.1", key, pos, "the command loads the backend in PreRunE but has no RunE that could release it")
					continue
				}
				ok2, why := false, ""
				for _, o := range origins(runE) {
					switch {
					case o.Kind == "call" && o.Name == "commands/execenv.CloseBackend":
						ok2 = true
					case o.Kind == "closure" || o.Kind == "func":
						var f *ssa.Function
						if mc, isMC := o.Val.(*ssa.MakeClosure); isMC {
							f = mc.Fn.(*ssa.Function)
						} else if ff, isF := o.Val.(*ssa.Function); isF {
							f = ff
						}
						if f != nil {
							good, p := closesViaCallees(w, f, 0)
							ok2 = good
							if !good {
								why = "RunE can return without closing the backend: " + blocksString(w, p)
							}
						}
					default:
						why = "RunE is neither execenv.CloseBackend(env, …) nor a function literal"
					}
				}
				c.Check(ok2, "R19.1", key, pos, "backend released by RunE on all exits", "the command takes the repository lock in PreRunE and "+why+" — the lock file stays behind")
			}
		}
		// direct calls of the pre-run function value
		for _, cl := range Calls(fn) {
			if cl.Name != "" {
				continue
			}
			v := cl.Instr.Common().Value
			lc, ok := v.(*ssa.Call)
			if !ok {
				continue
			}
			if n, _ := callName(lc.Common()); !isLoad(n) {
				continue
			}
			if fnPkgPath(fn) == modPath+"/commands/execenv" {
				continue
			}
			nDirect++
			c.Sites++
			// a deferred close after the success of the call
			ok2 := false
			for _, d := range Calls(fn) {
				df, isDefer := d.Instr.(*ssa.Defer)
				if !isDefer {
					continue
				}
				closes := isBackendClose(df)
				if mc, isMC := df.Common().Value.(*ssa.MakeClosure); isMC {
					for _, inner := range Calls(mc.Fn.(*ssa.Function)) {
						if inner.Name == "cache.RepoCache.Close" {
							closes = true
						}
					}
				}
				if closes && cl.Value() != nil && dominatedBySuccess(cl.Value(), df) {
					// and no return between the success edge and the defer
					ok2 = true
					for _, sb := range successBlocks(cl.Value()) {
						if bad, _, _ := pathSearch(fn, nil, sb, isAnyReturn, func(i ssa.Instruction) bool { return i == ssa.Instruction(df) }, false); bad {
							ok2 = false
						}
					}
				}
			}
			c.Check(ok2, "R19.1", funcName(fn)+":direct-load", w.InstrPos(cl.Instr), "followed by a deferred Backend.Close()", "the backend is loaded directly and not closed by a defer on every path: the lock file stays behind")
		}
	}
	if nCmd < 25 {
		c.Violate("R19.1", "expected:commands", "commands", fmt.Sprintf("%d commands with a backend-loading PreRunE found (reference 34)", nCmd))
	}
	if nDirect < 5 {
		c.Violate("R19.1", "expected:direct-loads", "commands", fmt.Sprintf("%d direct LoadBackend calls found (reference 9 completion helpers)", nDirect))
	}

	// R19.2
	if ensure := w.Func("commands/execenv", "LoadBackendEnsureUser"); ensure != nil {
		for _, body := range ensure.AnonFuncs {
			c.seeFn(funcName(body))
			for _, cl := range Calls(body) {
				if cl.Name != "" {
					continue
				}
				lc, ok := cl.Instr.Common().Value.(*ssa.Call)
				if !ok {
					continue
				}
				if n, _ := callName(lc.Common()); n != "commands/execenv.LoadBackend" {
					continue
				}
				c.Sites++
				bad := false
				var path []*ssa.BasicBlock
				for _, sb := range successBlocks(cl.Value()) {
					if b, p, _ := pathSearch(body, nil, sb, func(i ssa.Instruction) bool {
						r, isR := i.(*ssa.Return)
						return isR && returnKind(r) != RetSuccess
					}, isBackendClose, false); b {
						bad, path = true, p
					}
				}
				c.Check(!bad && len(successBlocks(cl.Value())) > 0, "R19.2", "commands/execenv.LoadBackendEnsureUser:error-after-load-closes", w.InstrPos(cl.Instr), "an error after the backend was loaded closes it", "an error is returned after the backend was loaded (repository locked) without closing it; cobra will not run RunE, so nothing releases the lock: "+blocksString(w, path))
			}
		}
	} else {
		c.Undecided("R19.2", "anchor:execenv.LoadBackendEnsureUser", "commands/execenv", "not found")
	}
	checkNoCloseAfterFailedOpen(c, isBackendClose)
	if cb := w.Func("commands/execenv", "CloseBackend"); cb != nil {
		for _, body := range cb.AnonFuncs {
			// every return after the wrapped function ran passes Close, unless Backend == nil
			var run *Call
			for _, cl := range Calls(body) {
				if cl.Name == "" {
					run = cl
				}
			}
			ok := false
			if run != nil {
				bad, _, _ := pathSearch(body, run.Instr, nil, isAnyReturn, func(i ssa.Instruction) bool {
					if isBackendClose(i) {
						return true
					}
					// the "Backend == nil" early return
					if iff, isIf := i.(*ssa.If); isIf {
						if bo, isBo := iff.Cond.(*ssa.BinOp); isBo && (isNilConst(bo.X) || isNilConst(bo.Y)) && (hasField(bo.X, "Backend") || hasField(bo.Y, "Backend")) {
							return true
						}
					}
					return false
				}, false)
				ok = !bad
				// and Close is not conditional on the wrapped function's error
				for _, cl := range Calls(body) {
					if cl.Name != "cache.RepoCache.Close" {
						continue
					}
					for _, cc := range controlConds(cl.Block(), nil) {
						if bo, isBo := cc.If.Cond.(*ssa.BinOp); isBo {
							for _, ev := range errValues(run.Value()) {
								if bo.X == ev || bo.Y == ev {
									ok = false
								}
							}
						}
					}
				}
			}
			c.Check(ok, "R19.2", "commands/execenv.CloseBackend:closes-always", w.FnPos(body), "Close() runs whatever the wrapped function returned", "CloseBackend does not close the backend on every outcome of the wrapped function")
		}
	}

	// R19.3
	ra := w.Func("cache", "repoIsAvailable")
	if ra == nil {
		c.Undecided("R19.3", "anchor:cache.repoIsAvailable", "cache", "not found")
	} else {
		c.seeFn(funcName(ra))
		var isRun *ssa.Call
		for _, cl := range Calls(ra) {
			if cl.Name == "util/process.IsRunning" {
				isRun = cl.Value().(*ssa.Call)
			}
		}
		nRem := 0
		for _, cl := range Calls(ra) {
			if !strings.HasSuffix(cl.Name, ".Remove") {
				continue
			}
			nRem++
			c.Sites++
			ok := false
			if isRun != nil {
				for _, cc := range controlConds(cl.Block(), nil) {
					cond, edge := cc.If.Cond, cc.Edge
					if u, isU := cond.(*ssa.UnOp); isU && u.Op == token.NOT {
						cond, edge = u.X, 1-edge
					}
					if cond == ssa.Value(isRun) && edge == 1 {
						ok = true
					}
				}
			}
			c.Check(ok, "R19.3", "cache.repoIsAvailable:remove-only-dead-holder", w.InstrPos(cl.Instr), "lock removed only on the !IsRunning(pid) edge", "the lock file can be removed although its holder may be alive")
		}
		// live holder → error
		okErr := false
		if isRun != nil {
			for _, u := range condUsers(isRun) {
				e := 0
				if u.Neg {
					e = 1
				}
				if errorDirected(u.If.Block().Succs[e], defaultFail, 0) {
					okErr = true
				}
			}
			// the pid tested is the one parsed from the lock file
			if hasOriginCall(isRun.Common().Args[0], "strconv.Atoi", 0) == nil {
				okErr = false
			}
		}
		c.Check(okErr, "R19.3", "cache.repoIsAvailable:live-holder-refused", w.FnPos(ra), "a running holder (pid read from the lock file) is an error", "a lock held by a running process does not make the open fail")
		if nRem == 0 {
			c.Info("R19.3", "cache.repoIsAvailable:no-removal", w.FnPos(ra), "stale locks are not cleaned")
		}
	}
	lk := w.Method("cache", "RepoCache", "lock")
	if lk == nil {
		c.Undecided("R19.3", "anchor:RepoCache.lock", "cache", "not found")
	} else {
		c.seeFn(funcName(lk))
		var avail *Call
		for _, cl := range CallsNamed(lk, "cache.repoIsAvailable") {
			avail = cl
		}
		nCreate := 0
		for _, cl := range Calls(lk) {
			isCreate := strings.HasSuffix(cl.Name, ".Create") || strings.HasSuffix(cl.Name, ".OpenFile")
			if !isCreate {
				continue
			}
			nCreate++
			c.Sites++
			ok := avail != nil && avail.Value() != nil && dominatedBySuccess(avail.Value(), cl.Instr)
			c.Check(ok, "R19.3", "cache.RepoCache.lock:after-availability-check", w.InstrPos(cl.Instr), "the lock file is written only after repoIsAvailable succeeded", "the lock file is written without (or before) checking for a live holder")
			// R19.4
			excl := false
			if strings.HasSuffix(cl.Name, ".OpenFile") {
				if k, isK := constInt(cl.Args()[1]); isK {
					excl = k&0x80 != 0 && k&0x40 != 0 && k&0x200 == 0 // O_EXCL, O_CREAT, no O_TRUNC (linux values)
				}
			}
			c.Check(excl, "R19.4", "cache.RepoCache.lock:exclusive-create", w.InstrPos(cl.Instr), "created with O_CREATE|O_EXCL", "the lock file is created non-exclusively (truncating) after a separate existence test: two processes can both take the lock")
			// the pid written is ours
		}
		if nCreate == 0 {
			c.Violate("R19.3", "cache.RepoCache.lock:expected:create", w.FnPos(lk), "lock() no longer creates the lock file")
		}
		okPid := false
		for _, cl := range Calls(lk) {
			if cl.Name == "os.Getpid" {
				okPid = true
			}
		}
		c.Check(okPid, "R19.3", "cache.RepoCache.lock:own-pid", w.FnPos(lk), "records the pid of this process", "the lock file does not record this process' pid")
	}
	cl := w.Method("cache", "RepoCache", "Close")
	if cl != nil {
		c.seeFn(funcName(cl))
		isRemoveLock := func(i ssa.Instruction) bool {
			ci, ok := i.(ssa.CallInstruction)
			if !ok {
				return false
			}
			n, _ := callName(ci.Common())
			return strings.HasSuffix(n, ".Remove") && strings.Contains(n, "LocalStorage") || strings.HasSuffix(n, "billy/v5.Basic.Remove")
		}
		bad, p, _ := pathSearch(cl, nil, nil, func(i ssa.Instruction) bool {
			r, isR := i.(*ssa.Return)
			if !isR {
				return false
			}
			// `return storage.Remove(lockfile)` passes the call before the return
			return returnKind(r) != RetError
		}, isRemoveLock, false)
		c.Check(!bad, "R19.3", "cache.RepoCache.Close:removes-lock", w.FnPos(cl), "the success path removes the lock file", "Close can succeed without removing the lock file: "+blocksString(w, p))
	}
	// NewNamedRepoCache: lock is taken before load/build, and a lock error aborts
	nc := w.Func("cache", "NewNamedRepoCache")
	if nc != nil {
		for _, body := range nc.AnonFuncs {
			var lockCall *Call
			for _, c2 := range CallsNamed(body, "cache.RepoCache.lock") {
				lockCall = c2
			}
			ok := lockCall != nil && lockCall.Value() != nil
			if ok {
				for _, c2 := range Calls(body) {
					if c2.Name == "cache.RepoCache.load" || c2.Name == "cache.RepoCache.buildCache" {
						if !dominatedBySuccess(lockCall.Value(), c2.Instr) {
							ok = false
						}
					}
				}
			}
			c.Check(ok, "R19.3", "cache.NewNamedRepoCache:lock-before-use", w.FnPos(body), "the cache is loaded/built only after the lock was acquired", "the cache is loaded or built without holding the repository lock")
		}
	}
}

// closesViaCallees: all exits of f pass Backend.Close(), possibly inside a module callee that itself closes on all exits (runWipe).
func closesViaCallees(w *World, f *ssa.Function, depth int) (bool, []*ssa.BasicBlock) {
	stop := func(i ssa.Instruction) bool {
		if isBackendClose(i) {
			return true
		}
		if depth < 2 {
			if ci, ok := i.(ssa.CallInstruction); ok {
				if callee := ci.Common().StaticCallee(); callee != nil && w.inModule(callee) && len(callee.Blocks) > 0 {
					if ok2, _ := closesViaCallees(w, callee, depth+1); ok2 {
						return true
					}
				}
			}
		}
		return false
	}
	bad, p, _ := pathSearch(f, nil, nil, isAnyReturn, stop, false)
	return !bad, p
}

// R19.6: a command that opens the cache outside execenv (the web UI) closes it on every exit.
// R19.7: IsRunning answers "alive" for every outcome of signal 0 except "no such process".
func checkWebUIAndIsRunning(c *Ctx) {
	w := c.W
	c.Doc("R19.6", "in every function of package commands that registers a repository with a MultiRepoCache, every return reachable after the cache was opened successfully passes MultiRepoCache.Close / the handler's Close, or waits on a channel that a goroutine of the function closes only after closing the cache")
	c.Doc("R19.7", "process.IsRunning returns true when signal 0 was delivered (nil error) and when the error is EPERM (the process exists but belongs to someone else), false only for ESRCH / 'already finished' / unknown: a live holder of another user must not be taken for dead")
	n := 0
	for _, fn := range w.ModFns {
		if isInstance(fn) || !strings.HasPrefix(fnPkgPath(fn), modPath+"/commands") || fn.Parent() != nil || w.isTestHelper(fn) {
			continue
		}
		var reg *Call
		for _, cl := range Calls(fn) {
			if strings.HasSuffix(cl.Name, "MultiRepoCache.RegisterDefaultRepository") || strings.HasSuffix(cl.Name, "MultiRepoCache.RegisterRepository") {
				reg = cl
			}
		}
		if reg == nil {
			continue
		}
		n++
		c.seeFn(funcName(fn))
		// the open succeeded: success edge of the call consuming the event stream
		var opened []*ssa.BasicBlock
		for _, cl := range Calls(fn) {
			if cl.Value() == nil || len(errValues(cl.Value())) == 0 {
				continue
			}
			usesEvents := false
			for _, a := range cl.Args() {
				for _, o := range origins(a) {
					if o.Val == reg.Value() {
						usesEvents = true
					}
				}
			}
			if usesEvents {
				opened = append(opened, successBlocks(cl.Value())...)
			}
		}
		key := funcName(fn) + ":cache-closed-on-every-exit"
		if len(opened) == 0 {
			c.Undecided("R19.6", key, w.InstrPos(reg.Instr), "the point where the cache is known to be open was not recognised (no call consuming the build events with an error result)")
			continue
		}
		// channels closed by a goroutine of fn after it closed the cache
		closesCache := func(i ssa.Instruction) bool {
			ci, ok := i.(ssa.CallInstruction)
			if !ok {
				return false
			}
			nn, _ := callName(ci.Common())
			if strings.HasSuffix(nn, "MultiRepoCache.Close") || strings.HasSuffix(nn, "RepoCache.Close") {
				return true
			}
			// an io.Closer / handler whose Close reaches the cache's Close
			if strings.HasSuffix(nn, ".Close") {
				for _, callee := range w.SiteCallees(ci) {
					for r := range w.Reach([]*ssa.Function{callee}, nil) {
						if fnm := funcName(r); strings.HasSuffix(fnm, "MultiRepoCache.Close") {
							return true
						}
					}
				}
			}
			return false
		}
		doneChans := map[ssa.Value]bool{}
		for _, a := range fn.AnonFuncs {
			for _, b := range a.Blocks {
				for _, ins := range b.Instrs {
					cv, isCall := ins.(*ssa.Call)
					if !isCall {
						continue
					}
					bi, isB := cv.Common().Value.(*ssa.Builtin)
					var arg ssa.Value
					if isB && bi.Name() == "close" {
						// a cache close dominates this close(ch)
						dominated := false
						for _, b2 := range a.Blocks {
							for _, i2 := range b2.Instrs {
								if closesCache(i2) && instrDominates(i2, cv) {
									dominated = true
								}
							}
						}
						if !dominated {
							continue
						}
						arg = cv.Common().Args[0]
					} else if h := cv.Common().StaticCallee(); h != nil && len(h.Blocks) > 0 && fnPkgPath(h) == fnPkgPath(fn) {
						// the teardown extracted into a same-package helper: the helper closes one of its
						// channel parameters after it closed the cache
						for _, hb := range h.Blocks {
							for _, hi := range hb.Instrs {
								hc, isHC := hi.(*ssa.Call)
								if !isHC {
									continue
								}
								hbi, isHB := hc.Common().Value.(*ssa.Builtin)
								if !isHB || hbi.Name() != "close" {
									continue
								}
								dominated := false
								for _, b2 := range h.Blocks {
									for _, i2 := range b2.Instrs {
										if closesCache(i2) && instrDominates(i2, hc) {
											dominated = true
										}
									}
								}
								if !dominated {
									continue
								}
								for pi, p := range h.Params {
									if stripConv(hc.Common().Args[0]) == ssa.Value(p) && pi < len(cv.Common().Args) {
										arg = cv.Common().Args[pi]
									}
								}
							}
						}
						if arg == nil {
							continue
						}
					} else {
						continue
					}
					// the channel: a captured variable of the goroutine → its binding in fn
					if ld, isLd := arg.(*ssa.UnOp); isLd {
						if fv, isFV := ld.X.(*ssa.FreeVar); isFV {
							for _, ins2 := range allInstrs(fn) {
								if mc, isMC := ins2.(*ssa.MakeClosure); isMC && mc.Fn == a {
									for i, f2 := range a.FreeVars {
										if f2 == fv && i < len(mc.Bindings) {
											doneChans[mc.Bindings[i]] = true
										}
									}
								}
							}
						}
					}
				}
			}
		}
		isCloseOrWait := func(i ssa.Instruction) bool {
			if closesCache(i) {
				return true
			}
			if u, isU := i.(*ssa.UnOp); isU && u.Op == token.ARROW {
				if ld, isLd := u.X.(*ssa.UnOp); isLd && doneChans[ld.X] {
					return true
				}
				if doneChans[u.X] {
					return true
				}
			}
			return false
		}
		bad := ""
		for _, ob := range opened {
			c.Sites++
			if found, p, _ := pathSearch(fn, nil, ob, isAnyReturn, isCloseOrWait, false); found {
				bad = blocksString(w, p)
			}
		}
		c.Check(bad == "", "R19.6", key, w.InstrPos(reg.Instr), "every exit after the open closes the cache or waits for the teardown", "the command can return after the cache was opened without closing it or waiting for the teardown ("+bad+"): the lock file stays behind with the pid of a process that is gone")
	}
	if n == 0 {
		c.Violate("R19.6", "expected:multi-repo-cache-user", "commands", "no command registering a repository with a MultiRepoCache found (reference: webui)")
	}
	// R19.7
	ir := w.Func("util/process", "IsRunning")
	if ir == nil {
		c.Undecided("R19.7", "anchor:process.IsRunning", "util/process", "not found")
		return
	}
	c.seeFn(funcName(ir))
	var sig *ssa.Call
	for _, cl := range Calls(ir) {
		if strings.HasSuffix(cl.Name, "os.Process.Signal") {
			sig, _ = cl.Instr.(*ssa.Call)
		}
	}
	okNil, okPerm := false, false
	if sig != nil {
		// nil error → true
		for _, sb := range successBlocks(sig) {
			if r, isRet := sb.Instrs[len(sb.Instrs)-1].(*ssa.Return); isRet {
				if k, isK := r.Results[0].(*ssa.Const); isK && k.Value != nil && k.Value.String() == "true" {
					okNil = true
				}
			}
		}
		// or the function returns 'err == nil' itself
		for _, r := range Returns(ir) {
			if bo, isBo := r.Results[0].(*ssa.BinOp); isBo && bo.Op == token.EQL && isNilConst(bo.Y) {
				for _, ev := range errValues(sig) {
					if bo.X == ev {
						okNil = true
					}
				}
			}
		}
		// EPERM → true: a return true control dependent on a comparison of the errno with syscall.EPERM
		for _, r := range Returns(ir) {
			k, isK := r.Results[0].(*ssa.Const)
			if !isK || k.Value == nil || k.Value.String() != "true" {
				continue
			}
			for _, cc := range controlConds(r.Block(), nil) {
				if bo, isBo := cc.If.Cond.(*ssa.BinOp); isBo && bo.Op == token.EQL && cc.Edge == 0 {
					for _, side := range []ssa.Value{bo.X, bo.Y} {
						if kk, isKK := constInt(side); isKK && kk == int64(syscall.EPERM) {
							okPerm = true
						}
					}
				}
			}
		}
	}
	c.Sites += 2
	c.Check(okNil, "R19.7", "process.IsRunning:delivered-is-alive", w.FnPos(ir), "signal 0 delivered ⇒ alive", "a delivered signal 0 is not reported as a running process")
	c.Check(okPerm, "R19.7", "process.IsRunning:eperm-is-alive", w.FnPos(ir), "EPERM ⇒ alive", "EPERM from signal 0 (the process exists but belongs to another user) is not reported as running: the lock of a live holder of another user is taken for stale and removed")
}

func allInstrs(fn *ssa.Function) []ssa.Instruction {
	var out []ssa.Instruction
	for _, b := range fn.Blocks {
		out = append(out, b.Instrs...)
	}
	return out
}

// R19.8: the lock is released when the command is interrupted. LoadBackend registers a cleaner that
// closes the backend; on SIGINT/SIGTERM util/interrupt runs the cleaners and exits. A cleaner that was
// cancelled (the password prompt registers and cancels one) must be skipped, not end the run.
func checkInterruptCleaners(c *Ctx) {
	w := c.W
	c.Doc("R19.8", "util/interrupt.clean calls every cleaner that is not disabled: its loop over the registered cleaners has no exit but exhaustion and the call of the cleaner is conditional on nothing but the disabled flag; the signal goroutine calls clean() before os.Exit; execenv.LoadBackend registers a cleaner that closes the backend")
	fn := w.Func("util/interrupt", "clean")
	reg := w.Func("util/interrupt", "RegisterCleaner")
	if fn == nil || reg == nil {
		c.Undecided("R19.8", "anchor:interrupt.clean/RegisterCleaner", "util/interrupt", "not found")
		return
	}
	c.seeFn(funcName(fn))
	c.seeFn(funcName(reg))
	pos := w.FnPos(fn)
	// the call of the cleaner's function
	var call ssa.CallInstruction
	for _, b := range fn.Blocks {
		for _, ins := range b.Instrs {
			if ci, ok := ins.(ssa.CallInstruction); ok && !ci.Common().IsInvoke() && ci.Common().StaticCallee() == nil {
				if _, isB := ci.Common().Value.(*ssa.Builtin); isB {
					continue
				}
				if hasField(ci.Common().Value, "f") {
					call = ci
				}
			}
		}
	}
	if call == nil {
		c.Check(false, "R19.8", "interrupt.clean:calls-every-enabled-cleaner", pos, "", "no call of a registered cleaner found in clean()")
		return
	}
	c.Sites++
	hdr := enclosingLoopHeader(call.Block())
	bad := ""
	if hdr == nil {
		bad = "the cleaner is not called inside a loop over the registered cleaners"
	} else {
		for _, b := range fn.Blocks {
			if b == hdr || !inLoop(b, hdr) {
				continue
			}
			for _, s := range b.Succs {
				if !inLoop(s, hdr) {
					bad = "the loop over the cleaners is left at " + w.InstrPos(firstPosInstr(s)) + " before every cleaner was visited: the cleaners registered earlier (the one that closes the backend and removes the lock) never run"
				}
			}
		}
		if bad == "" {
			for _, cc := range controlConds(call.Block(), hdr) {
				if !inLoop(cc.If.Block(), hdr) || cc.If.Block() == hdr {
					continue
				}
				if hasField(cc.If.Cond, "disabled") {
					if cc.Edge != 1 {
						bad = "only the disabled cleaners are called (" + w.InstrPos(cc.If) + ")"
					}
					continue
				}
				// other spellings of the same test (disabled == false, !disabled): accepted when the flag is what is tested
				mentions := false
				var ops []ssa.Value
				switch x := cc.If.Cond.(type) {
				case *ssa.BinOp:
					ops = []ssa.Value{x.X, x.Y}
				case *ssa.UnOp:
					ops = []ssa.Value{x.X}
				}
				for _, op := range ops {
					if hasField(op, "disabled") {
						mentions = true
					}
				}
				if !mentions {
					bad = "a cleaner is called under a condition other than 'not disabled' (" + w.InstrPos(cc.If) + ")"
				}
			}
		}
		// ranges over the global list
		okList := false
		for _, ins := range hdr.Instrs {
			_ = ins
		}
		for _, o := range origins(call.Common().Value) {
			if o.Kind == "field" {
				for _, o2 := range origins(o.Val) {
					if o2.Kind == "global" && o2.Name == "cleaners" {
						okList = true
					}
				}
			}
		}
		if bad == "" && !okList {
			bad = "the cleaners called are not the elements of the registered list"
		}
	}
	c.Check(bad == "", "R19.8", "interrupt.clean:calls-every-enabled-cleaner", pos, "every registered cleaner that is not disabled is called; the loop ends by exhaustion only", bad)
	// the signal goroutine
	okSig := false
	// the signal watcher: a closure of RegisterCleaner, or a function of the package it starts with `go`
	watchers := append([]*ssa.Function{}, reg.AnonFuncs...)
	for _, b := range reg.Blocks {
		for _, ins := range b.Instrs {
			if g, isGo := ins.(*ssa.Go); isGo {
				if callee := g.Common().StaticCallee(); callee != nil && len(callee.Blocks) > 0 {
					watchers = append(watchers, callee)
				}
			}
		}
	}
	for _, an := range watchers {
		var cl, ex ssa.Instruction
		for _, k := range Calls(an) {
			if k.Name == "util/interrupt.clean" {
				cl = k.Instr
			}
			if k.Name == "os.Exit" {
				ex = k.Instr
			}
		}
		if cl != nil && ex != nil && instrDominates(cl, ex) {
			okSig = true
		}
	}
	c.Check(okSig, "R19.8", "interrupt.RegisterCleaner:clean-before-exit", w.FnPos(reg), "the signal goroutine calls clean() before os.Exit", "the signal goroutine does not run the cleaners before exiting")
	// LoadBackend registers the closer
	okReg := false
	if lb := w.Func("commands/execenv", "LoadBackend"); lb != nil {
		c.seeFn(funcName(lb))
		for _, k := range CallsDeep(lb) {
			if k.Name != "util/interrupt.RegisterCleaner" || len(k.Args()) != 1 {
				continue
			}
			c.Sites++
			for _, f := range funcValuesOf(k.Args()[0], 0) {
				for _, k2 := range CallsDeep(f) {
					if strings.HasSuffix(k2.Name, ".Close") && strings.Contains(k2.Name, "RepoCache") {
						okReg = true
					}
				}
			}
		}
	}
	c.Check(okReg, "R19.8", "execenv.LoadBackend:registers-the-closer", "commands/execenv", "a cleaner closing the backend is registered", "LoadBackend registers no interrupt cleaner that closes the backend")
}

// funcValuesOf: the functions a func-typed value may be: closures, named functions, and what a
// statically called helper returns.
func funcValuesOf(v ssa.Value, depth int) []*ssa.Function {
	var out []*ssa.Function
	for _, o := range origins(v) {
		switch o.Kind {
		case "closure":
			if f, ok := o.Val.(*ssa.MakeClosure).Fn.(*ssa.Function); ok {
				out = append(out, f)
			}
		case "func":
			if f, ok := o.Val.(*ssa.Function); ok {
				out = append(out, f)
			}
		case "call":
			if depth >= 2 {
				continue
			}
			if cv, ok := o.Val.(*ssa.Call); ok {
				if callee := cv.Common().StaticCallee(); callee != nil && len(callee.Blocks) > 0 {
					for _, r := range Returns(callee) {
						if o.Idx < len(r.Results) {
							out = append(out, funcValuesOf(ReturnResult(r, o.Idx), depth+1)...)
						}
					}
				}
			}
		}
	}
	return out
}

// R19.9: a function that hands back the receiving end of an unbuffered channel it has just made must not
// send on it — directly or through a callee it hands the channel to — before it returns: nobody can be
// receiving yet. (RepoCache.lock reports the removal of a stale lock on the events channel: when the lock
// step runs in the constructor instead of the producer goroutine, every open after a crash blocks forever.)
func checkNoSendBeforeHandover(c *Ctx, rule string) {
	w := c.W
	c.Doc(rule, "in every module function that makes an unbuffered channel and returns it: no send on that channel and no synchronous call receiving it as an argument in the function's own body (sends belong to the goroutine started before the return)")
	n := 0
	for _, f := range w.ModFns {
		if isInstance(f) || w.isTestHelper(f) || len(f.Blocks) == 0 {
			continue
		}
		for _, b := range f.Blocks {
			for _, ins := range b.Instrs {
				mc, ok := ins.(*ssa.MakeChan)
				if !ok {
					continue
				}
				if k, isK := constInt(mc.Size); !isK || k != 0 {
					continue
				}
				// returned?
				returned := false
				aliases := map[ssa.Value]bool{mc: true}
				for _, r := range *mc.Referrers() {
					if ct, isCT := r.(*ssa.ChangeType); isCT {
						aliases[ct] = true
					}
					if ct, isCT := r.(*ssa.MakeInterface); isCT {
						aliases[ct] = true
					}
				}
				for _, ret := range Returns(f) {
					for _, rv := range ret.Results {
						for _, o := range origins(rv) {
							if aliases[o.Val] || o.Val == ssa.Value(mc) {
								returned = true
							}
						}
						if aliases[rv] {
							returned = true
						}
					}
				}
				if !returned {
					continue
				}
				n++
				c.Sites++
				c.seeFn(funcName(f))
				bad := ""
				isCh := func(v ssa.Value) bool {
					if aliases[v] {
						return true
					}
					for _, o := range origins(v) {
						if o.Val == ssa.Value(mc) {
							return true
						}
					}
					return false
				}
				for _, b2 := range f.Blocks {
					for _, i2 := range b2.Instrs {
						switch x := i2.(type) {
						case *ssa.Send:
							if isCh(x.Chan) {
								bad = "send at " + w.InstrPos(x)
							}
						case *ssa.Call:
							for _, a := range x.Common().Args {
								if isCh(a) {
									nm, _ := callName(x.Common())
									// only callees that can send matter
									if callee := x.Common().StaticCallee(); callee != nil && len(callee.Blocks) > 0 {
										sends := false
										for _, hf := range fnAndHelpers(callee, 2) {
											for _, hb := range hf.Blocks {
												for _, hi := range hb.Instrs {
													if _, isSd := hi.(*ssa.Send); isSd {
														sends = true
													}
												}
											}
										}
										if !sends {
											continue
										}
									}
									bad = "call of " + nm + " at " + w.InstrPos(x) + " with the channel"
								}
							}
						}
					}
				}
				c.Check(bad == "", rule, funcName(f)+":no-send-before-handover", w.InstrPos(mc), "the channel is only written by goroutines", "the unbuffered channel returned by "+funcName(f)+" is written before it is handed to the caller ("+bad+"): the first send blocks forever, because the only receiver is the caller that is still waiting for the function to return")
			}
		}
	}
	c.Check(n >= 5, rule, "expected:channel-returning-functions", "module", fmt.Sprintf("%d functions returning an unbuffered channel they made", n), fmt.Sprintf("only %d such functions found (reference ≥ 10)", n))
}

// R19.10: nothing can fail between the pre-run that takes the lock and the run function that releases it.
// cobra validates required flags and flag groups after PreRunE and before RunE: a command whose PreRunE
// loads the backend and which declares a required flag exits with "required flag(s) not set" — and the lock.
func checkNoValidationBetweenPreRunAndRun(c *Ctx) {
	w := c.W
	c.Doc("R19.10", "a function of package commands that builds a command whose PreRunE is execenv.LoadBackend* declares no cobra required flag or flag group (MarkFlagRequired, MarkPersistentFlagRequired, MarkFlagsRequiredTogether, MarkFlagsOneRequired, MarkFlagsMutuallyExclusive): those are checked after PreRunE and before RunE, where no deferred close exists")
	n := 0
	for _, f := range w.ModFns {
		if isInstance(f) || !strings.HasPrefix(fnPkgPath(f), modPath+"/commands") || w.isTestHelper(f) {
			continue
		}
		loads := false
		for _, b := range f.Blocks {
			for _, ins := range b.Instrs {
				st, ok := ins.(*ssa.Store)
				if !ok {
					continue
				}
				fa, ok := st.Addr.(*ssa.FieldAddr)
				if !ok || fieldName(fa) != "PreRunE" {
					continue
				}
				if hasOriginCall(st.Val, "commands/execenv.LoadBackend", -1) != nil || hasOriginCall(st.Val, "commands/execenv.LoadBackendEnsureUser", -1) != nil {
					loads = true
				}
			}
		}
		if !loads {
			continue
		}
		n++
		c.Sites++
		c.seeFn(funcName(f))
		bad := ""
		for _, cl := range Calls(f) {
			short := cl.Name
			if i := strings.LastIndex(short, "."); i >= 0 {
				short = short[i+1:]
			}
			switch short {
			case "MarkFlagRequired", "MarkPersistentFlagRequired", "MarkFlagsRequiredTogether", "MarkFlagsOneRequired", "MarkFlagsMutuallyExclusive":
				if strings.Contains(cl.Name, "cobra") {
					bad = short + " at " + w.InstrPos(cl.Instr)
				}
			}
		}
		c.Check(bad == "", "R19.10", funcName(f)+":nothing-fails-between-prerun-and-run", w.FnPos(f), "no cobra validation between the lock and its release", "the command loads the backend in PreRunE and declares "+bad+": cobra checks it after PreRunE and before RunE, so a missing flag makes the process exit with the repository lock still in place")
	}
	c.Check(n >= 20, "R19.10", "expected:commands-loading-the-backend", "commands", fmt.Sprintf("%d command constructors with a backend-loading PreRunE", n), fmt.Sprintf("only %d command constructors with a backend-loading PreRunE found (reference ≥ 40)", n))
}

// R19.11: the refusal reaches whoever opened the cache. The build events of a cache being opened carry
// the "already locked by pid N" error; MultiRepoCache (the web UI's opener) relays them. Every event
// received is relayed before anything else is decided on it.
func checkOpenEventsRelayed(c *Ctx) {
	w := c.W
	c.Doc("R19.11", "MultiRepoCache.RegisterRepository: every event received from the cache being opened is sent on to the caller, unconditionally within the loop and before the error test that ends it; the repository is registered only after the loop ended without an error event")
	fn := w.Method("cache", "MultiRepoCache", "RegisterRepository")
	if fn == nil {
		c.Undecided("R19.11", "anchor:MultiRepoCache.RegisterRepository", "cache", "not found")
		return
	}
	c.seeFn(funcName(fn))
	okRelay, found := false, false
	why := "no send of the received event found"
	for _, an := range fn.AnonFuncs {
		for _, b := range an.Blocks {
			for _, ins := range b.Instrs {
				sd, ok := ins.(*ssa.Send)
				if !ok {
					continue
				}
				recv := false
				var isRecv func(v ssa.Value, d int) bool
				isRecv = func(v ssa.Value, d int) bool {
					if d > 3 {
						return false
					}
					switch x := v.(type) {
					case *ssa.Extract:
						if u, isU := x.Tuple.(*ssa.UnOp); isU && u.Op == token.ARROW && x.Index == 0 {
							return true
						}
					case *ssa.UnOp:
						if x.Op == token.ARROW {
							return true
						}
						if al, isAl := x.X.(*ssa.Alloc); isAl && x.Op == token.MUL {
							for _, r := range *al.Referrers() {
								if st, isSt := r.(*ssa.Store); isSt && st.Addr == al && isRecv(st.Val, d+1) {
									return true
								}
							}
						}
					}
					return false
				}
				recv = isRecv(sd.X, 0)
				if !recv {
					continue
				}
				found = true
				c.Sites++
				hdr := enclosingLoopHeader(b)
				if hdr == nil {
					why = "the event is relayed outside the receiving loop"
					continue
				}
				cond := ""
				for _, cc := range controlConds(b, hdr.Idom()) {
					if isLoopHeader(cc.If.Block()) {
						continue
					}
					cond = w.InstrPos(cc.If)
				}
				if cond != "" {
					why = "the event is relayed only under the condition at " + cond + " (an error event is dropped: the caller never learns that the repository is locked by another process and goes on serving)"
					continue
				}
				okRelay = true
			}
		}
	}
	c.Check(found && okRelay, "R19.11", "MultiRepoCache.RegisterRepository:every-event-relayed", w.FnPos(fn), "each received event is sent on unconditionally", why)
}

// R19.5 (extracted so that C05 can share it: two writers side by side hand out the same clock values)
func checkNoCloseAfterFailedOpen(c *Ctx, isBackendClose func(ssa.Instruction) bool) {
	w := c.W
	// R19.5: a cache whose opening failed (it may be locked by a live process) is never closed: Close removes the lock file
	c.Doc("R19.5", "after the cache-open event stream reported an error, RepoCache.Close is not called on that cache (Close removes the lock file, which may belong to a live holder)")
	nOpen := 0
	for _, fn := range w.ModFns {
		if isInstance(fn) || w.isTestHelper(fn) {
			continue
		}
		for _, cl := range Calls(fn) {
			if cl.Name != "commands/execenv.CacheBuildProgressBar" || cl.Value() == nil {
				continue
			}
			nOpen++
			c.Sites++
			bad := false
			var path []*ssa.BasicBlock
			for _, fb := range failureBlocks(cl.Value()) {
				if b, p, _ := pathSearch(fn, nil, fb, isBackendClose, isAnyReturn, false); b {
					bad, path = true, p
				}
			}
			c.Check(!bad, "R19.5", funcName(fn)+":no-close-after-failed-open", w.InstrPos(cl.Instr), "a failed open is not followed by Close", "after the cache could not be opened (for instance because a live process holds the lock) the cache is closed, which removes that process' lock file: "+blocksString(w, path))
		}
	}
	if nOpen < 2 {
		c.Violate("R19.5", "expected:cache-open-sites", "commands", fmt.Sprintf("%d cache-open sites (reference 3)", nOpen))
	}
}
