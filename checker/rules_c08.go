package main

import (
	"fmt"
	"go/token"
	"go/types"
	"strings"

	"golang.org/x/tools/go/ssa"
)

func init() {
	register("C08",
		"Static analysis of the signature check and its inputs: in readOperationPack every path to the success return either takes the 'no key in force' edge of len(keys) or passes a successful openpgp.CheckDetachedSignature whose error is returned; keys = ValidKeysAtTime(edit clock of the namespace, the edit time parsed from this commit's edit-clock entry) of this pack's resolved author; the keyring is built from exactly those keys; signed data and signature are the commit's own fields and their absence is an error; ValidKeysAtTime exits exactly when a version's time is strictly greater than T and returns the keys of the last version passed; Write signs iff the author has a private key, with that key; StoreSignedCommit signs the encoding taken before the signature is attached and ReadCommit re-encodes without signature.",
		[]string{"openpgp verifies what it is given (cryptography not analysed)", "go-git's Encode and EncodeWithoutSignature produce the same bytes for an unsigned commit"},
		runC08)
}

func runC08(c *Ctx) {
	w := c.W
	checkMutateKeysNotAliased(c)
	checkVersionTimesFresh(c)
	checkSigningKeyDiscipline(c)
	// the times keys are dated with never go back and never lose a clock (ValidKeysAtTime carries the previous time over)
	checkIdentityValidate(c)
	// what is signed survives go-git's re-encoding of the commit: idents are cleaned (shared with C15); rebuilt clocks are not behind the commits (shared with C05)
	checkCommitIdentsClean(c)
	checkClockRebuild(c)
	// the identity versions keys are judged with are the merged ones: every remote identity is merged and reported
	ruleDocsMerge(c)
	effM := newEffects(w)
	checkMergeFns(c, effM)
	checkIdentityMerge(c, effM)
	// the logical times keys are dated with: clocks persisted, merged identities taken over by the cache
	checkMemClock(c)
	checkCacheMergeFold(c, "R2.6")
	checkPackVerification(c)
	checkValidKeysAtTime(c)
	checkSigningWrite(c)
	checkCommitNotRetained(c, "R8.9")
	checkKeyCloneKeepsPrivate(c, "R8.10")
	checkKeySetSizeIrrelevant(c, "R8.4")
	checkValidateAccumulatesAfterTest(c, "R9.4")
}

func checkValidKeysAtTime(c *Ctx) {
	w := c.W
	fn := w.Method("entities/identity", "Identity", "ValidKeysAtTime")
	if fn == nil {
		c.Undecided("R8.4", "anchor:Identity.ValidKeysAtTime", "entities/identity", "not found")
		return
	}
	c.seeFn(funcName(fn))
	pos := w.FnPos(fn)
	inLoop := func(r *ssa.Return) bool { return enclosingLoopHeader(r.Block()) != nil || reachesLoop(r.Block()) }
	var tParam ssa.Value
	for _, p := range fn.Params {
		if strings.HasSuffix(p.Type().String(), "lamport.Time") {
			tParam = p
		}
	}
	ok, why := false, "no early exit comparing a version's time with T found"
	for _, g := range cmpGuards(fn, inLoop) {
		c.Sites++
		gg, o := g.oriented(func(v ssa.Value) bool { return v == tParam })
		if !o {
			continue
		}
		// gg: exits iff T op versionTime  →  canonical: versionTime > T  ⇔  T < versionTime
		isVersionTime := false
		for _, org := range origins(gg.Y) {
			if org.Kind == "field" && org.Name == "times" {
				isVersionTime = true
			}
		}
		if !isVersionTime {
			continue
		}
		if gg.Op == token.LSS {
			ok, why = true, "exits iff versionTime > T"
		} else {
			ok, why = false, "exits iff T "+gg.Op.String()+" versionTime (must be: versionTime > T, strictly — a key counts from its own introduction time)"
			break
		}
		// inheritance of the previous time when the clock is absent
		inherits := false
		if phi, isPhi := gg.Y.(*ssa.Phi); isPhi {
			for _, e := range phi.Edges {
				if p2, isP := e.(*ssa.Phi); isP && isLoopHeader(p2.Block()) {
					inherits = true
				}
			}
		}
		c.Check(inherits, "R8.4", "ValidKeysAtTime:inherit-time", w.InstrPos(gg.Bin), "a version without the clock inherits the previous time", "a version lacking the clock does not inherit the previous version's time")
	}
	c.Check(ok, "R8.4", "ValidKeysAtTime:exit-test", pos, why, why)
	// returned value: keys of the last version passed (or nil)
	okRet := true
	for _, r := range Returns(fn) {
		for _, o := range origins(r.Results[0]) {
			if o.Kind == "const" || (o.Kind == "field" && o.Name == "keys") {
				continue
			}
			okRet = false
		}
	}
	c.Check(okRet, "R8.4", "ValidKeysAtTime:result", pos, "returns nil or the keys of a version", "returns something other than a version's keys")
	// the assignment result = v.keys comes after the exit test within the iteration
	okOrder := false
	for _, b := range fn.Blocks {
		for _, ins := range b.Instrs {
			if u, isU := ins.(*ssa.UnOp); isU {
				if fa, isFA := u.X.(*ssa.FieldAddr); isFA && fieldName(fa) == "keys" {
					for _, cc := range controlConds(u.Block(), nil) {
						if bo, isBo := cc.If.Cond.(*ssa.BinOp); isBo && (bo.X == tParam || bo.Y == tParam) {
							okOrder = true
						}
					}
				}
			}
		}
	}
	c.Check(okOrder, "R8.4", "ValidKeysAtTime:keys-after-test", pos, "a version's keys are taken only after it passed the time test", "a version's keys are taken before its time is compared with T")
}

func reachesLoop(b *ssa.BasicBlock) bool {
	for x := b; x != nil; x = x.Idom() {
		if isLoopHeader(x) {
			return x != b && len(b.Succs) == 0 && x.Dominates(b) && dominatedByLoopBody(x, b)
		}
	}
	return false
}

func dominatedByLoopBody(hdr, b *ssa.BasicBlock) bool {
	// b is dominated by the loop's body successor (not by its exit)
	if len(hdr.Succs) != 2 {
		return false
	}
	return hdr.Succs[0].Dominates(b)
}

func checkSigningWrite(c *Ctx) {
	w := c.W
	fn := w.Method("entity/dag", "operationPack", "Write")
	if fn == nil {
		c.Undecided("R8.5", "anchor:operationPack.Write", "entity/dag", "not found")
		return
	}
	c.seeFn(funcName(fn))
	pos := w.FnPos(fn)
	// the commit-writing part may live in a same-package helper that Write calls on every success path
	{
		hasSK := func(f *ssa.Function) bool {
			for _, cl := range Calls(f) {
				if strings.HasSuffix(cl.Name, ".SigningKey") {
					return true
				}
			}
			return false
		}
		if !hasSK(fn) {
			for _, h := range fnAndHelpers(fn, 2) {
				if h == fn || !hasSK(h) {
					continue
				}
				callsH := func(i ssa.Instruction) bool {
					ci, ok := i.(ssa.CallInstruction)
					if !ok {
						return false
					}
					cal := ci.Common().StaticCallee()
					return cal != nil && bodyOf(cal) == h
				}
				if avoid, _, _ := pathSearch(fn, nil, nil, isSuccessReturn, callsH, false); !avoid {
					c.seeFn(funcName(h))
					fn = h
					break
				}
			}
		}
	}
	var sk *Call
	for _, cl := range Calls(fn) {
		if strings.HasSuffix(cl.Name, ".SigningKey") {
			sk = cl
		}
	}
	var signed, plain *Call
	for _, cl := range Calls(fn) {
		switch {
		case strings.HasSuffix(cl.Name, ".StoreSignedCommit"):
			signed = cl
		case strings.HasSuffix(cl.Name, ".StoreCommit"):
			plain = cl
		}
	}
	if sk == nil || signed == nil || plain == nil {
		c.Violate("R8.5", "operationPack.Write:sign-iff-key", pos, "Write does not choose between StoreSignedCommit and StoreCommit on the author's signing key")
	} else {
		c.Sites += 3
		keyVals := resultValues(sk.Value(), 0)
		edgeOf := func(cl *Call) string {
			for _, cc := range controlConds(cl.Block(), nil) {
				bo, ok := cc.If.Cond.(*ssa.BinOp)
				if !ok {
					continue
				}
				for _, kv := range keyVals {
					if (bo.X == kv && isNilConst(bo.Y)) || (bo.Y == kv && isNilConst(bo.X)) {
						op := bo.Op
						if cc.Edge == 1 {
							op = negateOp(op)
						}
						if op == token.NEQ {
							return "nonnil"
						}
						return "nil"
					}
				}
			}
			return ""
		}
		okIff := edgeOf(signed) == "nonnil" && edgeOf(plain) == "nil"
		c.Check(okIff, "R8.5", "operationPack.Write:sign-iff-key", w.InstrPos(signed.Instr), "signed commit iff a signing key is available", "the choice between signed and unsigned commit is not 'signing key != nil'")
		// with that key
		okKey := false
		sa := signed.Args()
		if len(sa) >= 2 {
			if pc, ok := sa[1].(*ssa.Call); ok {
				if n, _ := callName(pc.Common()); n == "entities/identity.Key.PGPEntity" {
					for _, kv := range keyVals {
						if pc.Common().Args[0] == kv {
							okKey = true
						}
					}
				}
			}
		}
		c.Check(okKey, "R8.5", "operationPack.Write:sign-with-author-key", w.InstrPos(signed.Instr), "signs with the author's signing key", "the commit is not signed with the key returned by Author.SigningKey")
		c.Check(hasField(sk.Recv(), "Author"), "R8.5", "operationPack.Write:key-of-pack-author", w.InstrPos(sk.Instr), "signing key of the pack's author", "the signing key is not the pack author's")
	}
	// SigningKey: first key whose private part is available
	skf := w.Method("entities/identity", "Identity", "SigningKey")
	if skf != nil {
		c.seeFn(funcName(skf))
		ok := false
		for _, cl := range CallsNamed(skf, "entities/identity.Key.ensurePrivateKey") {
			if hasField(cl.Recv(), "keys") || hasOriginCall(cl.Recv(), "entities/identity.Identity.Keys", -1) != nil {
				ok = true
			}
		}
		c.Check(ok, "R8.5", "Identity.SigningKey:needs-private-key", w.FnPos(skf), "only a key whose private part is loadable is returned", "SigningKey does not check for the private key")
	}
	// gogit side
	ss := w.Method("repository", "GoGitRepo", "StoreSignedCommit")
	if ss == nil {
		c.Undecided("R8.5", "anchor:GoGitRepo.StoreSignedCommit", "repository", "not found")
		return
	}
	c.seeFn(funcName(ss))
	// the signing unit: StoreSignedCommit itself, or the same-package helper it calls that holds the detached-sign call
	// (the final encoding of the signed commit stays in StoreSignedCommit and is counted there)
	outer := ss
	nOuterEnc := 0
	for _, cl := range Calls(outer) {
		if strings.HasSuffix(cl.Name, "object.Commit.Encode") {
			nOuterEnc++
		}
	}
	for _, h := range fnAndHelpers(ss, 1) {
		for _, cl := range Calls(h) {
			if strings.HasSuffix(cl.Name, "openpgp.ArmoredDetachSign") || strings.HasSuffix(cl.Name, "openpgp.DetachSign") {
				ss = h
			}
		}
	}
	var sigStore *ssa.Store
	for _, b := range ss.Blocks {
		for _, ins := range b.Instrs {
			if st, ok := ins.(*ssa.Store); ok {
				if fa, ok := st.Addr.(*ssa.FieldAddr); ok && fieldName(fa) == "PGPSignature" {
					sigStore = st
				}
			}
		}
	}
	var signCall *Call
	var encs []*Call
	for _, cl := range Calls(ss) {
		if strings.HasSuffix(cl.Name, "openpgp.ArmoredDetachSign") || strings.HasSuffix(cl.Name, "openpgp.DetachSign") {
			signCall = cl
		}
		if strings.HasSuffix(cl.Name, "object.Commit.Encode") {
			encs = append(encs, cl)
		}
	}
	if ss != outer {
		// one encoding inside the unit (what is signed), at least one in StoreSignedCommit (what is stored)
		for i := 0; i < nOuterEnc; i++ {
			encs = append(encs, nil)
		}
	}
	if sigStore == nil || signCall == nil || len(encs) < 2 {
		c.Violate("R8.5", "GoGitRepo.StoreSignedCommit:shape", w.FnPos(ss), "expected: encode, detach-sign, attach signature, encode again")
	} else {
		c.Sites += 4
		// data signed = reader of the object encoded before the signature is attached
		var firstEnc *Call
		for _, e := range encs {
			if e != nil && instrDominates(e.Instr, sigStore) {
				firstEnc = e
			}
		}
		okSigned := firstEnc != nil && instrDominates(firstEnc.Instr, signCall.Instr)
		if okSigned {
			// the reader passed to the signer derives from the object given to that Encode
			obj := firstEnc.Args()[0]
			rd := signCall.Args()[2]
			okSigned = false
			for _, o := range origins(rd) {
				if o.Kind == "call" && strings.HasSuffix(o.Name, ".Reader") {
					rc := o.Val.(*ssa.Call)
					recv := rc.Common().Value
					if !rc.Common().IsInvoke() && len(rc.Common().Args) > 0 {
						recv = rc.Common().Args[0]
					}
					if stripConv(recv) == stripConv(obj) {
						okSigned = true
					}
				}
			}
		}
		if okSigned {
			for _, b := range ss.Blocks {
				for _, ins := range b.Instrs {
					if st, ok := ins.(*ssa.Store); ok {
						if fa, ok := st.Addr.(*ssa.FieldAddr); ok && fieldName(fa) == "PGPSignature" {
							if reach, _, _ := pathSearch(ss, st, nil, func(i ssa.Instruction) bool { return i == firstEnc.Instr }, nil, false); reach {
								okSigned = false
							}
						}
					}
				}
			}
		}
		c.Check(okSigned, "R8.5", "GoGitRepo.StoreSignedCommit:sign-commit-without-signature", w.InstrPos(signCall.Instr), "signs the commit as encoded before the signature header is attached", "the data signed is not the commit encoded before PGPSignature is set")
		skParam := false
		if p, ok := signCall.Args()[1].(*ssa.Parameter); ok && p.Parent() == ss {
			skParam = true
			if ss != outer {
				// the helper's key parameter is StoreSignedCommit's own
				skParam = false
				for _, a := range argsThroughCaller(outer, ss, p) {
					if op, isP := a.(*ssa.Parameter); isP && op.Parent() == outer {
						skParam = true
					}
				}
			}
		}
		c.Check(skParam, "R8.5", "GoGitRepo.StoreSignedCommit:signer", w.InstrPos(signCall.Instr), "signs with the key handed in", "signs with a key other than the signKey parameter")
		var lastEnc *Call
		for _, e := range encs {
			if e == nil {
				continue
			}
			if ok, _, _ := pathSearch(ss, sigStore, nil, func(i ssa.Instruction) bool { return i == e.Instr }, nil, false); ok {
				lastEnc = e
			}
		}
		if ss != outer {
			// the encoding that is stored happens in StoreSignedCommit after the signing helper succeeded
			for _, cl := range Calls(outer) {
				if cl.Fn == nil || bodyOf(cl.Fn) != ss {
					continue
				}
				hc, isCall := cl.Instr.(*ssa.Call)
				if !isCall {
					continue
				}
				for _, e := range Calls(outer) {
					if strings.HasSuffix(e.Name, "object.Commit.Encode") {
						e := e
						after, _, _ := pathSearch(outer, hc, nil, func(i ssa.Instruction) bool { return i == e.Instr }, nil, false)
						before, _, _ := pathSearch(outer, e.Instr, nil, func(i ssa.Instruction) bool { return i == ssa.Instruction(hc) }, nil, false)
						if after && !before {
							lastEnc = e
						}
					}
				}
			}
		}
		c.Check(lastEnc != nil, "R8.5", "GoGitRepo.StoreSignedCommit:stored-with-signature", w.InstrPos(sigStore), "the object stored is encoded after the signature is attached", "the stored commit is encoded before the signature is attached")
	}
	rc := w.Method("repository", "GoGitRepo", "ReadCommit")
	if rc != nil {
		c.seeFn(funcName(rc))
		okSD, okSig := false, false
		for _, b := range rc.Blocks {
			for _, ins := range b.Instrs {
				st, ok := ins.(*ssa.Store)
				if !ok {
					continue
				}
				fa, ok := st.Addr.(*ssa.FieldAddr)
				if !ok {
					continue
				}
				switch fieldName(fa) {
				case "SignedData":
					for _, o := range origins(st.Val) {
						if o.Kind == "call" && strings.HasSuffix(o.Name, ".Reader") {
							r := o.Val.(*ssa.Call)
							recv := r.Common().Value
							if !r.Common().IsInvoke() && len(r.Common().Args) > 0 {
								recv = r.Common().Args[0]
							}
							for _, cl := range Calls(rc) {
								if strings.HasSuffix(cl.Name, "object.Commit.EncodeWithoutSignature") && stripConv(cl.Args()[0]) == stripConv(recv) {
									okSD = true
								}
							}
						}
					}
				case "Signature":
					for _, o := range origins(st.Val) {
						if o.Kind == "call" && o.Name == "repository.deArmorSignature" {
							okSig = true
						}
					}
				}
			}
		}
		c.Check(okSD, "R8.5", "GoGitRepo.ReadCommit:signed-data", w.FnPos(rc), "SignedData = commit re-encoded without signature", "SignedData is not the commit encoded without its signature")
		c.Check(okSig, "R8.5", "GoGitRepo.ReadCommit:signature", w.FnPos(rc), "Signature = de-armored PGPSignature", "Signature is not the de-armored PGPSignature")
	}
}

// R8.6: a key rotation is recorded. Identity.Mutate decides "nothing changed" by comparing the
// mutator it handed to the callback with a reference copy; for that to see an in-place
// replacement of a key the two must not share the key slice.
func checkMutateKeysNotAliased(c *Ctx) {
	w := c.W
	c.Doc("R8.6", "in Identity.Mutate the Mutator handed to the callback and the reference it is compared with (reflect.DeepEqual) have separate copies of every slice field: after the struct copy, a freshly produced slice (a call result that is not the reference's) is stored into the callback's copy before the callback runs; a changed mutator appends a version built from the callback's copy")
	fn := w.Method("entities/identity", "Identity", "Mutate")
	if fn == nil {
		c.Undecided("R8.6", "anchor:Identity.Mutate", "entities/identity", "not found")
		return
	}
	c.seeFn(funcName(fn))
	pos := w.FnPos(fn)
	var de *ssa.Call
	for _, cl := range CallsNamed(fn, "reflect.DeepEqual") {
		de, _ = cl.Instr.(*ssa.Call)
	}
	if de == nil {
		c.Undecided("R8.6", "Identity.Mutate:compares-with-reference", pos, "no reflect.DeepEqual comparison found: the change detection has another shape")
		return
	}
	allocOf := func(v ssa.Value) *ssa.Alloc {
		if mi, ok := v.(*ssa.MakeInterface); ok {
			v = mi.X
		}
		if ld, ok := v.(*ssa.UnOp); ok {
			if al, ok := ld.X.(*ssa.Alloc); ok {
				return al
			}
		}
		return nil
	}
	a, b := allocOf(de.Common().Args[0]), allocOf(de.Common().Args[1])
	// which one goes to the callback?
	var cb *ssa.Call
	for _, cl := range Calls(fn) {
		if pp, isParam := cl.Instr.Common().Value.(*ssa.Parameter); isParam && !cl.Instr.Common().IsInvoke() {
			if _, isSig := pp.Type().Underlying().(*types.Signature); isSig {
				cb, _ = cl.Instr.(*ssa.Call)
			}
		}
	}
	if a == nil || b == nil || cb == nil || len(cb.Common().Args) != 1 {
		c.Undecided("R8.6", "Identity.Mutate:compares-with-reference", pos, "operands of the comparison / callback not recognised")
		return
	}
	mut, ref := b, a
	if cb.Common().Args[0] == ssa.Value(a) {
		mut, ref = a, b
	} else if cb.Common().Args[0] != ssa.Value(b) {
		c.Violate("R8.6", "Identity.Mutate:compares-with-reference", pos, "the value handed to the callback is not one of the two values compared")
		return
	}
	st, isStruct := mut.Type().(*types.Pointer).Elem().Underlying().(*types.Struct)
	if !isStruct {
		return
	}
	storedTo := func(al *ssa.Alloc, field string) []*ssa.Store {
		var out []*ssa.Store
		for _, r := range *al.Referrers() {
			if fa, ok := r.(*ssa.FieldAddr); ok && fieldName(fa) == field {
				for _, r2 := range *fa.Referrers() {
					if s, ok := r2.(*ssa.Store); ok && s.Addr == ssa.Value(fa) {
						out = append(out, s)
					}
				}
			}
		}
		return out
	}
	for i := 0; i < st.NumFields(); i++ {
		f := st.Field(i)
		switch f.Type().Underlying().(type) {
		case *types.Slice, *types.Map, *types.Pointer:
		default:
			continue
		}
		c.Sites++
		ok, why := false, "the callback's copy of "+f.Name()+" is the reference's own slice (struct copy only): replacing an element in place changes both, the comparison sees no change and the rotation is silently dropped — the replaced key stays in force"
		refVals := map[ssa.Value]bool{}
		for _, s := range storedTo(ref, f.Name()) {
			refVals[s.Val] = true
		}
		for _, s := range storedTo(mut, f.Name()) {
			cv, isCall := s.Val.(*ssa.Call)
			if !isCall || refVals[s.Val] {
				continue
			}
			_ = cv
			if instrDominates(s, cb) {
				ok = true
			}
		}
		c.Check(ok, "R8.6", "Identity.Mutate:"+f.Name()+":own-copy", pos, "the callback works on its own copy of "+f.Name(), why)
	}
	// the version appended is built from the callback's copy
	okNew := false
	for _, cl := range CallsNamed(fn, "entities/identity.newVersion") {
		for _, arg := range cl.Args() {
			if base, _, isF := loadOfField(arg); isF && base == ssa.Value(mut) {
				okNew = true
			}
		}
	}
	c.Check(okNew, "R8.6", "Identity.Mutate:new-version-from-mutated", pos, "the new version is built from the mutated copy", "the version appended by Mutate is not built from the mutator the callback changed")
}

// R8.7: the logical times recorded in a new identity version are times no commit carries yet.
func checkVersionTimesFresh(c *Ctx) {
	w := c.W
	c.Doc("R8.7", "a version added by Identity.Mutate gets logical times of its own: either newVersion records clock.Time() plus a positive constant (or the result of Increment), or Mutate increments every clock of AllClocks() — errors propagated — on every path to newVersion. A clock holds the last time handed out, which a commit may already carry; with the inclusive comparison of ValidKeysAtTime a version dated with that very time would take effect for that commit, which was signed with the previous keys")
	mut := w.Method("entities/identity", "Identity", "Mutate")
	nv := w.Func("entities/identity", "newVersion")
	if mut == nil || nv == nil {
		c.Undecided("R8.7", "anchor:Identity.Mutate/newVersion", "entities/identity", "not found")
		return
	}
	c.seeFn(funcName(mut))
	c.seeFn(funcName(nv))
	// (A) newVersion itself
	formA := false
	for _, b := range nv.Blocks {
		for _, ins := range b.Instrs {
			mu, isMU := ins.(*ssa.MapUpdate)
			if !isMU {
				continue
			}
			c.Sites++
			if bo, isBo := mu.Value.(*ssa.BinOp); isBo && bo.Op == token.ADD {
				k, isK := constInt(bo.Y)
				if cv, isCall := bo.X.(*ssa.Call); isCall && isK && k > 0 {
					if n, _ := callName(cv.Common()); strings.HasSuffix(n, ".Time") {
						formA = true
					}
				}
			}
			for _, o := range origins(mu.Value) {
				if o.Kind == "call" && strings.HasSuffix(o.Name, ".Increment") {
					formA = true
				}
			}
		}
	}
	// (B) Mutate ticks every clock before newVersion
	formB, why := false, "no clock is advanced before the version is dated"
	var nvCall *ssa.Call
	for _, cl := range CallsNamed(mut, "entities/identity.newVersion") {
		nvCall, _ = cl.Instr.(*ssa.Call)
	}
	if nvCall != nil {
		ok, w2 := ticksEveryClock(c, mut, []*ssa.BasicBlock{nvCall.Block()})
		if ok {
			formB = true
		} else if w2 != "" {
			why = w2
		}
		if !formB {
			// the ticking extracted into a helper: it ticks every clock before each of its success returns, and the version is dated on its success edge
			for _, cl := range Calls(mut) {
				h := cl.Fn
				if h != nil {
					h = bodyOf(h)
				}
				cv, isCall := cl.Instr.(*ssa.Call)
				if h == nil || !isCall || len(h.Blocks) == 0 || fnPkgPath(h) != fnPkgPath(mut) || !errResultOfCall(cv) {
					continue
				}
				var targets []*ssa.BasicBlock
				for _, r := range Returns(h) {
					if returnKind(r) != RetError {
						targets = append(targets, r.Block())
					}
				}
				if len(targets) == 0 {
					continue
				}
				if okH, _ := ticksEveryClock(c, h, targets); okH && dominatedBySuccess(cv, nvCall) {
					formB = true
				}
			}
		}
	}
	c.Check(formA || formB, "R8.7", "Identity.Mutate:new-version-dated-after-every-commit", w.FnPos(mut),
		map[bool]string{true: "newVersion dates the version after the clocks' current times", false: "Mutate advances every clock before dating the version"}[formA],
		"a version added by Mutate is dated with the clocks' current times ("+why+"): a commit made just before (carrying that very time, signed with the previous key) is verified against the new keys and the repository cannot read back what it wrote — 'signature made by unknown entity'")
}

// loadsGlobal: v is a load of the package-level variable `name`.
func loadsGlobal(v ssa.Value, name string) bool {
	v = stripConv(v)
	if u, ok := v.(*ssa.UnOp); ok && u.Op == token.MUL {
		if g, isG := u.X.(*ssa.Global); isG && g.Name() == name {
			return true
		}
	}
	return false
}

// sentinelEdge: taking successor `succ` of block b means "val is the sentinel `global`"
// (val == global / global == val true edge, != false edge, errors.Is(val, global) true edge).
func sentinelEdge(b *ssa.BasicBlock, succ int, isVal func(ssa.Value) bool, global string) bool {
	if len(b.Instrs) == 0 {
		return false
	}
	iff, isIf := b.Instrs[len(b.Instrs)-1].(*ssa.If)
	if !isIf {
		return false
	}
	switch cnd := iff.Cond.(type) {
	case *ssa.BinOp:
		if cnd.Op != token.EQL && cnd.Op != token.NEQ {
			return false
		}
		want := 0
		if cnd.Op == token.NEQ {
			want = 1
		}
		if succ != want {
			return false
		}
		return (isVal(cnd.X) && loadsGlobal(cnd.Y, global)) || (isVal(cnd.Y) && loadsGlobal(cnd.X, global))
	case *ssa.Call:
		if n, _ := callName(cnd.Common()); n == "errors.Is" && succ == 0 && len(cnd.Call.Args) == 2 {
			return isVal(cnd.Call.Args[0]) && loadsGlobal(cnd.Call.Args[1], global)
		}
	}
	return false
}

// nilEdge: taking successor `succ` of block b means "val is nil".
func nilEdge(b *ssa.BasicBlock, succ int, isVal func(ssa.Value) bool) bool {
	if len(b.Instrs) == 0 {
		return false
	}
	iff, isIf := b.Instrs[len(b.Instrs)-1].(*ssa.If)
	if !isIf {
		return false
	}
	bo, isBo := iff.Cond.(*ssa.BinOp)
	if !isBo || (bo.Op != token.EQL && bo.Op != token.NEQ) {
		return false
	}
	want := 0
	if bo.Op == token.NEQ {
		want = 1
	}
	if succ != want {
		return false
	}
	return (isVal(bo.X) && isNilConst(bo.Y)) || (isVal(bo.Y) && isNilConst(bo.X))
}

// R8.8: which key signs. Identity.SigningKey decides whether a commit is signed at all: nil means
// "this author has no usable key", and Write then stores an unsigned commit. Only the absence of the
// private part from the keyring may mean that; a keyring failure or a damaged entry must abort the write.
func checkSigningKeyDiscipline(c *Ctx) {
	w := c.W
	c.Doc("R8.8", "Identity.SigningKey skips a key only when loading its private part failed with errNoPrivateKey, returns the key only when loading succeeded, and fails on every other error (an unsigned commit is never the answer to a keyring fault); Key.loadPrivate answers errNoPrivateKey only for the keyring's own not-found error")
	fn := w.Method("entities/identity", "Identity", "SigningKey")
	lp := w.Method("entities/identity", "Key", "loadPrivate")
	if fn == nil || lp == nil {
		c.Undecided("R8.8", "anchor:Identity.SigningKey/Key.loadPrivate", "entities/identity", "not found")
		return
	}
	c.seeFn(funcName(fn))
	c.seeFn(funcName(lp))
	pos := w.FnPos(fn)
	isLoader := func(n string) bool {
		return strings.HasSuffix(n, ".ensurePrivateKey") || strings.HasSuffix(n, ".loadPrivate")
	}
	var load *ssa.Call
	nLoad := 0
	for _, cl := range Calls(fn) {
		cv, isCall := cl.Instr.(*ssa.Call)
		if !isCall {
			continue
		}
		if callReaches(cv, isLoader, 2) {
			load = cv
			nLoad++
		}
	}
	if load == nil || nLoad != 1 {
		c.Check(false, "R8.8", "Identity.SigningKey:loads-the-private-part", pos, fmt.Sprintf("%d calls loading a key's private part found (one expected)", nLoad), "")
		return
	}
	c.Sites++
	errIdx := -1
	if sig := load.Call.Signature(); sig != nil {
		for i := 0; i < sig.Results().Len(); i++ {
			if isErrorType(sig.Results().At(i).Type()) {
				errIdx = i
			}
		}
	}
	errVals := map[ssa.Value]bool{}
	for _, v := range resultValues(load, errIdx) {
		errVals[v] = true
	}
	isErr := func(v ssa.Value) bool { return errVals[stripConv(v)] }
	skipEdge := func(b *ssa.BasicBlock, s int) bool { return sentinelEdge(b, s, isErr, "errNoPrivateKey") }
	okEdge := func(b *ssa.BasicBlock, s int) bool { return nilEdge(b, s, isErr) }
	hdr := enclosingLoopHeader(load.Block())
	c.Check(hdr != nil, "R8.8", "Identity.SigningKey:tries-every-key", pos, "the private part is loaded inside a loop over the keys", "the private part is not loaded inside a loop over the identity's keys")
	// the key whose private part was loaded
	var key ssa.Value
	if len(load.Call.Args) > 0 {
		key = load.Call.Args[0]
	}
	returnsKey := func(r *ssa.Return) bool {
		if len(r.Results) == 0 {
			return false
		}
		v := ReturnResult(r, 0)
		return key != nil && (v == key || sameExpr(v, key, 0))
	}
	returnsNoKey := func(r *ssa.Return) bool {
		return len(r.Results) > 0 && isNilConst(ReturnResult(r, 0))
	}
	// (a) other errors abort: without the skip edge and without the ok edge, neither the next key nor a success return is reachable
	badA := ""
	for _, r := range Returns(fn) {
		if returnKind(r) != RetError && reachWithoutEdge(load.Block(), r.Block(), func(b *ssa.BasicBlock, s int) bool {
			return skipEdge(b, s) || okEdge(b, s) || (hdr != nil && b.Succs[s] == hdr)
		}) && r.Block() != load.Block() {
			badA = "a return without error at " + w.InstrPos(r)
		}
	}
	if hdr != nil && badA == "" {
		// the back edge
		for _, p := range hdr.Preds {
			if !inLoop(p, hdr) {
				continue
			}
			if p == load.Block() || reachWithoutEdge(load.Block(), p, func(b *ssa.BasicBlock, s int) bool {
				return skipEdge(b, s) || okEdge(b, s) || b.Succs[s] == hdr
			}) {
				// p reached without skip/ok: is the edge p→hdr itself a skip edge?
				for i, s := range p.Succs {
					if s == hdr && !skipEdge(p, i) && !okEdge(p, i) {
						badA = "the next key is tried"
					}
				}
			}
		}
	}
	c.Check(badA == "", "R8.8", "Identity.SigningKey:other-errors-abort", pos,
		"an error other than errNoPrivateKey from loading the private part leads only to failing returns",
		"after an error other than errNoPrivateKey from loading the private part, "+badA+": a keyring fault makes the author look keyless and the commit is stored unsigned")
	// (b) the key is returned only after a successful load, and a successful load returns that key
	badB := ""
	for _, r := range Returns(fn) {
		if returnKind(r) == RetError {
			continue
		}
		c.Sites++
		viaOther := reachWithoutEdge(load.Block(), r.Block(), func(b *ssa.BasicBlock, s int) bool { return okEdge(b, s) || (hdr != nil && b.Succs[s] == hdr) })
		inBody := hdr != nil && inLoop(r.Block(), hdr)
		switch {
		case returnsKey(r):
			if viaOther {
				badB = "the key is returned at " + w.InstrPos(r) + " without its private part having been loaded successfully"
			}
		case returnsNoKey(r):
			if inBody || (hdr == nil) {
				badB = "'no signing key' is answered at " + w.InstrPos(r) + " before every key was tried"
			}
		default:
			badB = "the return at " + w.InstrPos(r) + " answers something else than the key just loaded or nil"
		}
	}
	c.Check(badB == "", "R8.8", "Identity.SigningKey:key-iff-loaded", pos,
		"the key returned is the one whose private part was just loaded successfully; nil only after the loop", badB)
	// (c) loadPrivate: errNoPrivateKey only for the keyring's not-found error
	var get *ssa.Call
	for _, cl := range Calls(lp) {
		if strings.HasSuffix(cl.Name, "Keyring.Get") || strings.HasSuffix(cl.Name, ".Get") {
			if cv, isCall := cl.Instr.(*ssa.Call); isCall && cv.Type().String() != "" {
				if _, isTuple := cv.Type().(*types.Tuple); isTuple {
					get = cv
				}
			}
		}
	}
	if get == nil {
		c.Check(false, "R8.8", "Key.loadPrivate:no-private-key-iff-not-found", w.FnPos(lp), "", "no keyring look-up found")
		return
	}
	getErr := map[ssa.Value]bool{}
	for _, v := range resultValues(get, 1) {
		getErr[v] = true
	}
	isGetErr := func(v ssa.Value) bool { return getErr[stripConv(v)] }
	badC, nSent := "", 0
	for _, r := range Returns(lp) {
		if len(r.Results) == 0 {
			continue
		}
		c.Sites++
		sent := false
		for _, o := range origins(ReturnResult(r, 0)) {
			if o.Kind == "global" && o.Name == "errNoPrivateKey" {
				sent = true
			}
		}
		if !sent {
			continue
		}
		nSent++
		if reachWithoutEdge(lp.Blocks[0], r.Block(), func(b *ssa.BasicBlock, s int) bool {
			return sentinelEdge(b, s, isGetErr, "ErrKeyringKeyNotFound")
		}) {
			badC = "errNoPrivateKey is answered at " + w.InstrPos(r) + " for something else than the keyring's not-found error"
		}
	}
	if nSent == 0 {
		badC = "loadPrivate never answers errNoPrivateKey"
	}
	c.Check(badC == "", "R8.8", "Key.loadPrivate:no-private-key-iff-not-found", w.FnPos(lp),
		"errNoPrivateKey is answered exactly on the true outcome of err == repository.ErrKeyringKeyNotFound", badC)
}

// ticksEveryClock: f increments every clock of AllClocks() — unconditionally inside a loop over them that is
// not left early, errors propagated — and that loop's exit dominates every target block.
func ticksEveryClock(c *Ctx, f *ssa.Function, targets []*ssa.BasicBlock) (bool, string) {
	why := ""
	for _, cl := range Calls(f) {
		if !strings.HasSuffix(cl.Name, ".Increment") || !strings.HasPrefix(cl.Name, "repository.") {
			continue
		}
		c.Sites++
		inc, _ := cl.Instr.(*ssa.Call)
		if inc == nil {
			continue
		}
		// the name incremented is the key of a range over AllClocks()
		args := cl.Args()
		overAll := false
		if len(args) == 1 {
			if ex, isEx := args[0].(*ssa.Extract); isEx {
				if nx, isNx := ex.Tuple.(*ssa.Next); isNx && ex.Index == 1 {
					if r, isR := nx.Iter.(*ssa.Range); isR && hasOriginCallAny(r.X, ".AllClocks") {
						overAll = true
					}
				}
			}
		}
		if !overAll {
			why = "the clocks advanced are not all the clocks of AllClocks()"
			continue
		}
		hdr := enclosingLoopHeader(inc.Block())
		if hdr == nil {
			continue
		}
		only, _ := onlyControlledBy(inc.Block(), func(cc controlCond) bool {
			// conditions outside the loop (e.g. "something changed") are fine
			return !inLoop(cc.If.Block(), hdr)
		})
		exits, _ := earlyLoopExits(f)
		okT := true
		for _, t := range targets {
			if !hdr.Dominates(t) || inLoop(t, hdr) {
				okT = false
			}
		}
		if only && errorPropagated(inc, nil) && okT && len(exits) == 0 {
			return true, ""
		}
		why = "the clocks are not advanced unconditionally, with errors propagated, before the version is dated"
	}
	return false, why
}

// checkPackVerification (R8.1–R8.3): what readOperationPack verifies and with which inputs. Shared with C01:
// replicas converge only if each of them accepts exactly the commits the others accept.
func checkPackVerification(c *Ctx) {
	w := c.W
	c.Doc("R8.1", "no path from the 'keys in force' edge to the success return of readOperationPack avoids a CheckDetachedSignature call whose error is returned; the check is conditional on nothing but len(keys) > 0")
	c.Doc("R8.2", "keys come from author.ValidKeysAtTime(<edit clock>, <time parsed from this commit's edit-clock tree entry>), author = the pack's resolved author; the keyring holds PGPEntity() of exactly those keys; data/signature are commit.SignedData / commit.Signature")
	c.Doc("R8.3", "a nil SignedData or Signature is refused with an error before CheckDetachedSignature")
	c.Doc("R8.4", "ValidKeysAtTime returns early iff a version's time for the clock is > T (strict), carrying over the previous time when a version lacks the clock, and returns the keys of the last version passed")
	c.Doc("R8.5", "Write stores a signed commit iff Author.SigningKey is non-nil, with that key; StoreSignedCommit signs the commit encoded before PGPSignature is set; ReadCommit gives EncodeWithoutSignature as signed data")
	fn := w.Func("entity/dag", "readOperationPack")
	if fn == nil {
		c.Undecided("R8.1", "anchor:readOperationPack", "entity/dag", "not found")
		return
	}
	c.seeFn(funcName(fn))
	pos := w.FnPos(fn)
	var check *Call
	for _, cl := range Calls(fn) {
		if strings.HasSuffix(cl.Name, "openpgp.CheckDetachedSignature") || strings.HasSuffix(cl.Name, "openpgp.CheckArmoredDetachedSignature") {
			check = cl
		}
	}
	var vk *Call
	for _, cl := range Calls(fn) {
		if strings.HasSuffix(cl.Name, ".ValidKeysAtTime") {
			vk = cl
		}
	}
	// the verification may live in a same-package helper that is handed the keys ("verification unit")
	unit := fn
	site := check
	if check == nil && vk != nil {
		for _, cl := range Calls(fn) {
			h := cl.Fn
			if h == nil || h.Pkg != fn.Pkg || len(h.Blocks) == 0 || h == fn {
				continue
			}
			for _, hc := range Calls(h) {
				if strings.HasSuffix(hc.Name, "openpgp.CheckDetachedSignature") || strings.HasSuffix(hc.Name, "openpgp.CheckArmoredDetachedSignature") {
					check, unit, site = hc, h, cl
				}
			}
		}
	}
	if check == nil || vk == nil {
		c.Violate("R8.1", "readOperationPack:verification", pos, "no signature verification (ValidKeysAtTime + CheckDetachedSignature) found")
		return
	}
	c.Sites += 2
	keys := vk.Value()
	// the keys as the verification unit sees them
	var keysInUnit ssa.Value = keys
	if unit != fn {
		keysInUnit = nil
		for i, a := range site.Instr.Common().Args {
			if a == keys && i < len(unit.Params) {
				keysInUnit = unit.Params[i]
			}
		}
		if keysInUnit == nil {
			c.Violate("R8.1", "readOperationPack:verification", w.InstrPos(site.Instr), "the helper that verifies the signature is not handed the keys valid at the commit's time")
			return
		}
		c.seeFn(funcName(unit))
		// inside the helper: no success without the check, its error returned, nothing but refusals before it
		isChk := func(i ssa.Instruction) bool { return i == check.Instr }
		badH, pH, _ := pathAvoiding(unit, nil, isSuccessReturn, isChk)
		c.Check(!badH, "R8.1", "readOperationPack:helper-always-verifies", w.InstrPos(check.Instr), "the helper cannot succeed without CheckDetachedSignature", "the helper holding the verification can return success without verifying: "+blocksString(w, pH))
		c.Check(errorPropagated(check.Value(), nil), "R8.1", "readOperationPack:helper-returns-verification-error", w.InstrPos(check.Instr), "verification failure is returned", "the result of CheckDetachedSignature is ignored inside the helper")
	}
	// the len(keys) branch
	var lenIf *ssa.If
	keysEdge := -1
	for _, b := range fn.Blocks {
		if len(b.Instrs) == 0 {
			continue
		}
		iff, ok := b.Instrs[len(b.Instrs)-1].(*ssa.If)
		if !ok {
			continue
		}
		bo, ok := iff.Cond.(*ssa.BinOp)
		if !ok {
			continue
		}
		// the constant on the right (0 < len(keys) is len(keys) > 0)
		opN, xN, yN := bo.Op, bo.X, bo.Y
		if _, isK := constInt(xN); isK {
			opN, xN, yN = swapOp(opN), yN, xN
		}
		lc, ok := xN.(*ssa.Call)
		if !ok {
			continue
		}
		if bi, isB := lc.Common().Value.(*ssa.Builtin); !isB || bi.Name() != "len" || lc.Common().Args[0] != keys {
			continue
		}
		k, isK := constInt(yN)
		if !isK {
			continue
		}
		bo = &ssa.BinOp{Op: opN, X: xN, Y: yN}
		switch {
		case (bo.Op == token.GTR && k == 0) || (bo.Op == token.NEQ && k == 0) || (bo.Op == token.GEQ && k == 1):
			lenIf, keysEdge = iff, 0
		case (bo.Op == token.EQL && k == 0) || (bo.Op == token.LEQ && k == 0) || (bo.Op == token.LSS && k == 1):
			lenIf, keysEdge = iff, 1
		default:
			c.Violate("R8.1", "readOperationPack:keys-in-force-test", w.InstrPos(iff), fmt.Sprintf("verification is conditional on len(keys) %s %d: commits of authors with a key in force can skip verification", bo.Op, k))
			return
		}
	}
	if lenIf == nil {
		c.Violate("R8.1", "readOperationPack:keys-in-force-test", pos, "no test of len(keys) found")
		return
	}
	kb := lenIf.Block().Succs[keysEdge]
	isCheck := func(i ssa.Instruction) bool { return i == site.Instr }
	bad, p, _ := pathSearch(fn, nil, kb, isSuccessReturn, isCheck, false)
	okDom := true
	for _, r := range Returns(fn) {
		if returnKind(r) != RetError && !lenIf.Block().Dominates(r.Block()) {
			okDom = false
		}
	}
	c.Check(!bad && okDom, "R8.1", "readOperationPack:verified-before-success", w.InstrPos(site.Instr), "with a key in force, success is only reachable through CheckDetachedSignature", "a success return is reachable with keys in force but without verification: "+blocksString(w, p))
	c.Check(errorPropagated(site.Value(), nil), "R8.1", "readOperationPack:verification-error-returned", w.InstrPos(site.Instr), "verification failure is returned as an error", "the result of CheckDetachedSignature is ignored")
	// conditional on nothing else
	other := ""
	for _, cc := range controlConds(site.Block(), nil) {
		if cc.If == lenIf || isLoopHeader(cc.If.Block()) {
			continue
		}
		if e := errEdge(cc.If, defaultFail); e >= 0 && e != cc.Edge {
			continue
		}
		other = w.InstrPos(cc.If)
	}
	c.Check(other == "", "R8.1", "readOperationPack:verification-unconditional", w.InstrPos(site.Instr), "verification depends only on keys being in force", "verification is additionally conditional on "+other)

	// R8.2
	vargs := vk.Args()
	c.Check(clockKind(w, vargs[0]) == "edit", "R8.2", "readOperationPack:keys-clock", w.InstrPos(vk.Instr), "keys looked up on the namespace's edit clock", "keys are looked up on a clock other than the namespace's edit clock")
	editPrefix, _ := pkgConstString(w, "entity/dag", "editClockEntryPrefix")
	okTime, whyT := false, "the time given to ValidKeysAtTime is not parsed from this commit's edit-clock tree entry"
	for _, o := range origins(vargs[1]) {
		if o.Kind == "call" && o.Name == "strconv.ParseUint" {
			pc := o.Val.(*ssa.Call)
			if tp, ok := pc.Common().Args[0].(*ssa.Call); ok {
				if n, _ := callName(tp.Common()); n == "strings.TrimPrefix" {
					if pf, ok := constString(tp.Common().Args[1]); ok {
						if pf == editPrefix {
							okTime = true
						} else {
							okTime, whyT = false, "keys are evaluated at the time of the "+pf+" entry, not the edit time"
							break
						}
					}
				}
			}
		} else if o.Kind != "const" {
			okTime, whyT = false, "the time given to ValidKeysAtTime has another origin: "+o.String()
			break
		}
	}
	c.Check(okTime, "R8.2", "readOperationPack:keys-time", w.InstrPos(vk.Instr), "evaluated at the commit's own edit time", whyT)
	c.Check(hasOriginCall(vk.Recv(), "entity/dag.unmarshallPack", 1) != nil, "R8.2", "readOperationPack:keys-author", w.InstrPos(vk.Instr), "keys of this pack's resolved author", "keys are not those of the author resolved for this pack")
	// keyring
	cargs := check.Args()
	okRing, whyR := true, ""
	vals := appendedValues(stripConv(cargs[0]))
	if len(vals) == 0 {
		okRing, whyR = false, "keyring is not built by appending the valid keys"
	}
	for _, v := range vals {
		pc, ok := v.(*ssa.Call)
		if !ok {
			okRing, whyR = false, "keyring receives something other than key.PGPEntity()"
			break
		}
		if n, _ := callName(pc.Common()); n != "entities/identity.Key.PGPEntity" {
			okRing, whyR = false, "keyring receives "+n
			break
		}
		fromKeys := false
		for _, o := range origins(pc.Common().Args[0]) {
			if o.Val == keysInUnit {
				fromKeys = true
			}
		}
		if !fromKeys {
			okRing, whyR = false, "keyring entries do not come from the keys valid at the commit's time"
		}
	}
	c.Check(okRing, "R8.2", "readOperationPack:keyring", w.InstrPos(check.Instr), "keyring = PGPEntity() of exactly the valid keys", whyR)
	okData := hasField(cargs[1], "SignedData") && hasField(cargs[2], "Signature")
	c.Check(okData, "R8.2", "readOperationPack:signed-data", w.InstrPos(check.Instr), "verifies commit.Signature over commit.SignedData", "the data/signature verified are not the commit's SignedData/Signature")

	// R8.3
	for _, f := range []string{"SignedData", "Signature"} {
		ok := false
		for _, g := range cmpGuards(unit, nil) {
			gg, o := g.oriented(func(v ssa.Value) bool { return hasField(v, f) && !hasField(v, "SignedData") == (f != "SignedData") })
			if !o || !isNilConst(gg.Y) || gg.Op != token.EQL {
				continue
			}
			// the continuing edge must dominate the check
			e := errEdge(gg.If, defaultFail)
			if e >= 0 && gg.If.Block().Succs[1-e].Dominates(check.Block()) || gg.If.Block().Dominates(check.Block()) && e >= 0 {
				ok = true
			}
		}
		c.Check(ok, "R8.3", "readOperationPack:signature-present:"+f, w.InstrPos(check.Instr), "nil "+f+" is an error", "a commit without "+f+" reaches CheckDetachedSignature (nil reader) instead of being rejected")
	}
}
