package main

// Rules over entity/dag.read (generic origin): refusal guards (C03), order key
// and comparator (C01/C03), witnessing (C05), order independence of parent look-ups.

import (
	"fmt"
	"go/token"
	"go/types"
	"strings"

	"golang.org/x/tools/go/ssa"
)

// controlCond: the instruction's block is only reachable through edge Edge of If.
type controlCond struct {
	If   *ssa.If
	Edge int
}

// controlConds walks the dominator chain from block b up to (excluding) stop and returns the
// branch edges b is control dependent on.
func controlConds(b, stop *ssa.BasicBlock) []controlCond {
	var out []controlCond
	for x := b; x != nil && x != stop; x = x.Idom() {
		p := x.Idom()
		if p == nil || len(p.Instrs) == 0 {
			break
		}
		iff, ok := p.Instrs[len(p.Instrs)-1].(*ssa.If)
		if !ok || len(x.Preds) != 1 || x.Preds[0] != p {
			continue
		}
		e := 0
		if p.Succs[1] == x {
			e = 1
		}
		out = append(out, controlCond{iff, e})
	}
	return out
}

func isLoopHeader(b *ssa.BasicBlock) bool {
	switch b.Comment {
	case "rangeindex.loop", "rangeiter.loop", "for.loop", "rangechan.loop", "rangeint.loop":
		return true
	}
	return false
}

// inLoop: b belongs to the natural loop of header h (h dominates b and b reaches h through
// blocks dominated by h only).
func inLoop(b, h *ssa.BasicBlock) bool {
	if !h.Dominates(b) {
		return false
	}
	if b == h {
		return true
	}
	seen := map[*ssa.BasicBlock]bool{b: true}
	q := []*ssa.BasicBlock{b}
	for len(q) > 0 {
		x := q[0]
		q = q[1:]
		for _, s := range x.Succs {
			if s == h {
				return true
			}
			if seen[s] || !h.Dominates(s) {
				continue
			}
			seen[s] = true
			q = append(q, s)
		}
	}
	return false
}

// enclosingLoopHeader: innermost loop header whose natural loop contains b.
func enclosingLoopHeader(b *ssa.BasicBlock) *ssa.BasicBlock {
	for x := b; x != nil; x = x.Idom() {
		if isLoopHeader(x) && inLoop(b, x) {
			return x
		}
	}
	return nil
}

func outermostLoopHeader(b *ssa.BasicBlock) *ssa.BasicBlock {
	var out *ssa.BasicBlock
	for x := b; x != nil; x = x.Idom() {
		if isLoopHeader(x) && inLoop(b, x) {
			out = x
		}
	}
	return out
}

func reaches(from, to *ssa.BasicBlock) bool {
	seen := map[*ssa.BasicBlock]bool{}
	q := []*ssa.BasicBlock{}
	q = append(q, from.Succs...)
	for len(q) > 0 {
		b := q[0]
		q = q[1:]
		if b == to {
			return true
		}
		if seen[b] {
			continue
		}
		seen[b] = true
		q = append(q, b.Succs...)
	}
	return false
}

// packRole classifies a *operationPack value in read: "parent" (looked up by an element of
// commit.Parents), "self" (looked up by commit.Hash, or the result of readOperationPack), or "".
func packRole(v ssa.Value) string {
	v = stripConv(v)
	switch x := v.(type) {
	case *ssa.Extract:
		if lk, ok := x.Tuple.(*ssa.Lookup); ok {
			return lookupRole(lk)
		}
		if c, ok := x.Tuple.(*ssa.Call); ok {
			if n, _ := callName(c.Common()); n == "entity/dag.readOperationPack" {
				return "self"
			}
		}
	case *ssa.Lookup:
		return lookupRole(x)
	case *ssa.Phi:
		role := ""
		for _, e := range x.Edges {
			r := packRole(e)
			if role == "" {
				role = r
			} else if r != role {
				return ""
			}
		}
		return role
	}
	return ""
}

func lookupRole(lk *ssa.Lookup) string {
	if hasField(lk.Index, "Parents") {
		return "parent"
	}
	if hasField(lk.Index, "Hash") {
		return "self"
	}
	return ""
}

// fieldOfPack: v is a load of field `field` of a pack with the given role.
func fieldOfPack(v ssa.Value, field, role string) bool {
	base, f, ok := loadOfField(v)
	return ok && f == field && packRole(base) == role
}

func lenOfFieldOf(v ssa.Value, field string) (ssa.Value, bool) {
	c, ok := v.(*ssa.Call)
	if !ok {
		return nil, false
	}
	b, ok := c.Common().Value.(*ssa.Builtin)
	if !ok || b.Name() != "len" {
		return nil, false
	}
	base, f, ok := loadOfField(c.Common().Args[0])
	if !ok || f != field {
		return nil, false
	}
	return base, true
}

// parentsCond classifies a branch condition on len(commit.Parents): returns "root" (len==0 on
// this edge), "nonroot", "merge" (len>1), "nonmerge", or "".
func parentsCond(cc controlCond) string {
	cond := cc.If.Cond
	edge := cc.Edge
	for {
		if u, ok := cond.(*ssa.UnOp); ok && u.Op == token.NOT {
			cond = u.X
			edge = 1 - edge
			continue
		}
		break
	}
	bo, ok := cond.(*ssa.BinOp)
	if !ok {
		return ""
	}
	x, y, op := bo.X, bo.Y, bo.Op
	if _, isLen := lenOfFieldOf(y, "Parents"); isLen {
		x, y, op = y, x, swapOp(op)
	}
	if _, isLen := lenOfFieldOf(x, "Parents"); !isLen {
		return ""
	}
	k, isK := constInt(y)
	if !isK {
		return ""
	}
	if edge == 1 {
		op = negateOp(op)
	}
	switch {
	case op == token.EQL && k == 0, op == token.LEQ && k == 0, op == token.LSS && k == 1:
		return "root"
	case op == token.NEQ && k == 0, op == token.GTR && k == 0, op == token.GEQ && k == 1:
		return "nonroot"
	case op == token.GTR && k == 1, op == token.GEQ && k == 2:
		return "merge"
	case op == token.LEQ && k == 1, op == token.LSS && k == 2:
		return "nonmerge"
	}
	return ""
}

// classifyPreconds: examines what a guard is control dependent on inside its loop.
// Returns the set of parents-conditions and a description of any other (unexpected) condition.
func classifyPreconds(w *World, g *ssa.If, fail failPred) (map[string]bool, string) {
	pre := map[string]bool{}
	hdr := enclosingLoopHeader(g.Block())
	var stop *ssa.BasicBlock
	if hdr != nil {
		stop = hdr.Idom()
	}
	for _, cc := range controlConds(g.Block(), stop) {
		if isLoopHeader(cc.If.Block()) {
			continue
		}
		// the continuing edge of another refusal guard
		if e := errEdge(cc.If, fail); e >= 0 && e != cc.Edge {
			continue
		}
		if pc := parentsCond(cc); pc != "" {
			pre[pc] = true
			continue
		}
		// comma-ok of a map lookup / type assertion on its ok edge
		if ex, ok := cc.If.Cond.(*ssa.Extract); ok && ex.Index == 1 && cc.Edge == 0 {
			if _, isLk := ex.Tuple.(*ssa.Lookup); isLk {
				continue
			}
		}
		return pre, "only evaluated when the condition at " + w.InstrPos(cc.If) + " takes its " + map[int]string{0: "true", 1: "false"}[cc.Edge] + " edge"
	}
	return pre, ""
}

func init() {
	register("C03",
		"Static analysis of entity/dag.read on all paths: each documented refusal (second root, merge commit with operations, root without creation time, parent edit time >= child's, non-merge hop above a positive constant, invalid pack) exists as a normalised guard 'fails iff X op Y' with the right operands, polarity and strictness, is control dependent only on its documented precondition, and sits on the way to the success return; parent look-ups cannot precede the insertion of any commit's pack (order independence of the traversal); the order key is exactly (EditTime, pack id) ascending, decided by abstract interpretation of the comparator closure over the 9 possible key orderings; the operation list is the concatenation of the sorted packs' operations in stored order and nothing else flows into Entity.ops.",
		[]string{"sort.Slice sorts according to the comparator", "pack ids and edit times are functions of stored git content (C04)", "that the refusals cover every contradictory history is not decided"},
		func(c *Ctx) {
			checkReadGuards(c)
			checkPackValidate(c)
			checkOrderIndependence(c)
			checkComparator(c, "R1.1")
			checkOpsConcatenation(c)
			checkWitnessAll(c, "R5.3")
			// … and a witnessed time is never lost: the next commit of the process is dated above what it read (shared with C05)
			checkClockRebuild(c)
			checkReadIgnoresOwnClocks(c, "R3.7")
			// the tie-break key is the id of the stored bytes (shared with C04); the compiled state follows the same order (shared with C10)
			checkDeriveIdSites(c)
			checkCompileKeepsOrder(c, "R10.1")
			// what Commit stores keeps the staging order: packs are cut where the author changes, never regrouped (shared with C04)
			checkAuthorSplit(c)
			// the histories git-bug writes itself pass these refusals: the merge commit is dated after both branches were witnessed (shared with C01/C05)
			checkMergeCommitPack(c)
			// git-bug must not itself produce a history it refuses: merge joins related histories only (shared with C02)
			ruleDocsMerge(c)
			checkMergeFns(c, newEffects(c.W))
		})
	register("C01",
		"Convergence follows from three code-shape facts decided here plus the refusals of C03: (R1.1) the order of operation packs is a pure function of stored data — the comparator of dag.read is the lexicographic order on (EditTime, pack id), decided by abstract interpretation over all key orderings, and reads nothing else; (R1.2) no map iteration order reaches the operation list unsorted; (R1.3) a merge commit carries no operations and an edit time freshly incremented after both branches were read (so witnessed), with both heads as parents; (R3.5) reading does not depend on the traversal order of the commit graph; (R2.1–R2.4, R2.6, R11.1) the merge classifies ancestry correctly, hands back the merged state, and the cache takes every merged entity over (loaded instance, excerpt, index, cache file), so what a long-running replica shows and builds its next edit on is the merged history.",
		[]string{"equal stored histories on both replicas after exchange (git transport)", "equality of the resulting lists is implied, not computed"},
		func(c *Ctx) {
			checkComparator(c, "R1.1")
			checkOpsConcatenation(c)
			checkMergeCommitPack(c)
			checkOrderIndependence(c)
			checkWitnessAll(c, "R1.4")
			// every replica accepts exactly the commits the others accept: the signature check and its inputs (shared with C08)
			checkPackVerification(c)
			// … and every replica writes what the others accept: a merge commit is signed like any other commit (shared with C08)
			c.Doc("R8.5", "Write stores a signed commit iff Author.SigningKey is non-nil, with that key, whatever the pack holds")
			checkSigningWrite(c)
			// … and refuses exactly the histories the others refuse (shared with C03)
			checkReadGuards(c)
			// what a replica shows and builds its next edit on is what merge hands back and what the
			// cache takes over: both must be the merged state (shared with C02/C11)
			ruleDocsMerge(c)
			checkMergeFns(c, newEffects(c.W))
			checkCacheMergeFold(c, "R2.6")
			checkNewOnlyWhenRefAbsent(c)
			// what was fetched gets merged: a pull never reports success while the fetched data stays unmerged (shared with C06)
			checkActionsAtomic(c, newEffects(c.W))
			// a replica that must rebuild its clocks can still open a history with merges; the exchange goes to the remote that was named
			checkClockWalkToRoot(c, "R1.6")
			checkRemoteArgumentHonoured(c, "R1.7")
			// what is exchanged is every namespace, and a merge leaves the tracking refs to fetch and push
			checkOneRefspecPerNamespace(c, "R15.15")
			checkMergeMovesLocalRefOnly(c, "R2.13")
			c.Doc("R11.1", "per SubCache function: excerpts store ⇒ index write; delete ⇒ Index.Remove; reset ⇒ Index.Clear; and SubCache.write() on every path to a non-error exit")
			checkExcerptIndexPairing(c)
		})
}

func readFn(c *Ctx, rule string) *ssa.Function {
	fn := c.W.Func("entity/dag", "read")
	if fn == nil || len(fn.Blocks) == 0 {
		c.Undecided(rule, "anchor:entity/dag.read", "entity/dag", "function not found")
		return nil
	}
	c.seeFn(funcName(fn))
	return fn
}

// R3.1
func checkReadGuards(c *Ctx) {
	w := c.W
	c.Doc("R3.1", "refusal guards of dag.read, normalised to 'fails iff X op Y': (a) second parentless commit; (b) len(Parents)>1 ∧ len(Operations)>0; (c) root ∧ CreateTime<=0; (d) parent.EditTime >= child.EditTime; (e) non-merge ∧ child.EditTime-parent.EditTime > K (K>0); (f) pack.Validate() error propagated. Each is control dependent only on its documented precondition and lies before the success return")
	fn := readFn(c, "R3.1")
	if fn == nil {
		return
	}
	pos := w.FnPos(fn)
	guards := cmpGuards(fn, nil)
	c.Sites += len(guards)
	var succ *ssa.Return
	for _, r := range Returns(fn) {
		if returnKind(r) != RetError {
			succ = r
		}
	}
	if succ == nil {
		c.Undecided("R3.1", "read:success-return", pos, "no success return found")
		return
	}
	beforeSuccess := func(i ssa.Instruction) bool {
		// the guard's loop header (or the guard itself) dominates the success return
		if h := outermostLoopHeader(i.Block()); h != nil {
			return h.Dominates(succ.Block())
		}
		return i.Block().Dominates(succ.Block())
	}
	report := func(key string, found *CmpGuard, why string, wantPre map[string]bool) {
		if found == nil {
			c.Violate("R3.1", "read:"+key, pos, why)
			return
		}
		gpos := w.InstrPos(found.Bin)
		pre, other := classifyPreconds(w, found.If, defaultFail)
		if other != "" {
			c.Violate("R3.1", "read:"+key, gpos, "the refusal is "+other)
			return
		}
		for p := range pre {
			if _, allowed := wantPre[p]; !allowed {
				c.Violate("R3.1", "read:"+key, gpos, "the refusal only applies to "+p+" commits")
				return
			}
		}
		for p, must := range wantPre {
			if must && !pre[p] {
				c.Violate("R3.1", "read:"+key, gpos, "the refusal is not restricted to "+p+" commits")
				return
			}
		}
		if !beforeSuccess(found.If) {
			c.Violate("R3.1", "read:"+key, gpos, "the refusal is not on the way to the success return")
			return
		}
		c.Hold("R3.1", "read:"+key, gpos, fmt.Sprintf("fails iff %s", why))
	}

	// (d) parent.EditTime >= child.EditTime
	{
		var found *CmpGuard
		why := "no comparison of the parent's edit time with the child's guarding a refusal"
		for i := range guards {
			g, ok := guards[i].oriented(func(v ssa.Value) bool { return fieldOfPack(v, "EditTime", "parent") })
			if !ok || !fieldOfPack(g.Y, "EditTime", "self") {
				continue
			}
			if g.Op == token.GEQ {
				found, why = &g, "parent.EditTime >= child.EditTime"
				break
			}
			why = "refuses iff parent.EditTime " + g.Op.String() + " child.EditTime (must be >=: equal times must be refused)"
		}
		report("d:parent-time-not-smaller", found, why, map[string]bool{})
	}
	// (e) hop limit
	{
		var found *CmpGuard
		why := "no limit on the edit-time distance between a commit and its parent"
		for i := range guards {
			g := guards[i]
			sub, ok := g.X.(*ssa.BinOp)
			if !ok || sub.Op != token.SUB {
				continue
			}
			k, isK := constInt(g.Y)
			if !isK {
				continue
			}
			if !(fieldOfPack(sub.X, "EditTime", "self") && fieldOfPack(sub.Y, "EditTime", "parent")) {
				why = "hop test does not subtract the parent's edit time from the child's"
				continue
			}
			if (g.Op == token.GTR || g.Op == token.GEQ) && k > 0 && k < 1000000 {
				// the edit clock is shared by every entity of the repository: the distance between two commits of one entity is the
				// repository's whole activity in between. The bound exists against roll-over attacks, not to limit that activity.
				why = fmt.Sprintf("the hop limit is %d: an entity left alone while %d other commits are made in the repository becomes unreadable for its own author (and refused by every replica) at its next edit; the documented bound is 1,000,000", k, k)
				continue
			}
			if (g.Op == token.GTR || g.Op == token.GEQ) && k > 0 {
				gg := g
				found, why = &gg, fmt.Sprintf("child.EditTime - parent.EditTime %s %d", g.Op, k)
				break
			}
			why = fmt.Sprintf("hop test refuses iff distance %s %d", g.Op, k)
		}
		report("e:hop-limit", found, why, map[string]bool{"nonmerge": true}) // required: the merge commits git-bug writes itself are dated by a clock shared by all entities and may be arbitrarily far from a dormant branch
	}
	// (b) merge commit with operations
	{
		var found *CmpGuard
		why := "no refusal of merge commits carrying operations"
		for i := range guards {
			g := guards[i]
			base, ok := lenOfFieldOf(g.X, "Operations")
			if !ok || packRole(base) != "self" {
				continue
			}
			k, isK := constInt(g.Y)
			if !isK {
				continue
			}
			if (g.Op == token.GTR && k == 0) || (g.Op == token.NEQ && k == 0) || (g.Op == token.GEQ && k == 1) {
				gg := g
				found, why = &gg, "len(pack.Operations) > 0 on a merge commit"
				break
			}
		}
		report("b:merge-commit-empty", found, why, map[string]bool{"merge": true})
	}
	// (c) root creation time
	{
		var found *CmpGuard
		why := "no refusal of a root commit without creation time"
		for i := range guards {
			g, ok := guards[i].oriented(func(v ssa.Value) bool { return fieldOfPack(v, "CreateTime", "self") })
			if !ok {
				continue
			}
			k, isK := constInt(g.Y)
			if !isK {
				continue
			}
			if (g.Op == token.LEQ && k == 0) || (g.Op == token.EQL && k == 0) || (g.Op == token.LSS && k == 1) {
				gg := g
				found, why = &gg, "root.CreateTime <= 0"
				break
			}
			why = fmt.Sprintf("creation-time test refuses iff CreateTime %s %d", g.Op, k)
		}
		report("c:root-has-create-time", found, why, map[string]bool{"root": true})
	}
	// (a) single root: a refusal under the 'root' precondition whose condition is loop-carried state
	{
		ok := false
		detail := "no refusal of a second parentless commit found"
		for _, b := range fn.Blocks {
			if len(b.Instrs) == 0 {
				continue
			}
			iff, isIf := b.Instrs[len(b.Instrs)-1].(*ssa.If)
			if !isIf {
				continue
			}
			e := errEdge(iff, defaultFail)
			if e < 0 {
				continue
			}
			// condition: loop-carried boolean phi (rootFound) failing on true, or a counter compared > 1 / >= 2
			carried := false
			cond := iff.Cond
			failsOnTrue := e == 0
			for {
				if u, isU := cond.(*ssa.UnOp); isU && u.Op == token.NOT {
					cond = u.X
					failsOnTrue = !failsOnTrue
					continue
				}
				break
			}
			if phi, isPhi := cond.(*ssa.Phi); isPhi && isLoopHeader(phi.Block()) && failsOnTrue {
				// becomes true only under the root precondition
				carried = phiTrueOnlyUnderRoot(phi)
			} else if bo, isBo := cond.(*ssa.BinOp); isBo {
				if phi, isPhi := bo.X.(*ssa.Phi); isPhi && isLoopHeader(phi.Block()) {
					if k, isK := constInt(bo.Y); isK && failsOnTrue && ((bo.Op == token.GTR && k == 1) || (bo.Op == token.GEQ && k == 2) || (bo.Op == token.GEQ && k == 1) || (bo.Op == token.GTR && k == 0)) {
						carried = true
					}
				}
			} else if isPositionalFirst(cond) {
				// legacy idiom: "not the first commit of the (reversed) order"
				carried = true
			}
			if !carried {
				continue
			}
			pre, other := classifyPreconds(w, iff, defaultFail)
			if other != "" {
				detail = "single-root refusal is " + other
				continue
			}
			if pre["root"] && beforeSuccess(iff) {
				ok = true
				detail = "a parentless commit after the first one is refused"
				c.Sites++
			}
		}
		c.Check(ok, "R3.1", "read:a:single-root", pos, detail, detail)
	}
	// (f) Validate propagated, unconditionally per commit
	{
		ok := false
		detail := "operationPack.Validate() is not called on the packs read"
		for _, cl := range CallsNamed(fn, "entity/dag.operationPack.Validate") {
			if cl.Value() == nil || !errorPropagated(cl.Value(), nil) {
				detail = "the error of operationPack.Validate() is not propagated"
				continue
			}
			if packRole(cl.Recv()) != "self" {
				continue
			}
			// unconditional within its loop
			hdr := enclosingLoopHeader(cl.Block())
			var stop *ssa.BasicBlock
			if hdr != nil {
				stop = hdr.Idom()
			}
			bad := ""
			for _, cc := range controlConds(cl.Block(), stop) {
				if isLoopHeader(cc.If.Block()) {
					continue
				}
				if e := errEdge(cc.If, defaultFail); e >= 0 && e != cc.Edge {
					continue
				}
				bad = w.InstrPos(cc.If)
			}
			if bad != "" {
				detail = "pack validation is conditional on " + bad
				continue
			}
			ok = true
		}
		c.Check(ok, "R3.1", "read:f:pack-validated", pos, "every pack read is validated and the error propagated", detail)
	}
}

func isPositionalFirst(v ssa.Value) bool {
	bo, ok := v.(*ssa.BinOp)
	if !ok || (bo.Op != token.EQL && bo.Op != token.NEQ) {
		return false
	}
	// i == len(x)-1 or i == 0 with i a loop index
	_, xPhi := bo.X.(*ssa.Phi)
	_, xBin := bo.X.(*ssa.BinOp)
	return xPhi || xBin
}

func phiTrueOnlyUnderRoot(phi *ssa.Phi) bool {
	seen := map[*ssa.Phi]bool{}
	ok := true
	any := false
	var walk func(p *ssa.Phi)
	walk = func(p *ssa.Phi) {
		if seen[p] {
			return
		}
		seen[p] = true
		for i, e := range p.Edges {
			switch x := e.(type) {
			case *ssa.Const:
				if x.Value != nil && x.Value.String() == "true" {
					any = true
					from := p.Block().Preds[i]
					under := false
					for _, cc := range controlConds(from, nil) {
						if parentsCond(cc) == "root" {
							under = true
						}
					}
					if !under {
						ok = false
					}
				}
			case *ssa.Phi:
				walk(x)
			default:
				ok = false
			}
		}
	}
	walk(phi)
	return ok && any
}

// checkPackValidate: inside operationPack.Validate
func checkPackValidate(c *Ctx) {
	w := c.W
	c.Doc("R3.1v", "operationPack.Validate: nil author → error; an operation whose author id differs from the pack's → error; EditTime == 0 → error")
	fn := w.Method("entity/dag", "operationPack", "Validate")
	if fn == nil {
		c.Undecided("R3.1v", "anchor:operationPack.Validate", "entity/dag", "not found")
		return
	}
	c.seeFn(funcName(fn))
	pos := w.FnPos(fn)
	a, b, d := false, false, false
	for _, g := range cmpGuards(fn, nil) {
		c.Sites++
		if gg, ok := g.oriented(func(v ssa.Value) bool { return hasField(v, "Author") && !strings.Contains(v.Type().String(), "Id") }); ok && isNilConst(gg.Y) && gg.Op == token.EQL {
			a = true
		}
		if gg, ok := g.oriented(func(v ssa.Value) bool { return hasField(v, "EditTime") }); ok {
			if k, isK := constInt(gg.Y); isK && k == 0 && (gg.Op == token.EQL || gg.Op == token.LEQ) {
				d = true
			}
		}
		// op.Author().Id() != opp.Author.Id()
		if g.Op == token.NEQ {
			cx, okx := g.X.(*ssa.Call)
			cy, oky := g.Y.(*ssa.Call)
			if okx && oky {
				nx, _ := callName(cx.Common())
				ny, _ := callName(cy.Common())
				if strings.HasSuffix(nx, ".Id") && strings.HasSuffix(ny, ".Id") {
					// one side from an operation's Author(), the other from the pack's Author field
					fromOp := func(cv *ssa.Call) bool {
						r := cv.Common().Value
						if !cv.Common().IsInvoke() && len(cv.Common().Args) > 0 {
							r = cv.Common().Args[0]
						}
						return hasOriginCall(r, "entity/dag.Operation.Author", -1) != nil
					}
					fromPack := func(cv *ssa.Call) bool {
						r := cv.Common().Value
						if !cv.Common().IsInvoke() && len(cv.Common().Args) > 0 {
							r = cv.Common().Args[0]
						}
						return hasField(r, "Author")
					}
					if (fromOp(cx) && fromPack(cy)) || (fromOp(cy) && fromPack(cx)) {
						b = true
					}
				}
			}
		}
	}
	c.Check(a, "R3.1v", "operationPack.Validate:author-nil", pos, "fails iff Author == nil", "a pack without author is not refused")
	c.Check(b, "R3.1v", "operationPack.Validate:same-author", pos, "fails iff an operation's author differs from the pack's", "operations of a different author than the pack's are not refused")
	c.Check(d, "R3.1v", "operationPack.Validate:edit-time", pos, "fails iff EditTime == 0", "a pack without edit time is not refused")
}

// R3.5
func checkOrderIndependence(c *Ctx) {
	w := c.W
	c.Doc("R3.5", "in dag.read no look-up of a parent's pack can be followed (on any path) by the insertion of a pack into the same map: all packs are stored before the first parent look-up, so the checks do not depend on the traversal order being topological")
	fn := readFn(c, "R3.5")
	if fn == nil {
		return
	}
	var updates []*ssa.MapUpdate
	var lookups []*ssa.Lookup
	for _, b := range fn.Blocks {
		for _, ins := range b.Instrs {
			switch x := ins.(type) {
			case *ssa.MapUpdate:
				if isPackMap(x.Map.Type()) {
					updates = append(updates, x)
				}
			case *ssa.Lookup:
				if isPackMap(x.X.Type()) && lookupRole(x) == "parent" {
					lookups = append(lookups, x)
				}
			}
		}
	}
	c.Sites += len(updates) + len(lookups)
	pos := w.FnPos(fn)
	if len(updates) == 0 || len(lookups) == 0 {
		c.Violate("R3.5", "entity/dag.read:expected:pack-map", pos, fmt.Sprintf("pack map insertions=%d, parent look-ups=%d (reference: 1 and 1)", len(updates), len(lookups)))
		return
	}
	bad := ""
	for _, lk := range lookups {
		for _, up := range updates {
			if ok, p, _ := pathSearch(fn, lk, nil, func(i ssa.Instruction) bool { return i == ssa.Instruction(up) }, nil, false); ok {
				bad = fmt.Sprintf("parent look-up at %s can be followed by the insertion at %s (%s): a parent visited later is missing", w.InstrPos(lk), w.InstrPos(up), blocksString(w, p))
			}
		}
	}
	c.Check(bad == "", "R3.5", "entity/dag.read:parent-lookup-order-independent", w.InstrPos(lookups[0]), "every pack is stored before any parent look-up", bad)
	// a missing parent must be an error, not a panic, and must be tested
	for _, lk := range lookups {
		okTest := false
		if lk.CommaOk {
			for _, r := range *lk.Referrers() {
				if e, isE := r.(*ssa.Extract); isE && e.Index == 1 {
					for _, u := range condUsers(e) {
						ee := errEdge(u.If, defaultFail)
						if (ee == 1 && !u.Neg) || (ee == 0 && u.Neg) {
							// error-directed must be a return, not a panic
							fb := u.If.Block().Succs[ee]
							if len(fb.Instrs) > 0 {
								if _, isPanic := fb.Instrs[len(fb.Instrs)-1].(*ssa.Panic); !isPanic {
									okTest = true
								}
							}
						}
					}
				}
			}
		}
		c.Check(okTest, "R3.5", "entity/dag.read:missing-parent-is-error", w.InstrPos(lk), "an absent parent pack returns an error", "an absent parent pack is not turned into an error return (panic or nil dereference)")
	}
}

func isPackMap(t types.Type) bool {
	m, ok := t.Underlying().(*types.Map)
	if !ok {
		return false
	}
	return typeShortName(m.Elem()) == "entity/dag.operationPack"
}

// ---- comparator: abstract interpretation over key orderings ----

type absKey struct {
	elem int    // 0 = first index parameter, 1 = second
	key  string // field name or method name
}

// checkComparator: R1.1
func checkComparator(c *Ctx, rule string) {
	w := c.W
	c.Doc(rule, "the less-function passed to sort.Slice in dag.read is the ascending lexicographic order on (pack.EditTime, pack.Id()): decided by interpreting the closure's SSA over all 9 orderings of the two keys; it may read nothing but these two keys of its two elements")
	fn := readFn(c, rule)
	if fn == nil {
		return
	}
	sortAt, _, less, sortName := findSliceSort(fn)
	if sortAt == nil {
		c.Violate(rule, "entity/dag.read:expected:sort", w.FnPos(fn), "no sort of the operation packs found")
		return
	}
	pos := w.InstrPos(sortAt)
	if less == nil || sortName != "sort.Slice" && sortName != "sort.SliceStable" || len(less.Params) != 2 {
		c.Undecided(rule, "entity/dag.read:comparator", pos, "sort idiom not recognised (expected sort.Slice with a func(i, j int) bool literal)")
		return
	}
	c.seeFn(funcName(less))
	keys := map[string]bool{}
	results := map[[2]int]int{} // ordering of (k1,k2) each in {-1,0,1} -> 0/1 result, -1 undecided
	undec := ""
	for o1 := -1; o1 <= 1; o1++ {
		for o2 := -1; o2 <= 1; o2++ {
			r, why := interpretLess(less, map[string]int{"EditTime": o1, "Id": o2}, keys, nil)
			c.Sites++
			if r < 0 {
				undec = why
			}
			results[[2]int{o1, o2}] = r
		}
	}
	if undec != "" {
		c.Undecided(rule, "entity/dag.read:comparator", pos, "comparator not interpretable: "+undec)
		return
	}
	for k := range keys {
		if k != "EditTime" && k != "Id" {
			c.Violate(rule, "entity/dag.read:comparator", pos, "the comparator reads "+k+": the order must depend on (EditTime, pack id) only")
			return
		}
	}
	if !keys["EditTime"] || !keys["Id"] {
		c.Violate(rule, "entity/dag.read:comparator", pos, fmt.Sprintf("the comparator does not use both keys (EditTime used: %v, pack id tie-break used: %v)", keys["EditTime"], keys["Id"]))
		return
	}
	for o1 := -1; o1 <= 1; o1++ {
		for o2 := -1; o2 <= 1; o2++ {
			want := 0
			if o1 < 0 || (o1 == 0 && o2 < 0) {
				want = 1
			}
			if results[[2]int{o1, o2}] != want {
				c.Violate(rule, "entity/dag.read:comparator", pos, fmt.Sprintf("for EditTime ordering %s and id ordering %s the comparator returns %v, the (EditTime, id) ascending order requires %v", ordStr(o1), ordStr(o2), results[[2]int{o1, o2}] == 1, want == 1))
				return
			}
		}
	}
	c.Hold(rule, "entity/dag.read:comparator", pos, "lexicographic ascending on (EditTime, pack id) for all 9 key orderings")
}

func ordStr(o int) string { return map[int]string{-1: "a<b", 0: "a==b", 1: "a>b"}[o] }

// interpretLess symbolically runs a less(i, j) closure. Values: abstract keys of element i / j,
// booleans. ord maps key name -> ordering of key(elem i) vs key(elem j).
func interpretLess(fn *ssa.Function, ord map[string]int, keysSeen map[string]bool, bind map[ssa.Value]int) (int, string) {
	type val struct {
		isBool bool
		b      bool
		key    *absKey
	}
	env := map[ssa.Value]val{}
	// the two index parameters (the int-typed ones, in order)
	var idxParams []*ssa.Parameter
	for _, pp := range fn.Params {
		if bt, ok := pp.Type().Underlying().(*types.Basic); ok && bt.Kind() == types.Int {
			idxParams = append(idxParams, pp)
		}
	}
	paramPos := func(p *ssa.Parameter) int {
		for i, pp := range idxParams {
			if pp == p {
				return i
			}
		}
		return -1
	}
	var elemOf func(v ssa.Value) int
	elemOf = func(v ssa.Value) int {
		// a value the caller bound to one of the two elements (comparison delegated to a helper)
		if e, ok := bind[v]; ok {
			return e
		}
		// pointer/value of the slice element indexed by the first or the second index parameter
		switch x := v.(type) {
		case *ssa.UnOp:
			if x.Op == token.MUL {
				return elemOf(x.X)
			}
		case *ssa.IndexAddr:
			if p, ok := x.Index.(*ssa.Parameter); ok {
				return paramPos(p)
			}
		case *ssa.Index:
			if p, ok := x.Index.(*ssa.Parameter); ok {
				return paramPos(p)
			}
		}
		return -1
	}
	keyOf := func(v ssa.Value) *absKey {
		switch x := v.(type) {
		case *ssa.UnOp:
			if x.Op == token.MUL {
				if fa, ok := x.X.(*ssa.FieldAddr); ok {
					if e := elemOf(fa.X); e >= 0 {
						return &absKey{e, fieldName(fa)}
					}
				}
			}
		case *ssa.Call:
			cc := x.Common()
			if !cc.IsInvoke() && cc.StaticCallee() != nil && len(cc.Args) == 1 {
				if e := elemOf(cc.Args[0]); e >= 0 {
					return &absKey{e, cc.StaticCallee().Name()}
				}
			}
		case *ssa.Convert:
			return nil
		}
		return nil
	}
	b := fn.Blocks[0]
	var prev *ssa.BasicBlock
	steps := 0
	for {
		steps++
		if steps > 200 {
			return -1, "too many steps"
		}
		for _, ins := range b.Instrs {
			switch x := ins.(type) {
			case *ssa.Phi:
				for i, p := range b.Preds {
					if p == prev {
						if v, ok := env[x.Edges[i]]; ok {
							env[x] = v
						} else if k, isK := x.Edges[i].(*ssa.Const); isK && k.Value != nil {
							env[x] = val{isBool: true, b: k.Value.String() == "true"}
						} else {
							return -1, "phi operand not evaluated at " + x.String()
						}
					}
				}
			case *ssa.BinOp:
				var kx, ky *absKey
				if v, ok := env[x.X]; ok {
					kx = v.key
				}
				if v, ok := env[x.Y]; ok {
					ky = v.key
				}
				if kx == nil || ky == nil {
					// boolean operators on evaluated bools
					vx, okx := env[x.X]
					vy, oky := env[x.Y]
					if okx && oky && vx.isBool && vy.isBool {
						switch x.Op {
						case token.AND:
							env[x] = val{isBool: true, b: vx.b && vy.b}
							continue
						case token.OR:
							env[x] = val{isBool: true, b: vx.b || vy.b}
							continue
						case token.EQL:
							env[x] = val{isBool: true, b: vx.b == vy.b}
							continue
						case token.NEQ:
							env[x] = val{isBool: true, b: vx.b != vy.b}
							continue
						}
					}
					return -1, "comparison of values that are not keys of the two elements: " + x.String()
				}
				if kx.key != ky.key {
					return -1, "comparison mixes different keys: " + x.String()
				}
				name := kx.key
				o, known := ord[name]
				if kx.elem == ky.elem {
					// a key compared with itself (index slip): always equal
					keysSeen[name+" of the same element on both sides"] = true
					o, known = 0, true
				}
				if !known {
					keysSeen[name] = true
					o = 0 // unknown key: treated as equal, reported through keysSeen
				}
				keysSeen[name] = true
				if kx.elem == 1 { // comparing key(j) op key(i): flip
					o = -o
				}
				var r bool
				switch x.Op {
				case token.LSS:
					r = o < 0
				case token.LEQ:
					r = o <= 0
				case token.GTR:
					r = o > 0
				case token.GEQ:
					r = o >= 0
				case token.EQL:
					r = o == 0
				case token.NEQ:
					r = o != 0
				default:
					return -1, "unsupported operator " + x.Op.String()
				}
				env[x] = val{isBool: true, b: r}
			case *ssa.UnOp:
				if x.Op == token.NOT {
					if v, ok := env[x.X]; ok && v.isBool {
						env[x] = val{isBool: true, b: !v.b}
					} else {
						return -1, "negation of an unevaluated value"
					}
					continue
				}
				if k := keyOf(x); k != nil {
					env[x] = val{key: k}
				}
			case *ssa.Call:
				if k := keyOf(x); k != nil {
					env[x] = val{key: k}
					continue
				}
				// the comparison is delegated to a same-package function of the two elements
				if callee := x.Common().StaticCallee(); callee != nil && !x.Common().IsInvoke() && callee.Pkg == fn.Pkg && len(callee.Blocks) > 0 && len(x.Common().Args) == len(callee.Params) && len(callee.Params) >= 2 {
					if bt, isB := x.Type().Underlying().(*types.Basic); isB && bt.Kind() == types.Bool {
						sub := map[ssa.Value]int{}
						okAll := true
						for i, a := range x.Common().Args {
							e := elemOf(a)
							if e < 0 {
								okAll = false
								break
							}
							sub[callee.Params[i]] = e
						}
						if okAll {
							r, why := interpretLess(callee, ord, keysSeen, sub)
							if r < 0 {
								return -1, why
							}
							env[x] = val{isBool: true, b: r == 1}
						}
					}
				}
			case *ssa.Convert:
				if v, ok := env[x.X]; ok {
					env[x] = v
				}
			case *ssa.ChangeType:
				if v, ok := env[x.X]; ok {
					env[x] = v
				}
			case *ssa.If:
				v, ok := env[x.Cond]
				if !ok || !v.isBool {
					return -1, "branch on a value that is not a comparison of the two elements' keys (" + x.Cond.String() + ")"
				}
				prev = b
				if v.b {
					b = b.Succs[0]
				} else {
					b = b.Succs[1]
				}
				goto next
			case *ssa.Jump:
				prev = b
				b = b.Succs[0]
				goto next
			case *ssa.Return:
				if len(x.Results) != 1 {
					return -1, "unexpected return arity"
				}
				if k, isK := x.Results[0].(*ssa.Const); isK && k.Value != nil {
					if k.Value.String() == "true" {
						return 1, ""
					}
					return 0, ""
				}
				v, ok := env[x.Results[0]]
				if !ok || !v.isBool {
					return -1, "returns a value that is not a comparison of the two elements' keys"
				}
				if v.b {
					return 1, ""
				}
				return 0, ""
			}
		}
		return -1, "fell off a block"
	next:
	}
}

// R1.2 / R3.2
func checkOpsConcatenation(c *Ctx) {
	w := c.W
	c.Doc("R1.2", "the slice stored into Entity.ops is built only by appending, inside ascending index ranges, the elements of pack.Operations for the packs of the slice that was sorted, after the sort; the sorted slice receives every pack of the map")
	fn := readFn(c, "R1.2")
	if fn == nil {
		return
	}
	pos := w.FnPos(fn)
	sortInstr, sorted, _, _ := findSliceSort(fn)
	if sortInstr == nil || sorted == nil {
		c.Violate("R1.2", "entity/dag.read:ops-after-sort", pos, "no sort found")
		return
	}
	// the store into field ops of the new Entity
	var opsVal ssa.Value
	for _, b := range fn.Blocks {
		for _, ins := range b.Instrs {
			if st, ok := ins.(*ssa.Store); ok {
				if fa, ok := st.Addr.(*ssa.FieldAddr); ok && fieldName(fa) == "ops" {
					opsVal = st.Val
				}
			}
		}
	}
	if opsVal == nil {
		c.Undecided("R1.2", "entity/dag.read:ops-after-sort", pos, "no store into Entity.ops found")
		return
	}
	// same underlying sorted container?
	sameContainer := func(v ssa.Value) bool {
		// v is (a load of) the alloc whose load was passed to sort, or the same SSA value
		if v == sorted {
			return true
		}
		lu, ok1 := v.(*ssa.UnOp)
		su, ok2 := sorted.(*ssa.UnOp)
		return ok1 && ok2 && lu.X == su.X
	}
	apps := appendedValues(opsVal)
	c.Sites += len(apps)
	if len(apps) == 0 {
		c.Violate("R1.2", "entity/dag.read:ops-after-sort", pos, "Entity.ops is not built by appending")
		return
	}
	ok := true
	detail := ""
	for _, a := range apps {
		ins, isIns := a.(ssa.Instruction)
		// a is an element of pack.Operations, pack an element of the sorted slice
		u, isU := a.(*ssa.UnOp)
		if !isU {
			ok, detail = false, "a value other than an element of pack.Operations is appended to the operation list ("+a.String()+")"
			break
		}
		ia, isIA := u.X.(*ssa.IndexAddr)
		if !isIA {
			ok, detail = false, "appended value is not an indexed element"
			break
		}
		base, fld, isF := loadOfField(ia.X)
		if !isF || fld != "Operations" {
			ok, detail = false, "appended value is not an element of pack.Operations"
			break
		}
		if !ascendingRangeIndex(ia.Index) {
			ok, detail = false, "operations of a pack are not appended in ascending stored order"
			break
		}
		// base = *(&sorted[idx])
		bu, isBU := base.(*ssa.UnOp)
		if !isBU {
			ok, detail = false, "pack is not an element of the sorted slice"
			break
		}
		pia, isPIA := bu.X.(*ssa.IndexAddr)
		if !isPIA || !sameContainer(pia.X) {
			ok, detail = false, "the packs whose operations are concatenated are not taken from the slice that was sorted"
			break
		}
		if !ascendingRangeIndex(pia.Index) {
			ok, detail = false, "sorted packs are not traversed in ascending order"
			break
		}
		if isIns && !sortInstr.Block().Dominates(ins.Block()) {
			ok, detail = false, "operations are collected before the packs are sorted"
			break
		}
	}
	c.Check(ok, "R1.2", "entity/dag.read:ops-after-sort", w.InstrPos(sortInstr), "ops = concatenation, in ascending order, of the operations of the sorted packs", detail)

	// the sorted slice receives every pack of the map: appended values originate from a range over the pack map, unconditionally
	ok2 := false
	detail2 := "the slice that is sorted is not filled from a full range over the pack map"
	var cont ssa.Value = sorted
	for _, a := range appendedValues(cont) {
		if ex, isEx := a.(*ssa.Extract); isEx {
			if nx, isNx := ex.Tuple.(*ssa.Next); isNx {
				if r, isR := nx.Iter.(*ssa.Range); isR && isPackMap(r.X.Type()) {
					ok2 = true
					// unconditional in the loop body
					hdr := enclosingLoopHeader(ex.Block())
					var stop *ssa.BasicBlock
					if hdr != nil {
						stop = hdr.Idom()
					}
					for _, r := range *ex.Referrers() {
						if ri, isI := r.(ssa.Instruction); isI {
							for _, cc := range controlConds(ri.Block(), stop) {
								if !isLoopHeader(cc.If.Block()) {
									ok2 = false
									detail2 = "packs are filtered (condition at " + w.InstrPos(cc.If) + ") before sorting"
								}
							}
						}
					}
				}
			}
		}
	}
	c.Check(ok2, "R1.2", "entity/dag.read:all-packs-sorted", w.InstrPos(sortInstr), "every pack of the map is put in the sorted slice", detail2)
}

// ascendingRangeIndex: v is i+1 where i = phi[-1, v] (go/ssa's range-over-slice index), or a
// classic for i := 0; ; i++ induction variable.
func ascendingRangeIndex(v ssa.Value) bool {
	bo, ok := v.(*ssa.BinOp)
	if ok && bo.Op == token.ADD {
		if k, isK := constInt(bo.Y); isK && k == 1 {
			if phi, isPhi := bo.X.(*ssa.Phi); isPhi {
				for _, e := range phi.Edges {
					if e == v {
						return true
					}
				}
			}
		}
	}
	if phi, isPhi := v.(*ssa.Phi); isPhi {
		for _, e := range phi.Edges {
			if b2, ok := e.(*ssa.BinOp); ok && b2.Op == token.ADD && b2.X == v {
				if k, isK := constInt(b2.Y); isK && k == 1 {
					return true
				}
			}
		}
	}
	return false
}

// findSliceSort locates the sort of a slice in fn: a direct sort.Slice / sort.SliceStable call, or
// a call to a same-package helper that sorts the slice it is handed (depth 1). It returns the
// instruction in fn at which the slice gets sorted, the slice as seen in fn, and the less function.
func findSliceSort(fn *ssa.Function) (ssa.Instruction, ssa.Value, *ssa.Function, string) {
	lessOf := func(v ssa.Value) *ssa.Function {
		if mc, ok := v.(*ssa.MakeClosure); ok {
			f, _ := mc.Fn.(*ssa.Function)
			return f
		}
		if f, ok := v.(*ssa.Function); ok {
			return f
		}
		return nil
	}
	var at ssa.Instruction
	var sorted ssa.Value
	var less *ssa.Function
	name := ""
	for _, cl := range Calls(fn) {
		if cl.Name == "sort.Slice" || cl.Name == "sort.SliceStable" {
			a := cl.Args()
			if len(a) == 2 {
				at, sorted, less, name = cl.Instr, stripConv(a[0]), lessOf(a[1]), cl.Name
			}
			continue
		}
		if cl.Name == "slices.SortFunc" || cl.Name == "sort.Sort" {
			name = cl.Name
			at = cl.Instr
			continue
		}
		// same-package helper sorting one of its parameters
		h := cl.Fn
		if h == nil || h.Pkg != fn.Pkg || len(h.Blocks) == 0 || h == fn {
			continue
		}
		for _, hc := range Calls(h) {
			if hc.Name != "sort.Slice" && hc.Name != "sort.SliceStable" {
				continue
			}
			ha := hc.Args()
			if len(ha) != 2 {
				continue
			}
			hv := stripConv(ha[0])
			for i, pp := range h.Params {
				if isSameParam(hv, pp) && i < len(cl.Instr.Common().Args) {
					at, sorted, less, name = cl.Instr, stripConv(cl.Instr.Common().Args[i]), lessOf(ha[1]), hc.Name
				}
			}
		}
	}
	return at, sorted, less, name
}
