package main

// A-CMP: normalised refusal guards. A guard is a branch one of whose edges is
// "error-directed" (leads, through at most a short chain of further tests, to a
// return carrying a non-nil error / a failure value), the other edge continuing.

import (
	"go/token"
	"go/types"
	"strings"

	"golang.org/x/tools/go/ssa"
)

// failReturn: customisable notion of a failing exit for functions that do not return error
// (e.g. bool predicates return false, merge returns an Invalid status).
type failPred func(r *ssa.Return) bool

func defaultFail(r *ssa.Return) bool { return returnKind(r) == RetError }

// errorDirected: block s (entered only through this edge) fails.
func errorDirected(s *ssa.BasicBlock, fail failPred, depth int) bool {
	if depth > 4 || len(s.Instrs) == 0 {
		return false
	}
	// a block that unconditionally fails is error-directed however it is entered (a || b → error)
	if r, ok := s.Instrs[len(s.Instrs)-1].(*ssa.Return); ok {
		return fail(r)
	}
	if len(s.Preds) != 1 {
		return false
	}
	switch t := s.Instrs[len(s.Instrs)-1].(type) {
	case *ssa.Return:
		return fail(t)
	case *ssa.If:
		// a further test whose one edge fails and the block has no side effects other than calls computing the test
		// both ways on must fail: "x && y → error" does not make x alone a refusal
		a := errorDirected(s.Succs[0], fail, depth+1)
		b := errorDirected(s.Succs[1], fail, depth+1)
		return a && b
	case *ssa.Jump:
		// e.g. "x = err; goto cleanup-return": follow single-pred jump targets
		return errorDirected(s.Succs[0], fail, depth+1)
	case *ssa.Panic:
		return true
	}
	return false
}

// strictlyFails: every path from block s reaches a failing return without passing
// through a successful one (used where "leads only to error" is needed).
func strictlyFails(s *ssa.BasicBlock, fail failPred) bool {
	if len(s.Instrs) == 0 {
		return false
	}
	seen := map[*ssa.BasicBlock]bool{}
	var walk func(b *ssa.BasicBlock) bool
	walk = func(b *ssa.BasicBlock) bool {
		if seen[b] {
			return true
		}
		seen[b] = true
		switch t := b.Instrs[len(b.Instrs)-1].(type) {
		case *ssa.Return:
			return fail(t)
		case *ssa.Panic:
			return true
		}
		if len(b.Succs) == 0 {
			return false
		}
		for _, n := range b.Succs {
			if !walk(n) {
				return false
			}
		}
		return true
	}
	return walk(s)
}

// errEdge: which successor of the If is error-directed (0 true, 1 false), -1 none or both.
func errEdge(iff *ssa.If, fail failPred) int {
	b := iff.Block()
	a := errorDirected(b.Succs[0], fail, 0)
	c := errorDirected(b.Succs[1], fail, 0)
	// prefer strict classification when both look error-directed (nested tests)
	if a && c {
		sa := strictlyFails(b.Succs[0], fail)
		sc := strictlyFails(b.Succs[1], fail)
		if sa != sc {
			if sa {
				return 0
			}
			return 1
		}
		return -1
	}
	if a {
		return 0
	}
	if c {
		return 1
	}
	return -1
}

type CmpGuard struct {
	Bin  *ssa.BinOp
	If   *ssa.If
	Op   token.Token // normalised: the function fails iff X Op Y (on this branch)
	X, Y ssa.Value
}

func negateOp(op token.Token) token.Token {
	switch op {
	case token.EQL:
		return token.NEQ
	case token.NEQ:
		return token.EQL
	case token.LSS:
		return token.GEQ
	case token.GEQ:
		return token.LSS
	case token.GTR:
		return token.LEQ
	case token.LEQ:
		return token.GTR
	}
	return op
}

func swapOp(op token.Token) token.Token {
	switch op {
	case token.LSS:
		return token.GTR
	case token.GTR:
		return token.LSS
	case token.LEQ:
		return token.GEQ
	case token.GEQ:
		return token.LEQ
	}
	return op
}

func isCmpOp(op token.Token) bool {
	switch op {
	case token.EQL, token.NEQ, token.LSS, token.GEQ, token.GTR, token.LEQ:
		return true
	}
	return false
}

// cmpGuards lists the comparisons of fn that guard a failing exit, normalised to
// "fails iff X Op Y".
func cmpGuards(fn *ssa.Function, fail failPred) []CmpGuard {
	if fail == nil {
		fail = defaultFail
	}
	var out []CmpGuard
	for _, b := range fn.Blocks {
		for _, ins := range b.Instrs {
			bo, ok := ins.(*ssa.BinOp)
			if !ok || !isCmpOp(bo.Op) {
				continue
			}
			for _, u := range condUsers(bo) {
				e := errEdge(u.If, fail)
				if e < 0 {
					continue
				}
				op := bo.Op
				// error edge is taken when cond (after negations) is true (e==0) or false (e==1)
				condTrueFails := e == 0
				if u.Neg {
					condTrueFails = !condTrueFails
				}
				if !condTrueFails {
					op = negateOp(op)
				}
				x, y := bo.X, bo.Y
				// canonical operand order: a constant goes to the right (0 < len(s) is len(s) > 0)
				if _, xConst := x.(*ssa.Const); xConst {
					if _, yConst := y.(*ssa.Const); !yConst {
						x, y, op = y, x, swapOp(op)
					}
				}
				out = append(out, CmpGuard{bo, u.If, op, x, y})
			}
		}
	}
	return out
}

// oriented returns the guard with the operand satisfying isX on the left.
func (g CmpGuard) oriented(isX func(ssa.Value) bool) (CmpGuard, bool) {
	if isX(g.X) {
		return g, true
	}
	if isX(g.Y) {
		return CmpGuard{g.Bin, g.If, swapOp(g.Op), g.Y, g.X}, true
	}
	return g, false
}

type PredGuard struct {
	Call      *ssa.Call
	Name      string
	If        *ssa.If
	FailsWhen bool // the function fails when the predicate returns this value
	TrueBlock *ssa.BasicBlock
}

// predGuards lists calls returning bool whose result guards a failing exit.
func predGuards(fn *ssa.Function, fail failPred) []PredGuard {
	if fail == nil {
		fail = defaultFail
	}
	var out []PredGuard
	for _, b := range fn.Blocks {
		for _, ins := range b.Instrs {
			cv, ok := ins.(*ssa.Call)
			if !ok {
				continue
			}
			bt, ok := cv.Type().Underlying().(*types.Basic)
			if !ok || bt.Kind() != types.Bool {
				continue
			}
			n, _ := callName(cv.Common())
			for _, u := range condUsers(cv) {
				e := errEdge(u.If, fail)
				if e < 0 {
					continue
				}
				condTrueFails := e == 0
				if u.Neg {
					condTrueFails = !condTrueFails
				}
				te := 0
				if u.Neg {
					te = 1
				}
				out = append(out, PredGuard{cv, n, u.If, condTrueFails, u.If.Block().Succs[te]})
			}
		}
	}
	return out
}

// argFields: names of the struct fields the value originates from ("" when none).
func originFields(v ssa.Value) []string {
	var out []string
	for _, o := range origins(v) {
		if o.Kind == "field" {
			out = append(out, o.Name)
		}
	}
	return out
}

func hasField(v ssa.Value, name string) bool {
	for _, f := range originFields(v) {
		if f == name {
			return true
		}
	}
	return false
}

// lenOfField: v is len(x) where x originates from field name.
func lenOfField(v ssa.Value, field string) bool {
	c, ok := v.(*ssa.Call)
	if !ok {
		return false
	}
	b, ok := c.Common().Value.(*ssa.Builtin)
	if !ok || b.Name() != "len" {
		return false
	}
	return hasField(c.Common().Args[0], field)
}

func opString(op token.Token) string { return op.String() }

// errorPropagated: the error result of call is tested and its non-nil edge is error-directed.
func errorPropagated(call ssa.Value, fail failPred) bool {
	if fail == nil {
		fail = defaultFail
	}
	for _, ev := range errValues(call) {
		nn, _ := nilTests(ev)
		for _, b := range nn {
			if errorDirected(b.Block(), fail, 0) {
				return true
			}
		}
		// returned directly
		for _, r := range *ev.Referrers() {
			if _, ok := r.(*ssa.Return); ok {
				return true
			}
			// … through the result cell of a function with deferred calls (return value spilled to a local)
			if st, ok := r.(*ssa.Store); ok && st.Val == ev {
				if al, isAl := st.Addr.(*ssa.Alloc); isAl {
					for _, r2 := range *al.Referrers() {
						if ld, isLd := r2.(*ssa.UnOp); isLd && ld.Op == token.MUL {
							for _, r3 := range *ld.Referrers() {
								if _, isRet := r3.(*ssa.Return); isRet {
									return true
								}
							}
						}
					}
				}
			}
		}
	}
	return false
}

func calleeIs(c *Call, suffixes ...string) bool {
	for _, s := range suffixes {
		if c.Name == s || strings.HasSuffix(c.Name, "."+s) {
			return true
		}
	}
	return false
}

// guardsDeep: the refusal guards of fn and of the same-package helpers fn calls and whose error
// it propagates (depth 2): extracting a block with its checks into a helper keeps the refusals.
func guardsDeep(fn *ssa.Function, fail failPred, depth int) []CmpGuard {
	out := cmpGuards(fn, fail)
	if depth >= 2 {
		return out
	}
	seen := map[*ssa.Function]bool{}
	for _, cl := range Calls(fn) {
		h := cl.Fn
		if h != nil {
			h = bodyOf(h)
		}
		if h == nil || h == fn || seen[h] || len(h.Blocks) == 0 {
			continue
		}
		pf := fn
		for pf.Parent() != nil {
			pf = pf.Parent()
		}
		if fnPkgPath(h) == "" || fnPkgPath(h) != fnPkgPath(pf) {
			continue
		}
		if cl.Value() == nil || len(errValues(cl.Value())) == 0 || !errorPropagated(cl.Value(), fail) {
			continue
		}
		seen[h] = true
		out = append(out, guardsDeep(h, nil, depth+1)...)
	}
	return out
}
