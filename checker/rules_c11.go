package main

import (
	"fmt"
	"go/token"
	"go/types"
	"strings"

	"golang.org/x/tools/go/ssa"
)

// cache entity types whose exported methods are the editing API
var cacheEntityTypes = map[string]bool{"cache.BugCache": true, "cache.CachedEntityBase": true, "cache.IdentityCache": true}

func isCacheEntityMethod(name string) bool {
	t, _ := lastDot(name)
	return cacheEntityTypes[t]
}

// checkMutatorsNotify: R11.2 / R18.5
func checkMutatorsNotify(c *Ctx, rule string) {
	w := c.W
	eff := newEffects(w)
	c.Doc(rule, "every exported method of BugCache / CachedEntityBase / IdentityCache that stages or commits (directly, not by delegating to another such method) reaches notifyUpdated() on every path from the staging/commit call to a non-error return; promoted Identity.SetMetadata on an IdentityCache is followed by Commit on all success paths")
	n := 0
	for _, fn := range w.ModFns {
		if isInstance(fn) || fn.Parent() != nil || fn.Signature.Recv() == nil {
			continue
		}
		name := funcName(fn)
		if !isCacheEntityMethod(name) || !fn.Object().Exported() {
			continue
		}
		isNotify := func(i ssa.Instruction) bool {
			ci, ok := i.(ssa.CallInstruction)
			if !ok {
				return false
			}
			nn, _ := callName(ci.Common())
			return strings.HasSuffix(nn, ".notifyUpdated")
		}
		for _, cl := range Calls(fn) {
			if isCacheEntityMethod(cl.Name) {
				continue // delegation: checked on its own
			}
			se := eff.SiteEffects(cl)
			if len(effectsOfClass(se, "STAGE", "OBJ", "REF")) == 0 {
				continue
			}
			n++
			c.Sites++
			c.seeFn(name)
			var bad bool
			var path []*ssa.BasicBlock
			if v := cl.Value(); v != nil && len(errValues(v)) > 0 {
				for _, sb := range successBlocks(v) {
					if b, p, _ := pathSearch(fn, nil, sb, isSuccessReturn, isNotify, false); b {
						bad, path = true, p
					}
				}
				if len(successBlocks(v)) == 0 {
					bad, path, _ = pathSearch(fn, cl.Instr, nil, isSuccessReturn, isNotify, false)
				}
			} else {
				bad, path, _ = pathSearch(fn, cl.Instr, nil, isSuccessReturn, isNotify, false)
			}
			c.Check(!bad, rule, name+"→"+cl.Name, w.InstrPos(cl.Instr), "the cache is notified before success is returned", "success can be returned without notifyUpdated(): the excerpt, index and cache file keep the old state — "+blocksString(w, path))
		}
	}
	if n < 10 {
		c.Violate(rule, "expected:mutators", "cache", fmt.Sprintf("%d staging/committing call sites in cache entity methods (reference 14)", n))
	}
	// notifyUpdated must call the entityUpdated callback with the entity's id and return its error
	for _, t := range []string{"CachedEntityBase", "IdentityCache"} {
		nf := w.Method("cache", t, "notifyUpdated")
		if nf == nil {
			c.Undecided(rule, "anchor:"+t+".notifyUpdated", "cache", "not found")
			continue
		}
		ok := false
		for _, cl := range Calls(nf) {
			if hasField(cl.Instr.Common().Value, "entityUpdated") {
				for _, r := range Returns(nf) {
					if len(r.Results) == 1 && r.Results[0] == ssa.Value(cl.Value()) {
						ok = true
					}
				}
			}
		}
		c.Check(ok, rule, t+".notifyUpdated:calls-back", w.FnPos(nf), "returns entityUpdated(id)", "notifyUpdated does not return the result of the entityUpdated callback")
	}
	// promoted SetMetadata on IdentityCache
	for _, fn := range w.ModFns {
		if isInstance(fn) {
			continue
		}
		for _, cl := range CallsNamed(fn, "entities/identity.Identity.SetMetadata") {
			recv := cl.Recv()
			_, fld, isF := loadOfField(recv)
			if !isF || fld != "Identity" {
				continue
			}
			c.Sites++
			isCommit := func(i ssa.Instruction) bool {
				ci, ok := i.(ssa.CallInstruction)
				if !ok {
					return false
				}
				nn, _ := callName(ci.Common())
				return nn == "cache.IdentityCache.Commit" || nn == "cache.IdentityCache.CommitAsNeeded"
			}
			bad, p, _ := pathSearch(fn, cl.Instr, nil, isSuccessReturn, isCommit, false)
			c.Check(!bad, rule, funcName(fn)+"→IdentityCache.SetMetadata", w.InstrPos(cl.Instr), "followed by Commit on all success paths", "metadata is set on a cached identity and success returned without Commit: "+blocksString(w, p))
		}
	}
}

func init() {
	register("C11",
		"That the cache equals a rebuild is a value statement; decided are the pairings it rests on, on all paths: (R11.1) in every SubCache function, a store into the excerpts is followed by an index write, a delete by an index removal, a reset by an index clear, and by a rewrite of the cache file, before any non-error exit; (R11.2) every staging/committing call of the cache entities' exported methods is followed by notifyUpdated before success; (R11.3) creation paths register the new instance (loaded set + excerpt) before returning it; (R11.4) merge results are folded completely (shared with C02) and are the merged state; (R11.5) eviction never drops an instance with uncommitted operations and keeps the LRU list and the loaded set paired; entityUpdated refuses an entity that is no longer loaded.",
		[]string{"bleve index and gob file faithfully store what they are given", "the load-or-rebuild heuristic at open and equality of served answers are not decided"},
		runC11)
}

func runC11(c *Ctx) {
	w := c.W
	c.Doc("R11.1", "per SubCache function: excerpts store ⇒ index write; delete ⇒ Index.Remove; reset ⇒ Index.Clear; and SubCache.write() on every path to a non-error exit")
	c.Doc("R11.3", "RepoCacheBug.NewRaw / RepoCacheIdentity.finishIdentity return success only after the instance is in the loaded set and entityUpdated succeeded")
	c.Doc("R11.5", "evictIfNeeded deletes from the loaded set only on the !NeedCommit() edge, together with lru.Remove; entityUpdated fails when the entity is not loaded")
	checkExcerptIndexPairing(c)
	checkExcerptDataPath(c, "R11.9")
	checkLoadAllOrRebuild(c, "R11.10")
	checkMergeResultsDrained(c, "R11.11")
	checkCommandsCommitWhatTheyStage(c, "R11.12")
	// what the live identity answers is what is read back from git: a new version never rewrites a committed one in memory (shared with C09)
	checkCloneDeep(c)
	{
		lw := newLockWorld(w)
		checkExcerptUnderLock(c, lw, lockScopeFns(w))
	}
	// removal and rebuild leave nothing behind in memory either (shared with C14)
	checkRemovalSteps(c)
	checkRebuildAndCLIRemoval(c)
	checkForgetsAfterRemoval(c, "R14.2")
	checkExcerptsDeletedOnlyByRemoval(c, "R11.13")
	checkIndexOneAlwaysIndexes(c, "R11.14")
	checkValidLabelsComputed(c, "R11.15")
	checkAppendNeverCompiles(c, "R10.2")
	// the live snapshot keeps the staging order; so must what Commit stores and a rebuild reads back (shared with C04)
	checkAuthorSplit(c)
	checkSingleInstance(c, newLockWorld(w))
	checkMutatorsNotify(c, "R11.2")
	checkCreationRegisters(c)
	checkCacheMergeFold(c, "R11.4")
	eff := newEffects(w)
	ruleDocsMerge(c)
	checkMergeFns(c, eff)
	checkIdentityMerge(c, eff)
	checkEviction(c)
	checkLoadHeuristic(c)
	// the snapshot the excerpts are made from is maintained incrementally: it must be the compiled one (shared with C10)
	checkWithSnapshot(c)
}

// R11.6
func checkLoadHeuristic(c *Ctx) {
	w := c.W
	c.Doc("R11.6", "SubCache.Load refuses the cache file (forcing a rebuild) iff the index document count differs from the number of excerpts, and iff the stored format version differs")
	fn := w.Method("cache", "SubCache", "Load")
	if fn == nil {
		c.Undecided("R11.6", "anchor:SubCache.Load", "cache", "not found")
		return
	}
	c.seeFn(funcName(fn))
	okCount, okVer := false, false
	detail := "no comparison of the index document count with the number of excerpts"
	for _, g := range guardsDeep(fn, nil, 0) {
		c.Sites++
		gg, o := g.oriented(func(v ssa.Value) bool { return hasOriginCall(v, "repository.Index.DocCount", 0) != nil })
		if o {
			isLen := false
			if cv, isC := stripConv(gg.Y).(*ssa.Call); isC {
				if bi, isB := cv.Common().Value.(*ssa.Builtin); isB && bi.Name() == "len" && hasField(cv.Common().Args[0], "excerpts") {
					isLen = true
				}
			}
			if isLen && gg.Op == token.NEQ {
				okCount = true
			} else if isLen {
				detail = "the cache file is refused iff docCount " + gg.Op.String() + " len(excerpts) (must be !=): an index with extra or missing documents is served as is"
			}
		}
		g2, o2 := g.oriented(func(v ssa.Value) bool { return hasField(v, "Version") })
		if o2 && hasField(g2.Y, "version") && g2.Op == token.NEQ {
			okVer = true
		}
	}
	c.Check(okCount, "R11.6", "SubCache.Load:count-mismatch-rebuilds", w.FnPos(fn), "fails iff docCount != len(excerpts)", detail)
	c.Check(okVer, "R11.6", "SubCache.Load:version-mismatch-rebuilds", w.FnPos(fn), "fails iff the stored cache version differs", "a cache file of another format version is not refused")
}

func isErrorEmitReturn(r *ssa.Return) bool {
	// goroutine bodies: a return preceded, in its block, by the send of an error-carrying event
	for _, ins := range r.Block().Instrs {
		snd, ok := ins.(*ssa.Send)
		if !ok {
			continue
		}
		if hasOriginCall(snd.X, "entity.NewMergeError", -1) != nil {
			return true
		}
		if errEventValue(snd.X, 0) {
			return true
		}
	}
	return false
}

// errEventValue: v is a struct value built with a non-nil Err field — directly, or as the result of a
// same-package helper all of whose returns are such values (an event constructor).
func errEventValue(v ssa.Value, depth int) bool {
	// struct value with a non-nil Err field stored
	if u, ok := v.(*ssa.UnOp); ok {
		if al, ok := u.X.(*ssa.Alloc); ok {
			for _, ref := range *al.Referrers() {
				if fa, ok := ref.(*ssa.FieldAddr); ok && fieldName(fa) == "Err" {
					for _, r2 := range *fa.Referrers() {
						if st, ok := r2.(*ssa.Store); ok && !isNilConst(st.Val) {
							return true
						}
					}
				}
			}
		}
	}
	if cv, ok := v.(*ssa.Call); ok && depth < 2 {
		callee := cv.Common().StaticCallee()
		if callee != nil {
			callee = bodyOf(callee)
		}
		if callee != nil && len(callee.Blocks) > 0 && cv.Parent() != nil && samePkgFn(callee, cv.Parent()) {
			rets := Returns(callee)
			if len(rets) == 0 {
				return false
			}
			for _, r := range rets {
				if len(r.Results) != 1 || !errEventValue(ReturnResult(r, 0), depth+1) {
					return false
				}
			}
			return true
		}
	}
	return false
}

func samePkgFn(a, b *ssa.Function) bool {
	pa, pb := fnPkgPath(a), fnPkgPath(b)
	return pa != "" && pa == pb
}

func checkExcerptIndexPairing(c *Ctx) {
	w := c.W
	exempt := map[string]string{
		"cache.SubCache.Load":  "reads the cache file and verifies the index document count instead",
		"cache.SubCache.Close": "drops the in-memory state at shutdown",
		"cache.NewSubCache":    "constructor",
	}
	isNormalExit := func(i ssa.Instruction) bool {
		r, ok := i.(*ssa.Return)
		if !ok {
			return false
		}
		if errResultIndex(r.Parent()) >= 0 {
			return returnKind(r) != RetError
		}
		return !isErrorEmitReturn(r)
	}
	callMatches := func(i ssa.Instruction, pred func(name string, cc *ssa.CallCommon) bool) bool {
		ci, ok := i.(ssa.CallInstruction)
		if !ok {
			return false
		}
		n, _ := callName(ci.Common())
		return pred(n, ci.Common())
	}
	isIndexWrite := func(i ssa.Instruction) bool {
		if ci, ok := i.(ssa.CallInstruction); ok && callReaches(ci, func(n string) bool { return strings.HasSuffix(n, ".IndexOne") }, 0) {
			return true
		}
		return callMatches(i, func(n string, cc *ssa.CallCommon) bool {
			if strings.HasSuffix(n, ".IndexOne") || n == "cache.SubCache.entityUpdated" {
				return true
			}
			// the indexer returned by IndexBatch
			if n == "" && !cc.IsInvoke() {
				for _, o := range origins(cc.Value) {
					if o.Kind == "call" && strings.HasSuffix(o.Name, ".IndexBatch") {
						return true
					}
				}
			}
			return false
		})
	}
	isIndexRemove := func(i ssa.Instruction) bool {
		return callMatches(i, func(n string, _ *ssa.CallCommon) bool {
			return n == "repository.Index.Remove" || n == "repository.Index.Clear"
		})
	}
	isIndexClear := func(i ssa.Instruction) bool {
		return callMatches(i, func(n string, _ *ssa.CallCommon) bool { return n == "repository.Index.Clear" })
	}
	isWrite := func(i ssa.Instruction) bool {
		return callMatches(i, func(n string, _ *ssa.CallCommon) bool {
			return n == "cache.SubCache.write" || n == "cache.SubCache.entityUpdated"
		})
	}
	nMut := 0
	seenFns := map[string]bool{}
	type mutSite struct {
		fn   *ssa.Function
		ins  ssa.Instruction
		kind string
		via  string // "" for the map operation itself, else the helper through which the excerpts change
		// obligations the helper already met on all its paths (only the others move to its callers)
		idxDone, fileDone bool
	}
	var sites []mutSite
	for _, fn := range w.ModFns {
		if isInstance(fn) || fnPkgPath(fn) != modPath+"/cache" {
			continue
		}
		for _, b := range fn.Blocks {
			for _, ins := range b.Instrs {
				kind := ""
				switch x := ins.(type) {
				case *ssa.MapUpdate:
					if _, fld, ok := loadOfField(x.Map); ok && fld == "excerpts" {
						kind = "store"
					}
				case *ssa.Call:
					if bi, ok := x.Common().Value.(*ssa.Builtin); ok && bi.Name() == "delete" {
						if _, fld, ok := loadOfField(x.Common().Args[0]); ok && fld == "excerpts" {
							kind = "delete"
						}
					}
				case *ssa.Store:
					if fa, ok := x.Addr.(*ssa.FieldAddr); ok && fieldName(fa) == "excerpts" && typeShortName(fa.X.Type()) == "cache.SubCache" {
						kind = "reset"
					}
				}
				if kind != "" {
					sites = append(sites, mutSite{fn: fn, ins: ins, kind: kind})
				}
			}
		}
	}
	// callers (in package cache) of an unexported function of package cache
	callersOf := func(h *ssa.Function) []mutSite {
		var out []mutSite
		ho := h
		if ho.Origin() != nil {
			ho = ho.Origin()
		}
		for _, g := range w.ModFns {
			if isInstance(g) || fnPkgPath(g) != modPath+"/cache" || g == h {
				continue
			}
			for _, cl := range Calls(g) {
				callee := cl.Fn
				if callee != nil && callee.Origin() != nil {
					callee = callee.Origin()
				}
				if callee == ho {
					out = append(out, mutSite{fn: g, ins: cl.Instr})
				}
			}
		}
		return out
	}
	for round := 0; round < 3 && len(sites) > 0; round++ {
		var next []mutSite
		for _, s := range sites {
			fn, ins, kind := s.fn, s.ins, s.kind
			name := funcName(fn)
			root := fn
			for root.Parent() != nil {
				root = root.Parent()
			}
			c.Sites++
			key := name + ":excerpts-" + kind
			if s.via != "" {
				key += "-via-" + s.via
			}
			pos := w.InstrPos(ins)
			if why, ok := exempt[funcName(root)]; ok {
				c.Info("R11.1", key, pos, "exempt: "+why)
				continue
			}
			var need func(ssa.Instruction) bool
			what := ""
			switch kind {
			case "store":
				need, what = isIndexWrite, "an index write (IndexOne / batch indexer)"
			case "delete":
				need, what = isIndexRemove, "Index.Remove"
			case "reset":
				need, what = isIndexClear, "Index.Clear"
			}
			// within one iteration: reach a normal exit or the loop back edge without the index op
			pathSearchSkipKnownErrorReturns = true
			bad, p, _ := pathSearch(fn, ins, nil, func(i ssa.Instruction) bool { return isNormalExit(i) }, need, false)
			bad2, p2, _ := pathSearch(fn, ins, nil, func(i ssa.Instruction) bool { return isNormalExit(i) }, isWrite, false)
			pathSearchSkipKnownErrorReturns = false
			if s.idxDone {
				bad = false
			}
			if s.fileDone {
				bad2 = false
			}
			// a helper that only changes the excerpts (under the lock) and leaves the rest to its callers:
			// the obligation moves to every call of it
			if (bad || bad2) && round < 2 && root == fn && fn.Object() != nil && !fn.Object().Exported() {
				if cs := callersOf(fn); len(cs) > 0 {
					for _, cs1 := range cs {
						next = append(next, mutSite{fn: cs1.fn, ins: cs1.ins, kind: kind, via: fn.Name(), idxDone: !bad, fileDone: !bad2})
					}
					c.Info("R11.1", key, pos, fmt.Sprintf("the index and cache-file obligations are left to the %d caller(s) of this helper", len(cs)))
					continue
				}
			}
			nMut++
			seenFns[funcName(root)] = true
			c.seeFn(name)
			c.Check(!bad, "R11.1", key+":index", pos, "followed by "+what+" before any normal exit", "the excerpts are changed ("+kind+") and a normal exit is reachable without "+what+": listing and search disagree — "+blocksString(w, p))
			c.Check(!bad2, "R11.1", key+":cache-file", pos, "followed by write() before any normal exit", "the excerpts are changed ("+kind+") and a normal exit is reachable without rewriting the cache file — "+blocksString(w, p2))
		}
		sites = next
	}
	for _, want := range []string{"cache.SubCache.Build", "cache.SubCache.MergeAll", "cache.SubCache.entityUpdated", "cache.SubCache.Remove", "cache.SubCache.RemoveAll"} {
		if !seenFns[want] {
			c.Violate("R11.1", "expected:"+want, "cache", "reference function no longer changes the excerpts (anchor moved?)")
		}
	}
}

func checkCreationRegisters(c *Ctx) {
	w := c.W
	// SubCache.add: MapUpdate cached + entityUpdated success dominate the success return
	check := func(fn *ssa.Function, key string) {
		if fn == nil {
			c.Undecided("R11.3", "anchor:"+key, "cache", "not found")
			return
		}
		c.seeFn(funcName(fn))
		var stores []ssa.Instruction
		var upd []*Call
		for _, b := range fn.Blocks {
			for _, ins := range b.Instrs {
				if mu, ok := ins.(*ssa.MapUpdate); ok {
					if _, fld, isF := loadOfField(mu.Map); isF && fld == "cached" {
						stores = append(stores, mu)
					}
				}
			}
		}
		for _, cl := range Calls(fn) {
			if cl.Name == "cache.SubCache.entityUpdated" || cl.Name == "cache.SubCache.add" {
				upd = append(upd, cl)
			}
		}
		ok := true
		why := ""
		for _, r := range Returns(fn) {
			if returnKind(r) == RetError {
				continue
			}
			c.Sites++
			okU := false
			for _, u := range upd {
				if u.Value() != nil && dominatedBySuccess(u.Value(), r) {
					okU = true
				}
			}
			okS := false
			for _, s := range stores {
				if s.Block().Dominates(r.Block()) {
					okS = true
				}
			}
			for _, u := range upd {
				if u.Name == "cache.SubCache.add" && u.Value() != nil && dominatedBySuccess(u.Value(), r) {
					okS = true
				}
			}
			// the insertion extracted into a helper whose every success return follows the store
			for _, cl := range Calls(fn) {
				h := cl.Fn
				if h != nil {
					h = bodyOf(h)
				}
				if h == nil || len(h.Blocks) == 0 || fnPkgPath(h) != fnPkgPath(fn) || cl.Value() == nil || !dominatedBySuccess(cl.Value(), r) {
					continue
				}
				var hs []*ssa.BasicBlock
				for _, b := range h.Blocks {
					for _, ins := range b.Instrs {
						if mu, isMU := ins.(*ssa.MapUpdate); isMU {
							if _, fld, isF := loadOfField(mu.Map); isF && fld == "cached" {
								hs = append(hs, b)
							}
						}
					}
				}
				all := len(hs) > 0
				for _, hr := range Returns(h) {
					if returnKind(hr) == RetError {
						continue
					}
					d := false
					for _, sb := range hs {
						if sb.Dominates(hr.Block()) {
							d = true
						}
					}
					if !d {
						all = false
					}
				}
				if all {
					okS = true
				}
			}
			if !okU {
				ok, why = false, "success is returned without a successful entityUpdated (excerpt/index/cache file not written)"
			} else if !okS {
				ok, why = false, "success is returned without the instance having been put in the loaded set"
			}
		}
		c.Check(ok, "R11.3", key, w.FnPos(fn), "registered before success", why)
	}
	check(w.Method("cache", "SubCache", "add"), "SubCache.add")
	check(w.Method("cache", "RepoCacheBug", "NewRaw"), "RepoCacheBug.NewRaw")
	check(w.Method("cache", "RepoCacheIdentity", "finishIdentity"), "RepoCacheIdentity.finishIdentity")
	// NewRaw commits before registering
	if fn := w.Method("cache", "RepoCacheBug", "NewRaw"); fn != nil {
		ok := false
		for _, cm := range Calls(fn) {
			if strings.HasSuffix(cm.Name, ".Commit") && cm.Value() != nil {
				for _, ad := range CallsNamed(fn, "cache.SubCache.add") {
					if dominatedBySuccess(cm.Value(), ad.Instr) {
						ok = true
					}
				}
			}
		}
		c.Check(ok, "R11.3", "RepoCacheBug.NewRaw:commit-then-register", w.FnPos(fn), "the bug is committed before it is registered", "a new bug is registered in the cache before (or without) being committed")
	}
}

func checkEviction(c *Ctx) {
	w := c.W
	fn := w.Method("cache", "SubCache", "evictIfNeeded")
	if fn == nil {
		c.Undecided("R11.5", "anchor:SubCache.evictIfNeeded", "cache", "not found")
		return
	}
	// what is compared with the limit is the size of the structure the loop shrinks (the LRU list): entities that
	// are loaded without being in the LRU (a rebuild, a pull) must not make the loop evict down to nothing
	{
		bad, n := "", 0
		var cmps []*ssa.BinOp
		for _, f := range fnAndHelpers(fn, 1) {
			for _, b := range f.Blocks {
				for _, ins := range b.Instrs {
					if bo, isBo := ins.(*ssa.BinOp); isBo && isCmpOp(bo.Op) {
						cmps = append(cmps, bo)
					}
				}
			}
		}
		for _, bo := range cmps {
			iff := bo
			var other ssa.Value
			if hasField(bo.X, "maxLoaded") {
				other = bo.Y
			} else if hasField(bo.Y, "maxLoaded") {
				other = bo.X
			} else {
				continue
			}
			n++
			c.Sites++
			okLen := false
			for _, o := range origins(other) {
				if o.Kind == "call" && strings.HasSuffix(o.Name, ".Len") {
					if cv, isCall := o.Val.(*ssa.Call); isCall {
						if r := (&Call{Instr: cv}).Recv(); r != nil && strings.Contains(valueKey(r), ".lru") {
							okLen = true
						}
					}
				}
			}
			if !okLen {
				bad = "the limit is compared at " + w.InstrPos(iff) + " with something else than the length of the LRU list"
			}
		}
		c.Check(n >= 1 && bad == "", "R11.5", "SubCache.evictIfNeeded:limit-on-the-lru-length", w.FnPos(fn), fmt.Sprintf("%d comparisons of lru.Len() with maxLoaded", n), bad+": with more loaded entities than LRU entries the count never reaches the limit, every evictable entry is evicted — including the entity that was just added, whose excerpt is then never written")
	}
	c.seeFn(funcName(fn))
	n := 0
	for _, cl := range Calls(fn) {
		bi, ok := cl.Instr.Common().Value.(*ssa.Builtin)
		if !ok || bi.Name() != "delete" {
			continue
		}
		if _, fld, isF := loadOfField(cl.Instr.Common().Args[0]); !isF || fld != "cached" {
			continue
		}
		n++
		c.Sites++
		// control dependent on !NeedCommit()
		okGuard := false
		for _, cc := range controlConds(cl.Block(), nil) {
			if nc, ok := cc.If.Cond.(*ssa.Call); ok {
				if nn, _ := callName(nc.Common()); strings.HasSuffix(nn, ".NeedCommit") && cc.Edge == 1 {
					okGuard = true
				}
			}
		}
		c.Check(okGuard, "R11.5", "SubCache.evictIfNeeded:keep-uncommitted", w.InstrPos(cl.Instr), "only entities without pending operations are evicted", "an entity with uncommitted operations can be evicted: its staged operations are lost")
		// paired with lru.Remove in the same block region
		okLru := false
		for _, c2 := range Calls(fn) {
			if strings.HasSuffix(c2.Name, ".Remove") && c2.Recv() != nil && strings.Contains(valueKey(c2.Recv()), ".lru") && (c2.Block() == cl.Block()) {
				okLru = true
			}
		}
		c.Check(okLru, "R11.5", "SubCache.evictIfNeeded:lru-paired", w.InstrPos(cl.Instr), "removed from the LRU list together with the loaded set", "an evicted entity stays in the LRU list (or the reverse): the two structures drift apart")
		// the evicted instance is locked
		okLock := false
		for _, c2 := range Calls(fn) {
			if strings.HasSuffix(c2.Name, "CacheEntity.Lock") && c2.Block() == cl.Block() {
				okLock = true
			}
		}
		c.Check(okLock, "R11.5", "SubCache.evictIfNeeded:lock-evicted", w.InstrPos(cl.Instr), "the evicted instance is locked for good", "an evicted instance remains usable: edits through a stale reference diverge from the reloaded one")
	}
	if n == 0 {
		c.Violate("R11.5", "SubCache.evictIfNeeded:expected:delete", w.FnPos(fn), "eviction no longer deletes from the loaded set")
	}
	// entityUpdated refuses unloaded entities
	eu := w.Method("cache", "SubCache", "entityUpdated")
	if eu != nil {
		ok := false
		for _, b := range eu.Blocks {
			for _, ins := range b.Instrs {
				lk, isLk := ins.(*ssa.Lookup)
				if !isLk || !lk.CommaOk {
					continue
				}
				if _, fld, isF := loadOfField(lk.X); !isF || fld != "cached" {
					continue
				}
				for _, r := range *lk.Referrers() {
					if e, isE := r.(*ssa.Extract); isE && e.Index == 1 {
						for _, u := range condUsers(e) {
							ee := errEdge(u.If, defaultFail)
							if (ee == 1 && !u.Neg) || (ee == 0 && u.Neg) {
								ok = true
							}
						}
					}
				}
			}
		}
		// or the look-up lives in a same-package helper whose boolean result says whether the entity is loaded
		if !ok {
			eub := bodyOf(eu)
			for _, cl := range Calls(eub) {
				h := cl.Fn
				if h == nil {
					continue
				}
				if h.Origin() != nil {
					h = h.Origin()
				}
				if len(h.Blocks) == 0 || fnPkgPath(h) != modPath+"/cache" || cl.Value() == nil {
					continue
				}
				// which result of h is "loaded"? the one that is true only on the found edge of a look-up in cached
				for k := 0; k < h.Signature.Results().Len(); k++ {
					if bt, isB := h.Signature.Results().At(k).Type().Underlying().(*types.Basic); !isB || bt.Kind() != types.Bool {
						continue
					}
					faithful := true
					sawTrue := false
					for _, r := range Returns(h) {
						rv := ReturnResult(r, k)
						if ex, isEx := rv.(*ssa.Extract); isEx && ex.Index == 1 {
							if lk, isLk := ex.Tuple.(*ssa.Lookup); isLk {
								if _, fld, isF := loadOfField(lk.X); isF && fld == "cached" {
									sawTrue = true
									continue
								}
							}
						}
						kc, isK := rv.(*ssa.Const)
						if !isK || kc.Value == nil {
							faithful = false
							continue
						}
						if kc.Value.String() == "true" {
							onFound := false
							for _, cc := range controlConds(r.Block(), nil) {
								if ex, isEx := cc.If.Cond.(*ssa.Extract); isEx && ex.Index == 1 && cc.Edge == 0 {
									if lk, isLk := ex.Tuple.(*ssa.Lookup); isLk {
										if _, fld, isF := loadOfField(lk.X); isF && fld == "cached" {
											onFound = true
										}
									}
								}
							}
							if !onFound {
								faithful = false
							}
							sawTrue = true
						}
					}
					if !faithful || !sawTrue {
						continue
					}
					for _, rv := range resultValues(cl.Value(), k) {
						for _, u := range condUsers(rv) {
							ee := errEdge(u.If, defaultFail)
							if (ee == 1 && !u.Neg) || (ee == 0 && u.Neg) {
								ok = true
							}
						}
					}
				}
			}
		}
		c.Check(ok, "R11.5", "SubCache.entityUpdated:must-be-loaded", w.FnPos(eu), "an update for an entity that is not loaded fails", "entityUpdated accepts an entity that is not in the loaded set (evicted copy): concurrent copies would silently diverge")
	}
}
