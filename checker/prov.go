package main

// A-PROV: backward slice of an SSA value to its origins.

import (
	"go/token"
	"go/types"

	"golang.org/x/tools/go/ssa"
)

type Origin struct {
	Kind string // param | call | const | global | field | freevar | binop | alloc | make | unknown
	Name string // callee name / field name / param name / op
	Idx  int    // result index for call, parameter index for param
	Val  ssa.Value
}

func (o Origin) String() string {
	switch o.Kind {
	case "call":
		return "result of " + o.Name
	case "param":
		return "parameter " + o.Name
	case "field":
		return "field ." + o.Name
	case "const":
		if o.Val != nil {
			return "constant " + o.Val.String()
		}
	}
	return o.Kind + " " + o.Name
}

// origins computes the set of origins of v, looking through phis, extracts,
// conversions, element loads of slices/arrays/maps, slicing, and loads of
// local allocs (through their stores). Field loads are reported as "field"
// origins (with Val = the base value) and not followed further.
func origins(v ssa.Value) []Origin {
	var out []Origin
	seen := map[ssa.Value]bool{}
	var walk func(v ssa.Value)
	walk = func(v ssa.Value) {
		if v == nil || seen[v] {
			return
		}
		seen[v] = true
		switch x := v.(type) {
		case *ssa.Phi:
			for _, e := range x.Edges {
				walk(e)
			}
		case *ssa.Extract:
			if c, ok := x.Tuple.(*ssa.Call); ok {
				n, _ := callName(c.Common())
				out = append(out, Origin{"call", n, x.Index, c})
			} else if ta, ok := x.Tuple.(*ssa.TypeAssert); ok {
				walk(ta.X)
			} else if nx, ok := x.Tuple.(*ssa.Next); ok {
				// range over map/string: element of the iterated collection
				if r, ok := nx.Iter.(*ssa.Range); ok {
					walk(r.X)
				}
			} else if lk, ok := x.Tuple.(*ssa.Lookup); ok {
				walk(lk.X)
			} else {
				out = append(out, Origin{"unknown", x.String(), 0, x})
			}
		case *ssa.Call:
			n, _ := callName(x.Common())
			out = append(out, Origin{"call", n, 0, x})
		case *ssa.Parameter:
			idx := -1
			for i, p := range x.Parent().Params {
				if p == x {
					idx = i
				}
			}
			out = append(out, Origin{"param", x.Name(), idx, x})
		case *ssa.FreeVar:
			out = append(out, Origin{"freevar", x.Name(), 0, x})
		case *ssa.Const:
			out = append(out, Origin{"const", x.String(), 0, x})
		case *ssa.Global:
			out = append(out, Origin{"global", x.Name(), 0, x})
		case *ssa.Convert:
			walk(x.X)
		case *ssa.ChangeType:
			walk(x.X)
		case *ssa.MakeInterface:
			walk(x.X)
		case *ssa.ChangeInterface:
			walk(x.X)
		case *ssa.TypeAssert:
			walk(x.X)
		case *ssa.Slice:
			walk(x.X)
		case *ssa.Lookup:
			walk(x.X)
		case *ssa.Index:
			walk(x.X)
		case *ssa.Field:
			out = append(out, Origin{"field", fieldName(x), 0, x.X})
		case *ssa.UnOp:
			if x.Op != token.MUL {
				out = append(out, Origin{"unop", x.Op.String(), 0, x})
				return
			}
			switch a := x.X.(type) {
			case *ssa.IndexAddr:
				walk(a.X)
			case *ssa.FieldAddr:
				out = append(out, Origin{"field", fieldName(a), 0, a.X})
			case *ssa.Global:
				out = append(out, Origin{"global", a.Name(), 0, a})
			case *ssa.Alloc:
				n := 0
				for _, r := range *a.Referrers() {
					if st, ok := r.(*ssa.Store); ok && st.Addr == a {
						walk(st.Val)
						n++
					}
				}
				if n == 0 {
					out = append(out, Origin{"alloc", a.Name(), 0, a})
				}
			case *ssa.FreeVar:
				out = append(out, Origin{"freevar", a.Name(), 0, a})
			default:
				walk(a)
			}
		case *ssa.Alloc:
			// array/struct alloc used as a value container (e.g. variadic slices): union of stores into it
			n := 0
			for _, r := range *x.Referrers() {
				switch rr := r.(type) {
				case *ssa.IndexAddr:
					for _, r2 := range *rr.Referrers() {
						if st, ok := r2.(*ssa.Store); ok && st.Addr == rr {
							walk(st.Val)
							n++
						}
					}
				case *ssa.Store:
					if rr.Addr == x {
						walk(rr.Val)
						n++
					}
				}
			}
			if n == 0 {
				out = append(out, Origin{"alloc", x.Name(), 0, x})
			}
		case *ssa.BinOp:
			out = append(out, Origin{"binop", x.Op.String(), 0, x})
		case *ssa.MakeSlice, *ssa.MakeMap, *ssa.MakeChan:
			out = append(out, Origin{"make", "", 0, v})
		case *ssa.MakeClosure:
			out = append(out, Origin{"closure", funcName(x.Fn.(*ssa.Function)), 0, v})
		case *ssa.Function:
			out = append(out, Origin{"func", funcName(x), 0, v})
		default:
			out = append(out, Origin{"unknown", v.String(), 0, v})
		}
	}
	walk(v)
	return out
}

// appendedValues: for a slice value built by append in loops, returns the values appended
// (and the origins of initial slices). Used for "element of a local slice".
func appendedValues(v ssa.Value) []ssa.Value {
	var out []ssa.Value
	seen := map[ssa.Value]bool{}
	var walk func(v ssa.Value)
	walk = func(v ssa.Value) {
		if v == nil || seen[v] {
			return
		}
		seen[v] = true
		switch x := v.(type) {
		case *ssa.Phi:
			for _, e := range x.Edges {
				walk(e)
			}
		case *ssa.Call:
			if b, ok := x.Common().Value.(*ssa.Builtin); ok && b.Name() == "append" {
				walk(x.Common().Args[0])
				if len(x.Common().Args) > 1 {
					// variadic slice: new [n]T alloc sliced
					arg := x.Common().Args[1]
					if sl, ok := arg.(*ssa.Slice); ok {
						if al, ok := sl.X.(*ssa.Alloc); ok {
							for _, r := range *al.Referrers() {
								if ia, ok := r.(*ssa.IndexAddr); ok {
									for _, r2 := range *ia.Referrers() {
										if st, ok := r2.(*ssa.Store); ok {
											out = append(out, st.Val)
										}
									}
								}
							}
							return
						}
					}
					out = append(out, arg)
				}
			}
		case *ssa.Slice:
			walk(x.X)
		case *ssa.UnOp:
			if al, ok := x.X.(*ssa.Alloc); ok && x.Op == token.MUL {
				for _, r := range *al.Referrers() {
					if st, ok := r.(*ssa.Store); ok && st.Addr == al {
						walk(st.Val)
					}
				}
			}
		}
	}
	walk(v)
	return out
}

// hasOriginCall: some origin of v is result idx (or any when idx<0) of a call named name.
func hasOriginCall(v ssa.Value, name string, idx int) *ssa.Call {
	return hasOriginCallDepth(v, name, idx, 0)
}

// hasOriginCallDepth also looks through same-package helpers: when the value is result k of a
// helper of the same package, the origins of what that helper returns as result k count (depth 2),
// so that extracting a block into a helper does not hide where a value comes from.
func hasOriginCallDepth(v ssa.Value, name string, idx int, depth int) *ssa.Call {
	os := origins(v)
	for _, o := range os {
		if o.Kind == "call" && o.Name == name && (idx < 0 || o.Idx == idx) {
			return o.Val.(*ssa.Call)
		}
	}
	if depth >= 2 {
		return nil
	}
	for _, o := range os {
		if o.Kind != "call" {
			continue
		}
		cv, ok := o.Val.(*ssa.Call)
		if !ok {
			continue
		}
		callee := cv.Common().StaticCallee()
		if callee == nil || len(callee.Blocks) == 0 || cv.Parent() == nil || callee.Pkg == nil || callee.Pkg != cv.Parent().Pkg {
			continue
		}
		for _, r := range Returns(callee) {
			if o.Idx < len(r.Results) {
				if found := hasOriginCallDepth(ReturnResult(r, o.Idx), name, idx, depth+1); found != nil {
					return found
				}
			}
		}
	}
	return nil
}

func onlyOrigins(v ssa.Value, pred func(Origin) bool) bool {
	os := origins(v)
	if len(os) == 0 {
		return false
	}
	for _, o := range os {
		if !pred(o) {
			return false
		}
	}
	return true
}

func isStringType(t types.Type) bool {
	b, ok := t.Underlying().(*types.Basic)
	return ok && b.Info()&types.IsString != 0
}
