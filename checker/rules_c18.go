package main

import (
	"fmt"
	"go/token"
	"go/types"
	"strings"

	"golang.org/x/tools/go/ssa"
)

func init() {
	register("C18",
		"Schedules cannot be enumerated statically; the lock discipline the property rests on is decided: (R18.1) a path-sensitive lockset dataflow over every module function that touches a sync.(RW)Mutex shows each acquired lock released on every exit (deferred unlocks count only on paths that executed the defer), never released unheld, never re-acquired while held; (R18.2) no call made while holding a mutex reaches, on the same receiver, a method that acquires that mutex again (Go's RWMutex deadlocks on recursive read-locking once a writer is queued), and the class-level lock-order graph over the hybrid call graph is acyclic; (R18.3) the functions that insert a freshly built instance into the loaded set test for presence inside the same write-locked region; (R18.4) a frozen guarded-by table: each access to the listed fields happens with its mutex held (write access ⇒ write lock) in the function or in all its callers; (R18.5) editors acknowledge only after the cache was notified (shared with C11).",
		[]string{"lock classes are (instantiated struct type, field), not instances; sync semantics as documented", "data races on fields outside the guarded-by table, liveness and exactly-once at run time are not decided", "goroutines started with `go` are analysed as separate roots (locks are not inherited)"},
		runC18)
}

func lockScopeFns(w *World) []*ssa.Function {
	var out []*ssa.Function
	for _, f := range w.ModFns {
		if isInstance(f) || w.isTestHelper(f) {
			continue
		}
		out = append(out, f)
	}
	return out
}

func runC18(c *Ctx) {
	w := c.W
	lw := newLockWorld(w)
	c.Doc("R18.1", "every Lock/RLock is released on every exit of the function (defer counted only where executed); no release of an unheld lock; no acquisition of a lock already held in the same function")
	c.Doc("R18.2", "no call under a held mutex reaches a method that acquires the same mutex on the same receiver; the class-level lock order graph is acyclic")
	c.Doc("R18.3", "insertion of a new instance into SubCache.cached happens in the write-locked region that also tested for its absence")
	c.Doc("R18.4", "guarded-by table: SubCache.excerpts/cached ↔ mu, RepoCache.userIdentityId ↔ muUserIdentity (write ⇒ write lock), GoGitRepo.clocks ↔ clocksMutex, GoGitRepo.indexes ↔ indexesMutex, withSnapshot.snap ↔ mu")
	checkLRUAndWriteSection(c, lw)
	// acknowledged operations survive eviction, and a notification for an evicted instance is refused (shared with C11)
	c.Doc("R11.5", "evictIfNeeded deletes from the loaded set only on the !NeedCommit() edge, together with lru.Remove, and locks the evicted instance; entityUpdated fails when the entity is not loaded (a creation or edit on an evicted instance is not acknowledged)")
	checkEviction(c)
	// concurrent commits get distinct times: one clock instance per name, never replaced, created atomically (shared with C05)
	checkClockRebuild(c)
	// every acknowledged operation is stored: what Commit takes off the staging list goes into a pack (shared with C04)
	checkAuthorSplit(c)
	checkGuardedAliasesAndSnapshot(c, lw)
	checkGoGitExclusive(c, "R18.11")
	// no query meets an index document whose excerpt is not published yet / any more (shared with C11/C14)
	c.Doc("R11.1", "per SubCache function: excerpts store ⇒ index write afterwards; delete ⇒ Index.Remove; reset ⇒ Index.Clear")
	checkExcerptIndexPairing(c)
	checkRemoveIndexUnderLock(c, "R14.11", lw)
	// concurrent commits share the clock file: nothing but the clock's own path is written (shared with C06)
	checkCrashLeftovers(c)
	checkIdentityInterfaceLockFree(c, "R18.12", lw)
	fns := lockScopeFns(w)
	exemptHold := map[string]string{
		"cache.CachedEntityBase.Lock": "documented: locks an evicted instance forever so that stale users block instead of diverging",
		"cache.IdentityCache.Lock":    "documented: locks an evicted instance forever",
	}
	nOps, nFns := 0, 0
	for _, fn := range fns {
		li := lw.info(fn)
		if li.NOps == 0 {
			continue
		}
		nFns++
		nOps += li.NOps
		c.Sites += li.NOps
		name := funcName(fn)
		c.seeFn(name)
		if why, ok := exemptHold[name]; ok {
			c.Info("R18.1", name, w.FnPos(fn), "exempt: "+why)
			continue
		}
		if len(li.Findings) == 0 {
			c.Hold("R18.1", name, w.FnPos(fn), fmt.Sprintf("%d lock operations paired on all paths", li.NOps))
			continue
		}
		for _, f := range li.Findings {
			c.Violate("R18.1", name+":"+lockFindingKey(f.What), f.Pos, f.What)
		}
	}
	if nOps < 100 {
		c.Violate("R18.1", "expected:lock-sites", "module", fmt.Sprintf("%d lock/unlock call sites in %d functions (reference: 170 sites)", nOps, nFns))
	}

	// R18.2 re-entry
	res := lw.reentries(fns)
	for _, r := range res {
		c.Violate("R18.2", funcName(r.Caller)+"→"+r.Call.Name, w.InstrPos(r.Call.Instr), "calls "+r.Call.Name+" while holding "+r.Key+", and the callee acquires "+r.Key+" again on the same receiver: deadlock (for read locks: as soon as a writer is queued in between)")
	}
	if len(res) == 0 {
		c.Hold("R18.2", "no-same-receiver-reentry", "module", fmt.Sprintf("%d functions with lock operations: no call under a held mutex re-acquires it on the same receiver", nFns))
	}
	// order graph
	var roots []*ssa.Function
	for _, f := range w.ModFns {
		p := fnPkgPath(f)
		if strings.HasPrefix(p, modPath+"/cache") || strings.HasPrefix(p, modPath+"/api") || strings.HasPrefix(p, modPath+"/commands") || strings.HasPrefix(p, modPath+"/termui") || strings.HasPrefix(p, modPath+"/bridge") {
			roots = append(roots, f)
		}
	}
	edges := lw.orderEdges(roots)
	c.Sites += len(edges)
	if cyc := findCycle(edges); cyc != nil {
		var parts []string
		for _, e := range cyc {
			parts = append(parts, e.From+" → "+e.To+" ("+e.Where+")")
		}
		c.Violate("R18.2", "lock-order-cycle:"+cyc[0].From, "module", "lock order cycle: "+strings.Join(parts, "; "))
	} else {
		c.Hold("R18.2", "lock-order-acyclic", "module", fmt.Sprintf("%d lock-order edges between classes, no cycle", len(edges)))
	}
	if len(edges) < 5 {
		c.Violate("R18.2", "expected:order-edges", "module", fmt.Sprintf("only %d lock-order edges found (reference ≥ 20): the order graph is not being built", len(edges)))
	}

	checkSingleInstance(c, lw)
	checkExcerptUnderLock(c, lw, fns)
	// R18.4
	for _, g := range guardedByTable() {
		n := 0
		for _, fn := range fns {
			if fnPkgPath(fn) != modPath+"/"+g.Pkg {
				continue
			}
			for _, b := range fn.Blocks {
				for _, ins := range b.Instrs {
					fa, ok := ins.(*ssa.FieldAddr)
					if !ok || fieldName(fa) != g.Field || typeShortName(fa.X.Type()) != g.Pkg+"."+g.Type {
						continue
					}
					n++
					c.Sites++
					name := funcName(fn)
					key := fmt.Sprintf("%s:%s.%s", name, g.Type, g.Field)
					kind := fieldAccessKind(fa)
					if why, ok := g.Exempt[name]; ok {
						c.Info("R18.4", key, w.InstrPos(fa), "exempt: "+why)
						continue
					}
					if _, fresh := fa.X.(*ssa.Alloc); fresh {
						continue
					}
					mkey := valueKey(fa.X) + "." + g.Mutex
					writeOnly := kind == "write"
					li := lw.info(fn)
					if li.holds(fa, mkey, writeOnly) {
						c.Hold("R18.4", key, w.InstrPos(fa), kind+" under "+mkey)
						continue
					}
					// held by all callers?
					root := fn
					if okc, why := lw.callersHold(root, g.Mutex, writeOnly, 0); okc {
						c.Hold("R18.4", key, w.InstrPos(fa), kind+": "+g.Mutex+" held by every caller")
						continue
					} else {
						mode := "held"
						if writeOnly {
							mode = "write-locked"
						}
						c.Violate("R18.4", key, w.InstrPos(fa), fmt.Sprintf("%s access to %s.%s without %s %s (%s)", kind, g.Type, g.Field, mkey, mode, why))
					}
				}
			}
		}
		if n == 0 {
			c.Violate("R18.4", "expected:"+g.Type+"."+g.Field, g.Pkg, "no access to the guarded field found (anchor renamed?)")
		}
	}
	// R18.5
	checkMutatorsNotify(c, "R18.5")
}

func lockFindingKey(what string) string {
	switch {
	case strings.HasPrefix(what, "returns with"):
		return "held-at-return"
	case strings.HasPrefix(what, "release of"):
		return "release-unheld"
	case strings.HasPrefix(what, "acquires"):
		return "double-acquire"
	}
	return "other"
}

// R18.7–R18.9 (second round of seeded changes)
func checkLRUAndWriteSection(c *Ctx, lw *lockWorld) {
	w := c.W
	c.Doc("R18.7", "SubCache.Resolve tells the LRU about every instance it hands out: no success return is reachable without lru.Get or lru.Add of the resolved id — an entity in constant use must not drift to the oldest position and be evicted (and locked for good) under its user")
	c.Doc("R18.8", "SubCache.write serialises the excerpts and replaces the cache file inside one critical section of sc.mu: every file-writing call of write happens with the lock held, so two concurrent writers cannot store their files in the opposite order of their snapshots")
	c.Doc("R18.9", "the LRU list is mutated by Get/Add/Remove from code that holds sc.mu for reading only (Resolve), so lruIdCache must wrap the synchronised lru.Cache; an unsynchronised list is accepted only if every call site holds sc.mu for writing")
	// R18.7
	if rs := w.Method("cache", "SubCache", "Resolve"); rs != nil {
		rs = bodyOf(rs)
		c.seeFn(funcName(rs))
		isTouch := func(i ssa.Instruction) bool {
			ci, ok := i.(ssa.CallInstruction)
			if !ok {
				return false
			}
			n, _ := callName(ci.Common())
			return strings.HasSuffix(n, "lruIdCache.Add") || strings.HasSuffix(n, "lru.Cache.Get") || strings.HasSuffix(n, ".Get") && strings.Contains(n, "lru") || strings.HasSuffix(n, "lruIdCache.Get")
		}
		bad, p, _ := pathAvoiding(rs, nil, isSuccessReturn, isTouch)
		c.Sites++
		c.Check(!bad, "R18.7", "cache.SubCache.Resolve:use-refreshes-lru", w.FnPos(rs), "every success return passes lru.Get / lru.Add", "an instance is handed out without refreshing its LRU position ("+blocksString(w, p)+"): an entity that is resolved and used all the time still becomes the oldest one, is evicted while in use and locked for good — its user hangs on the next edit")
	} else {
		c.Undecided("R18.7", "anchor:SubCache.Resolve", "cache", "not found")
	}
	// R18.8
	if wr := w.Method("cache", "SubCache", "write"); wr != nil {
		wr = bodyOf(wr)
		c.seeFn(funcName(wr))
		li := lw.info(wr)
		n, bad := 0, ""
		for _, cl := range Calls(wr) {
			e := primEffect(cl.Name)
			if effClass(e) != "FILE" && effClass(e) != "OSFILE" && !strings.HasSuffix(cl.Name, ".Write") && !strings.HasSuffix(cl.Name, ".Close") {
				continue
			}
			if strings.HasSuffix(cl.Name, "Encoder.Encode") {
				continue
			}
			recv := ""
			if len(wr.Params) > 0 {
				recv = valueKey(wr.Params[0]) + ".mu"
			}
			n++
			c.Sites++
			if !li.holds(cl.Instr, recv, false) {
				bad = cl.Name + " at " + w.InstrPos(cl.Instr)
			}
		}
		c.Check(n > 0 && bad == "", "R18.8", "cache.SubCache.write:file-written-under-lock", w.FnPos(wr), fmt.Sprintf("%d file operations, all with sc.mu held", n), "the cache file is written ("+bad+") after the lock under which the excerpts were serialised was released: a concurrent writer holding a newer snapshot can be overwritten by an older one, the stale file is what the next process loads")
	} else {
		c.Undecided("R18.8", "anchor:SubCache.write", "cache", "not found")
	}
	// R18.9
	p := w.Pkg("cache")
	if p != nil {
		if tn, ok := p.Types.Scope().Lookup("lruIdCache").(*types.TypeName); ok {
			st, _ := tn.Type().Underlying().(*types.Struct)
			safe := false
			desc := "?"
			if st != nil && st.NumFields() > 0 {
				t := st.Field(0).Type()
				if pt, isP := t.(*types.Pointer); isP {
					t = pt.Elem()
				}
				desc = t.String()
				if nt, isN := t.(*types.Named); isN && nt.Obj().Pkg() != nil {
					path := nt.Obj().Pkg().Path()
					if nt.Obj().Name() == "Cache" && strings.HasSuffix(path, "hashicorp/golang-lru/v2") {
						safe = true
					}
				}
			}
			c.Sites++
			if safe {
				c.Hold("R18.9", "cache.lruIdCache:synchronised", w.Pos(tn.Pos()), "wraps the synchronised lru.Cache")
			} else {
				// every mutating call site must hold the write lock
				bad := ""
				for _, fn := range w.ModFns {
					if fnPkgPath(fn) != modPath+"/cache" || w.isTestHelper(fn) || isWrapper(fn) {
						continue
					}
					body := bodyOf(fn)
					if body == nil || len(body.Blocks) == 0 || body.Signature.Recv() == nil {
						continue
					}
					li := lw.info(body)
					for _, cl := range Calls(body) {
						if !strings.Contains(cl.Name, "lruIdCache.") && !(strings.Contains(cl.Name, "lru") && (strings.HasSuffix(cl.Name, ".Get") || strings.HasSuffix(cl.Name, ".Remove") || strings.HasSuffix(cl.Name, ".Add"))) {
							continue
						}
						if strings.Contains(funcName(body), "lruIdCache") {
							continue
						}
						key := valueKey(body.Params[0]) + ".mu"
						if !li.holds(cl.Instr, key, true) {
							bad = funcName(body) + " at " + w.InstrPos(cl.Instr)
						}
					}
				}
				c.Check(bad == "", "R18.9", "cache.lruIdCache:synchronised", w.Pos(tn.Pos()), "every LRU call holds sc.mu for writing", "lruIdCache wraps "+desc+", which is not synchronised, and "+bad+" touches it without holding sc.mu for writing: concurrent Resolve calls corrupt the list (nil dereference / index out of range in evictIfNeeded)")
			}
		} else {
			c.Undecided("R18.9", "anchor:cache.lruIdCache", "cache", "type not found")
		}
	}
}

// checkSingleInstance (R18.3): one loaded instance per entity. Shared with C11: two instances of one
// bug refresh the excerpt from whichever was registered last, so the cache diverges from the git data.
func checkSingleInstance(c *Ctx, lw *lockWorld) {
	w := c.W
	c.Doc("R18.3", "insertion of a new instance into SubCache.cached happens in the write-locked region that also tested for its absence; an entity found loaded is handed out as that very instance")
	// R18.3
	for _, name := range []struct{ typ, m string }{{"SubCache", "Resolve"}, {"SubCache", "add"}, {"RepoCacheIdentity", "finishIdentity"}} {
		fn := w.Method("cache", name.typ, name.m)
		key := "cache." + name.typ + "." + name.m + ":check-and-insert"
		if fn == nil {
			c.Undecided("R18.3", "anchor:"+key, "cache", "not found")
			continue
		}
		// the insertion may live in a same-package helper the function calls (the locked section extracted)
		hasInsert := func(f *ssa.Function) bool {
			for _, b := range f.Blocks {
				for _, ins := range b.Instrs {
					if mu, ok := ins.(*ssa.MapUpdate); ok {
						if _, fld, isF := loadOfField(mu.Map); isF && fld == "cached" {
							return true
						}
					}
				}
			}
			return false
		}
		if !hasInsert(fn) {
			for _, h := range fnAndHelpers(bodyOf(fn), 1) {
				if h != fn && hasInsert(h) {
					fn = h
					break
				}
			}
		}
		li := lw.info(fn)
		found := false
		for _, b := range fn.Blocks {
			for _, ins := range b.Instrs {
				mu, ok := ins.(*ssa.MapUpdate)
				if !ok {
					continue
				}
				base, fld, isF := loadOfField(mu.Map)
				if !isF || fld != "cached" {
					continue
				}
				found = true
				c.Sites++
				mkey := valueKey(base) + ".mu"
				if !li.holds(mu, mkey, true) {
					c.Violate("R18.3", key, w.InstrPos(mu), "the loaded set is written without holding "+mkey+" for writing")
					continue
				}
				// a comma-ok lookup of the same map whose not-found edge controls the insertion, with the write lock held continuously from the test to the insertion
				ok2 := false
				for _, cc := range controlConds(mu.Block(), nil) {
					ex, isEx := cc.If.Cond.(*ssa.Extract)
					if !isEx || ex.Index != 1 {
						continue
					}
					lk, isLk := ex.Tuple.(*ssa.Lookup)
					if !isLk {
						continue
					}
					if _, f2, isF2 := loadOfField(lk.X); !isF2 || f2 != "cached" {
						continue
					}
					if cc.Edge != 1 {
						continue
					}
					if !li.holds(lk, mkey, true) {
						continue
					}
					// no release between the test and the insertion
					released, _, _ := pathSearch(fn, lk, nil, func(i ssa.Instruction) bool { return i == ssa.Instruction(mu) }, nil, false)
					if !released {
						continue
					}
					unlockBetween := false
					for _, cl := range Calls(fn) {
						if op, isOp := asLockOp(cl.Instr.Common()); isOp && op.Delta < 0 && op.Key == mkey {
							if _, isDefer := cl.Instr.(*ssa.Defer); isDefer {
								continue
							}
							a, _, _ := pathSearch(fn, lk, nil, func(i ssa.Instruction) bool { return i == cl.Instr }, func(i ssa.Instruction) bool { return i == ssa.Instruction(mu) }, false)
							b2, _, _ := pathSearch(fn, cl.Instr, nil, func(i ssa.Instruction) bool { return i == ssa.Instruction(mu) }, nil, false)
							if a && b2 {
								unlockBetween = true
							}
						}
					}
					if !unlockBetween {
						ok2 = true
					}
				}
				c.Check(ok2, "R18.3", key, w.InstrPos(mu), "presence is tested and the instance inserted within one write-locked region", "a freshly built instance is stored without re-checking, under the same lock hold, that the entity is not loaded yet: two goroutines can obtain two instances of one entity and overwrite each other's commits")
			}
		}
		if !found {
			c.Violate("R18.3", key, w.FnPos(fn), "expected insertion into the loaded set not found")
		}
	}

	// R18.3b: when the entity is found loaded, that very instance is handed out
	if fn := w.Method("cache", "SubCache", "Resolve"); fn != nil {
		for _, r := range Returns(fn) {
			if returnKind(r) == RetError {
				continue
			}
			for _, cc := range controlConds(r.Block(), nil) {
				ex, isEx := cc.If.Cond.(*ssa.Extract)
				if !isEx || ex.Index != 1 || cc.Edge != 0 {
					continue
				}
				lk, isLk := ex.Tuple.(*ssa.Lookup)
				if !isLk {
					continue
				}
				if _, fld, isF := loadOfField(lk.X); !isF || fld != "cached" {
					continue
				}
				c.Sites++
				ok := false
				if e0, isE := stripConv(r.Results[0]).(*ssa.Extract); isE && e0.Tuple == ssa.Value(lk) && e0.Index == 0 {
					ok = true
				}
				c.Check(ok, "R18.3", "cache.SubCache.Resolve:loaded-instance-returned", w.InstrPos(r), "the instance found in the loaded set is the one returned", "the entity is found loaded but a different instance is returned: two live instances of one entity, whose commits overwrite each other")
			}
		}
	}
}

// checkExcerptUnderLock (R18.6). Shared with C11: an excerpt computed outside the lock that stores it can
// overwrite a newer one — the stale excerpt is what listings, queries and the cache file then show.
func checkExcerptUnderLock(c *Ctx, lw *lockWorld, fns []*ssa.Function) {
	w := c.W
	_ = w
	// R18.6: an excerpt is computed and stored within one write-locked region
	c.Doc("R18.6", "the value stored into SubCache.excerpts is computed (makeExcerpt) while the write lock that protects the store is already held, without release in between")
	for _, fn := range fns {
		if fnPkgPath(fn) != modPath+"/cache" {
			continue
		}
		root := fn
		for root.Parent() != nil {
			root = root.Parent()
		}
		if funcName(root) == "cache.SubCache.Build" {
			continue
		}
		li := lw.info(fn)
		for _, b := range fn.Blocks {
			for _, ins := range b.Instrs {
				mu, isMU := ins.(*ssa.MapUpdate)
				if !isMU {
					continue
				}
				base, fld, isF := loadOfField(mu.Map)
				if !isF || fld != "excerpts" {
					continue
				}
				mkey := valueKey(base) + ".mu"
				var mk *ssa.Call
				for _, o := range origins(mu.Value) {
					if cv, isC := o.Val.(*ssa.Call); isC && o.Kind == "call" && hasField(cv.Common().Value, "makeExcerpt") {
						mk = cv
					}
				}
				if mk == nil {
					if cv, isC := mu.Value.(*ssa.Call); isC && hasField(cv.Common().Value, "makeExcerpt") {
						mk = cv
					}
				}
				c.Sites++
				key := funcName(fn) + ":excerpt-computed-under-lock"
				if mk == nil {
					c.Undecided("R18.6", key, w.InstrPos(mu), "the stored excerpt is not the direct result of makeExcerpt")
					continue
				}
				ok := li.holds(mk, mkey, true) && li.holds(mu, mkey, true)
				if ok {
					// no unlock between
					for _, cl := range Calls(fn) {
						if op, isOp := asLockOp(cl.Instr.Common()); isOp && op.Delta < 0 && op.Key == mkey {
							if _, isDefer := cl.Instr.(*ssa.Defer); isDefer {
								continue
							}
							a, _, _ := pathSearch(fn, mk, nil, func(i ssa.Instruction) bool { return i == cl.Instr }, func(i ssa.Instruction) bool { return i == ssa.Instruction(mu) }, false)
							b2, _, _ := pathSearch(fn, cl.Instr, nil, func(i ssa.Instruction) bool { return i == ssa.Instruction(mu) }, nil, false)
							if a && b2 {
								ok = false
							}
						}
					}
				}
				c.Check(ok, "R18.6", key, w.InstrPos(mu), "computed and stored under one hold of "+mkey, "the excerpt is computed outside the write-locked region that stores it: a concurrent update can finish in between and its newer excerpt is overwritten by the stale one (cache disagrees with a rebuild)")
			}
		}
	}

}


// R18.10: two more ways out of the lock discipline.
//   - a map or slice read from a guarded field keeps being guarded: every use of the value loaded (range, look-up,
//     len, update) happens while the lock is still held — releasing it first and iterating the alias afterwards
//     is iterating the live structure unprotected;
//   - withSnapshot.Compile tests for a missing snapshot and stores the compiled one under one hold of its mutex:
//     compiling outside lets a concurrent Append be applied to a snapshot that is then overwritten by the stale one.
func checkGuardedAliasesAndSnapshot(c *Ctx, lw *lockWorld) {
	w := c.W
	c.Doc("R18.10", "in package cache, a value loaded from SubCache.excerpts / SubCache.cached is only used (range, look-up, len, store) where the mutex it was loaded under is still held; withSnapshot.Compile's test of ws.snap and its store are in one locked region")
	n := 0
	for _, fn := range w.ModFns {
		if fnPkgPath(fn) != modPath+"/cache" || isInstance(fn) || w.isTestHelper(fn) || len(fn.Blocks) == 0 {
			continue
		}
		root := fn
		for root.Parent() != nil {
			root = root.Parent()
		}
		if funcName(root) == "cache.SubCache.Build" {
			continue // runs before the cache is published
		}
		li := lw.info(fn)
		if li.NOps == 0 {
			continue
		}
		for _, b := range fn.Blocks {
			for _, ins := range b.Instrs {
				ld, ok := ins.(*ssa.UnOp)
				if !ok || ld.Op != token.MUL {
					continue
				}
				fa, ok := ld.X.(*ssa.FieldAddr)
				if !ok || (fieldName(fa) != "excerpts" && fieldName(fa) != "cached") {
					continue
				}
				if _, isMap := ld.Type().Underlying().(*types.Map); !isMap {
					continue
				}
				mkey := valueKey(fa.X) + ".mu"
				if !li.holds(ld, mkey, false) {
					continue // R18.4 reports unguarded loads
				}
				// the uses of the loaded value, through phis
				seen := map[ssa.Value]bool{}
				var uses func(v ssa.Value)
				uses = func(v ssa.Value) {
					if seen[v] {
						return
					}
					seen[v] = true
					for _, r := range *v.Referrers() {
						switch x := r.(type) {
						case *ssa.Phi:
							uses(x)
						case *ssa.Range, *ssa.Lookup, *ssa.MapUpdate:
							n++
							c.Sites++
							if !li.holds(x.(ssa.Instruction), mkey, false) {
								c.Violate("R18.10", funcName(fn)+":"+fieldName(fa)+"-alias-used-unlocked", w.InstrPos(x.(ssa.Instruction)), "the map read from "+fieldName(fa)+" under "+mkey+" is used here after the lock was released: a concurrent store into it makes the runtime abort ('concurrent map iteration and map write')")
							}
						case *ssa.Call:
							if bi, isB := x.Common().Value.(*ssa.Builtin); isB && bi.Name() == "len" {
								n++
								c.Sites++
								if !li.holds(x, mkey, false) {
									c.Violate("R18.10", funcName(fn)+":"+fieldName(fa)+"-alias-used-unlocked", w.InstrPos(x), "len of the map read from "+fieldName(fa)+" is taken after the lock was released")
								}
							}
						}
					}
				}
				uses(ld)
			}
		}
	}
	c.Check(n >= 10, "R18.10", "expected:guarded-map-uses", "cache", fmt.Sprintf("%d uses of maps loaded from guarded fields, all under the lock", n), fmt.Sprintf("only %d uses of guarded maps found (reference ≥ 20)", n))
	// withSnapshot.Compile
	cf := w.Method("cache", "withSnapshot", "Compile")
	if cf == nil {
		c.Undecided("R18.10", "anchor:withSnapshot.Compile", "cache", "not found")
		return
	}
	cf = bodyOf(cf)
	c.seeFn(funcName(cf))
	li := lw.info(cf)
	var test ssa.Instruction
	var store *ssa.Store
	for _, b := range cf.Blocks {
		for _, ins := range b.Instrs {
			switch x := ins.(type) {
			case *ssa.UnOp:
				if fa, ok := x.X.(*ssa.FieldAddr); ok && x.Op == token.MUL && fieldName(fa) == "snap" && test == nil {
					test = x
				}
			case *ssa.Store:
				if fa, ok := x.Addr.(*ssa.FieldAddr); ok && fieldName(fa) == "snap" {
					store = x
				}
			}
		}
	}
	if test == nil || store == nil {
		c.Info("R18.10", "withSnapshot.Compile:test-and-store-under-one-hold", w.FnPos(cf), "no test/store of ws.snap found: not interpreted")
		return
	}
	c.Sites++
	fa := store.Addr.(*ssa.FieldAddr)
	mkey := valueKey(fa.X) + ".mu"
	ok := li.holds(test, mkey, true) && li.holds(store, mkey, true)
	why := "the test or the store of ws.snap happens without " + mkey + " held for writing"
	if ok {
		for _, cl := range Calls(cf) {
			if op, isOp := asLockOp(cl.Instr.Common()); isOp && op.Delta < 0 && op.Key == mkey {
				if _, isDefer := cl.Instr.(*ssa.Defer); isDefer {
					continue
				}
				a, _, _ := pathSearch(cf, test, nil, func(i ssa.Instruction) bool { return i == cl.Instr }, func(i ssa.Instruction) bool { return i == ssa.Instruction(store) }, false)
				b2, _, _ := pathSearch(cf, cl.Instr, nil, func(i ssa.Instruction) bool { return i == ssa.Instruction(store) }, nil, false)
				if a && b2 {
					ok, why = false, "the mutex is released at "+w.InstrPos(cl.Instr)+" between the test for a missing snapshot and the store of the compiled one"
				}
			}
		}
	}
	c.Check(ok, "R18.10", "withSnapshot.Compile:test-and-store-under-one-hold", w.InstrPos(store), "ws.snap is tested and set under one hold of "+mkey,
		why+": an operation appended (and applied to nothing, the snapshot being absent) while the history is compiled outside the lock is missing from the snapshot stored afterwards — the acknowledged edit never shows in the cache")
}
