package main

// SSA-level helpers shared by the rule tables: canonical callee names,
// success edges of error-returning calls, dominance, path queries.

import (
	"fmt"
	"go/constant"
	"go/token"
	"go/types"
	"sort"
	"strings"

	"golang.org/x/tools/go/ssa"
)

// Call is one call instruction with its canonical callee name.
type Call struct {
	Instr ssa.CallInstruction
	Name  string // canonical: "pkg.Func", "pkg.Type.Method" (receiver pointer-ness and type arguments dropped), "" if unknown
	Fn    *ssa.Function
}

func (c *Call) Block() *ssa.BasicBlock { return c.Instr.Block() }
func (c *Call) Value() ssa.Value {
	if v, ok := c.Instr.(*ssa.Call); ok {
		return v
	}
	return nil
}
func (c *Call) Args() []ssa.Value {
	// arguments without the receiver
	cc := c.Instr.Common()
	if cc.IsInvoke() {
		return cc.Args
	}
	if f := cc.StaticCallee(); f != nil && hasRecv(f) && len(cc.Args) > 0 {
		return cc.Args[1:]
	}
	return cc.Args
}

// hasRecv: f is a method (the signature of an instantiation over type parameters may have lost its receiver).
func hasRecv(f *ssa.Function) bool {
	if f.Signature.Recv() != nil {
		return true
	}
	if o := f.Origin(); o != nil && o.Signature.Recv() != nil {
		return true
	}
	return false
}
func (c *Call) Recv() ssa.Value {
	cc := c.Instr.Common()
	if cc.IsInvoke() {
		return cc.Value
	}
	if f := cc.StaticCallee(); f != nil && hasRecv(f) && len(cc.Args) > 0 {
		return cc.Args[0]
	}
	return nil
}

func typeShortName(t types.Type) string {
	for {
		switch tt := t.(type) {
		case *types.Pointer:
			t = tt.Elem()
			continue
		case *types.Named:
			o := tt.Obj()
			if o.Pkg() != nil {
				return short(o.Pkg().Path()) + "." + o.Name()
			}
			return o.Name()
		case *types.Alias:
			t = types.Unalias(tt)
			continue
		case *types.TypeParam:
			return "T:" + tt.Obj().Name()
		}
		return short(t.String())
	}
}

// funcName: canonical name of an *ssa.Function.
func funcName(f *ssa.Function) string {
	if f == nil {
		return ""
	}
	if f.Parent() != nil {
		return funcName(f.Parent()) + "$" + strings.TrimPrefix(f.Name(), f.Parent().Name()+"$")
	}
	if o := f.Origin(); o != nil {
		f = o
	}
	if obj, ok := f.Object().(*types.Func); ok && obj != nil {
		return typesFuncName(obj)
	}
	// synthetic (wrappers, bound methods, thunks)
	if f.Synthetic != "" {
		if recv := f.Signature.Recv(); recv != nil {
			return typeShortName(recv.Type()) + "." + f.Name()
		}
		if strings.HasSuffix(f.Name(), "$bound") || strings.HasSuffix(f.Name(), "$thunk") {
			// bound method closure: (T).M$bound
			if len(f.FreeVars) == 1 {
				return typeShortName(f.FreeVars[0].Type()) + "." + strings.TrimSuffix(strings.TrimSuffix(f.Name(), "$bound"), "$thunk")
			}
		}
	}
	return short(f.String())
}

func typesFuncName(obj *types.Func) string {
	obj = obj.Origin()
	sig := obj.Type().(*types.Signature)
	if recv := sig.Recv(); recv != nil {
		return typeShortName(recv.Type()) + "." + obj.Name()
	}
	if obj.Pkg() != nil {
		return short(obj.Pkg().Path()) + "." + obj.Name()
	}
	return obj.Name()
}

func callName(cc *ssa.CallCommon) (string, *ssa.Function) {
	if cc.IsInvoke() {
		return typesFuncName(cc.Method), nil
	}
	if f := cc.StaticCallee(); f != nil {
		return funcName(f), f
	}
	switch v := cc.Value.(type) {
	case *ssa.Builtin:
		return "builtin." + v.Name(), nil
	case *ssa.MakeClosure:
		if f, ok := v.Fn.(*ssa.Function); ok {
			return funcName(f), f
		}
	}
	return "", nil
}

// Calls lists every call instruction (call, defer, go) of f in block order.
func Calls(f *ssa.Function) []*Call {
	var out []*Call
	for _, b := range f.Blocks {
		for _, ins := range b.Instrs {
			ci, ok := ins.(ssa.CallInstruction)
			if !ok {
				continue
			}
			n, fn := callName(ci.Common())
			out = append(out, &Call{Instr: ci, Name: n, Fn: fn})
		}
	}
	return out
}

// CallsDeep lists calls of f and of every closure nested in f.
func CallsDeep(f *ssa.Function) []*Call {
	out := Calls(f)
	for _, a := range f.AnonFuncs {
		out = append(out, CallsDeep(a)...)
	}
	return out
}

func CallsNamed(f *ssa.Function, names ...string) []*Call {
	var out []*Call
	for _, c := range Calls(f) {
		for _, n := range names {
			if c.Name == n {
				out = append(out, c)
			}
		}
	}
	return out
}

func idxOf(i ssa.Instruction) int {
	for k, j := range i.Block().Instrs {
		if j == i {
			return k
		}
	}
	return -1
}

func isNilConst(v ssa.Value) bool {
	c, ok := v.(*ssa.Const)
	return ok && c.Value == nil
}

func isErrorType(t types.Type) bool {
	n, ok := t.(*types.Named)
	return ok && n.Obj().Pkg() == nil && n.Obj().Name() == "error"
}

// errValues returns the SSA values carrying the error result of call v
// (the call itself for a single error result, the Extract for tuples).
func errValues(v ssa.Value) []ssa.Value {
	if v == nil {
		return nil
	}
	switch t := v.Type().(type) {
	case *types.Tuple:
		var out []ssa.Value
		for _, r := range *v.Referrers() {
			if e, ok := r.(*ssa.Extract); ok && isErrorType(t.At(e.Index).Type()) {
				out = append(out, e)
			}
		}
		return out
	default:
		if isErrorType(t) {
			return []ssa.Value{v}
		}
	}
	return nil
}

// resultValues returns the values carrying result idx of call v.
func resultValues(v ssa.Value, idx int) []ssa.Value {
	if v == nil {
		return nil
	}
	if _, ok := v.Type().(*types.Tuple); ok {
		var out []ssa.Value
		for _, r := range *v.Referrers() {
			if e, ok := r.(*ssa.Extract); ok && e.Index == idx {
				out = append(out, e)
			}
		}
		return out
	}
	if idx == 0 {
		return []ssa.Value{v}
	}
	return nil
}

// Guard describes one conditional branch: when Cond evaluates so that control
// reaches Then, ... we only need the (If, successor index) pair.
type Branch struct {
	If   *ssa.If
	Succ int // 0 = true edge, 1 = false edge
}

func (b Branch) Block() *ssa.BasicBlock { return b.If.Block().Succs[b.Succ] }

// nilTests finds branches that test v against nil; returns the (non-nil edge, nil edge) pairs.
func nilTests(v ssa.Value) (nonNil []Branch, isNil []Branch) {
	for _, r := range *v.Referrers() {
		bo, ok := r.(*ssa.BinOp)
		if !ok || (bo.Op != token.NEQ && bo.Op != token.EQL) {
			continue
		}
		var other ssa.Value
		if bo.X == v {
			other = bo.Y
		} else {
			other = bo.X
		}
		if !isNilConst(other) {
			continue
		}
		for _, rr := range condUsers(bo) {
			t, f := Branch{rr.If, 0}, Branch{rr.If, 1}
			if rr.Neg {
				t, f = f, t
			}
			if bo.Op == token.NEQ {
				nonNil = append(nonNil, t)
				isNil = append(isNil, f)
			} else {
				nonNil = append(nonNil, f)
				isNil = append(isNil, t)
			}
		}
	}
	return
}

type condUse struct {
	If  *ssa.If
	Neg bool
}

// condUsers returns the If instructions controlled by boolean value v (through negations).
func condUsers(v ssa.Value) []condUse {
	var out []condUse
	for _, r := range *v.Referrers() {
		switch x := r.(type) {
		case *ssa.If:
			out = append(out, condUse{x, false})
		case *ssa.UnOp:
			if x.Op == token.NOT {
				for _, u := range condUsers(x) {
					out = append(out, condUse{u.If, !u.Neg})
				}
			}
		}
	}
	return out
}

// successBlocks: the blocks entered when the error result of call is nil
// (only successors whose single predecessor is the testing If count as a check).
func successBlocks(call ssa.Value) []*ssa.BasicBlock {
	var out []*ssa.BasicBlock
	for _, ev := range errValues(call) {
		_, isNil := nilTests(ev)
		for _, b := range isNil {
			sb := b.Block()
			if edgeExclusive(sb, b.If.Block()) {
				out = append(out, sb)
			}
		}
	}
	return out
}

// edgeExclusive: block sb is entered from outside only through its edge from block from
// (its other predecessors, if any, are back edges: blocks sb itself dominates).
func edgeExclusive(sb, from *ssa.BasicBlock) bool {
	for _, p := range sb.Preds {
		if p == from {
			continue
		}
		if !sb.Dominates(p) {
			return false
		}
	}
	return true
}

// failureBlocks: the blocks entered when the error result of call is non-nil.
func failureBlocks(call ssa.Value) []*ssa.BasicBlock {
	var out []*ssa.BasicBlock
	for _, ev := range errValues(call) {
		nn, _ := nilTests(ev)
		for _, b := range nn {
			sb := b.Block()
			if len(sb.Preds) == 1 {
				out = append(out, sb)
			}
		}
	}
	return out
}

// dominatedBySuccess: instruction at is dominated by the success edge of call.
func dominatedBySuccess(call ssa.Value, at ssa.Instruction) bool {
	for _, sb := range successBlocks(call) {
		if sb.Dominates(at.Block()) {
			return true
		}
	}
	return false
}

// instrDominates: a strictly precedes b on every path from entry.
func instrDominates(a, b ssa.Instruction) bool {
	if a.Block() == b.Block() {
		return idxOf(a) < idxOf(b)
	}
	return a.Block().Dominates(b.Block())
}

// ---- returns ----

type RetKind int

const (
	RetSuccess RetKind = iota // error operand is nil constant (or function has no error result)
	RetError                  // error operand is provably non-nil (fresh error value)
	RetMaybe                  // unknown
)

func errResultIndex(f *ssa.Function) int {
	res := f.Signature.Results()
	for i := res.Len() - 1; i >= 0; i-- {
		if isErrorType(res.At(i).Type()) {
			return i
		}
	}
	return -1
}

func classifyErrValue(v ssa.Value, seen map[ssa.Value]bool) RetKind {
	if seen[v] {
		return RetError // cycles contribute nothing
	}
	seen[v] = true
	switch x := v.(type) {
	case *ssa.Const:
		if x.Value == nil {
			return RetSuccess
		}
		return RetError
	case *ssa.Phi:
		k := RetError
		for _, e := range x.Edges {
			ek := classifyErrValue(e, seen)
			if ek == RetSuccess {
				return RetSuccess
			}
			if ek == RetMaybe {
				k = RetMaybe
			}
		}
		return k
	case *ssa.MakeInterface:
		return RetError
	case *ssa.UnOp:
		// load of a package-level sentinel (var ErrX = errors.New(...)): non-nil by convention
		if x.Op == token.MUL {
			if _, ok := x.X.(*ssa.Global); ok {
				return RetError
			}
		}
		return RetMaybe
	case *ssa.Call:
		n, _ := callName(x.Common())
		switch n {
		case "fmt.Errorf", "errors.New", "github.com/pkg/errors.New", "github.com/pkg/errors.Errorf":
			return RetError
		}
		return RetMaybe
	case *ssa.Extract:
		return RetMaybe
	}
	return RetMaybe
}

// returnKind classifies a Return by its error operand, refined by dominating nil tests.
func returnKind(r *ssa.Return) RetKind {
	f := r.Parent()
	idx := errResultIndex(f)
	if idx < 0 {
		return RetSuccess
	}
	if idx >= len(r.Results) {
		return RetMaybe
	}
	return errKindAt(unspill(r.Results[idx], r), r.Block(), 0)
}

// unspill: in functions with defer, go/ssa spills results ("*t0 = v; rundefers; t = *t0; return t").
// Returns the value stored into the result cell in the return's block, if the operand is such a load.
func unspill(v ssa.Value, r *ssa.Return) ssa.Value {
	u, ok := v.(*ssa.UnOp)
	if !ok || u.Op != token.MUL {
		return v
	}
	al, ok := u.X.(*ssa.Alloc)
	if !ok {
		return v
	}
	var last ssa.Value
	for _, ins := range r.Block().Instrs {
		if st, ok := ins.(*ssa.Store); ok && st.Addr == al {
			last = st.Val
		}
	}
	if last != nil {
		return last
	}
	return v
}

// ReturnResult returns result i of a return, looking through defer spilling.
func ReturnResult(r *ssa.Return, i int) ssa.Value {
	if i >= len(r.Results) {
		return nil
	}
	return unspill(r.Results[i], r)
}

// errKindAt classifies error value v as seen from block at.
func errKindAt(v ssa.Value, at *ssa.BasicBlock, depth int) RetKind {
	k := classifyErrValue(v, map[ssa.Value]bool{})
	if k != RetMaybe || depth > 3 {
		return k
	}
	// wrapping helpers keep nil-ness of their first argument
	if c, ok := v.(*ssa.Call); ok {
		n, _ := callName(c.Common())
		switch n {
		case "github.com/pkg/errors.Wrap", "github.com/pkg/errors.Wrapf", "github.com/pkg/errors.WithStack", "github.com/pkg/errors.WithMessage":
			if len(c.Common().Args) > 0 {
				return errKindAt(c.Common().Args[0], at, depth+1)
			}
		}
	}
	nn, isn := nilTests(v)
	for _, b := range nn {
		if len(b.Block().Preds) == 1 && b.Block().Dominates(at) {
			return RetError
		}
	}
	for _, b := range isn {
		if len(b.Block().Preds) == 1 && b.Block().Dominates(at) {
			return RetSuccess
		}
	}
	// compared equal to a sentinel on a dominating edge (err == ErrNotFound → return …)
	for _, r := range *v.Referrers() {
		bo, ok := r.(*ssa.BinOp)
		if !ok || bo.Op != token.EQL {
			continue
		}
		other := bo.Y
		if other == v {
			other = bo.X
		}
		if u, ok := other.(*ssa.UnOp); ok {
			if _, isG := u.X.(*ssa.Global); isG {
				for _, cu := range condUsers(bo) {
					e := 0
					if cu.Neg {
						e = 1
					}
					sb := cu.If.Block().Succs[e]
					if len(sb.Preds) == 1 && sb.Dominates(at) {
						return RetError
					}
				}
			}
		}
	}
	if phi, ok := v.(*ssa.Phi); ok {
		res := RetError
		for i, e := range phi.Edges {
			ek := errKindAt(e, phi.Block().Preds[i], depth+1)
			if ek == RetSuccess {
				return RetSuccess
			}
			if ek == RetMaybe {
				res = RetMaybe
			}
		}
		return res
	}
	return k
}

func Returns(f *ssa.Function) []*ssa.Return {
	var out []*ssa.Return
	for _, b := range f.Blocks {
		if len(b.Instrs) == 0 {
			continue
		}
		if r, ok := b.Instrs[len(b.Instrs)-1].(*ssa.Return); ok {
			out = append(out, r)
		}
	}
	return out
}

// ---- path queries ----

// pathAvoiding reports whether some CFG path leads from just after instruction
// `from` (or from function entry when from == nil) to an instruction for which
// target returns true, without executing an instruction for which stop returns true.
// It returns the witness as a list of blocks.
func pathAvoiding(f *ssa.Function, from ssa.Instruction, target func(ssa.Instruction) bool, stop func(ssa.Instruction) bool) (bool, []*ssa.BasicBlock, ssa.Instruction) {
	return pathSearch(f, from, nil, target, stop, false)
}

// pathSearch generalises pathAvoiding: the search starts after instruction from, or at the
// top of block fromBlock, or at function entry; with cutBack, loop back edges (edges to a
// dominating block) are not followed, i.e. the search stays within one loop iteration.
func pathSearch(f *ssa.Function, from ssa.Instruction, fromBlock *ssa.BasicBlock, target func(ssa.Instruction) bool, stop func(ssa.Instruction) bool, cutBack bool) (bool, []*ssa.BasicBlock, ssa.Instruction) {
	if len(f.Blocks) == 0 {
		return false, nil, nil
	}
	// The search is path-sensitive for one idiom only: nil-ness of values tested with ==/!= nil.
	// Facts learned at a branch are carried along the path (through phis, by incoming edge), and a
	// later branch on a value whose nil-ness is known follows only the feasible edge. This removes
	// the infeasible paths of "if err == nil { err = g() }; if err != nil { return }".
	type facts map[ssa.Value]bool // value -> isNil
	type st struct {
		b     *ssa.BasicBlock
		idx   int
		fc    facts
		trail *trailNode
	}
	key := func(b *ssa.BasicBlock, fc facts) string {
		if len(fc) == 0 {
			return fmt.Sprintf("%d", b.Index)
		}
		var ks []string
		for v, n := range fc {
			ks = append(ks, fmt.Sprintf("%s=%v", v.Name(), n))
		}
		sort.Strings(ks)
		return fmt.Sprintf("%d|%s", b.Index, strings.Join(ks, ","))
	}
	start := st{b: f.Blocks[0], idx: 0, fc: facts{}}
	if from != nil {
		start = st{b: from.Block(), idx: idxOf(from) + 1, fc: facts{}}
	} else if fromBlock != nil {
		start = st{b: fromBlock, idx: 0, fc: facts{}}
	}
	start.trail = &trailNode{start.b, nil}
	visited := map[string]bool{}
	q := []st{start}
	steps := 0
	for len(q) > 0 {
		s := q[0]
		q = q[1:]
		steps++
		if steps > 50000 {
			break
		}
		if s.idx == 0 {
			k := key(s.b, s.fc)
			if visited[k] {
				continue
			}
			visited[k] = true
		}
		blocked := false
		for k := s.idx; k < len(s.b.Instrs); k++ {
			ins := s.b.Instrs[k]
			if pathSearchSkipKnownErrorReturns {
				// a return whose error result is known to be non-nil along this path is not a normal exit
				if r, isR := ins.(*ssa.Return); isR && len(r.Results) > 0 {
					last := r.Results[len(r.Results)-1]
					if isNil, known := s.fc[last]; known && !isNil && isErrorType(last.Type()) {
						blocked = true
						break
					}
				}
			}
			if target(ins) {
				var path []*ssa.BasicBlock
				for t := s.trail; t != nil; t = t.prev {
					path = append([]*ssa.BasicBlock{t.b}, path...)
				}
				return true, path, ins
			}
			if stop != nil && stop(ins) {
				blocked = true
				break
			}
		}
		if blocked {
			continue
		}
		// which successors are feasible?
		feasible := []bool{true, true}
		var learn [2]map[ssa.Value]bool
		if iff, ok := s.b.Instrs[len(s.b.Instrs)-1].(*ssa.If); ok {
			cond := iff.Cond
			neg := false
			for {
				if u, isU := cond.(*ssa.UnOp); isU && u.Op == token.NOT {
					cond = u.X
					neg = !neg
					continue
				}
				break
			}
			if bo, isBo := cond.(*ssa.BinOp); isBo && (bo.Op == token.EQL || bo.Op == token.NEQ) {
				var v ssa.Value
				if isNilConst(bo.Y) {
					v = bo.X
				} else if isNilConst(bo.X) {
					v = bo.Y
				}
				if v != nil {
					trueMeansNil := bo.Op == token.EQL
					if neg {
						trueMeansNil = !trueMeansNil
					}
					if known, ok := s.fc[v]; ok {
						// edge 0 taken iff cond true
						condTrue := known == trueMeansNil
						feasible[0], feasible[1] = condTrue, !condTrue
					} else {
						learn[0] = map[ssa.Value]bool{v: trueMeansNil}
						learn[1] = map[ssa.Value]bool{v: !trueMeansNil}
					}
				}
			}
		}
		for si, nb := range s.b.Succs {
			if si < 2 && !feasible[si] {
				continue
			}
			if cutBack && nb.Dominates(s.b) {
				continue
			}
			nf := facts{}
			for v, n := range s.fc {
				nf[v] = n
			}
			if si < 2 && learn[si] != nil {
				for v, n := range learn[si] {
					nf[v] = n
				}
			}
			// phis of nb take the operand of the edge from s.b
			pi := -1
			for i, p := range nb.Preds {
				if p == s.b {
					pi = i
				}
			}
			for _, ins := range nb.Instrs {
				phi, ok := ins.(*ssa.Phi)
				if !ok {
					break
				}
				delete(nf, phi)
				if pi >= 0 {
					e := phi.Edges[pi]
					if isNilConst(e) {
						nf[phi] = true
					} else if n, ok := nf[e]; ok {
						nf[phi] = n
					}
				}
			}
			q = append(q, st{b: nb, idx: 0, fc: nf, trail: &trailNode{nb, s.trail}})
		}
	}
	return false, nil, nil
}

// pathSearchSkipKnownErrorReturns: opt-in refinement of pathSearch (set around a call): "return err" where err
// is known non-nil on the path taken ends the path without being a target.
var pathSearchSkipKnownErrorReturns bool

type trailNode struct {
	b    *ssa.BasicBlock
	prev *trailNode
}

func isSuccessReturn(i ssa.Instruction) bool {
	r, ok := i.(*ssa.Return)
	return ok && returnKind(r) != RetError
}

func isAnyReturn(i ssa.Instruction) bool {
	_, ok := i.(*ssa.Return)
	return ok
}

func blocksString(w *World, bs []*ssa.BasicBlock) string {
	var parts []string
	for _, b := range bs {
		pos := "?"
		for _, i := range b.Instrs {
			if i.Pos().IsValid() {
				pos = w.Pos(i.Pos())
				break
			}
		}
		parts = append(parts, pos)
	}
	if len(parts) > 12 {
		parts = append(parts[:6], append([]string{"…"}, parts[len(parts)-5:]...)...)
	}
	return strings.Join(parts, " → ")
}

// ---- small value utilities ----

func constString(v ssa.Value) (string, bool) {
	c, ok := v.(*ssa.Const)
	if !ok || c.Value == nil || c.Value.Kind() != constant.String {
		return "", false
	}
	return constant.StringVal(c.Value), true
}

func constInt(v ssa.Value) (int64, bool) {
	c, ok := v.(*ssa.Const)
	if !ok || c.Value == nil || c.Value.Kind() != constant.Int {
		return 0, false
	}
	i, ok := constant.Int64Val(c.Value)
	return i, ok
}

// stripConv removes conversions / ChangeType / MakeInterface wrappers.
func stripConv(v ssa.Value) ssa.Value {
	for {
		switch x := v.(type) {
		case *ssa.Convert:
			v = x.X
		case *ssa.ChangeType:
			v = x.X
		case *ssa.MakeInterface:
			v = x.X
		case *ssa.ChangeInterface:
			v = x.X
		default:
			return v
		}
	}
}

// fieldName returns the name of the struct field addressed / read by v, or "".
func fieldName(v ssa.Value) string {
	switch x := v.(type) {
	case *ssa.FieldAddr:
		st := derefStruct(x.X.Type())
		if st != nil {
			return st.Field(x.Field).Name()
		}
	case *ssa.Field:
		st := derefStruct(x.X.Type())
		if st != nil {
			return st.Field(x.Field).Name()
		}
	}
	return ""
}

func derefStruct(t types.Type) *types.Struct {
	if p, ok := t.Underlying().(*types.Pointer); ok {
		t = p.Elem()
	}
	st, _ := t.Underlying().(*types.Struct)
	return st
}

// loadOfField: v is a load (UnOp *) of a FieldAddr, or a Field; returns (base value, field name).
func loadOfField(v ssa.Value) (ssa.Value, string, bool) {
	switch x := v.(type) {
	case *ssa.UnOp:
		if x.Op == token.MUL {
			if fa, ok := x.X.(*ssa.FieldAddr); ok {
				return fa.X, fieldName(fa), true
			}
		}
	case *ssa.Field:
		return x.X, fieldName(x), true
	}
	return nil, "", false
}

// failureBlocksThroughPhi: like failureBlocks, but an error value that is merged with others in a phi
// (err assigned in both arms of an if/else, tested once afterwards) counts as tested by the test of the phi.
func failureBlocksThroughPhi(call ssa.Value) []*ssa.BasicBlock {
	out := failureBlocks(call)
	for _, ev := range errValues(call) {
		for _, r := range *ev.Referrers() {
			phi, ok := r.(*ssa.Phi)
			if !ok {
				continue
			}
			nn, _ := nilTests(phi)
			for _, b := range nn {
				sb := b.Block()
				if len(sb.Preds) == 1 {
					out = append(out, sb)
				}
			}
		}
	}
	return out
}

// callReaches: the call matches pred by its canonical name, or it is a static call of a function
// of the same package (a helper the calling code was split into) whose body contains, on the way
// (depth ≤ 2), a call matching pred.
func callReaches(ci ssa.CallInstruction, pred func(name string) bool, depth int) bool {
	n, callee := callName(ci.Common())
	if pred(n) {
		return true
	}
	if callee != nil && callee.Origin() != nil {
		callee = callee.Origin() // an instantiation is a thin wrapper of its generic origin
	}
	if depth >= 2 || callee == nil || len(callee.Blocks) == 0 {
		return false
	}
	caller := ci.Parent()
	for caller != nil && caller.Parent() != nil {
		caller = caller.Parent()
	}
	if caller == nil || callee.Pkg == nil {
		return false
	}
	cp := caller.Pkg
	if cp == nil && caller.Origin() != nil {
		cp = caller.Origin().Pkg
	}
	kp := callee.Pkg
	if cp != kp {
		return false
	}
	for _, cl := range Calls(bodyOf(callee)) {
		if callReaches(cl.Instr, pred, depth+1) {
			return true
		}
	}
	return false
}

// fnAndHelpers: fn and the same-package functions with a body it calls statically, to the given depth
// (a block extracted into a helper stays in the scope of a rule written for fn).
func fnAndHelpers(fn *ssa.Function, depth int) []*ssa.Function {
	out := []*ssa.Function{fn}
	seen := map[*ssa.Function]bool{fn: true}
	var walk func(f *ssa.Function, d int)
	walk = func(f *ssa.Function, d int) {
		if d <= 0 {
			return
		}
		for _, b := range f.Blocks {
			for _, ins := range b.Instrs {
				ci, ok := ins.(ssa.CallInstruction)
				if !ok {
					continue
				}
				callee := ci.Common().StaticCallee()
				if callee == nil {
					continue
				}
				if b := bodyOf(callee); b != nil {
					callee = b
				}
				if seen[callee] || len(callee.Blocks) == 0 || fnPkgPath(callee) == "" || fnPkgPath(callee) != fnPkgPath(fn) {
					continue
				}
				seen[callee] = true
				out = append(out, callee)
				walk(callee, d-1)
			}
		}
	}
	walk(fn, depth)
	return out
}

// edgeDominates: every path from the function's entry to target takes the edge (from, successor succ).
// Unlike from.Succs[succ].Dominates(target) this stays exact when the successor block has other
// predecessors (a join after a conditional guard, the exit block of a loop the guard sits in).
func edgeDominates(from *ssa.BasicBlock, succ int, target *ssa.BasicBlock) bool {
	fn := from.Parent()
	if fn == nil || len(fn.Blocks) == 0 || succ < 0 || succ >= len(from.Succs) {
		return false
	}
	return !reachWithoutEdge(fn.Blocks[0], target, func(b *ssa.BasicBlock, s int) bool { return b == from && s == succ })
}
