package main

// Rules shared by C02 (pull never loses), C09 (identities fast-forward only),
// C07 (validate-then-mutate) and C11 (merge results folded): report/effect
// agreement of the merge functions.

import (
	"fmt"
	"go/constant"
	"go/token"
	"go/types"
	"strings"

	"golang.org/x/tools/go/ssa"
)

func isInstance(f *ssa.Function) bool { return len(f.TypeArgs()) > 0 }

// refSite: a call in fn that has (or may have, through its callee) a REF effect.
type refSite struct {
	Call     *Call
	Direct   bool              // primitive REF at this site
	Effect   string            // e.g. REF:UpdateRef
	BoolTrue []*ssa.BasicBlock // for indirect sites returning (bool, error): blocks entered when the bool is true
}

func refSites(w *World, eff *effSummaries, fn *ssa.Function) []*refSite {
	var out []*refSite
	for _, c := range Calls(fn) {
		if e := primEffect(c.Name); e != "" {
			if effClass(e) == "REF" {
				out = append(out, &refSite{Call: c, Direct: true, Effect: e})
			}
			continue
		}
		if c.Fn == nil || !w.inModule(c.Fn) {
			continue
		}
		se := eff.SiteEffects(c)
		refs := effectsOfClass(se, "REF")
		if len(refs) == 0 {
			continue
		}
		rs := &refSite{Call: c, Effect: strings.Join(refs, ",")}
		if v := c.Value(); v != nil {
			for _, bv := range resultValues(v, 0) {
				if b, ok := bv.Type().Underlying().(interface{ Kind() int }); ok {
					_ = b
				}
				if bv.Type().String() == "bool" {
					for _, u := range condUsers(bv) {
						edge := 0
						if u.Neg {
							edge = 1
						}
						rs.BoolTrue = append(rs.BoolTrue, u.If.Block().Succs[edge])
					}
				}
			}
		}
		out = append(out, rs)
	}
	return out
}

// afterSuccess returns the blocks from which "the REF effect has happened" paths start.
func (r *refSite) afterSuccess() ([]*ssa.BasicBlock, ssa.Instruction) {
	if len(r.BoolTrue) > 0 {
		return r.BoolTrue, nil
	}
	if v := r.Call.Value(); v != nil {
		var sb []*ssa.BasicBlock
		for _, ev := range errValues(v) {
			_, isNil := nilTests(ev)
			for _, b := range isNil {
				sb = append(sb, b.Block())
			}
		}
		if len(sb) > 0 {
			return sb, nil
		}
	}
	return nil, r.Call.Instr
}

func reachesFrom(fn *ssa.Function, r *refSite, target ssa.Instruction, cutBack bool) (bool, []*ssa.BasicBlock) {
	blocks, instr := r.afterSuccess()
	isT := func(i ssa.Instruction) bool { return i == target }
	if instr != nil {
		ok, p, _ := pathSearch(fn, instr, nil, isT, nil, cutBack)
		return ok, p
	}
	for _, b := range blocks {
		if ok, p, _ := pathSearch(fn, nil, b, isT, nil, cutBack); ok {
			return true, p
		}
	}
	return false, nil
}

func dominatedByRefSuccess(r *refSite, at ssa.Instruction) bool {
	blocks, _ := r.afterSuccess()
	for _, b := range blocks {
		if len(b.Preds) == 1 && b.Dominates(at.Block()) {
			return true
		}
	}
	return false
}

// isRemoteRefValue: the ref name is handed in from outside (parameter) or an element of a
// ListRefs result, i.e. not composed locally with Sprintf / concatenation.
func refSide(v ssa.Value) string {
	side := ""
	for _, o := range origins(v) {
		s := "?"
		switch {
		case o.Kind == "param", o.Kind == "freevar":
			s = "remote"
		case o.Kind == "call" && strings.HasSuffix(o.Name, ".ListRefs"):
			s = "remote"
		case o.Kind == "call" && o.Name == "fmt.Sprintf", o.Kind == "binop":
			s = "local"
		case o.Kind == "const":
			continue
		}
		if side == "" {
			side = s
		} else if side != s {
			return "?"
		}
	}
	if side == "" {
		return "?"
	}
	return side
}

var readFuncs = map[string]bool{"entity/dag.read": true, "entities/identity.read": true}

// mergeFns: every non-instantiated module function calling an entity.NewMerge*Status constructor.
func mergeFns(w *World) []*ssa.Function {
	var out []*ssa.Function
	for _, f := range w.ModFns {
		if isInstance(f) || fnPkgPath(f) == modPath+"/entity" {
			continue
		}
		for _, c := range Calls(f) {
			if strings.HasPrefix(c.Name, "entity.NewMerge") && strings.HasSuffix(c.Name, "Status") {
				out = append(out, f)
				break
			}
		}
	}
	return out
}

func ruleDocsMerge(c *Ctx) {
	checkNothingOnlyOnAncestry(c)
	c.Doc("R2.1", "report/effect agreement: an Invalid or Nothing report is unreachable (within one loop iteration) from the success of any ref-moving call; New is dominated by a successful CopyRef; Updated by a successful UpdateRef (or the true result of a callee that moves the ref); (*Identity).Merge returns true exactly on the paths where it moved the ref")
	c.Doc("R2.2", "every ref-moving call of a merge function is dominated by the success edge of the remote read and of Validate() on what was read")
	c.Doc("R2.3", "the entity handed to NewMergeNewStatus/NewMergeUpdatedStatus is the merged one: read from the remote ref when the local ref was set to it, or read from the local ref after the last ref update, or the receiver of the merging callee")
	c.Doc("R2.4", "ancestry tests compare a commit of one side with the commit list of the other side; 'local ahead' leads to Nothing, 'remote ahead' to the fast-forward UpdateRef")
	c.Doc("R2.5", "after emitting an Invalid report for one entity a MergeAll loop continues with the next entity")
}

func checkMergeFns(c *Ctx, eff *effSummaries) {
	w := c.W
	fns := mergeFns(w)
	names := map[string]bool{}
	for _, f := range fns {
		names[funcName(f)] = true
	}
	for _, want := range []string{"entity/dag.merge", "entities/identity.MergeAll$1"} {
		if !names[want] {
			c.Violate("R2.1", "expected:"+want, "?", "reference merge function no longer constructs merge reports (anchor missing)")
		}
	}
	for _, fn := range fns {
		fname := funcName(fn)
		c.seeFn(fname)
		inLoop := fn.Parent() != nil // goroutine bodies iterate over the remote refs
		sites := refSites(w, eff, fn)
		calls := Calls(fn)
		c.Sites += len(calls)

		// remote read + validate
		var remoteReads []*Call
		var validates []*Call
		for _, cl := range calls {
			if readFuncs[cl.Name] && cl.Value() != nil {
				args := cl.Args()
				if len(args) > 0 && refSide(args[len(args)-1]) == "remote" {
					remoteReads = append(remoteReads, cl)
				}
			}
		}
		for _, cl := range calls {
			if !strings.HasSuffix(cl.Name, ".Validate") || cl.Value() == nil {
				continue
			}
			recv := cl.Recv()
			for _, rr := range remoteReads {
				for _, rv := range resultValues(rr.Value(), 0) {
					if recv != nil && stripConv(recv) == rv {
						validates = append(validates, cl)
					}
				}
			}
		}

		// R2.2
		for i, s := range sites {
			key := fmt.Sprintf("%s:%s#%d", fname, s.Call.Name, i)
			okRead, okVal := false, false
			for _, rr := range remoteReads {
				if dominatedBySuccess(rr.Value(), s.Call.Instr) {
					okRead = true
				}
			}
			for _, v := range validates {
				if dominatedBySuccess(v.Value(), s.Call.Instr) {
					okVal = true
				}
			}
			detail := ""
			if !okRead {
				detail = "not dominated by a successful read of the remote ref"
			} else if !okVal {
				detail = "not dominated by the success of Validate() on the remote entity"
			}
			c.Check(okRead && okVal, "R2.2", key, w.InstrPos(s.Call.Instr), "ref is moved only after the remote data was read and validated", "ref-moving call "+detail)
		}

		// R2.1, R2.3 per report constructor
		count := map[string]int{}
		for _, cl := range calls {
			if !strings.HasPrefix(cl.Name, "entity.NewMerge") {
				continue
			}
			kind := strings.TrimSuffix(strings.TrimPrefix(cl.Name, "entity.NewMerge"), "Status")
			count[kind]++
			key := fmt.Sprintf("%s:%s#%d", fname, kind, count[kind])
			pos := w.InstrPos(cl.Instr)
			switch kind {
			case "Invalid", "Nothing":
				bad := ""
				for _, s := range sites {
					if ok, p := reachesFrom(fn, s, cl.Instr, inLoop); ok {
						bad = fmt.Sprintf("reachable after the success of %s at %s: %s", s.Call.Name, w.InstrPos(s.Call.Instr), blocksString(w, p))
						break
					}
				}
				c.Check(bad == "", "R2.1", key, pos, "no ref can have moved on any path to this report", "'"+kind+"' is reported although a ref may have moved — "+bad)
			case "New", "Updated":
				want := "REF:CopyRef"
				if kind == "Updated" {
					want = "REF:UpdateRef"
				}
				var dom *refSite
				for _, s := range sites {
					if !strings.Contains(s.Effect, want) {
						continue
					}
					if dominatedByRefSuccess(s, cl.Instr) {
						dom = s
					}
				}
				c.Check(dom != nil, "R2.1", key, pos, "dominated by the success of "+want, "'"+kind+"' is reported on a path where no successful "+want+" is guaranteed")
				// R2.3
				if dom == nil {
					continue
				}
				args := cl.Args()
				if len(args) < 2 {
					c.Undecided("R2.3", key, pos, "constructor shape not recognised")
					continue
				}
				ent := stripConv(args[1])
				ok, why := mergedEntityOK(w, fn, sites, dom, ent, cl)
				c.Check(ok, "R2.3", key, pos, why, why)
			}
		}

		// R2.5
		for _, b := range fn.Blocks {
			for _, ins := range b.Instrs {
				snd, ok := ins.(*ssa.Send)
				if !ok {
					continue
				}
				cv, ok := snd.X.(*ssa.Call)
				if !ok {
					continue
				}
				if n, _ := callName(cv.Common()); n != "entity.NewMergeInvalidStatus" {
					continue
				}
				c.Sites++
				again, _, _ := pathSearch(fn, snd, nil, func(i ssa.Instruction) bool { return i == ssa.Instruction(snd) }, isAnyReturn, false)
				// equivalently: the loop header is reachable without returning
				loops := again
				if !again {
					// the send may be the only one in its block and the loop body may not come back to it for the same ref: test reaching any loop header
					loops, _, _ = pathSearch(fn, snd, nil, func(i ssa.Instruction) bool {
						_, isIf := i.(*ssa.If)
						return isIf && i.Block().Comment == "rangeindex.loop" || i.Block().Comment == "rangeiter.loop" || i.Block().Comment == "for.loop"
					}, isAnyReturn, false)
				}
				c.Check(loops, "R2.5", fmt.Sprintf("%s:after-Invalid@%s", fname, strings.TrimSpace(lastArgString(cv))), w.InstrPos(snd),
					"the loop continues with the next entity", "after reporting one entity as invalid the function returns: the remaining remote entities are never merged")
			}
		}

		// R2.4 (functions with ListCommits-based ancestry tests)
		checkAncestry(c, fn)
	}
}

func lastArgString(cv *ssa.Call) string {
	// a stable discriminator for Invalid sites: the constant message wrapped, if any
	var find func(v ssa.Value, depth int) string
	find = func(v ssa.Value, depth int) string {
		if depth > 4 {
			return ""
		}
		if s, ok := constString(v); ok {
			return s
		}
		if call, ok := v.(*ssa.Call); ok {
			for _, a := range call.Common().Args {
				if s := find(a, depth+1); s != "" {
					return s
				}
			}
			if call.Common().IsInvoke() {
				return find(call.Common().Value, depth+1)
			}
		}
		return ""
	}
	args := cv.Common().Args
	if len(args) == 0 {
		return ""
	}
	return find(args[len(args)-1], 0)
}

func mergedEntityOK(w *World, fn *ssa.Function, sites []*refSite, dom *refSite, ent ssa.Value, report *Call) (bool, string) {
	// receiver of the merging callee (identity: localIdentity.Merge mutates the receiver in place)
	if !dom.Direct {
		if recv := dom.Call.Recv(); recv != nil && stripConv(recv) == ent {
			return true, "entity is the receiver updated in place by " + dom.Call.Name
		}
	}
	for _, o := range origins(ent) {
		if o.Kind != "call" || !readFuncs[o.Name] {
			return false, "the entity handed back does not originate from a read of the entity (" + o.String() + ")"
		}
		rd := o.Val.(*ssa.Call)
		rargs := rd.Common().Args
		side := refSide(rargs[len(rargs)-1])
		switch side {
		case "remote":
			// the local ref must have been set to the remote head
			if !dom.Direct {
				return false, "remote entity returned after an indirect ref update"
			}
			if dom.Effect == "REF:CopyRef" {
				a := dom.Call.Args()
				if len(a) == 2 && refSide(a[0]) == "remote" {
					continue
				}
				return false, "CopyRef source is not the remote ref"
			}
			if dom.Effect == "REF:UpdateRef" {
				a := dom.Call.Args()
				if len(a) == 2 {
					if rc := hasOriginCall(a[1], "repository.RepoData.ResolveRef", 0); rc != nil && refSide(rc.Common().Args[0]) == "remote" {
						continue
					}
				}
				return false, "the remote entity is handed back but the local ref was not set to the remote head (a merge commit or another hash was written)"
			}
			return false, "unexpected ref effect " + dom.Effect
		case "local":
			// read of the local ref: must come after the last ref update
			if !dominatedByRefSuccess(dom, rd) {
				return false, "the entity handed back was read from the local ref at " + w.InstrPos(rd) + ", before the ref update at " + w.InstrPos(dom.Call.Instr) + ": it is the pre-merge state"
			}
		default:
			return false, "cannot tell which ref the returned entity was read from"
		}
	}
	return true, "the entity handed back is the merged state"
}

// checkAncestry: R2.4
func checkAncestry(c *Ctx, fn *ssa.Function) {
	w := c.W
	fname := funcName(fn)
	type cmp struct {
		bo               ssa.Value // the boolean: an == of a list element with a head, or the result of a membership predicate
		listSide, single string
	}
	var cmps []cmp
	sideOfCall := func(call *ssa.Call) string {
		a := call.Common().Args
		if len(a) == 0 {
			return "?"
		}
		return refSide(a[0])
	}
	hasList := false
	for _, cl := range Calls(fn) {
		if strings.HasSuffix(cl.Name, ".ListCommits") {
			hasList = true
		}
	}
	if !hasList {
		return
	}
	for _, b := range fn.Blocks {
		for _, ins := range b.Instrs {
			bo, ok := ins.(*ssa.BinOp)
			if !ok || bo.Op != token.EQL {
				continue
			}
			classify := func(v ssa.Value) (string, string) { // kind, side
				if lc := hasOriginCall(v, "repository.RepoData.ListCommits", 0); lc != nil {
					return "list", sideOfCall(lc)
				}
				if rc := hasOriginCall(v, "repository.RepoData.ResolveRef", 0); rc != nil {
					return "head", sideOfCall(rc)
				}
				return "", ""
			}
			kx, sx := classify(bo.X)
			ky, sy := classify(bo.Y)
			if kx == "" || ky == "" {
				continue
			}
			c.Sites++
			if kx == "head" && ky == "head" {
				c.Check(sx != sy && sx != "?" && sy != "?", "R2.4", fname+":heads-equal", w.InstrPos(bo), "compares the local head with the remote head", "the 'same state' test compares two heads of the same side")
				continue
			}
			if kx == "list" && ky == "head" {
				cmps = append(cmps, cmp{bo, sx, sy})
			} else if kx == "head" && ky == "list" {
				cmps = append(cmps, cmp{bo, sy, sx})
			}
		}
	}
	// the same test delegated to a membership predicate: a closure of fn, a same-package helper, or slices.Contains
	classifyV := func(v ssa.Value) (string, string) {
		if lc := hasOriginCall(v, "repository.RepoData.ListCommits", 0); lc != nil {
			return "list", sideOfCall(lc)
		}
		if rc := hasOriginCall(v, "repository.RepoData.ResolveRef", 0); rc != nil {
			return "head", sideOfCall(rc)
		}
		return "", ""
	}
	for _, cl := range Calls(fn) {
		cv, isCall := cl.Instr.(*ssa.Call)
		if !isCall {
			continue
		}
		var listV, targetV ssa.Value
		switch {
		case cl.Name == "slices.Contains" && len(cv.Common().Args) == 2:
			listV, targetV = cv.Common().Args[0], cv.Common().Args[1]
		default:
			var callee *ssa.Function
			var mc *ssa.MakeClosure
			if m, isMC := cv.Common().Value.(*ssa.MakeClosure); isMC {
				mc = m
				callee, _ = m.Fn.(*ssa.Function)
			} else if f := cv.Common().StaticCallee(); f != nil && f.Pkg == fn.Pkg {
				callee = f
			}
			if callee == nil {
				continue
			}
			mp := membershipPred(callee)
			if mp == nil {
				continue
			}
			resolve := func(v ssa.Value) ssa.Value {
				switch x := v.(type) {
				case *ssa.Parameter:
					for i, pp := range callee.Params {
						if pp == x && i < len(cv.Common().Args) {
							return cv.Common().Args[i]
						}
					}
				case *ssa.FreeVar:
					if mc != nil {
						for i, fv := range callee.FreeVars {
							if fv == x && i < len(mc.Bindings) {
								b := mc.Bindings[i]
								// a captured variable is a cell: its content at the call
								if al, isAl := b.(*ssa.Alloc); isAl {
									for _, r := range *al.Referrers() {
										if st, isSt := r.(*ssa.Store); isSt && st.Addr == ssa.Value(al) {
											return st.Val
										}
									}
								}
								return b
							}
						}
					}
				}
				return nil
			}
			listV, targetV = resolve(mp.list), resolve(mp.target)
		}
		if listV == nil || targetV == nil {
			continue
		}
		kl, sl := classifyV(listV)
		kt, st := classifyV(targetV)
		if kl == "list" && kt == "head" {
			c.Sites++
			cmps = append(cmps, cmp{cv, sl, st})
		}
	}
	seenLocalList, seenRemoteList := false, false
	for _, cm := range cmps {
		key := fname + ":" + cm.single + "-head-in-" + cm.listSide + "-commits"
		pos := w.InstrPos(cm.bo.(ssa.Instruction))
		if cm.listSide == cm.single || cm.listSide == "?" || cm.single == "?" {
			c.Violate("R2.4", key, pos, "ancestry test compares a head with the commit list of the same side (always true): operands swapped")
			continue
		}
		// what does the true edge lead to?
		var trueBlocks []*ssa.BasicBlock
		for _, u := range condUsers(cm.bo) {
			e := 0
			if u.Neg {
				e = 1
			}
			trueBlocks = append(trueBlocks, u.If.Block().Succs[e])
		}
		reach := func(pred func(ssa.Instruction) bool) bool {
			for _, tb := range trueBlocks {
				if ok, _, _ := pathSearch(fn, nil, tb, pred, nil, true); ok {
					return true
				}
			}
			return false
		}
		isCallNamed := func(n string) func(ssa.Instruction) bool {
			return func(i ssa.Instruction) bool {
				ci, ok := i.(ssa.CallInstruction)
				if !ok {
					return false
				}
				nn, _ := callName(ci.Common())
				return nn == n
			}
		}
		if cm.listSide == "local" {
			seenLocalList = true
			// remote head is an ancestor of local: nothing to do; must not move a ref
			movesRef := false
			for _, tb := range trueBlocks {
				if len(tb.Instrs) > 0 {
					if ok, _, _ := pathSearch(fn, nil, tb, func(i ssa.Instruction) bool {
						ci, ok := i.(ssa.CallInstruction)
						if !ok {
							return false
						}
						nn, _ := callName(ci.Common())
						return effClass(primEffect(nn)) == "REF"
					}, isAnyReturn, true); ok {
						// only a violation if it gets there without any further test; the block returns Nothing directly today
						movesRef = !reachDirectReturn(tb)
					}
				}
			}
			c.Check(reach(isCallNamed("entity.NewMergeNothingStatus")) && !movesRef, "R2.4", key, pos, "remote head found among the local commits ⇒ Nothing", "'remote head is among the local commits' does not lead to a Nothing report")
		} else {
			seenRemoteList = true
			c.Check(reach(isCallNamed("repository.RepoData.UpdateRef")), "R2.4", key, pos, "local head found among the remote commits ⇒ fast-forward", "'local head is among the remote commits' does not lead to the fast-forward UpdateRef")
		}
	}
	checkRelatedHistories(c, fn, func(v ssa.Value) string {
		if lc := hasOriginCall(v, "repository.RepoData.ListCommits", 0); lc != nil {
			return sideOfCall(lc)
		}
		return ""
	})
	if !seenLocalList {
		c.Violate("R2.4", fname+":expected:remote-head-in-local-commits", w.FnPos(fn), "no test of the remote head against the local commit list found (scenario 3)")
	}
	if !seenRemoteList {
		c.Violate("R2.4", fname+":expected:local-head-in-remote-commits", w.FnPos(fn), "no test of the local head against the remote commit list found (scenario 4)")
	}
}

func reachDirectReturn(b *ssa.BasicBlock) bool {
	if len(b.Instrs) == 0 {
		return false
	}
	_, ok := b.Instrs[len(b.Instrs)-1].(*ssa.Return)
	return ok
}

// checkIdentityMerge: R2.1/R9.1 (bool report), R9.2 (divergence leaves the ref alone)
func checkIdentityMerge(c *Ctx, eff *effSummaries) {
	w := c.W
	c.Doc("R9.2", "in (*Identity).Merge no error return is reachable after a successful ref update, and the ref update is control-dependent on 'a version was appended'")
	fn := w.Method("entities/identity", "Identity", "Merge")
	if fn == nil {
		c.Undecided("R2.1", "anchor:identity.Identity.Merge", "entities/identity", "method not found")
		return
	}
	c.seeFn(funcName(fn))
	sites := refSites(w, eff, fn)
	pos := w.FnPos(fn)
	if len(sites) == 0 {
		c.Violate("R2.1", "identity.Identity.Merge:expected:UpdateRef", pos, "Merge no longer moves the identity ref")
		return
	}
	// every version of the other history is visited: the loop over them ends by exhaustion or by a refusal
	{
		exits, loops := earlyLoopExits(fn)
		bad := ""
		for _, e := range exits {
			bad = fmt.Sprintf("the loop at %s is left at %s before every remote version was visited", w.InstrPos(firstPosInstr(e.Header)), w.InstrPos(firstPosInstr(e.To)))
		}
		c.Check(loops >= 1 && bad == "", "R9.2", "identity.Identity.Merge:visits-every-remote-version", pos, fmt.Sprintf("%d loop(s), left only at exhaustion or to a failing return", loops),
			bad+": the identity advances by fewer versions than the remote holds while the merge reports an update — a key removal published in a later version does not reach this replica")
	}
	// conditions guarding the ref sites (true edge dominates the site)
	guardConds := map[ssa.Value]bool{}
	for _, s := range sites {
		for _, b := range fn.Blocks {
			if len(b.Instrs) == 0 {
				continue
			}
			iff, ok := b.Instrs[len(b.Instrs)-1].(*ssa.If)
			if !ok {
				continue
			}
			if len(b.Succs[0].Preds) == 1 && b.Succs[0].Dominates(s.Call.Instr.Block()) {
				guardConds[iff.Cond] = true
			}
		}
	}
	for i, r := range Returns(fn) {
		c.Sites++
		key := fmt.Sprintf("identity.Identity.Merge:return#%d", i)
		rpos := w.InstrPos(r)
		kind := returnKind(r)
		afterRef := false
		for _, s := range sites {
			if ok, _ := reachesFrom(fn, s, r, false); ok {
				afterRef = true
			}
		}
		if kind == RetError {
			c.Check(!afterRef, "R9.2", key, rpos, "error return not reachable after the ref moved", "an error (refusal) is returned on a path where the ref was already moved")
			continue
		}
		res0 := r.Results[0]
		if afterRef {
			ok := false
			if k, isC := res0.(*ssa.Const); isC {
				ok = k.Value != nil && k.Value.String() == "true"
			} else if guardConds[res0] {
				ok = true
			}
			c.Check(ok, "R2.1", key, rpos, "reports 'updated' on the paths where the ref moved", "success return after the ref update reports "+res0.String()+" instead of true: the caller sees 'nothing changed'")
		} else {
			if k, isC := res0.(*ssa.Const); isC && k.Value != nil && k.Value.String() == "true" {
				c.Violate("R2.1", key, rpos, "reports 'updated' on a path where the ref did not move")
			} else {
				c.Hold("R2.1", key, rpos, "no ref moved, not reported as updated")
			}
		}
	}
	// the ref update is control dependent on an append to versions
	okGuard := false
	for cond := range guardConds {
		// cond may become true only through edges leaving blocks that append to versions
		var srcs []*ssa.BasicBlock
		nonConst := false
		seen := map[ssa.Value]bool{}
		var walk func(v ssa.Value, from *ssa.BasicBlock)
		walk = func(v ssa.Value, from *ssa.BasicBlock) {
			switch x := v.(type) {
			case *ssa.Const:
				if x.Value != nil && x.Value.String() == "true" {
					srcs = append(srcs, from)
				}
			case *ssa.Phi:
				if seen[x] {
					return
				}
				seen[x] = true
				for i, e := range x.Edges {
					walk(e, x.Block().Preds[i])
				}
			default:
				nonConst = true
			}
		}
		walk(cond, nil)
		if nonConst || len(srcs) == 0 {
			continue
		}
		all := true
		for _, b := range srcs {
			if b == nil || !blockOrDomStoresField(b, "versions") {
				all = false
			}
		}
		if all {
			okGuard = true
		}
	}
	// the ref is moved to the commit of the version appended last: every append adds exactly one version X
	// and the hash that reaches UpdateRef is X.commitHash of the same X
	for _, s := range sites {
		if !s.Direct || !strings.HasSuffix(s.Call.Name, ".UpdateRef") {
			continue
		}
		bases := map[ssa.Value]bool{}
		okHash := true
		for _, o := range origins(s.Call.Args()[1]) {
			switch {
			case o.Kind == "const":
			case o.Kind == "field" && o.Name == "commitHash":
				bases[o.Val] = true
			default:
				okHash = false
			}
		}
		okApp := true
		nApp := 0
		for _, cl := range Calls(fn) {
			bi, isB := cl.Instr.Common().Value.(*ssa.Builtin)
			if !isB || bi.Name() != "append" {
				continue
			}
			if _, fld, isF := loadOfField(cl.Instr.Common().Args[0]); !isF || fld != "versions" {
				continue
			}
			nApp++
			ops := variadicOperands(cl.Instr.Common().Args[1])
			if len(ops) != 1 || !bases[ops[0]] {
				okApp = false
			}
		}
		c.Check(okHash && okApp && nApp > 0, "R9.2", "identity.Identity.Merge:ref-at-last-appended-version", w.InstrPos(s.Call.Instr), "each append adds one version and the ref target is that version's commit", "the versions appended in memory and the commit the ref is moved to do not correspond one to one: the stored identity would differ from the merged one")
	}
	c.Check(okGuard, "R9.2", "identity.Identity.Merge:ref-moves-only-after-append", pos, "the UpdateRef is guarded by a flag set only where versions were appended", "the ref update is not guarded by 'a version was appended'")
}

// blockOrDomStoresField: block b, or a block that dominates b within the same loop body chain,
// stores into a field with the given name.
func blockOrDomStoresField(b *ssa.BasicBlock, field string) bool {
	for x := b; x != nil; x = x.Idom() {
		for _, ins := range x.Instrs {
			if st, ok := ins.(*ssa.Store); ok {
				if fa, ok := st.Addr.(*ssa.FieldAddr); ok && fieldName(fa) == field {
					return true
				}
			}
		}
		if x.Comment == "rangeindex.body" || x.Comment == "for.body" {
			break
		}
	}
	return false
}

// R9.6: in identity.MergeAll the verdict about an identity that exists on both sides is
// (*Identity).Merge's and nobody else's.
func checkIdentityMergeAllVerdict(c *Ctx) {
	w := c.W
	c.Doc("R9.6", "identity.MergeAll reports Nothing / Updated for an identity that exists locally only after (*Identity).Merge succeeded, Updated on its true result and Nothing on its false result: no shortcut decides without the version-by-version comparison (a diverged identity must be refused)")
	var body *ssa.Function
	for _, fn := range w.ModFns {
		if fnPkgPath(fn) == modPath+"/entities/identity" && fn.Parent() != nil && fn.Parent().Name() == "MergeAll" {
			if len(CallsNamed(fn, "entities/identity.Identity.Merge")) > 0 || len(CallsNamed(fn, "entity.NewMergeNothingStatus")) > 0 {
				body = fn
			}
		}
	}
	if body == nil {
		c.Undecided("R9.6", "anchor:identity.MergeAll", "entities/identity", "goroutine body not found")
		return
	}
	c.seeFn(funcName(body))
	var mergeCall *ssa.Call
	for _, cl := range CallsNamed(body, "entities/identity.Identity.Merge") {
		mergeCall, _ = cl.Instr.(*ssa.Call)
	}
	if mergeCall == nil {
		c.Violate("R9.6", "identity.MergeAll:verdict-by-Merge", w.FnPos(body), "identity.MergeAll does not call (*Identity).Merge: nothing compares the two histories")
		return
	}
	var updated ssa.Value
	for _, v := range resultValues(mergeCall, 0) {
		updated = v
	}
	n := 0
	for _, cl := range Calls(body) {
		want := -1
		switch cl.Name {
		case "entity.NewMergeNothingStatus":
			want = 1 // false edge of 'updated'
		case "entity.NewMergeUpdatedStatus":
			want = 0
		default:
			continue
		}
		n++
		c.Sites++
		kind := strings.TrimSuffix(strings.TrimPrefix(cl.Name, "entity.NewMerge"), "Status")
		okDom := dominatedBySuccess(mergeCall, cl.Instr)
		okEdge := false
		for _, cc := range controlConds(cl.Block(), nil) {
			cond, edge := cc.If.Cond, cc.Edge
			for {
				if u, isU := cond.(*ssa.UnOp); isU && u.Op == token.NOT {
					cond, edge = u.X, 1-edge
					continue
				}
				break
			}
			if cond == updated && edge == want {
				okEdge = true
			}
		}
		c.Check(okDom && okEdge, "R9.6", fmt.Sprintf("identity.MergeAll:%s#%d:verdict-by-Merge", kind, n), w.InstrPos(cl.Instr),
			kind+" is reported on Merge's verdict",
			kind+" is reported for a local identity without (*Identity).Merge having compared the histories (or against its result): a diverged or extended remote identity is passed over silently")
	}
	if n < 2 {
		c.Violate("R9.6", "expected:identity-merge-reports", w.FnPos(body), fmt.Sprintf("%d Nothing/Updated reports found in identity.MergeAll (reference 2)", n))
	}
}

// checkRelatedHistories (R2.7): a merge commit (operationPack.Write with two parents) is written
// only when a commit common to the local and the remote history was found; otherwise the merge
// commit would join two roots and the ref would be moved to a history read refuses.
func checkRelatedHistories(c *Ctx, fn *ssa.Function, listSide func(ssa.Value) string) {
	w := c.W
	c.Doc("R2.7", "dag.merge writes a merge commit only under the true outcome of a test that a commit of the remote commit list is also in the local commit list (comma-ok look-up in a set filled from the other list, or equality of elements of the two lists): unrelated histories that merely share the first operation (same id) are refused instead of being joined into a two-root history that cannot be read back")
	fname := funcName(fn)
	var mw *ssa.Call
	for _, cl := range CallsNamed(fn, "entity/dag.operationPack.Write") {
		cv, _ := cl.Instr.(*ssa.Call)
		if cv == nil {
			continue
		}
		args := cv.Common().Args
		if len(args) > 0 && len(variadicOperands(args[len(args)-1])) >= 2 {
			mw = cv
		}
	}
	if mw == nil {
		return
	}
	c.Sites++
	// the value of a captured variable of closure mc, as seen in the enclosing function
	outer := func(mc *ssa.MakeClosure, v ssa.Value) ssa.Value {
		for i := 0; i < 3; i++ {
			ld, isLd := v.(*ssa.UnOp)
			if !isLd || mc == nil {
				return v
			}
			fv, isFV := ld.X.(*ssa.FreeVar)
			if !isFV {
				return v
			}
			cf, _ := mc.Fn.(*ssa.Function)
			for k, f2 := range cf.FreeVars {
				if f2 == fv && k < len(mc.Bindings) {
					if al, isAl := mc.Bindings[k].(*ssa.Alloc); isAl {
						for _, r := range *al.Referrers() {
							if st, isSt := r.(*ssa.Store); isSt && st.Addr == ssa.Value(al) {
								return st.Val
							}
						}
						// the cell itself is the variable (e.g. a map made in place)
						return al
					}
					return mc.Bindings[k]
				}
			}
			return v
		}
		return v
	}
	var curMC *ssa.MakeClosure // non-nil while looking inside a closure of fn
	scanFn := fn
	// evidence edges
	isEvidence := func(iff *ssa.If, edge int) bool {
		cond := iff.Cond
		for {
			if u, isU := cond.(*ssa.UnOp); isU && u.Op == token.NOT {
				cond, edge = u.X, 1-edge
				continue
			}
			break
		}
		if edge != 0 {
			return false
		}
		switch x := cond.(type) {
		case *ssa.Extract:
			lk, isLk := x.Tuple.(*ssa.Lookup)
			if !isLk || !lk.CommaOk || x.Index != 1 {
				return false
			}
			s1 := listSide(outer(curMC, elemSource(lk.Index, curMC, outer)))
			if s1 == "" || s1 == "?" {
				return false
			}
			// keys put into the map come from the other list
			lkMap := outer(curMC, lk.X)
			for _, b := range fn.Blocks {
				for _, ins := range b.Instrs {
					if mu, isMU := ins.(*ssa.MapUpdate); isMU && (sameMap(mu.Map, lkMap) || sameCell(mu.Map, lkMap)) {
						if s2 := listSide(mu.Key); s2 != "" && s2 != "?" && s2 != s1 {
							return true
						}
					}
				}
			}
		case *ssa.BinOp:
			if x.Op != token.EQL {
				return false
			}
			s1, s2 := listSide(outer(curMC, elemSource(x.X, curMC, outer))), listSide(outer(curMC, elemSource(x.Y, curMC, outer)))
			return s1 != "" && s2 != "" && s1 != "?" && s2 != "?" && s1 != s2
		}
		return false
	}
	var establishes func(v ssa.Value, seen map[ssa.Value]bool) bool // v is true only where evidence was found
	establishes = func(v ssa.Value, seen map[ssa.Value]bool) bool {
		if seen[v] {
			return true
		}
		seen[v] = true
		switch x := v.(type) {
		case *ssa.Const:
			return x.Value != nil && x.Value.String() == "false"
		case *ssa.Call:
			// the flag is computed by a closure of fn (or a same-package helper without captured state):
			// it returns true only on evidence edges
			mc, isMC := x.Common().Value.(*ssa.MakeClosure)
			if !isMC {
				return false
			}
			cf, _ := mc.Fn.(*ssa.Function)
			if cf == nil || len(cf.Blocks) == 0 {
				return false
			}
			prevMC, prevFn := curMC, scanFn
			curMC, scanFn = mc, cf
			defer func() { curMC, scanFn = prevMC, prevFn }()
			sawTrue := false
			for _, r := range Returns(cf) {
				k, isK := r.Results[0].(*ssa.Const)
				if !isK || k.Value == nil {
					return false
				}
				if k.Value.String() != "true" {
					continue
				}
				sawTrue = true
				ok := false
				for _, cc := range controlConds(r.Block(), nil) {
					if isEvidence(cc.If, cc.Edge) {
						ok = true
					}
				}
				if !ok {
					return false
				}
			}
			return sawTrue
		case *ssa.Phi:
			for i, e := range x.Edges {
				if k, isK := e.(*ssa.Const); isK && k.Value != nil && k.Value.String() == "true" {
					pred := x.Block().Preds[i]
					ok := false
					for _, cc := range controlConds(pred, nil) {
						if isEvidence(cc.If, cc.Edge) {
							ok = true
						}
					}
					// the edge itself may be the evidence edge (pred ends in the If)
					if iff, isIf := pred.Instrs[len(pred.Instrs)-1].(*ssa.If); isIf {
						for si, sb := range pred.Succs {
							if sb == x.Block() && isEvidence(iff, si) {
								ok = true
							}
						}
					}
					if !ok {
						return false
					}
					continue
				}
				if !establishes(e, seen) {
					return false
				}
			}
			return true
		}
		return false
	}
	guarded := false
	for _, cc := range controlConds(mw.Block(), nil) {
		if isEvidence(cc.If, cc.Edge) {
			guarded = true
			continue
		}
		cond, edge := cc.If.Cond, cc.Edge
		for {
			if u, isU := cond.(*ssa.UnOp); isU && u.Op == token.NOT {
				cond, edge = u.X, 1-edge
				continue
			}
			break
		}
		switch cond.(type) {
		case *ssa.Phi, *ssa.Call:
			if edge == 0 && establishes(cond, map[ssa.Value]bool{}) {
				guarded = true
			}
		}
	}
	c.Check(guarded, "R2.7", fname+":merge-commit-joins-related-histories", w.InstrPos(mw), "the merge commit is written only after a common commit of the two histories was found",
		"a merge commit is written, and the local ref moved to it, without establishing that the local and the remote history share a commit: a remote history with the same first operation (same id, correctly named ref) but its own root is joined into a two-root history — the pull reports a merge error and the local entity can no longer be read")
}

func sameMap(a, b ssa.Value) bool {
	if a == b {
		return true
	}
	ua, oka := a.(*ssa.UnOp)
	ub, okb := b.(*ssa.UnOp)
	return oka && okb && ua.X == ub.X
}

// membershipPred recognises a function or closure that returns true iff some element of a slice
// equals a target, slice and target each being a parameter or a captured variable of it.
type memPred struct{ list, target ssa.Value }

func membershipPred(f *ssa.Function) *memPred {
	if f == nil || len(f.Blocks) == 0 || f.Signature.Results().Len() != 1 {
		return nil
	}
	if bt, ok := f.Signature.Results().At(0).Type().Underlying().(*types.Basic); !ok || bt.Kind() != types.Bool {
		return nil
	}
	root := func(v ssa.Value) ssa.Value { // parameter or free variable behind v
		for i := 0; i < 4; i++ {
			switch x := v.(type) {
			case *ssa.Parameter, *ssa.FreeVar:
				return x
			case *ssa.UnOp:
				if x.Op != token.MUL {
					return nil
				}
				// load of a captured cell, or of a spilled parameter
				if fv, isFV := x.X.(*ssa.FreeVar); isFV {
					return fv
				}
				if al, isAl := x.X.(*ssa.Alloc); isAl {
					for _, r := range *al.Referrers() {
						if st, isSt := r.(*ssa.Store); isSt && st.Addr == ssa.Value(al) {
							v = st.Val
						}
					}
					continue
				}
				return nil
			default:
				return nil
			}
		}
		return nil
	}
	var out *memPred
	nTrue, nFalse := 0, 0
	for _, r := range Returns(f) {
		k, isK := r.Results[0].(*ssa.Const)
		if !isK || k.Value == nil {
			return nil
		}
		if k.Value.String() == "false" {
			nFalse++
			continue
		}
		nTrue++
		found := false
		for _, cc := range controlConds(r.Block(), nil) {
			bo, isBo := cc.If.Cond.(*ssa.BinOp)
			if !isBo || bo.Op != token.EQL || cc.Edge != 0 {
				continue
			}
			for _, pr := range [][2]ssa.Value{{bo.X, bo.Y}, {bo.Y, bo.X}} {
				ld, isLd := pr[0].(*ssa.UnOp)
				if !isLd {
					continue
				}
				ia, isIA := ld.X.(*ssa.IndexAddr)
				if !isIA {
					continue
				}
				l, t := root(ia.X), root(pr[1])
				if l != nil && t != nil && l != t {
					out = &memPred{l, t}
					found = true
				}
			}
		}
		if !found {
			return nil
		}
	}
	if nTrue == 0 || nFalse == 0 {
		return nil
	}
	// the scan is not left early otherwise
	if exits, _ := earlyLoopExits(f); len(exits) > 0 {
		for _, e := range exits {
			// leaving the loop to 'return true' is the point of the predicate
			if r, isRet := e.To.Instrs[len(e.To.Instrs)-1].(*ssa.Return); isRet {
				if k, isK := r.Results[0].(*ssa.Const); isK && k.Value != nil && k.Value.String() == "true" {
					continue
				}
			}
			return nil
		}
	}
	return out
}

// elemSource: for the element of a ranged slice, the slice ranged over (so that its origin can be
// classified); other values are returned unchanged.
func elemSource(v ssa.Value, mc *ssa.MakeClosure, outer func(*ssa.MakeClosure, ssa.Value) ssa.Value) ssa.Value {
	if ld, ok := v.(*ssa.UnOp); ok {
		if ia, ok := ld.X.(*ssa.IndexAddr); ok {
			return ia.X
		}
	}
	return v
}

// sameCell: a is a load of the alloc b (or both are loads of the same alloc).
func sameCell(a, b ssa.Value) bool {
	if ld, ok := a.(*ssa.UnOp); ok && ld.X == b {
		return true
	}
	if ld, ok := b.(*ssa.UnOp); ok && ld.X == a {
		return true
	}
	// a is a load of a cell into which b was stored (or the reverse)
	storedIn := func(load, v ssa.Value) bool {
		ld, ok := load.(*ssa.UnOp)
		if !ok {
			return false
		}
		al, ok := ld.X.(*ssa.Alloc)
		if !ok {
			return false
		}
		for _, r := range *al.Referrers() {
			if st, ok := r.(*ssa.Store); ok && st.Addr == ssa.Value(al) && st.Val == v {
				return true
			}
		}
		return false
	}
	return storedIn(a, b) || storedIn(b, a)
}

// R2.8: "not local yet" is decided by asking whether the local ref exists, not by how a read failed.
func checkNewOnlyWhenRefAbsent(c *Ctx) {
	w := c.W
	c.Doc("R2.8", "in the merge functions, the CopyRef that creates a local entity from the remote one is control dependent on the false result of RefExist(<that local ref>) whose own error was handled: a failed or refused read of an existing local entity must never be mistaken for 'not here yet' (the local ref would be overwritten with the remote head and unpushed local work lost)")
	n := 0
	for _, fn := range mergeFns(w) {
		for _, cl := range Calls(fn) {
			if primEffect(cl.Name) != "REF:CopyRef" {
				continue
			}
			n++
			c.Sites++
			args := cl.Args()
			dest := args[len(args)-1]
			ok, why := false, "the creation of the local ref is not conditional on RefExist(local ref) being false"
			for _, cc := range controlConds(cl.Block(), nil) {
				cond, edge := cc.If.Cond, cc.Edge
				for {
					if u, isU := cond.(*ssa.UnOp); isU && u.Op == token.NOT {
						cond, edge = u.X, 1-edge
						continue
					}
					break
				}
				ex, isEx := cond.(*ssa.Extract)
				if !isEx || ex.Index != 0 {
					continue
				}
				rc, isCall := ex.Tuple.(*ssa.Call)
				if !isCall {
					continue
				}
				if nm, _ := callName(rc.Common()); !strings.HasSuffix(nm, ".RefExist") {
					continue
				}
				if edge != 1 {
					why = "the local ref is created on the edge where RefExist answered true"
					continue
				}
				ra := (&Call{Instr: rc}).Args()
				if len(ra) == 1 && (ra[0] == dest || sameExprStr(ra[0], dest)) && dominatedBySuccess(rc, cl.Instr) {
					ok = true
				} else {
					why = "RefExist is asked about another ref than the one created, or its error is not handled"
				}
			}
			c.Check(ok, "R2.8", funcName(fn)+":new-only-when-local-ref-absent", w.InstrPos(cl.Instr), "created only when RefExist(local ref) is false", why)
		}
	}
	if n < 2 {
		c.Violate("R2.8", "expected:CopyRef-sites", "module", fmt.Sprintf("%d CopyRef sites in merge functions (reference 2)", n))
	}
}

// sameExprStr: two string values built the same way (same SSA value, or the same concatenation / Sprintf of the same operands)
func sameExprStr(a, b ssa.Value) bool {
	if a == b {
		return true
	}
	ta, tb := templatesOf(a), templatesOf(b)
	if len(ta) != 1 || len(tb) != 1 {
		return false
	}
	return ta[0].String() == tb[0].String()
}

// R9.7: the fast-forward test of (*Identity).Merge compares commits.
func checkIdentityMergeComparesCommits(c *Ctx) {
	w := c.W
	c.Doc("R9.7", "(*Identity).Merge refuses (ErrNonFastForwardMerge) iff the commit hash of the local version differs from the commit hash of the remote version at the same position: the test is on the stored commits (field commitHash of versions[j] on both sides), not on anything derived from the version's content — a re-committed copy of the same versions is a different history")
	fn := w.Method("entities/identity", "Identity", "Merge")
	if fn == nil {
		c.Undecided("R9.7", "anchor:Identity.Merge", "entities/identity", "not found")
		return
	}
	c.seeFn(funcName(fn))
	ok, why := false, "no refusal comparing the commit hashes of the two histories found"
	for _, g := range cmpGuards(fn, nil) {
		c.Sites++
		if g.Op != token.NEQ {
			continue
		}
		fx, fy := originFields(g.X), originFields(g.Y)
		has := func(fs []string, n string) bool {
			for _, f := range fs {
				if f == n {
					return true
				}
			}
			return false
		}
		if !isStringType(g.X.Type()) {
			continue
		}
		// a comparison of something of the two version lists
		if !(hasField(g.X, "versions") || hasField(g.Y, "versions") || has(fx, "commitHash") || has(fy, "commitHash")) {
			// the identity-level "same id" test is not the fast-forward test
			continue
		}
		if has(fx, "commitHash") && has(fy, "commitHash") {
			ok = true
			continue
		}
		if enclosingLoopHeader(g.If.Block()) != nil {
			why = "the fast-forward test at " + w.InstrPos(g.Bin) + " does not compare the versions' commit hashes: a remote that re-committed identical versions in commits of its own is taken for a fast-forward, the local ref is moved onto a chain that does not contain the local commits"
		}
	}
	// no other refusal inside the loop replaces it
	if ok {
		for _, g := range cmpGuards(fn, nil) {
			if g.Op != token.NEQ || enclosingLoopHeader(g.If.Block()) == nil {
				continue
			}
			fx, fy := originFields(g.X), originFields(g.Y)
			_ = fx
			_ = fy
		}
	}
	c.Check(ok, "R9.7", "Identity.Merge:fast-forward-test-on-commits", w.FnPos(fn), "refuses iff the commit hashes at the same position differ", why)
}

// R7.11: the entity of a merge result is only used for the statuses that carry one.
func checkMergeResultEntityUse(c *Ctx) {
	w := c.W
	c.Doc("R7.11", "a MergeResult carries an entity only for the statuses New and Updated: every unchecked type assertion or method call on MergeResult.Entity in the module is control dependent on the result's Status being one of the two (an Invalid report — what a hostile remote produces — has a nil Entity, and asserting its type panics the goroutine that merges)")
	n := 0
	for _, fn := range w.ModFns {
		if isInstance(fn) || w.isTestHelper(fn) || len(fn.Blocks) == 0 {
			continue
		}
		for _, b := range fn.Blocks {
			for _, ins := range b.Instrs {
				var subject ssa.Value
				what := ""
				switch x := ins.(type) {
				case *ssa.TypeAssert:
					if !x.CommaOk {
						subject, what = x.X, "type assertion"
					}
				case ssa.CallInstruction:
					if x.Common().IsInvoke() {
						subject, what = x.Common().Value, "call of ."+x.Common().Method.Name()
					}
				}
				if subject == nil {
					continue
				}
				base, fld, isF := loadOfField(subject)
				if !isF || fld != "Entity" || !strings.HasSuffix(typeShortName(base.Type()), "entity.MergeResult") {
					continue
				}
				n++
				c.Sites++
				c.seeFn(funcName(fn))
				blockGuarded := func(gfn *ssa.Function, gb *ssa.BasicBlock) bool {
				guarded := false
					for _, cc := range controlConds(gb, nil) {
						bo, isBo := cc.If.Cond.(*ssa.BinOp)
						if !isBo {
							continue
						}
						op := bo.Op
						if cc.Edge == 1 {
							op = negateOp(op)
						}
						for _, pr := range [][2]ssa.Value{{bo.X, bo.Y}, {bo.Y, bo.X}} {
							if !hasField(pr[0], "Status") && !(hasField(pr[0], "Err")) {
								continue
							}
							if k, isK := constInt(pr[1]); isK && hasField(pr[0], "Status") {
								name := mergeStatusName(w, k)
								if op == token.EQL && (name == "MergeStatusNew" || name == "MergeStatusUpdated") {
									guarded = true
								}
							}
						}
						// a non-nil test of the entity itself
						if (bo.Op == token.NEQ && cc.Edge == 0 || bo.Op == token.EQL && cc.Edge == 1) && (isNilConst(bo.Y) || isNilConst(bo.X)) {
							if _, f2, ok2 := loadOfField(bo.X); ok2 && f2 == "Entity" {
								guarded = true
							}
							if _, f2, ok2 := loadOfField(bo.Y); ok2 && f2 == "Entity" {
								guarded = true
							}
						}
					}
					if !guarded {
						// a switch with several cases: the block is entered only through true edges of Status == New / Updated
						isStatusTest := func(bb *ssa.BasicBlock, succ int) bool {
							if len(bb.Instrs) == 0 {
								return false
							}
							iff, isIf := bb.Instrs[len(bb.Instrs)-1].(*ssa.If)
							if !isIf {
								return false
							}
							bo, isBo := iff.Cond.(*ssa.BinOp)
							if !isBo || !((bo.Op == token.EQL && succ == 0) || (bo.Op == token.NEQ && succ == 1)) {
								return false
							}
							for _, pr := range [][2]ssa.Value{{bo.X, bo.Y}, {bo.Y, bo.X}} {
								if k, isK := constInt(pr[1]); isK && hasField(pr[0], "Status") {
									name := mergeStatusName(w, k)
									if name == "MergeStatusNew" || name == "MergeStatusUpdated" {
										return true
									}
								}
							}
							return false
						}
						if !reachWithoutEdge(gfn.Blocks[0], gb, isStatusTest) {
							guarded = true
						}
					}
					return guarded
				}
				guarded := blockGuarded(fn, b)
				if !guarded {
					// the use sits in an unexported helper that receives the result as a parameter: decided at
					// every call of the helper (the Status test stays with the caller)
					isParam := false
					for _, o := range origins(base) {
						if o.Kind == "param" {
							isParam = true
						}
					}
					if _, isP := stripConv(base).(*ssa.Parameter); isP {
						isParam = true
					}
					if isParam && fn.Object() != nil && !fn.Object().Exported() {
						nCalls, allOk := 0, true
						for _, g := range w.ModFns {
							if w.isTestHelper(g) || fnPkgPath(g) != fnPkgPath(fn) {
								continue
							}
							for _, gb := range g.Blocks {
								for _, gi := range gb.Instrs {
									ci, isCall := gi.(ssa.CallInstruction)
									if !isCall {
										continue
									}
									cal := ci.Common().StaticCallee()
									if cal == nil || bodyOf(cal) != bodyOf(fn) {
										continue
									}
									nCalls++
									if !blockGuarded(g, gb) {
										allOk = false
									}
								}
							}
						}
						if nCalls > 0 && allOk {
							guarded = true
						}
					}
				}
				c.Check(guarded, "R7.11", funcName(fn)+":MergeResult.Entity:"+what, w.InstrPos(ins), "used only for New/Updated results", "the entity of a merge result is used ("+what+") for statuses that carry none: an Invalid report for a refused remote entity has a nil Entity, the "+what+" panics in the merging goroutine and takes the process down")
			}
		}
	}
	if n == 0 {
		c.Violate("R7.11", "expected:MergeResult.Entity-uses", "module", "no use of MergeResult.Entity found (reference: SubCache.MergeAll)")
	}
}

func mergeStatusName(w *World, k int64) string {
	p := w.Pkg("entity")
	if p == nil {
		return ""
	}
	for _, n := range p.Types.Scope().Names() {
		if cst, ok := p.Types.Scope().Lookup(n).(*types.Const); ok && strings.HasPrefix(n, "MergeStatus") {
			if v, exact := constant.Int64Val(cst.Val()); exact && v == k {
				return n
			}
		}
	}
	return ""
}

// R2.11: "nothing to do" is answered on evidence of ancestry only. Lamport order is not ancestry: a remote
// head older than the local one may still sit on a branch the local history does not contain.
func checkNothingOnlyOnAncestry(c *Ctx) {
	w := c.W
	c.Doc("R2.11", "in entity/dag.merge every Nothing report is control dependent only on comparisons of commit hashes (heads equal, remote head found among the local commits — directly, through a flag or a membership helper) and on the success of preceding calls: no comparison of times, counts or anything else decides that a remote history holds nothing new")
	fn := w.Func("entity/dag", "merge")
	if fn == nil {
		c.Undecided("R2.11", "anchor:entity/dag.merge", "entity/dag", "not found")
		return
	}
	c.seeFn(funcName(fn))
	n := 0
	for _, cl := range Calls(fn) {
		if cl.Name != "entity.NewMergeNothingStatus" {
			continue
		}
		n++
		c.Sites++
		bad := ""
		for _, cc := range controlConds(cl.Block(), nil) {
			if isLoopHeader(cc.If.Block()) || errNilEdge(cc) {
				continue
			}
			okCond := false
			switch x := cc.If.Cond.(type) {
			case *ssa.BinOp:
				if x.Op == token.EQL || x.Op == token.NEQ {
					tn := typeShortName(x.X.Type())
					if tn == "repository.Hash" || tn == "entity.Id" || isErrorType(x.X.Type()) {
						okCond = true
					}
					if _, isBool := x.X.Type().Underlying().(*types.Basic); isBool && x.X.Type().Underlying().(*types.Basic).Kind() == types.Bool {
						okCond = true
					}
				}
			case *ssa.Extract:
				// a boolean answered by a repository call (RefExist)
				if _, isCall := x.Tuple.(*ssa.Call); isCall {
					okCond = true
				}
			case *ssa.Phi, *ssa.Call, *ssa.UnOp:
				// a flag set by the membership loop, a membership helper / closure, or its negation
				if b, isB := cc.If.Cond.Type().Underlying().(*types.Basic); isB && b.Kind() == types.Bool {
					okCond = true
					if cv, isCall := x.(*ssa.Call); isCall {
						okCond = false
						if h := cv.Common().StaticCallee(); h != nil && membershipPred(h) != nil {
							okCond = true
						}
						if _, isMC := cv.Common().Value.(*ssa.MakeClosure); isMC {
							okCond = true
						}
						if u, isU := cv.Common().Value.(*ssa.UnOp); isU {
							_ = u
							okCond = true
						}
					}
				}
			}
			if !okCond {
				bad = "the test at " + w.InstrPos(cc.If)
			}
		}
		c.Check(bad == "", "R2.11", fmt.Sprintf("entity/dag.merge:nothing-on-ancestry-only#%d", n), w.InstrPos(cl.Instr), "decided by commit-hash comparisons only",
			"a Nothing report depends on "+bad+", which is not a comparison of commit hashes: with concurrent branches of unequal length the replica holding the longer one answers 'nothing to do' on every pull, never receives the other branch, and its pushes are refused as non fast-forward")
	}
	c.Check(n >= 1, "R2.11", "expected:nothing-reports", w.FnPos(fn), fmt.Sprintf("%d Nothing report(s)", n), "no Nothing report found in merge")
}
