package main

// Loading of /repo's current working tree into a type-checked, SSA-built
// whole program, and the two call graphs (CHA, hybrid VTA+CHA).

import (
	"fmt"
	"go/ast"
	"go/token"
	"go/types"
	"os"
	"sort"
	"strings"
	"time"

	"golang.org/x/tools/go/callgraph"
	"golang.org/x/tools/go/callgraph/cha"
	"golang.org/x/tools/go/callgraph/vta"
	"golang.org/x/tools/go/packages"
	"golang.org/x/tools/go/ssa"
	"golang.org/x/tools/go/ssa/ssautil"
)

const modPath = "github.com/MichaelMure/git-bug"

type World struct {
	RepoDir string
	Fset    *token.FileSet
	Pkgs    []*packages.Package          // module packages (roots)
	ByPath  map[string]*packages.Package // every loaded package by import path
	Prog    *ssa.Program
	All     map[*ssa.Function]bool
	ModFns  []*ssa.Function // functions (incl. anonymous and instantiations) defined in module source

	chaG *callgraph.Graph
	vtaG *callgraph.Graph

	hybridOut map[*ssa.Function][]Edge
	chaOut    map[*ssa.Function][]Edge

	instances map[*ssa.Function][]*ssa.Function

	LoadSecs  float64
	GraphSecs float64
	Fallbacks int
}

type Edge struct {
	Site   ssa.CallInstruction
	Callee *ssa.Function
}

func loadWorld(dir string, overlay map[string][]byte) (*World, error) {
	t0 := time.Now()
	env := append(os.Environ(), "GOFLAGS=-mod=mod", "GOPROXY=off", "GOSUMDB=off", "GOTOOLCHAIN=local", "GOWORK=off")
	cfg := &packages.Config{
		Mode:    packages.LoadAllSyntax,
		Dir:     dir,
		Tests:   false,
		Env:     env,
		Overlay: overlay,
	}
	pkgs, err := packages.Load(cfg, "./...")
	if err != nil {
		return nil, fmt.Errorf("packages.Load: %v", err)
	}
	if len(pkgs) == 0 {
		return nil, fmt.Errorf("no packages loaded from %s", dir)
	}
	var errs []string
	packages.Visit(pkgs, nil, func(p *packages.Package) {
		for _, e := range p.Errors {
			errs = append(errs, e.Error())
		}
	})
	if len(errs) > 0 {
		if len(errs) > 10 {
			errs = errs[:10]
		}
		return nil, fmt.Errorf("the tree does not load/type-check (%d errors): %s", len(errs), strings.Join(errs, "; "))
	}
	w := &World{RepoDir: dir, Pkgs: pkgs, ByPath: map[string]*packages.Package{}}
	packages.Visit(pkgs, nil, func(p *packages.Package) { w.ByPath[p.PkgPath] = p })
	w.Fset = pkgs[0].Fset
	prog, _ := ssautil.AllPackages(pkgs, ssa.InstantiateGenerics)
	prog.Build()
	w.Prog = prog
	w.All = ssautil.AllFunctions(prog)
	w.instances = map[*ssa.Function][]*ssa.Function{}
	inMod := map[*ssa.Function]bool{}
	var addOrigin func(f *ssa.Function)
	addOrigin = func(f *ssa.Function) {
		if f == nil || inMod[f] || !w.inModule(f) || isWrapper(f) {
			return
		}
		inMod[f] = true
		w.ModFns = append(w.ModFns, f)
		for _, a := range f.AnonFuncs {
			addOrigin(a)
		}
	}
	for f := range w.All {
		if o := f.Origin(); o != nil && o != f {
			w.instances[o] = append(w.instances[o], f)
			// generic origins (methods of generic types in particular) are not in AllFunctions
			top := o
			for top.Parent() != nil {
				top = top.Parent()
			}
			addOrigin(top)
		}
		if w.inModule(f) && !inMod[f] && !isWrapper(f) {
			inMod[f] = true
			w.ModFns = append(w.ModFns, f)
		}
	}
	sort.Slice(w.ModFns, func(i, j int) bool { return fnLess(w.ModFns[i], w.ModFns[j]) })
	for o := range w.instances {
		l := w.instances[o]
		sort.Slice(l, func(i, j int) bool { return l[i].String() < l[j].String() })
	}
	w.LoadSecs = time.Since(t0).Seconds()
	return w, nil
}

func fnLess(a, b *ssa.Function) bool {
	if a.String() != b.String() {
		return a.String() < b.String()
	}
	return a.Pos() < b.Pos()
}

// inModule: the function's source lives in the module (closures and generic
// instantiations included; synthetic wrappers excluded unless they wrap module code).
func (w *World) inModule(f *ssa.Function) bool {
	p := fnPkgPath(f)
	return p == modPath || strings.HasPrefix(p, modPath+"/")
}

func fnPkgPath(f *ssa.Function) string {
	for f.Parent() != nil {
		f = f.Parent()
	}
	if o := f.Origin(); o != nil {
		f = o
	}
	if f.Pkg != nil {
		return f.Pkg.Pkg.Path()
	}
	if f.Object() != nil && f.Object().Pkg() != nil {
		return f.Object().Pkg().Path()
	}
	return ""
}

func short(s string) string { return strings.ReplaceAll(s, modPath+"/", "") }

// ---- anchors ----

func (w *World) Pkg(path string) *packages.Package {
	return w.ByPath[modPath+"/"+path]
}

func (w *World) SSAPkg(path string) *ssa.Package {
	p := w.Pkg(path)
	if p == nil {
		return nil
	}
	return w.Prog.Package(p.Types)
}

// Func returns the package-level function pkg.name (generic origin for generics).
func (w *World) Func(pkg, name string) *ssa.Function {
	sp := w.SSAPkg(pkg)
	if sp == nil {
		return nil
	}
	return sp.Func(name)
}

// Method returns method name of named type typ in pkg (pointer or value receiver).
func (w *World) Method(pkg, typ, name string) *ssa.Function {
	p := w.Pkg(pkg)
	if p == nil {
		return nil
	}
	obj := p.Types.Scope().Lookup(typ)
	if obj == nil {
		return nil
	}
	named, ok := obj.Type().(*types.Named)
	if !ok {
		return nil
	}
	for i := 0; i < named.NumMethods(); i++ {
		m := named.Method(i)
		if m.Name() == name {
			return w.Prog.FuncValue(m)
		}
	}
	return nil
}

// Instances returns instantiations of a generic function (or the function itself when not generic).
func (w *World) Instances(f *ssa.Function) []*ssa.Function {
	if f == nil {
		return nil
	}
	if l := w.instances[f]; len(l) > 0 {
		return l
	}
	return []*ssa.Function{f}
}

func (w *World) Pos(p token.Pos) string {
	if !p.IsValid() {
		return "?"
	}
	pp := w.Fset.Position(p)
	f := pp.Filename
	if strings.HasPrefix(f, w.RepoDir+"/") {
		f = f[len(w.RepoDir)+1:]
	}
	return fmt.Sprintf("%s:%d", f, pp.Line)
}

func (w *World) FnPos(f *ssa.Function) string {
	if f == nil {
		return "?"
	}
	if f.Pos().IsValid() {
		return w.Pos(f.Pos())
	}
	if o := f.Origin(); o != nil {
		return w.Pos(o.Pos())
	}
	return "?"
}

// InstrPos finds the best source position for an instruction.
func (w *World) InstrPos(i ssa.Instruction) string {
	if i.Pos().IsValid() {
		return w.Pos(i.Pos())
	}
	if v, ok := i.(ssa.Value); ok {
		for _, r := range *v.Referrers() {
			if r.Pos().IsValid() {
				return w.Pos(r.Pos())
			}
		}
	}
	// fall back to nearest positioned instruction in the block
	b := i.Block()
	if b != nil {
		for _, j := range b.Instrs {
			if j.Pos().IsValid() {
				return w.Pos(j.Pos())
			}
		}
	}
	return w.FnPos(i.Parent())
}

// ---- call graphs ----

func (w *World) buildGraphs() {
	if w.chaG != nil {
		return
	}
	t0 := time.Now()
	w.chaG = cha.CallGraph(w.Prog)
	w.vtaG = vta.CallGraph(w.All, w.chaG)
	w.chaOut = map[*ssa.Function][]Edge{}
	w.hybridOut = map[*ssa.Function][]Edge{}
	for f, n := range w.chaG.Nodes {
		for _, e := range n.Out {
			w.chaOut[f] = append(w.chaOut[f], Edge{e.Site, e.Callee.Func})
		}
	}
	for f := range w.All {
		bySite := map[ssa.CallInstruction][]*ssa.Function{}
		if n := w.vtaG.Nodes[f]; n != nil {
			for _, e := range n.Out {
				bySite[e.Site] = append(bySite[e.Site], e.Callee.Func)
			}
		}
		var chaBySite map[ssa.CallInstruction][]*ssa.Function
		var out []Edge
		for _, b := range f.Blocks {
			for _, ins := range b.Instrs {
				ci, ok := ins.(ssa.CallInstruction)
				if !ok {
					continue
				}
				if v := bySite[ci]; len(v) > 0 {
					for _, c := range v {
						out = append(out, Edge{ci, c})
					}
					continue
				}
				cc := ci.Common()
				if cc.StaticCallee() != nil {
					out = append(out, Edge{ci, cc.StaticCallee()})
					continue
				}
				if _, isBuiltin := cc.Value.(*ssa.Builtin); isBuiltin {
					continue
				}
				if chaBySite == nil {
					chaBySite = map[ssa.CallInstruction][]*ssa.Function{}
					for _, e := range w.chaOut[f] {
						chaBySite[e.Site] = append(chaBySite[e.Site], e.Callee)
					}
				}
				if l := chaBySite[ci]; len(l) > 0 {
					w.Fallbacks++
					for _, c := range l {
						out = append(out, Edge{ci, c})
					}
				}
			}
		}
		w.hybridOut[f] = out
	}
	w.GraphSecs = time.Since(t0).Seconds()
}

// Callees returns the hybrid-graph callees of f (VTA where it resolves the site, CHA otherwise).
func (w *World) Callees(f *ssa.Function) []Edge {
	w.buildGraphs()
	return w.hybridOut[f]
}

// SiteCallees returns the callees of one call site. Call sites inside a generic origin body
// (which is not part of the call graph) are mapped to the same site of each instantiation.
func (w *World) SiteCallees(ci ssa.CallInstruction) []*ssa.Function {
	var out []*ssa.Function
	fn := ci.Parent()
	if w.All[fn] {
		for _, e := range w.Callees(fn) {
			if e.Site == ci {
				out = append(out, e.Callee)
			}
		}
		return out
	}
	bi, ii := ci.Block().Index, idxOf(ci)
	seen := map[*ssa.Function]bool{}
	for _, inst := range w.InstancesDeep(fn) {
		if len(inst.Blocks) != len(fn.Blocks) || bi >= len(inst.Blocks) || ii >= len(inst.Blocks[bi].Instrs) {
			continue
		}
		ici, ok := inst.Blocks[bi].Instrs[ii].(ssa.CallInstruction)
		if !ok || ici.Pos() != ci.Pos() {
			continue
		}
		for _, e := range w.Callees(inst) {
			if e.Site == ici && !seen[e.Callee] {
				seen[e.Callee] = true
				out = append(out, e.Callee)
			}
		}
	}
	return out
}

// InstancesDeep: instantiations of a generic origin function or of a closure nested in one.
func (w *World) InstancesDeep(fn *ssa.Function) []*ssa.Function {
	if fn.Parent() == nil {
		return w.instances[fn]
	}
	idx := -1
	for i, a := range fn.Parent().AnonFuncs {
		if a == fn {
			idx = i
		}
	}
	var out []*ssa.Function
	for _, pi := range w.InstancesDeep(fn.Parent()) {
		if idx >= 0 && idx < len(pi.AnonFuncs) {
			out = append(out, pi.AnonFuncs[idx])
		}
	}
	return out
}

// Orig returns the generic origin of an instantiation (or the function itself).
func Orig(f *ssa.Function) *ssa.Function {
	if f == nil {
		return nil
	}
	if o := f.Origin(); o != nil {
		return o
	}
	return f
}

// Reach returns all functions reachable from the given roots over the hybrid graph,
// following only callees for which follow returns true (nil = module functions only).
func (w *World) Reach(roots []*ssa.Function, follow func(*ssa.Function) bool) map[*ssa.Function]*ssa.Function {
	if follow == nil {
		follow = w.inModule
	}
	parent := map[*ssa.Function]*ssa.Function{}
	var q []*ssa.Function
	for _, r := range roots {
		if r == nil {
			continue
		}
		if _, ok := parent[r]; !ok {
			parent[r] = nil
			q = append(q, r)
		}
	}
	for len(q) > 0 {
		f := q[0]
		q = q[1:]
		for _, e := range w.Callees(f) {
			c := e.Callee
			if _, ok := parent[c]; ok {
				continue
			}
			if !follow(c) {
				continue
			}
			parent[c] = f
			q = append(q, c)
		}
		// closures defined in f are reachable when f is (conservative: they may be called later)
		for _, a := range f.AnonFuncs {
			if _, ok := parent[a]; !ok {
				parent[a] = f
				q = append(q, a)
			}
		}
	}
	return parent
}

func pathTo(parent map[*ssa.Function]*ssa.Function, f *ssa.Function) string {
	var names []string
	for f != nil {
		names = append(names, short(f.String()))
		f = parent[f]
	}
	for i, j := 0, len(names)-1; i < j; i, j = i+1, j-1 {
		names[i], names[j] = names[j], names[i]
	}
	if len(names) > 8 {
		names = append(names[:3], append([]string{"…"}, names[len(names)-4:]...)...)
	}
	return strings.Join(names, " → ")
}

// ---- AST helpers ----

// FuncDecl finds the AST declaration of a package-level function or method.
func (w *World) FuncDecl(pkg, recv, name string) (*ast.FuncDecl, *packages.Package) {
	p := w.Pkg(pkg)
	if p == nil {
		return nil, nil
	}
	for _, f := range p.Syntax {
		for _, d := range f.Decls {
			fd, ok := d.(*ast.FuncDecl)
			if !ok || fd.Name.Name != name {
				continue
			}
			if recv == "" {
				if fd.Recv == nil {
					return fd, p
				}
				continue
			}
			if fd.Recv == nil || len(fd.Recv.List) == 0 {
				continue
			}
			if recvTypeName(fd.Recv.List[0].Type) == recv {
				return fd, p
			}
		}
	}
	return nil, p
}

func recvTypeName(e ast.Expr) string {
	switch t := e.(type) {
	case *ast.StarExpr:
		return recvTypeName(t.X)
	case *ast.Ident:
		return t.Name
	case *ast.IndexExpr:
		return recvTypeName(t.X)
	case *ast.IndexListExpr:
		return recvTypeName(t.X)
	case *ast.ParenExpr:
		return recvTypeName(t.X)
	}
	return ""
}

// isTestHelper: the function is declared in a *_testing.go file (helpers compiled into the
// package for the use of tests).
func (w *World) isTestHelper(f *ssa.Function) bool {
	for f.Parent() != nil {
		f = f.Parent()
	}
	p := f.Pos()
	if o := f.Origin(); o != nil && !p.IsValid() {
		p = o.Pos()
	}
	if !p.IsValid() {
		return false
	}
	return strings.HasSuffix(w.Fset.Position(p).Filename, "_testing.go")
}

// isWrapper: compiler-generated forwarding function (promoted-method wrapper, bound method, thunk).
func isWrapper(f *ssa.Function) bool {
	return f.Synthetic != "" && !strings.HasPrefix(f.Synthetic, "instance of") && f.Synthetic != "package initializer"
}
