package main

// Rules added after the seventh round of seeded changes.

import (
	"fmt"
	"go/token"
	"go/types"
	"sort"
	"strings"

	"golang.org/x/tools/go/ssa"
)

// R15.15: every namespace asked for gets its refspec.
func checkOneRefspecPerNamespace(c *Ctx, rule string) {
	w := c.W
	c.Doc(rule, "GoGitRepo.PushRefs / FetchRefs: inside the loop over the namespaces the refspec of the namespace is recorded in the list handed to go-git on every iteration (no continue, no condition) — a namespace silently left out is not exchanged, and an empty list makes go-git fall back to its default refs/heads/*")
	for _, m := range []string{"PushRefs", "FetchRefs"} {
		fn := w.Method("repository", "GoGitRepo", m)
		if fn == nil || len(fn.Blocks) == 0 {
			c.Undecided(rule, "anchor:GoGitRepo."+m, "repository", "not found")
			continue
		}
		c.seeFn(funcName(fn))
		isSpecSlice := func(t types.Type) bool {
			sl, ok := t.Underlying().(*types.Slice)
			return ok && strings.HasSuffix(typeShortName(sl.Elem()), "config.RefSpec")
		}
		n := 0
		bad := ""
		for _, b := range fn.Blocks {
			for _, ins := range b.Instrs {
				var rec ssa.Instruction
				switch x := ins.(type) {
				case *ssa.Store:
					if ia, ok := x.Addr.(*ssa.IndexAddr); ok && isSpecSlice(ia.X.Type()) {
						if _, _, isF := loadOfField(ia.X); !isF {
							rec = x
						}
					}
				case *ssa.Call:
					if bi, ok := x.Common().Value.(*ssa.Builtin); ok && bi.Name() == "append" && isSpecSlice(x.Type()) {
						if _, _, isF := loadOfField(x.Common().Args[0]); !isF && !hasOriginCallAny(x.Common().Args[0], ".Config") {
							rec = x
						}
					}
				}
				if rec == nil || enclosingLoopHeader(b) == nil {
					continue
				}
				n++
				c.Sites++
				if why := unconditionalInLoop(w, rec); why != "" {
					bad = w.InstrPos(rec) + " (" + why + ")"
				}
			}
		}
		if n == 0 {
			// a single refspec built without a loop: nothing to decide here
			c.Info(rule, "GoGitRepo."+m+":refspec-per-namespace", w.FnPos(fn), "no per-namespace loop")
			continue
		}
		c.Check(bad == "", rule, "GoGitRepo."+m+":refspec-per-namespace", w.FnPos(fn), "the refspec is recorded on every iteration",
			"the refspec of a namespace is recorded only conditionally at "+bad+": for some configurations (a fetch refspec already configured for the remote, a namespace without local refs) nothing of that namespace is exchanged — or go-git receives an empty list and pushes refs/heads/* instead — while the command reports success")
	}
}

// R2.13: a merge moves the local ref only.
func checkMergeMovesLocalRefOnly(c *Ctx, rule string) {
	w := c.W
	c.Doc(rule, "dag.merge: the ref given to UpdateRef and the destination of CopyRef is the local ref (built from the definition's namespace and the id), never the remote-tracking ref the function was given — tracking refs describe what the remote has and are moved by fetch and push only")
	fn := w.Func("entity/dag", "merge")
	if fn == nil {
		c.Undecided(rule, "anchor:entity/dag.merge", "entity/dag", "not found")
		return
	}
	fn = bodyOf(fn)
	c.seeFn(funcName(fn))
	n := 0
	for _, cl := range Calls(fn) {
		var ref ssa.Value
		switch {
		case strings.HasSuffix(cl.Name, ".UpdateRef") && len(cl.Args()) >= 1:
			ref = cl.Args()[0]
		case strings.HasSuffix(cl.Name, ".CopyRef") && len(cl.Args()) >= 2:
			ref = cl.Args()[1]
		case strings.HasSuffix(cl.Name, ".RemoveRef") && len(cl.Args()) >= 1:
			ref = cl.Args()[0]
		default:
			continue
		}
		n++
		c.Sites++
		fromParam := ""
		for _, o := range origins(ref) {
			if o.Kind == "param" {
				fromParam = o.Name
			}
		}
		c.Check(fromParam == "", rule, "entity/dag.merge→"+cl.Name[strings.LastIndex(cl.Name, ".")+1:]+":local-ref-only", w.InstrPos(cl.Instr), "moves the local ref",
			"merge moves the ref it was given as '"+fromParam+"' (the remote-tracking ref): it then names a commit the remote never had, later fetches cannot fast-forward it, every later merge answers 'nothing to do' and every push is refused — the replica stops exchanging that entity for good")
	}
	if n == 0 {
		c.Violate(rule, "entity/dag.merge:expected:ref-moves", w.FnPos(fn), "no ref-moving call found in merge")
	}
}

// R2.14: the commit list of a ref is complete.
func checkListCommitsComplete(c *Ctx, rule string) {
	w := c.W
	c.Doc(rule, "repository.nonNativeListCommits (what ListCommits answers, and what every ancestry test of merge is made of): the walk over the commit graph is left only when its stack is empty or on a read error — an already visited commit is skipped, it does not end the walk")
	fn := w.Func("repository", "nonNativeListCommits")
	if fn == nil || len(fn.Blocks) == 0 {
		c.Undecided(rule, "anchor:repository.nonNativeListCommits", "repository", "not found")
		return
	}
	c.seeFn(funcName(fn))
	exits, loops := earlyLoopExits(fn)
	c.Sites += loops
	var at []string
	for _, e := range exits {
		at = append(at, w.InstrPos(e.From.Instrs[len(e.From.Instrs)-1]))
	}
	c.Check(loops >= 1 && len(exits) == 0, rule, "nonNativeListCommits:walk-ends-when-exhausted", w.FnPos(fn), fmt.Sprintf("%d loops, none left early", loops),
		"the walk is left early at "+strings.Join(at, ", ")+": on histories where a commit is reachable twice (a merge under a merge) part of the ancestry is missing from the list, so merge takes an ancestor for a stranger — it writes useless merge commits, or merges where it should fast-forward")
}

// R10.1 (extension): Compile applies the operations in the order the entity hands them out.
func checkCompileKeepsOrder(c *Ctx, rule string) {
	w := c.W
	fn := w.Method("entities/bug", "Bug", "Compile")
	if fn == nil {
		c.Undecided(rule, "anchor:Bug.Compile", "entities/bug", "not found")
		return
	}
	c.seeFn(funcName(fn))
	var bad []string
	for _, f := range fnAndHelpers(fn, 1) {
		for _, cl := range Calls(f) {
			if strings.HasPrefix(cl.Name, "sort.") || strings.HasPrefix(cl.Name, "slices.Sort") {
				bad = append(bad, cl.Name+" at "+w.InstrPos(cl.Instr))
			}
		}
	}
	// the slice ranged over is the direct result of Operations()
	direct := false
	for _, cl := range Calls(fn) {
		if !strings.HasSuffix(cl.Name, ".Apply") {
			continue
		}
		if u, ok := cl.Instr.Common().Value.(*ssa.UnOp); ok {
			if ia, isIA := u.X.(*ssa.IndexAddr); isIA {
				if cv, isC := stripConv(ia.X).(*ssa.Call); isC {
					if nm, _ := callName(cv.Common()); strings.HasSuffix(nm, ".Operations") {
						direct = true
					}
				}
			}
		}
	}
	c.Sites++
	c.Check(len(bad) == 0 && direct, rule, "Compile:order-of-the-entity", w.FnPos(fn), "applies Operations() as handed out, unsorted",
		"Compile does not apply the operations in the order the entity hands them out ("+strings.Join(bad, "; ")+"): the compiled state then depends on something else than ancestry and logical clocks (wall-clock timestamps of the authors' machines, say)")
}

// R4.12: an operation owns its metadata map.
func checkMetadataNotAliased(c *Ctx, rule string) {
	w := c.W
	c.Doc(rule, "packages entities/bug and entity/dag: no store into an operation's Metadata field takes a map that is a parameter of the storing function — the id of an operation is predicted from its serialised form when it is staged, so a map the caller can still write to makes the stored operation differ from the one that was identified")
	n := 0
	for _, f := range w.ModFns {
		if isInstance(f) || w.isTestHelper(f) {
			continue
		}
		pp := fnPkgPath(f)
		if pp != modPath+"/entities/bug" && pp != modPath+"/entity/dag" {
			continue
		}
		for _, b := range f.Blocks {
			for _, ins := range b.Instrs {
				st, ok := ins.(*ssa.Store)
				if !ok {
					continue
				}
				fa, isFA := st.Addr.(*ssa.FieldAddr)
				if !isFA || fieldName(fa) != "Metadata" {
					continue
				}
				if _, isMap := st.Val.Type().Underlying().(*types.Map); !isMap {
					continue
				}
				n++
				c.Sites++
				c.seeFn(funcName(f))
				from := ""
				for _, o := range origins(st.Val) {
					if o.Kind == "param" {
						from = o.Name
					}
				}
				c.Check(from == "", rule, funcName(f)+":metadata-owned", w.InstrPos(st), "the map stored is the operation's own",
					"the operation's metadata map is the caller's '"+from+"': when the caller reuses that map for the next operation (what every importer does) the bytes committed differ from the bytes the id was computed from — the id announced changes on reload and other replicas refuse the entity")
			}
		}
	}
	if n == 0 {
		c.Violate(rule, "expected:metadata-stores", "entity/dag", "no store into a Metadata field found")
	}
}

// R6.11: a pull indexes entity by entity.
func checkMergeIndexesPerEntity(c *Ctx, rule string) {
	w := c.W
	c.Doc(rule, "SubCache.MergeAll: the search-index document of a merged entity is written (IndexOne) inside the loop over the merge results, not collected into a batch executed afterwards — a pull that dies half-way must leave an index whose size differs from the excerpt file's, which is what makes the next process rebuild")
	fn := w.Method("cache", "SubCache", "MergeAll")
	if fn == nil {
		c.Undecided(rule, "anchor:SubCache.MergeAll", "cache", "not found")
		return
	}
	fn = bodyOf(fn)
	one, batch := 0, ""
	for _, f := range append([]*ssa.Function{fn}, fn.AnonFuncs...) {
		c.seeFn(funcName(f))
		for _, cl := range Calls(f) {
			if strings.HasSuffix(cl.Name, "Index.IndexBatch") {
				batch = w.InstrPos(cl.Instr)
			}
			if strings.HasSuffix(cl.Name, "Index.IndexOne") && enclosingLoopHeader(cl.Block()) != nil {
				one++
			}
			// the indexing step extracted into a same-package helper called inside the loop
			isOne := func(i ssa.Instruction) bool {
				ci, ok := i.(ssa.CallInstruction)
				if !ok {
					return false
				}
				n, _ := callName(ci.Common())
				return strings.HasSuffix(n, "Index.IndexOne")
			}
			isBatch := func(i ssa.Instruction) bool {
				ci, ok := i.(ssa.CallInstruction)
				if !ok {
					return false
				}
				n, _ := callName(ci.Common())
				return strings.HasSuffix(n, "Index.IndexBatch")
			}
			if enclosingLoopHeader(cl.Block()) != nil && viaHelper(w, cl.Instr, isOne, false) {
				one++
			}
			if viaHelper(w, cl.Instr, isBatch, false) {
				batch = w.InstrPos(cl.Instr)
			}
		}
	}
	c.Sites++
	c.Check(one > 0 && batch == "", rule, "SubCache.MergeAll:index-per-entity", w.FnPos(fn), "IndexOne inside the loop over the merge results",
		"the index documents of a pull are batched ("+batch+") and written after the loop: when the process dies during the pull the refs of the entities merged so far exist, but neither the index nor the excerpt file changed — their sizes still agree, the next process trusts the cache, and those entities are listed nowhere; pulling again finds them 'already up to date'")
}

// R9.4 (extension): the chronology test sees the previous version's times.
func checkValidateAccumulatesAfterTest(c *Ctx, rule string) {
	w := c.W
	fn := w.Method("entities/identity", "Identity", "Validate")
	if fn == nil {
		return
	}
	var cmp *ssa.BinOp
	for _, b := range fn.Blocks {
		for _, ins := range b.Instrs {
			bo, ok := ins.(*ssa.BinOp)
			if !ok || bo.Op != token.LSS && bo.Op != token.GTR && bo.Op != token.LEQ && bo.Op != token.GEQ {
				continue
			}
			tm := func(v ssa.Value) bool { return strings.HasSuffix(typeShortName(v.Type()), "lamport.Time") }
			if tm(bo.X) && tm(bo.Y) {
				cmp = bo
			}
		}
	}
	var acc *ssa.MapUpdate
	for _, b := range fn.Blocks {
		for _, ins := range b.Instrs {
			if mu, ok := ins.(*ssa.MapUpdate); ok {
				if _, isMake := mu.Map.(*ssa.MakeMap); isMake {
					acc = mu
				}
			}
		}
	}
	if cmp == nil || acc == nil {
		return // reported by the other parts of R9.4
	}
	c.Sites++
	h := enclosingLoopHeader(cmp.Block())
	ok := h != nil && h.Dominates(acc.Block()) && !inLoop(acc.Block(), h)
	c.Check(ok, rule, "Identity.Validate:test-before-accumulate", w.InstrPos(acc), "a version's times are recorded after they were compared with the previous version's",
		"a version's times are recorded as 'previous' before they are compared: every version is then compared with itself, 'now < previous' can never hold, and a remote version whose clocks go back in time is accepted — ValidKeysAtTime then dates a new key before commits that were signed with the old one")
}

// R8.4 (extension): the key set of a version takes effect whatever its size.
func checkKeySetSizeIrrelevant(c *Ctx, rule string) {
	w := c.W
	fn := w.Method("entities/identity", "Identity", "ValidKeysAtTime")
	if fn == nil {
		return
	}
	c.seeFn(funcName(fn))
	bad := ""
	for _, b := range fn.Blocks {
		for _, ins := range b.Instrs {
			bo, ok := ins.(*ssa.BinOp)
			if !ok || !isCmpOp(bo.Op) {
				continue
			}
			for _, v := range []ssa.Value{bo.X, bo.Y} {
				if cv, isC := stripConv(v).(*ssa.Call); isC {
					if bi, isB := cv.Common().Value.(*ssa.Builtin); isB && bi.Name() == "len" && hasField(cv.Common().Args[0], "keys") {
						bad = w.InstrPos(bo)
					}
				}
			}
		}
	}
	c.Sites++
	c.Check(bad == "", rule, "Identity.ValidKeysAtTime:empty-key-set-takes-effect", w.FnPos(fn), "no test on the number of keys of a version",
		"whether a version's key set takes effect depends on its size ("+bad+"): a version that removes every key never takes effect, the removed key stays in force for ever and every unsigned commit the author makes afterwards is refused")
}

// R11.14: indexing a document always reaches the index.
func checkIndexOneAlwaysIndexes(c *Ctx, rule string) {
	w := c.W
	c.Doc(rule, "bleveIndex.IndexOne: no return avoids the call that hands the document to the index (no shortcut on 'same content as last time': Remove and Clear delete documents behind such a memo's back)")
	fn := w.Method("repository", "bleveIndex", "IndexOne")
	if fn == nil || len(fn.Blocks) == 0 {
		c.Undecided(rule, "anchor:bleveIndex.IndexOne", "repository", "not found")
		return
	}
	c.seeFn(funcName(fn))
	isIdx := func(i ssa.Instruction) bool {
		ci, ok := i.(ssa.CallInstruction)
		if !ok {
			return false
		}
		if _, isD := i.(*ssa.Defer); isD {
			return false
		}
		n, _ := callName(ci.Common())
		return strings.HasSuffix(n, "bleveIndex._index") || strings.HasSuffix(n, ".Index.Index") || strings.HasSuffix(n, "bleve.Index.Index")
	}
	bad, p, _ := pathSearch(fn, nil, nil, isAnyReturn, isIdx, false)
	c.Sites++
	c.Check(!bad, rule, "bleveIndex.IndexOne:always-reaches-the-index", w.FnPos(fn), "every return passes the indexing call",
		"IndexOne can return without indexing ("+blocksString(w, p)+"): a document removed and then indexed again with the same texts (an entity removed locally that comes back with a pull) stays out of the index — listed and resolvable, found by no full-text query")
}

// R11.15: the known labels are computed from the excerpts on every call.
func checkValidLabelsComputed(c *Ctx, rule string) {
	w := c.W
	c.Doc(rule, "RepoCacheBug.ValidLabels: every return is reached through an iteration over the excerpts table (no remembered answer: pulls and removals change the excerpts without going through the per-entity update callback)")
	fn := w.Method("cache", "RepoCacheBug", "ValidLabels")
	if fn == nil || len(fn.Blocks) == 0 {
		c.Undecided(rule, "anchor:RepoCacheBug.ValidLabels", "cache", "not found")
		return
	}
	c.seeFn(funcName(fn))
	isRange := func(i ssa.Instruction) bool {
		r, ok := i.(*ssa.Range)
		return ok && hasField(r.X, "excerpts")
	}
	bad, p, _ := pathSearch(fn, nil, nil, isAnyReturn, isRange, false)
	c.Sites++
	c.Check(!bad, rule, "RepoCacheBug.ValidLabels:computed-from-the-excerpts", w.FnPos(fn), "every return passes the walk over the excerpts",
		"ValidLabels can answer without looking at the excerpts ("+blocksString(w, p)+"): after a pull or a removal the labels offered are those of before, which a rebuilt cache would not answer")
}

// R12.12: a metadata qualifier matches present keys only.
func checkMetadataFilterPresence(c *Ctx, rule string) {
	w := c.W
	c.Doc(rule, "cache.MetadataFilter: the look-up in the excerpt's create-metadata is a comma-ok look-up whose presence result decides (absent key ⇒ no match), so metadata:key:\"\" does not match every bug that lacks the key")
	fn := w.Func("cache", "MetadataFilter")
	if fn == nil {
		c.Undecided(rule, "anchor:cache.MetadataFilter", "cache", "not found")
		return
	}
	ok, n := false, 0
	for _, f := range append([]*ssa.Function{fn}, fn.AnonFuncs...) {
		for _, b := range f.Blocks {
			for _, ins := range b.Instrs {
				lk, isLk := ins.(*ssa.Lookup)
				if !isLk || !hasField(lk.X, "CreateMetadata") {
					continue
				}
				n++
				c.seeFn(funcName(f))
				if !lk.CommaOk {
					continue
				}
				for _, r := range *lk.Referrers() {
					if e, isE := r.(*ssa.Extract); isE && e.Index == 1 && len(condUsers(e)) > 0 {
						ok = true
					}
				}
			}
		}
	}
	c.Sites += n
	c.Check(ok, rule, "MetadataFilter:absent-key-does-not-match", w.FnPos(fn), "presence of the key is tested",
		"the metadata filter compares the looked-up value without testing that the key is present: a missing key reads as the empty string, so a qualifier with an empty value returns every bug that lacks the key")
}

// R12.13: the query editor drops comment LINES only.
func checkQueryEditorComments(c *Ctx, rule string) {
	w := c.W
	c.Doc(rule, "input.QueryEditorInput: the only operation with the comment marker \"#\" is strings.HasPrefix on a line — a '#' inside a value (title:C#, label:#regression, \"parser #12\") belongs to the query handed to the parser")
	fn := w.Func("commands/bug/input", "QueryEditorInput")
	if fn == nil {
		c.Undecided(rule, "anchor:input.QueryEditorInput", "commands/bug/input", "not found")
		return
	}
	c.seeFn(funcName(fn))
	n := 0
	var bad []string
	for _, f := range fnAndHelpers(fn, 1) {
		for _, cl := range Calls(f) {
			for _, a := range cl.Instr.Common().Args {
				if s, ok := constString(a); ok && strings.Contains(s, "#") && len(s) <= 2 {
					n++
					if cl.Name != "strings.HasPrefix" {
						bad = append(bad, cl.Name+" at "+w.InstrPos(cl.Instr))
					}
				}
			}
		}
	}
	c.Sites += n
	c.Check(n > 0 && len(bad) == 0, rule, "QueryEditorInput:only-comment-lines-dropped", w.FnPos(fn), "'#' is only tested as a line prefix",
		"the comment marker is used by "+strings.Join(bad, ", ")+": a query whose value contains '#' is cut before it reaches the parser — it silently matches more bugs, loses its sort, or is refused as malformed")
}

// R14.10: removing a configuration section removes its sub-sections.
func checkConfigSectionRemoval(c *Ctx, rule string) {
	w := c.W
	c.Doc(rule, "goGitConfigWriter.RemoveAll: a whole section is removed with the configuration's RemoveSection (which drops its sub-sections: [git-bug \"bridge.x\"] …), a sub-section with RemoveSubsection, an option with RemoveOption; no branch empties a section by assigning its option list")
	fn := w.Method("repository", "goGitConfigWriter", "RemoveAll")
	if fn == nil || len(fn.Blocks) == 0 {
		c.Undecided(rule, "anchor:goGitConfigWriter.RemoveAll", "repository", "not found")
		return
	}
	c.seeFn(funcName(fn))
	have := map[string]bool{}
	for _, cl := range Calls(fn) {
		for _, m := range []string{"RemoveSection", "RemoveSubsection", "RemoveOption"} {
			if strings.HasSuffix(cl.Name, "."+m) {
				have[m] = true
			}
		}
	}
	assigns := ""
	for _, b := range fn.Blocks {
		for _, ins := range b.Instrs {
			if st, ok := ins.(*ssa.Store); ok {
				if fa, isFA := st.Addr.(*ssa.FieldAddr); isFA && (fieldName(fa) == "Options" || fieldName(fa) == "Subsections") {
					assigns = w.InstrPos(st)
				}
			}
		}
	}
	c.Sites += 4
	c.Check(have["RemoveSection"] && have["RemoveSubsection"] && have["RemoveOption"] && assigns == "", rule, "goGitConfigWriter.RemoveAll:whole-section", w.FnPos(fn), "RemoveSection / RemoveSubsection / RemoveOption",
		"a configuration section is not removed with RemoveSection (options assigned at "+assigns+"): the keys of its sub-sections — the bridge configurations [git-bug \"bridge.<name>\"] with their credentials' ids — survive 'git bug wipe'")
}

// R14.11: the removal is one step for concurrent users.
func checkRemoveIndexUnderLock(c *Ctx, rule string, lw *lockWorld) {
	w := c.W
	c.Doc(rule, "SubCache.Remove / RemoveAll: the index removal happens while the sub-cache's write lock taken for the in-memory deletions is still held — no window in which the excerpt is gone and the index document still answers queries")
	for _, m := range []string{"Remove", "RemoveAll"} {
		fn := w.Method("cache", "SubCache", m)
		if fn == nil {
			c.Undecided(rule, "anchor:SubCache."+m, "cache", "not found")
			continue
		}
		fn = bodyOf(fn)
		c.seeFn(funcName(fn))
		li := lw.info(fn)
		key := valueKey(fn.Params[0]) + ".mu"
		n := 0
		bad := ""
		for _, cl := range Calls(fn) {
			if cl.Name != "repository.Index.Remove" && cl.Name != "repository.Index.Clear" {
				continue
			}
			n++
			c.Sites++
			if !li.holds(cl.Instr, key, true) {
				bad = w.InstrPos(cl.Instr)
			}
		}
		c.Check(n > 0 && bad == "", rule, "SubCache."+m+":index-removal-under-the-lock", w.FnPos(fn), "index removal with sc.mu held for writing",
			"the index document is removed at "+bad+" after the sub-cache lock was released: a concurrent full-text query finds the document of an entity whose excerpt is gone (nil excerpt, panic), and a process stopped in that window leaves a cache whose two sizes agree and which still lists the removed entity")
	}
}

// R15.16: only removal removes refs.
func checkWhoRemovesRefs(c *Ctx, rule string) {
	w := c.W
	c.Doc(rule, "outside package repository, RemoveRef is called only by dag.Remove and identity.Remove (the removal of an entity the user asked for) — a merge that meets a ref it refuses leaves it alone: refs/remotes/<remote>/bugs/* also holds the tracking branches of host branches named bugs/…")
	n := 0
	for _, f := range w.ModFns {
		if isInstance(f) && false {
			continue
		}
		if w.isTestHelper(f) || fnPkgPath(f) == modPath+"/repository" || !w.inModule(f) {
			continue
		}
		for _, cl := range Calls(f) {
			if !strings.HasSuffix(cl.Name, ".RemoveRef") || !strings.Contains(cl.Name, "repository.") {
				continue
			}
			n++
			c.Sites++
			root := bodyOf(f)
			for root.Parent() != nil {
				root = root.Parent()
			}
			name := funcName(root)
			c.seeFn(name)
			ok := onlyReachedFrom(w, root, map[string]bool{"entity/dag.Remove": true, "entities/identity.Remove": true}, map[*ssa.Function]bool{})
			c.Check(ok, rule, name+":removes-a-ref", w.InstrPos(cl.Instr), "removal of an entity",
				name+" removes a ref although nobody asked for a removal: applied to refs under refs/remotes/<remote>/<namespace>/ this deletes the remote-tracking branches of host branches that happen to live there (bugs/1234-crash-on-start)")
		}
	}
	if n < 2 {
		c.Violate(rule, "expected:RemoveRef-callers", "module", fmt.Sprintf("%d callers of RemoveRef outside package repository (reference 2)", n))
	}
}

// R16.18: importers record label events as the tracker reports them.
func checkImportersForceLabelChanges(c *Ctx, rule string) {
	w := c.W
	c.Doc(rule, "bridge importers: label events are recorded with ForceChangeLabelsRaw — the checked variants refuse an event that does not change the reconstructed label set ('remove X' without a recorded 'add X'), which trackers do report: the import would fail on every run, the cursor never advance")
	n := 0
	var bad []string
	for _, f := range w.ModFns {
		if isInstance(f) || w.isTestHelper(f) || !strings.HasPrefix(fnPkgPath(f), modPath+"/bridge/") || strings.Contains(funcName(f), "xport") {
			continue
		}
		for _, cl := range Calls(f) {
			switch {
			case strings.HasSuffix(cl.Name, "BugCache.ForceChangeLabelsRaw"), strings.HasSuffix(cl.Name, "BugCache.ForceChangeLabels"):
				n++
				c.seeFn(funcName(f))
			case strings.HasSuffix(cl.Name, "BugCache.ChangeLabelsRaw"), strings.HasSuffix(cl.Name, "BugCache.ChangeLabels"):
				n++
				c.seeFn(funcName(f))
				bad = append(bad, funcName(f)+" at "+w.InstrPos(cl.Instr))
			}
		}
	}
	c.Sites += n
	sort.Strings(bad)
	c.Check(n >= 4 && len(bad) == 0, rule, "importers:label-events-forced", "bridge", fmt.Sprintf("%d label-recording calls, all of the Force variant", n),
		"an importer records a label event with the checked variant ("+strings.Join(bad, "; ")+"): a label history that is not self-consistent makes every import report an error, the cursor is never stored and the operations after it are missing")
}

// R10.2 (extension): appending never compiles.
func checkAppendNeverCompiles(c *Ctx, rule string) {
	w := c.W
	fn := w.Method("cache", "withSnapshot", "Append")
	if fn == nil {
		return
	}
	fn = bodyOf(fn)
	c.seeFn(funcName(fn))
	bad := ""
	for _, cl := range Calls(fn) {
		if strings.HasSuffix(cl.Name, ".Compile") {
			bad = "Compile at " + w.InstrPos(cl.Instr)
		}
	}
	for _, b := range fn.Blocks {
		for _, ins := range b.Instrs {
			if st, ok := ins.(*ssa.Store); ok {
				if fa, isFA := st.Addr.(*ssa.FieldAddr); isFA && fieldName(fa) == "snap" {
					bad = "store to snap at " + w.InstrPos(st)
				}
			}
		}
	}
	c.Sites++
	c.Check(bad == "", rule, "withSnapshot.Append:no-compile-after-append", w.FnPos(fn), "Append maintains an existing snapshot only",
		"Append builds a snapshot itself ("+bad+") after the operation was appended to the entity and then applies the operation to it: the operation is applied twice — the returned bug shows the comment twice and the wrong count goes into the cache file")
}

// R19.14: the interrupt cleaner of a command exists only once the repository is this process's.
func checkCleanerAfterOpen(c *Ctx, rule string) {
	w := c.W
	c.Doc(rule, "commands/execenv: interrupt.RegisterCleaner for the closer of the backend is called only on the success edge of the cache-open event stream (CacheBuildProgressBar) — a command that was refused because another process holds the lock has no cleaner that would close the cache and delete that process's lock when a signal arrives")
	n := 0
	for _, f := range w.ModFns {
		if isInstance(f) || w.isTestHelper(f) || fnPkgPath(f) != modPath+"/commands/execenv" {
			continue
		}
		var open *ssa.Call
		for _, cl := range Calls(f) {
			if cl.Name == "commands/execenv.CacheBuildProgressBar" {
				open, _ = cl.Instr.(*ssa.Call)
			}
		}
		for _, cl := range Calls(f) {
			if !strings.HasSuffix(cl.Name, "interrupt.RegisterCleaner") {
				continue
			}
			n++
			c.Sites++
			c.seeFn(funcName(f))
			ok := open != nil && dominatedBySuccess(open, cl.Instr)
			c.Check(ok, rule, funcName(f)+":cleaner-registered-after-the-open-succeeded", w.InstrPos(cl.Instr), "registered on the success edge of the open",
				"the cleaner that closes the backend is registered before the outcome of the open is known: a command refused with 'already locked by the process pid N' that is interrupted before it exits runs the cleaner, RepoCache.Close removes the lock file — of the live holder")
		}
	}
	if n == 0 {
		c.Violate(rule, "expected:RegisterCleaner", "commands/execenv", "no interrupt cleaner registered in execenv")
	}
}

// R16.19 (GitHub): the import's start time selects issues, not events.
func checkSinceSelectsIssuesOnly(c *Ctx, rule string) {
	w := c.W
	c.Doc(rule, "bridge/github importMediator: the 'since' time is used only as a variable of the issue-listing query — no relay loop (fill*) skips an edit, comment or timeline item by comparing its date with it: the importer takes the first edit listed for a text as its creation, so a filtered history makes the first new edit of an already imported text disappear without an error")
	n := 0
	var bad []string
	for _, f := range w.ModFns {
		if isInstance(f) || w.isTestHelper(f) || fnPkgPath(f) != modPath+"/bridge/github" {
			continue
		}
		for _, b := range f.Blocks {
			for _, ins := range b.Instrs {
				fa, ok := ins.(*ssa.FieldAddr)
				if !ok || fieldName(fa) != "since" {
					continue
				}
				bt := fa.X.Type()
				if p, isP := bt.Underlying().(*types.Pointer); isP {
					bt = p.Elem()
				}
				if !strings.HasSuffix(typeShortName(bt), "importMediator") {
					continue
				}
				for _, r := range *fa.Referrers() {
					ld, isLd := r.(*ssa.UnOp)
					if !isLd {
						continue // a store (construction)
					}
					n++
					c.seeFn(funcName(f))
					okUse := true
					for _, u := range *ld.Referrers() {
						ci, isCall := u.(ssa.CallInstruction)
						if !isCall {
							okUse = false
							continue
						}
						nm, _ := callName(ci.Common())
						if !strings.Contains(nm, "Vars") {
							okUse = false
						}
					}
					if !okUse {
						bad = append(bad, funcName(f)+" at "+w.InstrPos(ld))
					}
				}
			}
		}
	}
	c.Sites += n
	c.Check(n >= 1 && len(bad) == 0, rule, "importMediator.since:query-variable-only", "bridge/github/import_mediator.go", fmt.Sprintf("%d reads, all handed to a query-variables constructor", n),
		"the start time of the import is used outside the issue query ("+strings.Join(bad, "; ")+"): events older than the previous import are filtered out of the relayed history, and the importer — which takes the first edit listed for a text as its creation — drops the first new edit of every text imported earlier, silently and for good (the cursor advances)")
}

// onlyReachedFrom: f is one of the allowed functions, or a same-package helper every static caller of which
// (transitively) is — extracting a step into a helper does not change who performs it.
func onlyReachedFrom(w *World, f *ssa.Function, allowed map[string]bool, seen map[*ssa.Function]bool) bool {
	if allowed[funcName(f)] {
		return true
	}
	if seen[f] {
		return true
	}
	seen[f] = true
	if f.Object() != nil && f.Object().Exported() {
		return false
	}
	n := 0
	for _, g := range w.ModFns {
		if w.isTestHelper(g) || fnPkgPath(g) != fnPkgPath(f) {
			continue
		}
		for _, b := range g.Blocks {
			for _, ins := range b.Instrs {
				ci, ok := ins.(ssa.CallInstruction)
				if !ok {
					continue
				}
				cal := ci.Common().StaticCallee()
				if cal == nil || bodyOf(cal) != f {
					continue
				}
				n++
				root := bodyOf(g)
				for root.Parent() != nil {
					root = root.Parent()
				}
				if !onlyReachedFrom(w, root, allowed, seen) {
					return false
				}
			}
		}
	}
	return n > 0
}
