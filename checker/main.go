package main

import (
	"encoding/json"
	"flag"
	"fmt"
	"os"
	"path/filepath"
	"runtime/debug"
	"sort"
	"strconv"
	"strings"
	"time"

	"golang.org/x/tools/go/ssa"
)

type propRule struct {
	id      string
	explain string
	assume  []string
	run     func(c *Ctx)
}

var registry = map[string]*propRule{}

func register(id, explain string, assume []string, run func(c *Ctx)) {
	registry[id] = &propRule{id, explain, assume, run}
}

func main() {
	prop := flag.String("property", "", "property id (C01..C20) or 'all'")
	tier := flag.String("tier", "", "quick|thorough (default: $VERIF_TIER or quick)")
	repo := flag.String("repo", "/repo", "repository to analyse")
	verif := flag.String("verif", "", "verif directory (default: parent of the binary's directory)")
	explain := flag.String("explain", "", "re-evaluate the obligation stored in a violation report")
	list := flag.Bool("list", false, "print every obligation")
	dump := flag.String("dump", "", "debug: print the SSA of pkg:func or pkg:Type.method")
	overlayFile := flag.String("overlay", "", "JSON file {absolute path: replacement content} analysed instead of the files on disk (checker self-validation only)")
	flag.Parse()

	if *verif == "" {
		exe, err := os.Executable()
		if err == nil {
			*verif = filepath.Dir(filepath.Dir(exe))
		} else {
			*verif = "/verif"
		}
	}
	if *tier == "" {
		*tier = os.Getenv("VERIF_TIER")
	}
	if *tier != "thorough" {
		*tier = "quick"
	}
	var seed int64
	if s := os.Getenv("VERIF_SEED"); s != "" {
		seed, _ = strconv.ParseInt(s, 10, 64)
	}

	if *explain != "" {
		os.Exit(doExplain(*explain, *repo, *verif, *tier, seed))
	}
	var overlay map[string][]byte
	if *overlayFile != "" {
		data, err := os.ReadFile(*overlayFile)
		if err != nil {
			fmt.Println(err)
			os.Exit(2)
		}
		var m map[string]string
		if err := json.Unmarshal(data, &m); err != nil {
			fmt.Println(err)
			os.Exit(2)
		}
		overlay = map[string][]byte{}
		for k, v := range m {
			overlay[k] = []byte(v)
		}
	}
	if *dump == "panics" {
		w, err := loadWorld(*repo, overlay)
		if err != nil {
			fmt.Println(err)
			os.Exit(1)
		}
		debugPanics(w)
		os.Exit(0)
	}
	if *dump != "" {
		w, err := loadWorld(*repo, overlay)
		if err != nil {
			fmt.Println(err)
			os.Exit(1)
		}
		parts := strings.SplitN(*dump, ":", 2)
		var fn *ssa.Function
		if tm := strings.SplitN(parts[1], ".", 2); len(tm) == 2 {
			fn = w.Method(parts[0], tm[0], tm[1])
		} else {
			fn = w.Func(parts[0], parts[1])
		}
		if fn == nil {
			fmt.Println("not found")
			os.Exit(1)
		}
		fn.WriteTo(os.Stdout)
		for _, a := range fn.AnonFuncs {
			a.WriteTo(os.Stdout)
		}
		for _, c := range Calls(fn) {
			fmt.Printf("CALL %s @ %s\n", c.Name, w.InstrPos(c.Instr))
		}
		os.Exit(0)
	}
	if *prop == "" {
		fmt.Println("usage: gbcheck -property <id|all> [-tier quick|thorough]")
		os.Exit(2)
	}
	var ids []string
	if *prop == "all" {
		for id := range registry {
			ids = append(ids, id)
		}
		sort.Strings(ids)
	} else {
		for _, id := range strings.Split(*prop, ",") {
			if registry[id] == nil {
				fmt.Printf("unknown property %s\n", id)
				os.Exit(2)
			}
			ids = append(ids, id)
		}
	}
	t0 := time.Now()
	w, err := loadWorld(*repo, overlay)
	if err != nil {
		// a tree that cannot be analysed cannot be decided: alarm
		for _, id := range ids {
			failAll(*verif, id, *tier, seed, err)
		}
		os.Exit(1)
	}
	loadSecs := time.Since(t0).Seconds()
	exit := 0
	for _, id := range ids {
		ts := time.Now()
		c := runProperty(w, id, *tier)
		if *tier == "thorough" && overlay == nil {
			c.Sensitivity = runBattery(id, *repo, *verif)
		}
		// loading and SSA construction are shared by the properties of one run and counted for each
		wall := loadSecs + time.Since(ts).Seconds()
		if *list {
			for _, o := range c.Obs {
				fmt.Printf("  %-9s %-8s %s @ %s  %s\n", o.Verdict, o.Rule, o.Key, o.Pos, o.Detail)
			}
		}
		if rc := c.finish(*verif, wall, seed); rc != 0 {
			exit = 1
		}
	}
	os.Exit(exit)
}

// properties whose rules rely on write-effect classification at the storage boundary
var effectProps = map[string]bool{"C01": true, "C02": true, "C04": true, "C06": true, "C07": true, "C09": true, "C11": true, "C14": true, "C15": true, "C17": true}

// error sentinels whose == tests a property's mechanisms rely on
var sentinelProps = map[string][]string{
	"C05": {"ErrClockNotExist"},
	"C07": {"ErrNotFound", "ErrKeyringKeyNotFound"},
	"C08": {"ErrKeyringKeyNotFound"},
	"C16": {"ErrNoMatchingOp", "ErrMultipleMatchOp"},
	"C17": {"ErrNotAuthenticated"},
}

func runProperty(w *World, id, tier string) (c *Ctx) {
	pr := registry[id]
	c = &Ctx{W: w, Prop: id, Tier: tier, Explain: pr.explain, Assume: append([]string{
		"go/types, go/ssa and go/packages (x/tools v0.29.0) represent /repo's current working tree faithfully; build tags: default (linux/amd64), tests excluded",
	}, pr.assume...)}
	defer func() {
		if r := recover(); r != nil {
			c.Undecided("engine", "analyser-panic", "?", fmt.Sprintf("%v\n%s", r, debug.Stack()))
		}
	}()
	pr.run(c)
	if effectProps[id] {
		checkEffectTableComplete(c)
	}
	if ss := sentinelProps[id]; len(ss) > 0 {
		checkSentinelsBare(c, ss...)
	}
	return c
}

func failAll(verif, id, tier string, seed int64, err error) {
	fmt.Printf("  UNDECIDED engine [load] %v\n", err)
	vdir := filepath.Join(verif, "evidence", "violations")
	os.MkdirAll(vdir, 0o755)
	path := filepath.Join(vdir, id+"-01-load-failure.json")
	data, _ := json.MarshalIndent(map[string]any{"property": id, "tier": tier, "error": err.Error()}, "", " ")
	os.WriteFile(path, data, 0o644)
	ev := map[string]any{
		"property_id": id, "tier": tier, "seed": seed, "level": "other",
		"coverage": map[string]any{"explanation": "the tree could not be loaded/type-checked, nothing was decided: " + err.Error(),
			"obligations": 1, "discharged": 0, "evaluations": 1, "distinct_nontrivial": 2, "samples": []string{err.Error()}},
		"wall_s": 0.0, "violations": 1,
	}
	d2, _ := json.MarshalIndent(ev, "", " ")
	os.WriteFile(filepath.Join(verif, "evidence", id+".json"), d2, 0o644)
	fmt.Printf("VIOLATION property=%s replay=%s\n", id, path)
}

// doExplain re-evaluates the property of a stored violation report on the current
// tree and prints the obligation with today's verdict.
func doExplain(path, repo, verif, tier string, seed int64) int {
	data, err := os.ReadFile(path)
	if err != nil {
		fmt.Println(err)
		return 2
	}
	var rep violationReport
	if err := json.Unmarshal(data, &rep); err != nil || rep.Property == "" || registry[rep.Property] == nil {
		fmt.Printf("not a violation report: %s\n", path)
		return 2
	}
	fmt.Printf("stored: property=%s rule=%s key=%s at %s\n  %s\n  rule: %s\n", rep.Property, rep.Obligation.Rule, rep.Obligation.Key, rep.Obligation.Pos, rep.Obligation.Detail, rep.RuleDoc)
	w, err := loadWorld(repo, nil)
	if err != nil {
		fmt.Printf("current tree cannot be analysed: %v\n", err)
		return 1
	}
	if rep.Tier != "" {
		tier = rep.Tier
	}
	c := runProperty(w, rep.Property, tier)
	found := false
	rc := 0
	for _, o := range c.Obs {
		if o.ID() == rep.Obligation.ID() {
			found = true
			fmt.Printf("now:    %s at %s\n  %s\n", o.Verdict, o.Pos, o.Detail)
			if o.Verdict == "violated" || o.Verdict == "undecided" {
				rc = 1
			}
		}
	}
	if !found {
		fmt.Println("now:    the construct is no longer present / the obligation is no longer generated")
	}
	return rc
}
