package main

import (
	"fmt"
	"go/constant"
	"go/token"
	"go/types"
	"os"
	"path/filepath"
	"regexp"
	"sort"
	"strings"

	"golang.org/x/tools/go/ssa"
)

func init() {
	register("C12",
		"Static analysis of the query language plumbing: (R12.1) every field of query.Filters is compiled, through the matching filter constructor, into the matching Matcher field, every Matcher field is evaluated in Match with the documented combinator (any-of: status, author, metadata, actor, participant; all-of: label, title, no-filters) and a failing group makes Match false; orMatch/andMatch are, by abstract interpretation over every truth assignment of up to 3 filters, exactly OR and AND with 'true' on an empty list; (R12.2) every qualifier, status, 'no:' value and sort key documented in doc/queries.md is accepted by the parser, feeds the field of the same name, and each documented sort key sets the documented order and direction; 'sort' can be given once; (R12.3) each sorter's Less is, by abstract interpretation over all key orderings, the ascending lexicographic order on its (Lamport time, unix time) pair (id for the id sorter), each OrderBy constant selects its own sorter and only 'descending' reverses; (R12.4) the result is built from the filtered excerpts after sort.Sort; (R12.5) name/login/title matching lowers both sides; (R12.6) no explicit panic and no unguarded constant-index access is reachable from query.Parse.",
		[]string{"sort.Sort/sort.Reverse behave as documented", "matching semantics over actual bug populations and quoting corner cases of the lexer are not computed", "bleve full-text search is a dependency"},
		runC12)
}

// ---- tiny abstract interpreter for "fold of opaque predicates over a slice" ----

// interpFold runs fn(filters []F, ...) with len(filters) == n and the i-th predicate returning vals[i].
// Returns 1/0, or -1 with a reason when the function uses something the interpreter does not model.
func interpFold(fn *ssa.Function, n int, vals []bool) (int, string) {
	type val struct {
		kind string // "bool" | "int" | "slice" | "pred"
		b    bool
		i    int64
	}
	var sliceParam ssa.Value
	for _, p := range fn.Params {
		if _, ok := p.Type().Underlying().(*types.Slice); ok {
			sliceParam = p
		}
	}
	if sliceParam == nil {
		return -1, "no slice parameter"
	}
	env := map[ssa.Value]val{sliceParam: {kind: "slice"}}
	get := func(v ssa.Value) (val, bool) {
		if c, ok := v.(*ssa.Const); ok && c.Value != nil {
			if k, ok := constInt(c); ok {
				return val{kind: "int", i: k}, true
			}
			s := c.Value.String()
			if s == "true" || s == "false" {
				return val{kind: "bool", b: s == "true"}, true
			}
		}
		x, ok := env[v]
		return x, ok
	}
	b := fn.Blocks[0]
	var prev *ssa.BasicBlock
	for steps := 0; steps < 2000; steps++ {
		for _, ins := range b.Instrs {
			switch x := ins.(type) {
			case *ssa.Phi:
				for i, p := range b.Preds {
					if p == prev {
						if v, ok := get(x.Edges[i]); ok {
							env[x] = v
						} else {
							return -1, "phi operand not evaluated: " + x.String()
						}
					}
				}
			case *ssa.Call:
				if bi, ok := x.Common().Value.(*ssa.Builtin); ok && bi.Name() == "len" {
					if v, ok := get(x.Common().Args[0]); ok && v.kind == "slice" {
						env[x] = val{kind: "int", i: int64(n)}
						continue
					}
					return -1, "len of something else"
				}
				if v, ok := get(x.Common().Value); ok && v.kind == "pred" {
					if int(v.i) >= len(vals) {
						return -1, "index out of the modelled range"
					}
					env[x] = val{kind: "bool", b: vals[v.i]}
					continue
				}
				return -1, "call of something that is not one of the filters: " + x.String()
			case *ssa.IndexAddr:
				sv, ok1 := get(x.X)
				iv, ok2 := get(x.Index)
				if ok1 && ok2 && sv.kind == "slice" && iv.kind == "int" {
					env[x] = val{kind: "pred", i: iv.i}
					continue
				}
				return -1, "unmodelled element address"
			case *ssa.UnOp:
				switch x.Op {
				case token.MUL:
					if v, ok := get(x.X); ok && v.kind == "pred" {
						env[x] = v
						continue
					}
					return -1, "unmodelled load"
				case token.NOT:
					if v, ok := get(x.X); ok && v.kind == "bool" {
						env[x] = val{kind: "bool", b: !v.b}
						continue
					}
					return -1, "negation of unevaluated value"
				}
			case *ssa.BinOp:
				l, ok1 := get(x.X)
				r, ok2 := get(x.Y)
				if !ok1 || !ok2 {
					return -1, "operand not evaluated: " + x.String()
				}
				if l.kind == "int" && r.kind == "int" {
					switch x.Op {
					case token.ADD:
						env[x] = val{kind: "int", i: l.i + r.i}
					case token.SUB:
						env[x] = val{kind: "int", i: l.i - r.i}
					case token.LSS:
						env[x] = val{kind: "bool", b: l.i < r.i}
					case token.LEQ:
						env[x] = val{kind: "bool", b: l.i <= r.i}
					case token.GTR:
						env[x] = val{kind: "bool", b: l.i > r.i}
					case token.GEQ:
						env[x] = val{kind: "bool", b: l.i >= r.i}
					case token.EQL:
						env[x] = val{kind: "bool", b: l.i == r.i}
					case token.NEQ:
						env[x] = val{kind: "bool", b: l.i != r.i}
					default:
						return -1, "unmodelled integer operator"
					}
					continue
				}
				if l.kind == "bool" && r.kind == "bool" {
					switch x.Op {
					case token.AND, token.LAND:
						env[x] = val{kind: "bool", b: l.b && r.b}
					case token.OR, token.LOR:
						env[x] = val{kind: "bool", b: l.b || r.b}
					case token.EQL:
						env[x] = val{kind: "bool", b: l.b == r.b}
					case token.NEQ, token.XOR:
						env[x] = val{kind: "bool", b: l.b != r.b}
					default:
						return -1, "unmodelled boolean operator"
					}
					continue
				}
				return -1, "mixed operands"
			case *ssa.If:
				v, ok := get(x.Cond)
				if !ok || v.kind != "bool" {
					return -1, "branch on unevaluated condition"
				}
				prev = b
				if v.b {
					b = b.Succs[0]
				} else {
					b = b.Succs[1]
				}
				goto next
			case *ssa.Jump:
				prev = b
				b = b.Succs[0]
				goto next
			case *ssa.Return:
				v, ok := get(x.Results[0])
				if !ok || v.kind != "bool" {
					return -1, "returns an unevaluated value"
				}
				if v.b {
					return 1, ""
				}
				return 0, ""
			case *ssa.DebugRef:
			default:
				return -1, "unmodelled instruction " + ins.String()
			}
		}
		return -1, "fell off a block"
	next:
	}
	return -1, "did not terminate"
}

func checkFoldIs(c *Ctx, fn *ssa.Function, key string, isOr bool) {
	w := c.W
	if fn == nil {
		c.Undecided("R12.1", "anchor:"+key, "cache", "not found")
		return
	}
	c.seeFn(funcName(fn))
	for n := 0; n <= 3; n++ {
		for mask := 0; mask < 1<<n; mask++ {
			vals := make([]bool, n)
			want := !isOr
			if n == 0 {
				want = true
			}
			for i := 0; i < n; i++ {
				vals[i] = mask&(1<<i) != 0
				if isOr {
					want = want || vals[i]
				} else {
					want = want && vals[i]
				}
			}
			got, why := interpFold(fn, n, vals)
			c.Sites++
			if got < 0 {
				c.Undecided("R12.1", key, w.FnPos(fn), "combinator not interpretable: "+why)
				return
			}
			if (got == 1) != want {
				op := "all"
				if isOr {
					op = "any"
				}
				c.Violate("R12.1", key, w.FnPos(fn), fmt.Sprintf("for filter results %v the combinator returns %v, '%s of' requires %v", vals, got == 1, op, want))
				return
			}
		}
	}
	what := "AND (all-of)"
	if isOr {
		what = "OR (any-of)"
	}
	c.Hold("R12.1", key, w.FnPos(fn), "is "+what+" for every assignment of 0..3 filters; true on the empty list")
}

func runC12(c *Ctx) {
	w := c.W
	c.Doc("R12.1", "Filters field → filter constructor → Matcher field mapping is the reference one and total; Match evaluates each Matcher field once with the documented combinator and a false group returns false; orMatch/andMatch are OR/AND")
	c.Doc("R12.2", "documented qualifiers / statuses / no-values / sort keys ⊆ what the parser accepts; each qualifier feeds the Filters field of its name; each sort key sets the documented (OrderBy, OrderDirection); a second sort is an error")
	c.Doc("R12.3", "sorters are ascending lexicographic on their documented keys; OrderBy→sorter mapping is injective and by name; only OrderDescending reverses")
	c.Doc("R12.4", "Query's result is built from the filtered slice after sort.Sort(sorter over that slice)")
	c.Doc("R12.5", "identity and title matching compare lower-cased text on both sides")
	c.Doc("R12.6", "no explicit panic and no unguarded constant-index access reachable from query.Parse")
	checkCompileMatcher(c)
	checkExcerptDataPath(c, "R12.9")
	// the excerpt carries what the commit assigned (edit Lamport time: sort:edit) — every staging/committing method notifies (shared with C11)
	c.Doc("R11.2", "every exported method of the cache entities that stages or commits operations calls notifyUpdated before it succeeds")
	checkMutatorsNotify(c, "R11.2")
	// after a pull the excerpts queried are those of the merged entities (shared with C02/C11)
	checkCacheMergeFold(c, "R2.6")
	checkResolversNotMemoised(c, "R12.11")
	checkExcerptsDeletedOnlyByRemoval(c, "R11.13")
	checkMetadataFilterPresence(c, "R12.12")
	checkQueryEditorComments(c, "R12.13")
	checkRepairQuery(c)
	checkMatch(c)
	checkLexerAutomaton(c)
	checkTokenize(c)
	checkFoldIs(c, w.Method("cache", "Matcher", "orMatch"), "cache.Matcher.orMatch", true)
	checkFoldIs(c, w.Method("cache", "Matcher", "andMatch"), "cache.Matcher.andMatch", false)
	checkParserTables(c)
	checkSorters(c)
	checkQueryResult(c)
	checkCaseInsensitive(c)
	// R12.6
	roots := []*ssa.Function{w.Func("query", "Parse")}
	if roots[0] == nil {
		c.Undecided("R12.6", "anchor:query.Parse", "query", "not found")
		return
	}
	ps, n := reachablePanics(w, roots)
	for _, p := range ps {
		c.Violate("R12.6", funcName(p.Fn)+":panic", w.InstrPos(p.Ins), "explicit panic reachable from query.Parse via "+p.Path)
	}
	if len(ps) == 0 {
		c.Hold("R12.6", "query.Parse:no-panic", w.FnPos(roots[0]), fmt.Sprintf("%d reachable functions, no explicit panic", n))
	}
	parent := w.Reach(roots, nil)
	var fns []*ssa.Function
	for f := range parent {
		fns = append(fns, f)
	}
	sort.Slice(fns, func(i, j int) bool { return fnLess(fns[i], fns[j]) })
	nIdx := 0
	for _, f := range fns {
		for _, b := range f.Blocks {
			for _, ins := range b.Instrs {
				ia, ok := ins.(*ssa.IndexAddr)
				if !ok {
					continue
				}
				if _, isSlice := ia.X.Type().Underlying().(*types.Slice); !isSlice {
					continue
				}
				k, isK := constInt(ia.Index)
				if !isK {
					continue
				}
				nIdx++
				c.Sites++
				what := ia.X.Name()
				if phi, isPhi := ia.X.(*ssa.Phi); isPhi && phi.Comment != "" {
					what = phi.Comment
				}
				key := fmt.Sprintf("%s:%s[%d]", funcName(f), what, k)
				c.Check(lenGuarded(ia, ia.X, k), "R12.6", key, w.InstrPos(ia), "dominated by a length guard", fmt.Sprintf("element %d is accessed without a dominating guard on the length: some query string makes the parser panic", k))
			}
		}
	}
	if nIdx < 4 {
		c.Violate("R12.6", "expected:const-index-sites", "query", fmt.Sprintf("%d constant-index accesses reachable from Parse (reference 7)", nIdx))
	}
}

var filterTable = map[string][2]string{ // Filters field -> {constructor, Matcher field}
	"Status": {"cache.StatusFilter", "Status"}, "Author": {"cache.AuthorFilter", "Author"}, "Metadata": {"cache.MetadataFilter", "Metadata"},
	"Actor": {"cache.ActorFilter", "Actor"}, "Participant": {"cache.ParticipantFilter", "Participant"}, "Label": {"cache.LabelFilter", "Label"},
	"Title": {"cache.TitleFilter", "Title"}, "NoLabel": {"cache.NoLabelFilter", "NoFilters"},
}

func checkCompileMatcher(c *Ctx) {
	w := c.W
	fn := w.Func("cache", "compileMatcher")
	if fn == nil {
		c.Undecided("R12.1", "anchor:cache.compileMatcher", "cache", "not found")
		return
	}
	c.seeFn(funcName(fn))
	got := map[string][2]string{}
	for _, b := range fn.Blocks {
		for _, ins := range b.Instrs {
			st, ok := ins.(*ssa.Store)
			if !ok {
				continue
			}
			fa, ok := st.Addr.(*ssa.FieldAddr)
			if !ok || typeShortName(fa.X.Type()) != "cache.Matcher" {
				continue
			}
			c.Sites++
			for _, v := range appendedValues(st.Val) {
				call, isCall := v.(*ssa.Call)
				if !isCall {
					continue
				}
				ctor, _ := callName(call.Common())
				src := ""
				if len(call.Common().Args) > 0 {
					for _, f := range originFields(call.Common().Args[0]) {
						src = f
					}
				} else {
					// constructor without argument: controlled by a boolean field of the filters
					for _, cc := range controlConds(st.Block(), nil) {
						for _, f := range originFields(cc.If.Cond) {
							if cc.Edge == 0 {
								src = f
							}
						}
					}
				}
				if src != "" {
					got[src] = [2]string{ctor, fieldName(fa)}
				}
			}
		}
	}
	ft, _ := w.Pkg("query").Types.Scope().Lookup("Filters").Type().Underlying().(*types.Struct)
	if ft == nil {
		c.Undecided("R12.1", "anchor:query.Filters", "query", "type not found")
		return
	}
	for i := 0; i < ft.NumFields(); i++ {
		f := ft.Field(i).Name()
		want, known := filterTable[f]
		g, have := got[f]
		key := "compileMatcher:" + f
		switch {
		case !have:
			c.Violate("R12.1", key, w.FnPos(fn), "the filter field "+f+" of a parsed query is never compiled into the matcher: the qualifier is silently ignored")
		case !known:
			c.Hold("R12.1", key, w.FnPos(fn), f+" → "+g[0]+" → Matcher."+g[1]+" (not in the reference table; checked for presence only)")
		case g != want:
			c.Violate("R12.1", key, w.FnPos(fn), fmt.Sprintf("%s is compiled with %s into Matcher.%s; expected %s into Matcher.%s", f, g[0], g[1], want[0], want[1]))
		default:
			c.Hold("R12.1", key, w.FnPos(fn), f+" → "+g[0]+" → Matcher."+g[1])
		}
	}
}

func checkMatch(c *Ctx) {
	w := c.W
	fn := w.Method("cache", "Matcher", "Match")
	if fn == nil {
		c.Undecided("R12.1", "anchor:cache.Matcher.Match", "cache", "not found")
		return
	}
	c.seeFn(funcName(fn))
	anyOf := map[string]bool{"Status": true, "Author": true, "Metadata": true, "Actor": true, "Participant": true}
	seen := map[string]string{}
	for _, cl := range Calls(fn) {
		if cl.Name != "cache.Matcher.orMatch" && cl.Name != "cache.Matcher.andMatch" {
			continue
		}
		c.Sites++
		fld := ""
		for _, f := range originFields(cl.Args()[0]) {
			fld = f
		}
		comb := strings.TrimPrefix(cl.Name, "cache.Matcher.")
		if prev, dup := seen[fld]; dup {
			c.Violate("R12.1", "Match:"+fld, w.InstrPos(cl.Instr), "group "+fld+" is evaluated twice ("+prev+", "+comb+")")
			continue
		}
		seen[fld] = comb
		want := "andMatch"
		if anyOf[fld] {
			want = "orMatch"
		}
		if comb != want {
			c.Violate("R12.1", "Match:"+fld, w.InstrPos(cl.Instr), fmt.Sprintf("the %s filters are combined with %s; documented: %s", fld, comb, want))
			continue
		}
		// a false group returns false
		okFalse := false
		for _, u := range condUsers(cl.Value()) {
			e := 1
			if u.Neg {
				e = 0
			}
			fb := u.If.Block().Succs[e]
			if len(fb.Instrs) > 0 {
				if r, isR := fb.Instrs[len(fb.Instrs)-1].(*ssa.Return); isR {
					if k, isK := r.Results[0].(*ssa.Const); isK && k.Value != nil && k.Value.String() == "false" {
						okFalse = true
					}
				}
			}
		}
		c.Check(okFalse, "R12.1", "Match:"+fld, w.InstrPos(cl.Instr), comb+"; a failing group makes Match false", "the result of the "+fld+" group does not make Match return false when it fails")
	}
	mt, _ := w.Pkg("cache").Types.Scope().Lookup("Matcher").Type().Underlying().(*types.Struct)
	for i := 0; mt != nil && i < mt.NumFields(); i++ {
		f := mt.Field(i).Name()
		if _, ok := seen[f]; !ok {
			c.Violate("R12.1", "Match:"+f, w.FnPos(fn), "the "+f+" filters are never evaluated by Match: the qualifier has no effect")
		}
	}
	// the final result is true
	for _, r := range Returns(fn) {
		if k, isK := r.Results[0].(*ssa.Const); !isK || k.Value == nil {
			c.Violate("R12.1", "Match:result", w.InstrPos(r), "Match returns a computed value instead of the conjunction of its groups")
		}
	}
}

var backtick = regexp.MustCompile("`([^`]+)`")

type docTables struct {
	qualifiers map[string]bool
	status     map[string]bool
	no         map[string]bool
	sortGroups [][]string
}

func parseQueryDoc(repoDir string) (*docTables, error) {
	data, err := os.ReadFile(filepath.Join(repoDir, "doc", "queries.md"))
	if err != nil {
		return nil, err
	}
	d := &docTables{qualifiers: map[string]bool{}, status: map[string]bool{}, no: map[string]bool{}}
	for _, line := range strings.Split(string(data), "\n") {
		if !strings.HasPrefix(line, "|") {
			continue
		}
		cells := strings.Split(line, "|")
		if len(cells) < 3 {
			continue
		}
		first := cells[1]
		var group []string
		for _, m := range backtick.FindAllStringSubmatch(first, -1) {
			tok := m[1]
			i := strings.IndexByte(tok, ':')
			if i <= 0 {
				continue
			}
			q, v := tok[:i], tok[i+1:]
			d.qualifiers[q] = true
			switch q {
			case "status":
				d.status[v] = true
			case "no":
				d.no[v] = true
			case "sort":
				group = append(group, v)
			}
		}
		if len(group) > 0 {
			d.sortGroups = append(d.sortGroups, group)
		}
	}
	return d, nil
}

// stringCases: string constants that value v is compared with (==) in fn, with the block entered on equality.
func stringCases(fn *ssa.Function, isSubject func(ssa.Value) bool) map[string]*ssa.BasicBlock {
	out := map[string]*ssa.BasicBlock{}
	for _, b := range fn.Blocks {
		for _, ins := range b.Instrs {
			bo, ok := ins.(*ssa.BinOp)
			if !ok || bo.Op != token.EQL {
				continue
			}
			s, isS := constString(bo.Y)
			if !isS || !isSubject(bo.X) {
				continue
			}
			for _, u := range condUsers(bo) {
				e := 0
				if u.Neg {
					e = 1
				}
				out[s] = u.If.Block().Succs[e]
			}
		}
	}
	return out
}

// caseBody: blocks dominated by (or equal to) the case entry; for multi-value cases the body block has several predecessors.
func caseBodyBlocks(entry *ssa.BasicBlock) []*ssa.BasicBlock {
	// follow a jump-only entry to the shared body
	var out []*ssa.BasicBlock
	seen := map[*ssa.BasicBlock]bool{}
	var walk func(b *ssa.BasicBlock, depth int)
	walk = func(b *ssa.BasicBlock, depth int) {
		if seen[b] || depth > 6 {
			return
		}
		seen[b] = true
		out = append(out, b)
		for _, s := range b.Succs {
			if isLoopHeader(s) {
				continue
			}
			if entry.Dominates(s) || len(b.Instrs) <= 1 {
				walk(s, depth+1)
			}
		}
	}
	walk(entry, 0)
	return out
}

func checkParserTables(c *Ctx) {
	w := c.W
	doc, err := parseQueryDoc(w.RepoDir)
	if err != nil {
		c.Undecided("R12.2", "anchor:doc/queries.md", "doc/queries.md", err.Error())
		return
	}
	if len(doc.qualifiers) < 7 || len(doc.sortGroups) < 6 {
		c.Undecided("R12.2", "doc/queries.md:tables", "doc/queries.md", fmt.Sprintf("only %d qualifiers and %d sort rows found in the documentation tables", len(doc.qualifiers), len(doc.sortGroups)))
		return
	}
	parse := w.Func("query", "Parse")
	ps := w.Func("query", "parseSorting")
	if parse == nil || ps == nil {
		c.Undecided("R12.2", "anchor:query.Parse", "query", "not found")
		return
	}
	c.seeFn(funcName(parse))
	c.seeFn(funcName(ps))
	qcases := stringCases(parse, func(v ssa.Value) bool { return hasField(v, "qualifier") })
	var qs []string
	for q := range doc.qualifiers {
		qs = append(qs, q)
	}
	sort.Strings(qs)
	fieldOf := map[string]string{"status": "Status", "state": "Status", "author": "Author", "actor": "Actor", "participant": "Participant", "label": "Label", "title": "Title", "metadata": "Metadata"}
	for _, q := range qs {
		c.Sites++
		entry, ok := qcases[q]
		if !ok {
			c.Violate("R12.2", "Parse:qualifier:"+q, w.FnPos(parse), "the documented qualifier '"+q+":' is not accepted by the parser")
			continue
		}
		want, has := fieldOf[q]
		if !has {
			c.Hold("R12.2", "Parse:qualifier:"+q, w.FnPos(parse), "accepted")
			continue
		}
		// the case body appends to the Filters field of that name
		target := ""
		for _, b := range caseBodyBlocks(entry) {
			for _, ins := range b.Instrs {
				if st, isSt := ins.(*ssa.Store); isSt {
					if fa, isFA := st.Addr.(*ssa.FieldAddr); isFA && typeShortName(fa.X.Type()) == "query.Filters" {
						if target == "" {
							target = fieldName(fa)
						}
					}
				}
			}
		}
		c.Check(target == want, "R12.2", "Parse:qualifier:"+q, w.FnPos(parse), q+": feeds Filters."+want, fmt.Sprintf("the qualifier '%s:' feeds Filters.%s instead of Filters.%s", q, target, want))
	}
	// no: values
	ncases := stringCases(parse, func(v ssa.Value) bool { return hasField(v, "value") })
	// the values of 'no:' may be dispatched by a same-package helper called from the 'no' case with the token's value
	if noEntry, hasNo := qcases["no"]; hasNo {
		for _, b := range caseBodyBlocks(noEntry) {
			for _, ins := range b.Instrs {
				cv, isCall := ins.(*ssa.Call)
				if !isCall {
					continue
				}
				h := cv.Common().StaticCallee()
				if h == nil || h.Pkg != parse.Pkg || len(h.Blocks) == 0 {
					continue
				}
				for i, a := range cv.Common().Args {
					if i < len(h.Params) && hasField(a, "value") {
						hp := h.Params[i]
						for k, blk := range stringCases(h, func(v ssa.Value) bool { return v == ssa.Value(hp) }) {
							if _, dup := ncases[k]; !dup {
								ncases[k] = blk
							}
						}
					}
				}
			}
		}
	}
	for v := range doc.no {
		entry, ok := ncases[v]
		okSet := false
		if ok {
			for _, b := range caseBodyBlocks(entry) {
				for _, ins := range b.Instrs {
					if st, isSt := ins.(*ssa.Store); isSt {
						if fa, isFA := st.Addr.(*ssa.FieldAddr); isFA && fieldName(fa) == "NoLabel" {
							if k, isK := st.Val.(*ssa.Const); isK && k.Value != nil && k.Value.String() == "true" {
								okSet = true
							}
						}
					}
				}
			}
		}
		c.Check(ok && okSet, "R12.2", "Parse:no:"+v, w.FnPos(parse), "no:"+v+" sets NoLabel", "the documented filter 'no:"+v+"' is not accepted or does not set Filters.NoLabel")
	}
	// statuses
	if sf := w.Func("entities/common", "StatusFromString"); sf != nil {
		scases := stringCases(sf, func(v ssa.Value) bool { return true })
		lower := false
		for _, cl := range Calls(sf) {
			if cl.Name == "strings.ToLower" {
				lower = true
			}
		}
		for v := range doc.status {
			_, ok := scases[v]
			c.Check(ok, "R12.2", "StatusFromString:"+v, w.FnPos(sf), "status:"+v+" accepted", "the documented status '"+v+"' is not accepted")
		}
		c.Check(lower, "R12.2", "StatusFromString:case-insensitive", w.FnPos(sf), "status values are lower-cased first", "status values are matched case-sensitively although queries are documented as case insensitive")
	}
	// sort keys
	scases := stringCases(ps, func(v ssa.Value) bool { _, isP := v.(*ssa.Parameter); return isP })
	pq := w.Pkg("query")
	constName := func(typ string, k int64) string {
		for _, n := range pq.Types.Scope().Names() {
			if cst, ok := pq.Types.Scope().Lookup(n).(*types.Const); ok && typeShortName(cst.Type()) == "query."+typ {
				if v, ok := constantInt(cst); ok && v == k {
					return n
				}
			}
		}
		return fmt.Sprint(k)
	}
	for _, group := range doc.sortGroups {
		// expected semantics from the explicit member of the group
		by, dir := "", ""
		for _, key := range group {
			if i := strings.LastIndexByte(key, '-'); i > 0 {
				by = key[:i]
				dir = key[i+1:]
			}
		}
		if by == "" {
			continue
		}
		wantBy := map[string]string{"id": "OrderById", "creation": "OrderByCreation", "edit": "OrderByEdit"}[by]
		wantDir := map[string]string{"asc": "OrderAscending", "desc": "OrderDescending"}[dir]
		for _, key := range group {
			c.Sites++
			entry, ok := scases[key]
			if !ok {
				c.Violate("R12.2", "parseSorting:"+key, w.FnPos(ps), "the documented sort key 'sort:"+key+"' is not accepted")
				continue
			}
			gotBy, gotDir := "", ""
			for _, b := range caseBodyBlocks(entry) {
				for _, ins := range b.Instrs {
					if st, isSt := ins.(*ssa.Store); isSt {
						if fa, isFA := st.Addr.(*ssa.FieldAddr); isFA {
							if k, isK := constInt(st.Val); isK {
								switch fieldName(fa) {
								case "OrderBy":
									if gotBy == "" {
										gotBy = constName("OrderBy", k)
									}
								case "OrderDirection":
									if gotDir == "" {
										gotDir = constName("OrderDirection", k)
									}
								}
							}
						}
					}
				}
			}
			c.Check(gotBy == wantBy && gotDir == wantDir, "R12.2", "parseSorting:"+key, w.FnPos(ps), fmt.Sprintf("sort:%s → %s, %s", key, gotBy, gotDir), fmt.Sprintf("sort:%s sets (%s, %s); documented: (%s, %s)", key, gotBy, gotDir, wantBy, wantDir))
		}
	}
	// single sort
	okOnce := false
	for _, b := range parse.Blocks {
		if len(b.Instrs) == 0 {
			continue
		}
		iff, isIf := b.Instrs[len(b.Instrs)-1].(*ssa.If)
		if !isIf {
			continue
		}
		phi, isPhi := iff.Cond.(*ssa.Phi)
		if !isPhi || !isLoopHeader(phi.Block()) {
			continue
		}
		if errEdge(iff, defaultFail) == 0 {
			if e, ok := qcases["sort"]; ok && (e == b || e.Dominates(b)) {
				okOnce = true
			}
		}
	}
	c.Check(okOnce, "R12.2", "Parse:single-sort", w.FnPos(parse), "a second sort qualifier is an error", "a query with two sort qualifiers is accepted (the last one silently wins)")
	// unknown qualifier → error: the switch default of Parse fails
	nErr := 0
	for _, r := range Returns(parse) {
		if returnKind(r) == RetError {
			nErr++
		}
	}
	c.Check(nErr >= 5, "R12.2", "Parse:rejections", w.FnPos(parse), fmt.Sprintf("%d error exits (tokenizer, status, no-value, double sort, unknown qualifiers)", nErr), "the parser has lost error exits: malformed input is accepted")
}

func checkSorters(c *Ctx) {
	w := c.W
	for _, t := range []struct {
		typ  string
		keys []string
	}{
		{"BugsById", []string{"id"}},
		{"BugsByCreationTime", []string{"CreateLamportTime", "CreateUnixTime"}},
		{"BugsByEditTime", []string{"EditLamportTime", "EditUnixTime"}},
	} {
		fn := w.Method("cache", t.typ, "Less")
		key := "cache." + t.typ + ".Less"
		if fn == nil {
			c.Undecided("R12.3", "anchor:"+key, "cache", "not found")
			continue
		}
		c.seeFn(funcName(fn))
		keysSeen := map[string]bool{}
		bad := ""
		rng := []int{-1, 0, 1}
		second := rng
		if len(t.keys) == 1 {
			second = []int{0}
		}
		for _, o1 := range rng {
			for _, o2 := range second {
				ord := map[string]int{t.keys[0]: o1}
				if len(t.keys) > 1 {
					ord[t.keys[1]] = o2
				}
				got, why := interpretLess(fn, ord, keysSeen, nil)
				c.Sites++
				if got < 0 {
					bad = "not interpretable: " + why
					break
				}
				want := o1 < 0 || (o1 == 0 && len(t.keys) > 1 && o2 < 0)
				if (got == 1) != want {
					bad = fmt.Sprintf("for %s %s and %s %s it returns %v; ascending (%s) order requires %v", t.keys[0], ordStr(o1), t.keys[len(t.keys)-1], ordStr(o2), got == 1, strings.Join(t.keys, ", "), want)
				}
			}
		}
		for k := range keysSeen {
			found := false
			for _, kk := range t.keys {
				if kk == k {
					found = true
				}
			}
			if !found && bad == "" {
				bad = "reads " + k + ", which is not a key of this order"
			}
		}
		if strings.HasPrefix(bad, "not interpretable") {
			c.Undecided("R12.3", key, w.FnPos(fn), bad)
		} else {
			c.Check(bad == "", "R12.3", key, w.FnPos(fn), "ascending lexicographic on ("+strings.Join(t.keys, ", ")+")", bad)
		}
	}
	// OrderBy → sorter type, direction → Reverse
	q := w.Method("cache", "RepoCacheBug", "Query")
	if q == nil {
		c.Undecided("R12.3", "anchor:RepoCacheBug.Query", "cache", "not found")
		return
	}
	c.seeFn(funcName(q))
	pq := w.Pkg("query")
	byConst := map[int64]string{}
	for _, n := range pq.Types.Scope().Names() {
		if cst, ok := pq.Types.Scope().Lookup(n).(*types.Const); ok && typeShortName(cst.Type()) == "query.OrderBy" {
			if v, ok := constantInt(cst); ok {
				byConst[v] = n
			}
		}
	}
	want := map[string]string{"OrderById": "cache.BugsById", "OrderByCreation": "cache.BugsByCreationTime", "OrderByEdit": "cache.BugsByEditTime"}
	got := map[string]string{}
	revOn := ""
	var qBlocks []*ssa.BasicBlock
	for _, f := range fnAndHelpers(q, 1) {
		// the choice of the sorter may live in a same-package helper
		qBlocks = append(qBlocks, f.Blocks...)
	}
	for _, b := range qBlocks {
		for _, ins := range b.Instrs {
			bo, ok := ins.(*ssa.BinOp)
			if !ok || bo.Op != token.EQL {
				continue
			}
			k, isK := constInt(bo.Y)
			if !isK {
				continue
			}
			tn := typeShortName(bo.X.Type())
			for _, u := range condUsers(bo) {
				e := 0
				if u.Neg {
					e = 1
				}
				body := u.If.Block().Succs[e]
				for _, i2 := range body.Instrs {
					if tn == "query.OrderBy" {
						if mi, isMI := i2.(*ssa.MakeInterface); isMI {
							got[byConst[k]] = typeShortName(mi.X.Type())
						}
					}
					if tn == "query.OrderDirection" {
						if cl, isCall := i2.(*ssa.Call); isCall {
							if n, _ := callName(cl.Common()); n == "sort.Reverse" {
								for _, n2 := range pq.Types.Scope().Names() {
									if cst, ok := pq.Types.Scope().Lookup(n2).(*types.Const); ok && typeShortName(cst.Type()) == "query.OrderDirection" {
										if v, ok := constantInt(cst); ok && v == k {
											revOn = n2
										}
									}
								}
							}
						}
					}
				}
			}
		}
	}
	for k, wv := range want {
		c.Sites++
		c.Check(got[k] == wv, "R12.3", "Query:sorter:"+k, w.FnPos(q), k+" → "+wv, fmt.Sprintf("%s selects the sorter %q (expected %s)", k, got[k], wv))
	}
	c.Check(revOn == "OrderDescending", "R12.3", "Query:reverse-on-descending", w.FnPos(q), "sort.Reverse only for OrderDescending", "the order is reversed for "+revOn+" (expected: OrderDescending only)")
}

func checkQueryResult(c *Ctx) {
	w := c.W
	q := w.Method("cache", "RepoCacheBug", "Query")
	if q == nil {
		return
	}
	var sortCall *Call
	for _, cl := range Calls(q) {
		if cl.Name == "sort.Sort" || cl.Name == "sort.Stable" {
			sortCall = cl
		}
	}
	if sortCall == nil {
		c.Violate("R12.4", "Query:sorted", w.FnPos(q), "the query result is not sorted")
		return
	}
	// the result slice elements are Id() of elements of `filtered`, stored after the sort
	ok := false
	for _, b := range q.Blocks {
		for _, ins := range b.Instrs {
			st, isSt := ins.(*ssa.Store)
			if !isSt {
				continue
			}
			if _, isIA := st.Addr.(*ssa.IndexAddr); !isIA {
				continue
			}
			if cl, isCall := st.Val.(*ssa.Call); isCall {
				if n, _ := callName(cl.Common()); strings.HasSuffix(n, "BugExcerpt.Id") {
					if sortCall.Instr.Block().Dominates(st.Block()) {
						ok = true
					}
				}
			}
		}
	}
	c.Check(ok, "R12.4", "Query:result-after-sort", w.InstrPos(sortCall.Instr), "ids are collected from the filtered excerpts after sorting", "the ids returned are not collected after the sort")
	// filtered is fed from a range over a map (unique keys) through the matcher
	okMatch := false
	for _, cl := range Calls(q) {
		if cl.Name == "cache.Matcher.Match" {
			for _, u := range condUsers(cl.Value()) {
				e := 0
				if u.Neg {
					e = 1
				}
				body := u.If.Block().Succs[e]
				for _, i2 := range body.Instrs {
					if c2, isCall := i2.(*ssa.Call); isCall {
						if bi, isB := c2.Common().Value.(*ssa.Builtin); isB && bi.Name() == "append" {
							okMatch = true
						}
					}
				}
			}
		}
	}
	c.Check(okMatch, "R12.4", "Query:only-matching", w.FnPos(q), "an excerpt is kept iff the matcher accepts it", "excerpts are not filtered by the matcher's verdict")
}

func checkCaseInsensitive(c *Ctx) {
	w := c.W
	m := w.Method("cache", "IdentityExcerpt", "Match")
	if m != nil {
		c.seeFn(funcName(m))
		n := 0
		okAll := true
		for _, cl := range CallsNamed(m, "strings.Contains") {
			n++
			a := cl.Args()
			if hasOriginCall(a[0], "strings.ToLower", -1) == nil {
				okAll = false
			}
			if _, isP := a[1].(*ssa.Parameter); !isP && hasOriginCall(a[1], "strings.ToLower", -1) == nil {
				okAll = false
			}
		}
		c.Check(okAll && n >= 2, "R12.5", "IdentityExcerpt.Match:lowered", w.FnPos(m), "name and login are lower-cased before comparison", "name/login are compared without lower-casing: identity matching becomes case sensitive")
		// prefix on the id
		okId := false
		for _, cl := range Calls(m) {
			if strings.HasSuffix(cl.Name, "Id.HasPrefix") {
				okId = true
			}
		}
		c.Check(okId, "R12.5", "IdentityExcerpt.Match:id-prefix", w.FnPos(m), "an id prefix matches", "identities can no longer be matched by id prefix")
	}
	// every caller lowers the query
	for _, name := range []string{"AuthorFilter", "ActorFilter", "ParticipantFilter"} {
		fn := w.Func("cache", name)
		if fn == nil {
			continue
		}
		ok := false
		for _, cl := range CallsDeep(fn) {
			if cl.Name == "cache.IdentityExcerpt.Match" {
				a := cl.Args()[0]
				if hasOriginCall(a, "strings.ToLower", -1) != nil {
					ok = true
				}
				// captured variable rewritten through ToLower
				for _, o := range origins(a) {
					if o.Kind == "freevar" {
						for _, c2 := range CallsDeep(fn) {
							if c2.Name == "strings.ToLower" && instrDominates(c2.Instr, cl.Instr) {
								ok = true
							}
						}
					}
				}
			}
		}
		c.Check(ok, "R12.5", "cache."+name+":query-lowered", w.FnPos(fn), "the query is lower-cased before matching", "the query value is not lower-cased before IdentityExcerpt.Match: upper-case queries never match")
	}
	if tf := w.Func("cache", "TitleFilter"); tf != nil {
		ok := false
		for _, cl := range CallsDeep(tf) {
			if cl.Name == "strings.Contains" {
				a := cl.Args()
				ok = hasOriginCall(a[0], "strings.ToLower", -1) != nil && hasOriginCall(a[1], "strings.ToLower", -1) != nil
			}
		}
		c.Check(ok, "R12.5", "cache.TitleFilter:lowered", w.FnPos(tf), "title and query are both lower-cased", "title matching is not case-insensitive on both sides")
	}
}

// ---- R12.7: the lexer's quote automaton ----

// checkLexerAutomaton extracts the transition table of splitFunc's rune classifier by case
// analysis over rune classes and captured state, and compares it, as an automaton (product
// construction from the initial state), with the documented quoting rule: a quote opens a
// quoted section that only the SAME quote closes; inside, everything (separators and the other
// quote included) belongs to the chunk; outside, separators delimit; input ending inside a
// quoted section is an error.
func checkLexerAutomaton(c *Ctx) {
	w := c.W
	c.Doc("R12.7", "query.splitFunc: the rune classifier closure, evaluated for every (captured state, rune class ∈ {\", ', separator, NUL, other}) reachable from the initial state, is observationally equal to the reference quote automaton (chunk membership per rune, in-quote flag tested at end of input → error); runes the classifier accepts are written to the current chunk, a rejected rune flushes a non-empty chunk, the last chunk is flushed at the end")
	sf := w.Func("query", "splitFunc")
	if sf == nil {
		c.Undecided("R12.7", "anchor:query.splitFunc", "query", "not found")
		return
	}
	c.seeFn(funcName(sf))
	pos := w.FnPos(sf)
	// the classifier: the closure whose result guards Builder.WriteRune
	var clos *ssa.MakeClosure
	var classCall *ssa.Call
	var write *ssa.Call
	for _, cl := range Calls(sf) {
		if cl.Name != "strings.Builder.WriteRune" {
			continue
		}
		write, _ = cl.Instr.(*ssa.Call)
		for _, cc := range controlConds(cl.Block(), nil) {
			if cv, isCall := cc.If.Cond.(*ssa.Call); isCall && cc.Edge == 0 {
				if mc, isMC := cv.Common().Value.(*ssa.MakeClosure); isMC {
					clos, classCall = mc, cv
				}
			}
		}
	}
	if clos == nil {
		for _, cl := range Calls(sf) {
			if cl.Name == "strings.Builder.WriteByte" {
				c.Violate("R12.7", "splitFunc:iterates-runes", w.InstrPos(cl.Instr), "the chunk is built byte by byte: the separator predicate (unicode.IsSpace) and the quote test are applied to the bytes of multi-byte characters, so a value containing a character whose encoding has a byte 0x85 or 0xA0 is cut inside the character")
				return
			}
		}
		c.Undecided("R12.7", "splitFunc:classifier", pos, "no closure call guarding the write into the chunk found")
		return
	}
	cfn := clos.Fn.(*ssa.Function)
	// the classified rune is a rune of the input: the loop ranges over the input string
	{
		okRune := false
		if len(classCall.Common().Args) == 1 {
			if ex, isEx := classCall.Common().Args[0].(*ssa.Extract); isEx && ex.Index == 2 {
				if nx, isNx := ex.Tuple.(*ssa.Next); isNx && nx.IsString {
					if rg, isRg := nx.Iter.(*ssa.Range); isRg {
						for _, o := range origins(rg.X) {
							if o.Kind == "param" && isStringType(o.Val.Type()) {
								okRune = true
							}
						}
					}
				}
			}
		}
		c.Check(okRune, "R12.7", "splitFunc:iterates-runes", w.InstrPos(classCall), "the runes classified are those of a range over the input string",
			"the value classified is not a rune of a range over the input string: classifying bytes or code units cuts multi-byte characters at bytes that look like separators")
	}
	// written rune = classified rune
	c.Check(len(write.Common().Args) == 2 && len(classCall.Common().Args) == 1 && write.Common().Args[1] == classCall.Common().Args[0],
		"R12.7", "splitFunc:accepted-rune-written", w.InstrPos(write), "the rune written is the rune classified", "the rune written to the chunk is not the rune that was classified")
	// initial cells
	sepParam := ssa.Value(nil)
	for _, p := range sf.Params {
		if _, isSig := p.Type().Underlying().(*types.Signature); isSig {
			sepParam = p
		}
	}
	const (
		rDQ  = int64('"')
		rSQ  = int64('\'')
		rSEP = int64(-1)
		rOTH = int64(-2)
		rNUL = int64(0)
	)
	sepOracle := fval{k: fFunc, fn: func(a []fval) (fval, error) {
		if len(a) != 1 || a[0].k != fInt {
			return fval{}, fmt.Errorf("separator predicate called with unexpected arguments")
		}
		return fval{k: fBool, b: a[0].i == rSEP}, nil
	}}
	init := map[int]fval{}
	cellAlloc := map[int]*ssa.Alloc{}
	for i, bnd := range clos.Bindings {
		al, isAl := bnd.(*ssa.Alloc)
		if !isAl {
			c.Undecided("R12.7", "splitFunc:classifier", pos, "captured variable is not a local")
			return
		}
		cellAlloc[i] = al
		found := false
		for _, r := range *al.Referrers() {
			st, isSt := r.(*ssa.Store)
			if !isSt || st.Addr != ssa.Value(al) || st.Block() != sf.Blocks[0] {
				continue
			}
			if st.Val == sepParam {
				init[i] = sepOracle
				found = true
			} else if k, isK := st.Val.(*ssa.Const); isK {
				if v, err := constVal(k); err == nil {
					init[i] = v
					found = true
				}
			}
		}
		if !found {
			c.Undecided("R12.7", "splitFunc:classifier", pos, "no constant initial value for captured variable "+al.Comment)
			return
		}
	}
	// the in-quote flag: the captured bool tested after the loop with a failing true edge
	flagCell := -1
	for _, b := range sf.Blocks {
		if len(b.Instrs) == 0 {
			continue
		}
		iff, isIf := b.Instrs[len(b.Instrs)-1].(*ssa.If)
		if !isIf {
			continue
		}
		ld, isLd := iff.Cond.(*ssa.UnOp)
		if !isLd || ld.Op != token.MUL {
			continue
		}
		for i, al := range cellAlloc {
			if ld.X == ssa.Value(al) && strictlyFails(b.Succs[0], defaultFail) && enclosingLoopHeader(b) == nil {
				flagCell = i
			}
		}
	}
	if flagCell < 0 {
		c.Violate("R12.7", "splitFunc:unmatched-quote-refused", pos, "input that ends inside a quoted section is not refused with an error")
		return
	}
	c.Hold("R12.7", "splitFunc:unmatched-quote-refused", pos, "the in-quote flag is tested after the scan and fails")
	// product exploration
	type refState int // 0 OUT, 1 IN ", 2 IN '
	refStep := func(s refState, r int64) (refState, bool) {
		switch s {
		case 0:
			switch r {
			case rDQ:
				return 1, true
			case rSQ:
				return 2, true
			case rSEP:
				return 0, false
			}
			return 0, true
		case 1:
			if r == rDQ {
				return 0, true
			}
			return 1, true
		default:
			if r == rSQ {
				return 0, true
			}
			return 2, true
		}
	}
	className := map[int64]string{rDQ: `"`, rSQ: `'`, rSEP: "separator", rOTH: "other rune", rNUL: "NUL"}
	// every constant the classifier compares runes with is an input class of its own
	classes := []int64{rDQ, rSQ, rSEP, rOTH, rNUL}
	for _, k := range comparedConsts(cfn, 0) {
		if _, known := className[k]; !known {
			className[k] = fmt.Sprintf("%q", rune(k))
			classes = append(classes, k)
		}
	}
	stateName := []string{"outside quotes", `inside "…`, `inside '…`}
	keyOf := func(cells map[int]fval) string {
		s := ""
		for i := 0; i < len(clos.Bindings); i++ {
			if cells[i].k != fFunc {
				s += cells[i].String() + ","
			}
		}
		return s
	}
	type pair struct {
		cells map[int]fval
		ref   refState
		trace string
	}
	seen := map[string]bool{}
	queue := []pair{{init, 0, ""}}
	nTrans := 0
	bad := ""
	for len(queue) > 0 && bad == "" {
		p := queue[0]
		queue = queue[1:]
		k := fmt.Sprintf("%s|%d", keyOf(p.cells), p.ref)
		if seen[k] {
			continue
		}
		seen[k] = true
		if p.cells[flagCell].b != (p.ref != 0) {
			bad = fmt.Sprintf("after the input %s the lexer's in-quote flag is %v but the input is %s: %s", showTrace(p.trace), p.cells[flagCell].b, stateName[p.ref],
				map[bool]string{true: "a complete query is refused as 'unmatched quote'", false: "an unterminated quote is accepted"}[p.cells[flagCell].b])
			break
		}
		for _, r := range classes {
			env := &fenv{cells: map[int]*fval{}}
			for i, v := range p.cells {
				vv := v
				env.cells[i] = &vv
			}
			out, err := env.run(cfn, []fval{{k: fInt, i: r}}, 0)
			nTrans++
			c.Sites++
			if err != nil || len(out) != 1 {
				c.Undecided("R12.7", "splitFunc:quote-automaton", w.FnPos(cfn), fmt.Sprintf("the classifier cannot be tabulated: %v", err))
				return
			}
			ns, chunk := refStep(p.ref, r)
			tr := p.trace + " " + className[r]
			if out[0].b != chunk {
				bad = fmt.Sprintf("after the input %s, %s, the rune %s is %s; the quoting rule says it %s", showTrace(p.trace), stateName[p.ref], className[r],
					map[bool]string{true: "kept in the chunk", false: "treated as a delimiter"}[out[0].b], map[bool]string{true: "belongs to the chunk", false: "delimits"}[chunk])
				break
			}
			nc := map[int]fval{}
			for i, cv := range env.cells {
				nc[i] = *cv
			}
			queue = append(queue, pair{nc, ns, tr})
		}
	}
	if bad != "" {
		c.Violate("R12.7", "splitFunc:quote-automaton", w.FnPos(cfn), bad)
	} else {
		c.Hold("R12.7", "splitFunc:quote-automaton", w.FnPos(cfn), fmt.Sprintf("%d reachable (lexer state, reference state) pairs, %d transitions tabulated, all agree", len(seen), nTrans))
	}
	// flush discipline
	okFlush, okLast := false, false
	for _, cl := range Calls(sf) {
		if cl.Name != "builtin.append" {
			continue
		}
		fromBuilder := false
		for _, v := range appendedValues(cl.Value()) {
			if sc, isCall := v.(*ssa.Call); isCall {
				if n, _ := callName(sc.Common()); n == "strings.Builder.String" && sc.Block() == cl.Block() {
					fromBuilder = true
				}
			}
		}
		if !fromBuilder {
			continue
		}
		lenGuard, rejected := false, false
		for _, cc := range controlConds(cl.Block(), nil) {
			if bo, isBo := cc.If.Cond.(*ssa.BinOp); isBo {
				if lc, isCall := bo.X.(*ssa.Call); isCall {
					if n, _ := callName(lc.Common()); n == "strings.Builder.Len" {
						k, isK := constInt(bo.Y)
						if isK && ((bo.Op == token.GTR && k == 0 && cc.Edge == 0) || (bo.Op == token.NEQ && k == 0 && cc.Edge == 0) || (bo.Op == token.EQL && k == 0 && cc.Edge == 1)) {
							lenGuard = true
						}
					}
				}
			}
			if cc.If.Cond == ssa.Value(classCall) && cc.Edge == 1 {
				rejected = true
			}
		}
		if enclosingLoopHeader(cl.Block()) != nil {
			reset := false
			for _, ins := range cl.Block().Instrs {
				if rc, isCall := ins.(*ssa.Call); isCall {
					if n, _ := callName(rc.Common()); n == "strings.Builder.Reset" {
						reset = true
					}
				}
			}
			if lenGuard && rejected && reset {
				okFlush = true
			}
		} else if lenGuard {
			okLast = true
		}
	}
	c.Check(okFlush, "R12.7", "splitFunc:delimiter-flushes-chunk", pos, "a delimiter ends a non-empty chunk and starts a new one", "a delimiting rune does not flush the non-empty current chunk (and reset it)")
	c.Check(okLast, "R12.7", "splitFunc:last-chunk-flushed", pos, "the chunk open at the end of the input is delivered", "the last chunk of the input is not delivered")
}

func showTrace(t string) string {
	if t == "" {
		return "(empty)"
	}
	return "[" + strings.TrimSpace(t) + "]"
}

// ---- R12.8: tokenize ----

func checkTokenize(c *Ctx) {
	w := c.W
	c.Doc("R12.8", "query.tokenize: fields are split on white space, each field on ':' only (the separator closure is tabulated), both quote-aware; every chunk has its enclosing quotes removed in place and an empty chunk is an error; 1/2/3 chunks give a search/qualifier:value/qualifier:sub:value token built from the chunks in order, any other count is an error; the token constructors store each argument in the field of its name with the kind of their name")
	tk := w.Func("query", "tokenize")
	if tk == nil {
		c.Undecided("R12.8", "anchor:query.tokenize", "query", "not found")
		return
	}
	c.seeFn(funcName(tk))
	pos := w.FnPos(tk)
	var split1, split2 *ssa.Call
	for _, cl := range CallsNamed(tk, "query.splitFunc") {
		cv, _ := cl.Instr.(*ssa.Call)
		if cv == nil {
			continue
		}
		if _, isParam := cv.Common().Args[0].(*ssa.Parameter); isParam {
			split1 = cv
		} else {
			split2 = cv
		}
	}
	if split1 == nil || split2 == nil {
		c.Violate("R12.8", "tokenize:two-level-split", pos, "the query is not split into fields and each field into chunks with the quote-aware splitter")
		return
	}
	okSpace := false
	if f, isFn := split1.Common().Args[1].(*ssa.Function); isFn && f.Pkg != nil && f.Pkg.Pkg.Path() == "unicode" && f.Name() == "IsSpace" {
		okSpace = true
	}
	c.Check(okSpace, "R12.8", "tokenize:fields-on-white-space", w.InstrPos(split1), "fields are separated by unicode.IsSpace", "fields are not split on white space")
	// second separator: ':' only
	okColon, whyColon := false, "the chunk separator is not a function that can be tabulated"
	if sep := closureFn(split2.Common().Args[1]); sep != nil && len(sep.FreeVars) == 0 {
		okColon = true
		for _, r := range append(comparedConsts(sep, 0), ':', ' ', '"', '\'', 0, -2) {
			env := &fenv{cells: map[int]*fval{}}
			out, err := env.run(sep, []fval{{k: fInt, i: r}}, 0)
			c.Sites++
			if err != nil || len(out) != 1 {
				okColon, whyColon = false, fmt.Sprintf("the chunk separator cannot be tabulated: %v", err)
				break
			}
			if out[0].b != (r == ':') {
				okColon, whyColon = false, fmt.Sprintf("the chunk separator answers %v for rune %q; only ':' separates qualifier and value", out[0].b, rune(r))
				break
			}
		}
	}
	c.Check(okColon, "R12.8", "tokenize:chunks-on-colon", w.InstrPos(split2), "chunks are separated by ':' and nothing else", whyColon)
	// the field split is an element of the first split's result
	okField := false
	if ld, isLd := split2.Common().Args[0].(*ssa.UnOp); isLd {
		if ia, isIA := ld.X.(*ssa.IndexAddr); isIA {
			for _, o := range origins(ia.X) {
				if o.Val == ssa.Value(split1) && o.Idx == 0 {
					okField = true
				}
			}
		}
	}
	c.Check(okField, "R12.8", "tokenize:every-field", w.InstrPos(split2), "each field of the first split is split into chunks", "what is split into chunks is not a field of the query")
	// a field that starts or ends with the chunk separator is refused (the splitter drops the empty chunk silently)
	field := split2.Common().Args[0]
	okEdge := map[string]bool{}
	for _, pg := range predGuards(tk, nil) {
		if (pg.Name == "strings.HasPrefix" || pg.Name == "strings.HasSuffix") && pg.FailsWhen {
			a := pg.Call.Common().Args
			if s, isS := constString(a[1]); isS && s == ":" && a[0] == field {
				okEdge[pg.Name] = true
			}
		}
	}
	c.Check(okEdge["strings.HasPrefix"] && okEdge["strings.HasSuffix"], "R12.8", "tokenize:dangling-colon-refused", w.InstrPos(split2), "a field starting or ending with ':' is an error", "a field that starts or ends with ':' is not refused (the test is missing or looks at another string than the field): 'author: rene' silently becomes two search terms and the intended filter is dropped")
	var chunks ssa.Value
	for _, v := range resultValues(split2, 0) {
		chunks = v
	}
	// removeQuote in place
	okUnq := false
	for _, cl := range CallsNamed(tk, "query.removeQuote") {
		cv, _ := cl.Instr.(*ssa.Call)
		ld, isLd := cv.Common().Args[0].(*ssa.UnOp)
		if !isLd {
			continue
		}
		src, isIA := ld.X.(*ssa.IndexAddr)
		if !isIA || src.X != chunks {
			continue
		}
		for _, r := range *cv.Referrers() {
			if st, isSt := r.(*ssa.Store); isSt && st.Val == ssa.Value(cv) {
				if dst, isDst := st.Addr.(*ssa.IndexAddr); isDst && dst.X == chunks && dst.Index == src.Index {
					okUnq = true
				}
			}
		}
	}
	c.Check(okUnq, "R12.8", "tokenize:quotes-removed-in-place", pos, "chunks[i] = removeQuote(chunks[i]) for every chunk", "the enclosing quotes of a chunk are not removed in place (a quoted value keeps its quotes or lands in another position)")
	// constructors by arity
	want := map[string]int{"query.newTokenSearch": 1, "query.newTokenKV": 2, "query.newTokenKVV": 3}
	seenCtor := map[string]bool{}
	var lastTest *ssa.If
	// the constructors may be called from a same-package helper that is handed the chunks and whose error is propagated
	ctorFn, ctorChunks := tk, chunks
	hasCtor := func(f *ssa.Function) bool {
		for _, cl := range Calls(f) {
			if _, ok := want[cl.Name]; ok {
				return true
			}
		}
		return false
	}
	if !hasCtor(tk) {
		for _, cl := range Calls(tk) {
			h := cl.Instr.Common().StaticCallee()
			if h == nil || len(h.Blocks) == 0 || fnPkgPath(h) != fnPkgPath(tk) || !hasCtor(h) || cl.Value() == nil || !errorPropagated(cl.Value(), nil) {
				continue
			}
			for ai, av := range cl.Instr.Common().Args {
				if av == chunks && ai < len(h.Params) {
					ctorFn, ctorChunks = h, ssa.Value(h.Params[ai])
					c.seeFn(funcName(h))
				}
			}
		}
	}
	for _, cl := range Calls(ctorFn) {
		n, isCtor := want[cl.Name]
		if !isCtor {
			continue
		}
		c.Sites++
		seenCtor[cl.Name] = true
		okArity, okArgs := false, true
		for _, cc := range controlConds(cl.Block(), nil) {
			bo, isBo := cc.If.Cond.(*ssa.BinOp)
			if !isBo || bo.Op != token.EQL || cc.Edge != 0 {
				continue
			}
			lc, isCall := bo.X.(*ssa.Call)
			k, isK := constInt(bo.Y)
			if isCall && isK && len(lc.Common().Args) == 1 && lc.Common().Args[0] == ctorChunks && int(k) == n {
				if bi, isB := lc.Common().Value.(*ssa.Builtin); isB && bi.Name() == "len" {
					okArity = true
					if n == 3 {
						lastTest = cc.If
					}
				}
			}
		}
		args := cl.Args()
		if len(args) != n {
			okArgs = false
		}
		for i, a := range args {
			ld, isLd := a.(*ssa.UnOp)
			if !isLd {
				okArgs = false
				continue
			}
			ia, isIA := ld.X.(*ssa.IndexAddr)
			k, isK := int64(0), false
			if isIA {
				k, isK = constInt(ia.Index)
			}
			if !isIA || ia.X != ctorChunks || !isK || int(k) != i {
				okArgs = false
			}
		}
		short := strings.TrimPrefix(cl.Name, "query.")
		c.Check(okArity, "R12.8", "tokenize:"+short+":arity", w.InstrPos(cl.Instr), fmt.Sprintf("built for exactly %d chunk(s)", n), fmt.Sprintf("%s is not built exactly when the field has %d chunk(s)", short, n))
		c.Check(okArgs, "R12.8", "tokenize:"+short+":chunks-in-order", w.InstrPos(cl.Instr), "arguments are the chunks in order", short+" does not receive the chunks of the field in order")
	}
	for name := range want {
		if !seenCtor[name] {
			c.Violate("R12.8", "tokenize:"+strings.TrimPrefix(name, "query.")+":arity", pos, "no token of this kind is produced any more")
		}
	}
	c.Check(lastTest != nil && strictlyFails(lastTest.Block().Succs[1], defaultFail), "R12.8", "tokenize:too-many-separators-refused", pos, "any other chunk count is an error", "a field with more than 3 (or 0) chunks is not refused")
	// empty chunk refused
	okEmpty := false
	for _, g := range cmpGuards(tk, nil) {
		lc, isCall := g.X.(*ssa.Call)
		k, isK := constInt(g.Y)
		if !isCall || !isK || k != 0 || g.Op != token.EQL {
			continue
		}
		if bi, isB := lc.Common().Value.(*ssa.Builtin); isB && bi.Name() == "len" {
			if ld, isLd := lc.Common().Args[0].(*ssa.UnOp); isLd {
				if ia, isIA := ld.X.(*ssa.IndexAddr); isIA && ia.X == chunks {
					okEmpty = true
				}
			}
		}
	}
	c.Check(okEmpty, "R12.8", "tokenize:empty-chunk-refused", pos, "an empty chunk is an error", "an empty qualifier or value is not refused")
	// removeQuote: strips first and last rune iff they are the same quote; otherwise the chunk is returned as is
	if rq := w.Func("query", "removeQuote"); rq != nil {
		c.seeFn(funcName(rq))
		okStrip, okElse := false, false
		isLenMinus1 := func(v ssa.Value, of ssa.Value) bool {
			bo, isBo := v.(*ssa.BinOp)
			if !isBo || bo.Op != token.SUB {
				return false
			}
			k, isK := constInt(bo.Y)
			lc, isCall := bo.X.(*ssa.Call)
			if !isK || k != 1 || !isCall || len(lc.Common().Args) != 1 || lc.Common().Args[0] != of {
				return false
			}
			bi, isB := lc.Common().Value.(*ssa.Builtin)
			return isB && bi.Name() == "len"
		}
		elemAt := func(v ssa.Value) (ssa.Value, ssa.Value) { // (slice, index)
			if ld, isLd := v.(*ssa.UnOp); isLd {
				if ia, isIA := ld.X.(*ssa.IndexAddr); isIA {
					return ia.X, ia.Index
				}
			}
			return nil, nil
		}
		for _, r := range Returns(rq) {
			cv, isConv := r.Results[0].(*ssa.Convert)
			if !isConv {
				if r.Results[0] == ssa.Value(rq.Params[0]) {
					okElse = true
				}
				continue
			}
			sl, isSl := cv.X.(*ssa.Slice)
			if !isSl {
				continue
			}
			runes := sl.X
			lo, isLo := constInt(sl.Low)
			if !isLo || lo != 1 || !isLenMinus1(sl.High, runes) {
				continue
			}
			sameEnds, quote, long := false, false, false
			for _, cc := range controlConds(r.Block(), nil) {
				switch cond := cc.If.Cond.(type) {
				case *ssa.BinOp:
					if cond.Op == token.EQL && cc.Edge == 0 {
						s1, i1 := elemAt(cond.X)
						s2, i2 := elemAt(cond.Y)
						if s1 == runes && s2 == runes && i1 != nil && i2 != nil {
							k1, isK1 := constInt(i1)
							k2, isK2 := constInt(i2)
							if (isK1 && k1 == 0 && isLenMinus1(i2, runes)) || (isK2 && k2 == 0 && isLenMinus1(i1, runes)) {
								sameEnds = true
							}
						}
					}
					// len(runes) >= 2 in any spelling, on whichever edge
					cx, cy, cop := cond.X, cond.Y, cond.Op
					if _, xConst := cx.(*ssa.Const); xConst {
						cx, cy, cop = cy, cx, swapOp(cop)
					}
					if lc, isCall := cx.(*ssa.Call); isCall {
						if bi, isB := lc.Common().Value.(*ssa.Builtin); isB && bi.Name() == "len" {
							op := cop
							if cc.Edge == 1 {
								op = negateOp(op)
							}
							if k, isK := constInt(cy); isK && ((op == token.GEQ && k == 2) || (op == token.GTR && k == 1)) {
								long = true
							}
						}
					}
				case *ssa.Call:
					if n, _ := callName(cond.Common()); n == "query.isQuote" && cc.Edge == 0 {
						if s1, i1 := elemAt(cond.Common().Args[0]); s1 == runes && i1 != nil {
							quote = true
						}
					}
				}
			}
			if sameEnds && quote && long {
				okStrip = true
			}
		}
		c.Check(okStrip && okElse, "R12.8", "removeQuote:same-quote-both-ends", w.FnPos(rq), "first and last rune are dropped iff they are equal and a quote (length ≥ 2), otherwise the chunk is unchanged", "removeQuote does not strip exactly a pair of identical enclosing quotes")
		// isQuote tabulated
		if iq := w.Func("query", "isQuote"); iq != nil {
			okQ := true
			for _, r := range append(comparedConsts(iq, 0), '"', '\'', ':', ' ', 0, -2) {
				env := &fenv{cells: map[int]*fval{}}
				out, err := env.run(iq, []fval{{k: fInt, i: r}}, 0)
				if err != nil || len(out) != 1 || out[0].b != (r == '"' || r == '\'') {
					okQ = false
				}
			}
			c.Check(okQ, "R12.8", "isQuote:double-and-single", w.FnPos(iq), "exactly \" and ' are quotes", "isQuote does not recognise exactly the double and the single quote")
		}
	}
	// constructors
	p := w.Pkg("query")
	for name, n := range want {
		short := strings.TrimPrefix(name, "query.")
		fn := w.Func("query", short)
		if fn == nil || p == nil {
			continue
		}
		c.seeFn(funcName(fn))
		okFields := 0
		okKind := false
		kindConst := "tokenKind" + strings.TrimPrefix(short, "newToken")
		for _, b := range fn.Blocks {
			for _, ins := range b.Instrs {
				st, isSt := ins.(*ssa.Store)
				if !isSt {
					continue
				}
				fa, isFA := st.Addr.(*ssa.FieldAddr)
				if !isFA {
					continue
				}
				f := fieldName(fa)
				if pp, isP := st.Val.(*ssa.Parameter); isP && pp.Name() == f {
					okFields++
				}
				if f == "kind" {
					if k, isK := constInt(st.Val); isK {
						if kc, isC := p.Types.Scope().Lookup(kindConst).(*types.Const); isC {
							if kv, exact := constant.Int64Val(kc.Val()); exact && kv == k {
								okKind = true
							}
						}
					}
				}
			}
		}
		c.Check(okFields == n && okKind, "R12.8", short+":fields", w.FnPos(fn), fmt.Sprintf("%d argument(s) stored in the field of their name, kind %s", n, kindConst), short+" does not store each argument in the token field of its name with kind "+kindConst)
	}
}
