package main

import (
	"fmt"
	"go/token"
	"go/types"
	"os"
	"path/filepath"
	"regexp"
	"sort"
	"strings"

	"golang.org/x/tools/go/ssa"
)

func init() {
	register("C12",
		"Static analysis of the query language plumbing: (R12.1) every field of query.Filters is compiled, through the matching filter constructor, into the matching Matcher field, every Matcher field is evaluated in Match with the documented combinator (any-of: status, author, metadata, actor, participant; all-of: label, title, no-filters) and a failing group makes Match false; orMatch/andMatch are, by abstract interpretation over every truth assignment of up to 3 filters, exactly OR and AND with 'true' on an empty list; (R12.2) every qualifier, status, 'no:' value and sort key documented in doc/queries.md is accepted by the parser, feeds the field of the same name, and each documented sort key sets the documented order and direction; 'sort' can be given once; (R12.3) each sorter's Less is, by abstract interpretation over all key orderings, the ascending lexicographic order on its (Lamport time, unix time) pair (id for the id sorter), each OrderBy constant selects its own sorter and only 'descending' reverses; (R12.4) the result is built from the filtered excerpts after sort.Sort; (R12.5) name/login/title matching lowers both sides; (R12.6) no explicit panic and no unguarded constant-index access is reachable from query.Parse.",
		[]string{"sort.Sort/sort.Reverse behave as documented", "matching semantics over actual bug populations and quoting corner cases of the lexer are not computed", "bleve full-text search is a dependency"},
		runC12)
}

// ---- tiny abstract interpreter for "fold of opaque predicates over a slice" ----

// interpFold runs fn(filters []F, ...) with len(filters) == n and the i-th predicate returning vals[i].
// Returns 1/0, or -1 with a reason when the function uses something the interpreter does not model.
func interpFold(fn *ssa.Function, n int, vals []bool) (int, string) {
	type val struct {
		kind string // "bool" | "int" | "slice" | "pred"
		b    bool
		i    int64
	}
	var sliceParam ssa.Value
	for _, p := range fn.Params {
		if _, ok := p.Type().Underlying().(*types.Slice); ok {
			sliceParam = p
		}
	}
	if sliceParam == nil {
		return -1, "no slice parameter"
	}
	env := map[ssa.Value]val{sliceParam: {kind: "slice"}}
	get := func(v ssa.Value) (val, bool) {
		if c, ok := v.(*ssa.Const); ok && c.Value != nil {
			if k, ok := constInt(c); ok {
				return val{kind: "int", i: k}, true
			}
			s := c.Value.String()
			if s == "true" || s == "false" {
				return val{kind: "bool", b: s == "true"}, true
			}
		}
		x, ok := env[v]
		return x, ok
	}
	b := fn.Blocks[0]
	var prev *ssa.BasicBlock
	for steps := 0; steps < 2000; steps++ {
		for _, ins := range b.Instrs {
			switch x := ins.(type) {
			case *ssa.Phi:
				for i, p := range b.Preds {
					if p == prev {
						if v, ok := get(x.Edges[i]); ok {
							env[x] = v
						} else {
							return -1, "phi operand not evaluated: " + x.String()
						}
					}
				}
			case *ssa.Call:
				if bi, ok := x.Common().Value.(*ssa.Builtin); ok && bi.Name() == "len" {
					if v, ok := get(x.Common().Args[0]); ok && v.kind == "slice" {
						env[x] = val{kind: "int", i: int64(n)}
						continue
					}
					return -1, "len of something else"
				}
				if v, ok := get(x.Common().Value); ok && v.kind == "pred" {
					if int(v.i) >= len(vals) {
						return -1, "index out of the modelled range"
					}
					env[x] = val{kind: "bool", b: vals[v.i]}
					continue
				}
				return -1, "call of something that is not one of the filters: " + x.String()
			case *ssa.IndexAddr:
				sv, ok1 := get(x.X)
				iv, ok2 := get(x.Index)
				if ok1 && ok2 && sv.kind == "slice" && iv.kind == "int" {
					env[x] = val{kind: "pred", i: iv.i}
					continue
				}
				return -1, "unmodelled element address"
			case *ssa.UnOp:
				switch x.Op {
				case token.MUL:
					if v, ok := get(x.X); ok && v.kind == "pred" {
						env[x] = v
						continue
					}
					return -1, "unmodelled load"
				case token.NOT:
					if v, ok := get(x.X); ok && v.kind == "bool" {
						env[x] = val{kind: "bool", b: !v.b}
						continue
					}
					return -1, "negation of unevaluated value"
				}
			case *ssa.BinOp:
				l, ok1 := get(x.X)
				r, ok2 := get(x.Y)
				if !ok1 || !ok2 {
					return -1, "operand not evaluated: " + x.String()
				}
				if l.kind == "int" && r.kind == "int" {
					switch x.Op {
					case token.ADD:
						env[x] = val{kind: "int", i: l.i + r.i}
					case token.SUB:
						env[x] = val{kind: "int", i: l.i - r.i}
					case token.LSS:
						env[x] = val{kind: "bool", b: l.i < r.i}
					case token.LEQ:
						env[x] = val{kind: "bool", b: l.i <= r.i}
					case token.GTR:
						env[x] = val{kind: "bool", b: l.i > r.i}
					case token.GEQ:
						env[x] = val{kind: "bool", b: l.i >= r.i}
					case token.EQL:
						env[x] = val{kind: "bool", b: l.i == r.i}
					case token.NEQ:
						env[x] = val{kind: "bool", b: l.i != r.i}
					default:
						return -1, "unmodelled integer operator"
					}
					continue
				}
				if l.kind == "bool" && r.kind == "bool" {
					switch x.Op {
					case token.AND, token.LAND:
						env[x] = val{kind: "bool", b: l.b && r.b}
					case token.OR, token.LOR:
						env[x] = val{kind: "bool", b: l.b || r.b}
					case token.EQL:
						env[x] = val{kind: "bool", b: l.b == r.b}
					case token.NEQ, token.XOR:
						env[x] = val{kind: "bool", b: l.b != r.b}
					default:
						return -1, "unmodelled boolean operator"
					}
					continue
				}
				return -1, "mixed operands"
			case *ssa.If:
				v, ok := get(x.Cond)
				if !ok || v.kind != "bool" {
					return -1, "branch on unevaluated condition"
				}
				prev = b
				if v.b {
					b = b.Succs[0]
				} else {
					b = b.Succs[1]
				}
				goto next
			case *ssa.Jump:
				prev = b
				b = b.Succs[0]
				goto next
			case *ssa.Return:
				v, ok := get(x.Results[0])
				if !ok || v.kind != "bool" {
					return -1, "returns an unevaluated value"
				}
				if v.b {
					return 1, ""
				}
				return 0, ""
			case *ssa.DebugRef:
			default:
				return -1, "unmodelled instruction " + ins.String()
			}
		}
		return -1, "fell off a block"
	next:
	}
	return -1, "did not terminate"
}

func checkFoldIs(c *Ctx, fn *ssa.Function, key string, isOr bool) {
	w := c.W
	if fn == nil {
		c.Undecided("R12.1", "anchor:"+key, "cache", "not found")
		return
	}
	c.seeFn(funcName(fn))
	for n := 0; n <= 3; n++ {
		for mask := 0; mask < 1<<n; mask++ {
			vals := make([]bool, n)
			want := !isOr
			if n == 0 {
				want = true
			}
			for i := 0; i < n; i++ {
				vals[i] = mask&(1<<i) != 0
				if isOr {
					want = want || vals[i]
				} else {
					want = want && vals[i]
				}
			}
			got, why := interpFold(fn, n, vals)
			c.Sites++
			if got < 0 {
				c.Undecided("R12.1", key, w.FnPos(fn), "combinator not interpretable: "+why)
				return
			}
			if (got == 1) != want {
				op := "all"
				if isOr {
					op = "any"
				}
				c.Violate("R12.1", key, w.FnPos(fn), fmt.Sprintf("for filter results %v the combinator returns %v, '%s of' requires %v", vals, got == 1, op, want))
				return
			}
		}
	}
	what := "AND (all-of)"
	if isOr {
		what = "OR (any-of)"
	}
	c.Hold("R12.1", key, w.FnPos(fn), "is "+what+" for every assignment of 0..3 filters; true on the empty list")
}

func runC12(c *Ctx) {
	w := c.W
	c.Doc("R12.1", "Filters field → filter constructor → Matcher field mapping is the reference one and total; Match evaluates each Matcher field once with the documented combinator and a false group returns false; orMatch/andMatch are OR/AND")
	c.Doc("R12.2", "documented qualifiers / statuses / no-values / sort keys ⊆ what the parser accepts; each qualifier feeds the Filters field of its name; each sort key sets the documented (OrderBy, OrderDirection); a second sort is an error")
	c.Doc("R12.3", "sorters are ascending lexicographic on their documented keys; OrderBy→sorter mapping is injective and by name; only OrderDescending reverses")
	c.Doc("R12.4", "Query's result is built from the filtered slice after sort.Sort(sorter over that slice)")
	c.Doc("R12.5", "identity and title matching compare lower-cased text on both sides")
	c.Doc("R12.6", "no explicit panic and no unguarded constant-index access reachable from query.Parse")
	checkCompileMatcher(c)
	checkMatch(c)
	checkFoldIs(c, w.Method("cache", "Matcher", "orMatch"), "cache.Matcher.orMatch", true)
	checkFoldIs(c, w.Method("cache", "Matcher", "andMatch"), "cache.Matcher.andMatch", false)
	checkParserTables(c)
	checkSorters(c)
	checkQueryResult(c)
	checkCaseInsensitive(c)
	// R12.6
	roots := []*ssa.Function{w.Func("query", "Parse")}
	if roots[0] == nil {
		c.Undecided("R12.6", "anchor:query.Parse", "query", "not found")
		return
	}
	ps, n := reachablePanics(w, roots)
	for _, p := range ps {
		c.Violate("R12.6", funcName(p.Fn)+":panic", w.InstrPos(p.Ins), "explicit panic reachable from query.Parse via "+p.Path)
	}
	if len(ps) == 0 {
		c.Hold("R12.6", "query.Parse:no-panic", w.FnPos(roots[0]), fmt.Sprintf("%d reachable functions, no explicit panic", n))
	}
	parent := w.Reach(roots, nil)
	var fns []*ssa.Function
	for f := range parent {
		fns = append(fns, f)
	}
	sort.Slice(fns, func(i, j int) bool { return fnLess(fns[i], fns[j]) })
	nIdx := 0
	for _, f := range fns {
		for _, b := range f.Blocks {
			for _, ins := range b.Instrs {
				ia, ok := ins.(*ssa.IndexAddr)
				if !ok {
					continue
				}
				if _, isSlice := ia.X.Type().Underlying().(*types.Slice); !isSlice {
					continue
				}
				k, isK := constInt(ia.Index)
				if !isK {
					continue
				}
				nIdx++
				c.Sites++
				what := ia.X.Name()
				if phi, isPhi := ia.X.(*ssa.Phi); isPhi && phi.Comment != "" {
					what = phi.Comment
				}
				key := fmt.Sprintf("%s:%s[%d]", funcName(f), what, k)
				c.Check(lenGuarded(ia, ia.X, k), "R12.6", key, w.InstrPos(ia), "dominated by a length guard", fmt.Sprintf("element %d is accessed without a dominating guard on the length: some query string makes the parser panic", k))
			}
		}
	}
	if nIdx < 4 {
		c.Violate("R12.6", "expected:const-index-sites", "query", fmt.Sprintf("%d constant-index accesses reachable from Parse (reference 7)", nIdx))
	}
}

var filterTable = map[string][2]string{ // Filters field -> {constructor, Matcher field}
	"Status": {"cache.StatusFilter", "Status"}, "Author": {"cache.AuthorFilter", "Author"}, "Metadata": {"cache.MetadataFilter", "Metadata"},
	"Actor": {"cache.ActorFilter", "Actor"}, "Participant": {"cache.ParticipantFilter", "Participant"}, "Label": {"cache.LabelFilter", "Label"},
	"Title": {"cache.TitleFilter", "Title"}, "NoLabel": {"cache.NoLabelFilter", "NoFilters"},
}

func checkCompileMatcher(c *Ctx) {
	w := c.W
	fn := w.Func("cache", "compileMatcher")
	if fn == nil {
		c.Undecided("R12.1", "anchor:cache.compileMatcher", "cache", "not found")
		return
	}
	c.seeFn(funcName(fn))
	got := map[string][2]string{}
	for _, b := range fn.Blocks {
		for _, ins := range b.Instrs {
			st, ok := ins.(*ssa.Store)
			if !ok {
				continue
			}
			fa, ok := st.Addr.(*ssa.FieldAddr)
			if !ok || typeShortName(fa.X.Type()) != "cache.Matcher" {
				continue
			}
			c.Sites++
			for _, v := range appendedValues(st.Val) {
				call, isCall := v.(*ssa.Call)
				if !isCall {
					continue
				}
				ctor, _ := callName(call.Common())
				src := ""
				if len(call.Common().Args) > 0 {
					for _, f := range originFields(call.Common().Args[0]) {
						src = f
					}
				} else {
					// constructor without argument: controlled by a boolean field of the filters
					for _, cc := range controlConds(st.Block(), nil) {
						for _, f := range originFields(cc.If.Cond) {
							if cc.Edge == 0 {
								src = f
							}
						}
					}
				}
				if src != "" {
					got[src] = [2]string{ctor, fieldName(fa)}
				}
			}
		}
	}
	ft, _ := w.Pkg("query").Types.Scope().Lookup("Filters").Type().Underlying().(*types.Struct)
	if ft == nil {
		c.Undecided("R12.1", "anchor:query.Filters", "query", "type not found")
		return
	}
	for i := 0; i < ft.NumFields(); i++ {
		f := ft.Field(i).Name()
		want, known := filterTable[f]
		g, have := got[f]
		key := "compileMatcher:" + f
		switch {
		case !have:
			c.Violate("R12.1", key, w.FnPos(fn), "the filter field "+f+" of a parsed query is never compiled into the matcher: the qualifier is silently ignored")
		case !known:
			c.Hold("R12.1", key, w.FnPos(fn), f+" → "+g[0]+" → Matcher."+g[1]+" (not in the reference table; checked for presence only)")
		case g != want:
			c.Violate("R12.1", key, w.FnPos(fn), fmt.Sprintf("%s is compiled with %s into Matcher.%s; expected %s into Matcher.%s", f, g[0], g[1], want[0], want[1]))
		default:
			c.Hold("R12.1", key, w.FnPos(fn), f+" → "+g[0]+" → Matcher."+g[1])
		}
	}
}

func checkMatch(c *Ctx) {
	w := c.W
	fn := w.Method("cache", "Matcher", "Match")
	if fn == nil {
		c.Undecided("R12.1", "anchor:cache.Matcher.Match", "cache", "not found")
		return
	}
	c.seeFn(funcName(fn))
	anyOf := map[string]bool{"Status": true, "Author": true, "Metadata": true, "Actor": true, "Participant": true}
	seen := map[string]string{}
	for _, cl := range Calls(fn) {
		if cl.Name != "cache.Matcher.orMatch" && cl.Name != "cache.Matcher.andMatch" {
			continue
		}
		c.Sites++
		fld := ""
		for _, f := range originFields(cl.Args()[0]) {
			fld = f
		}
		comb := strings.TrimPrefix(cl.Name, "cache.Matcher.")
		if prev, dup := seen[fld]; dup {
			c.Violate("R12.1", "Match:"+fld, w.InstrPos(cl.Instr), "group "+fld+" is evaluated twice ("+prev+", "+comb+")")
			continue
		}
		seen[fld] = comb
		want := "andMatch"
		if anyOf[fld] {
			want = "orMatch"
		}
		if comb != want {
			c.Violate("R12.1", "Match:"+fld, w.InstrPos(cl.Instr), fmt.Sprintf("the %s filters are combined with %s; documented: %s", fld, comb, want))
			continue
		}
		// a false group returns false
		okFalse := false
		for _, u := range condUsers(cl.Value()) {
			e := 1
			if u.Neg {
				e = 0
			}
			fb := u.If.Block().Succs[e]
			if len(fb.Instrs) > 0 {
				if r, isR := fb.Instrs[len(fb.Instrs)-1].(*ssa.Return); isR {
					if k, isK := r.Results[0].(*ssa.Const); isK && k.Value != nil && k.Value.String() == "false" {
						okFalse = true
					}
				}
			}
		}
		c.Check(okFalse, "R12.1", "Match:"+fld, w.InstrPos(cl.Instr), comb+"; a failing group makes Match false", "the result of the "+fld+" group does not make Match return false when it fails")
	}
	mt, _ := w.Pkg("cache").Types.Scope().Lookup("Matcher").Type().Underlying().(*types.Struct)
	for i := 0; mt != nil && i < mt.NumFields(); i++ {
		f := mt.Field(i).Name()
		if _, ok := seen[f]; !ok {
			c.Violate("R12.1", "Match:"+f, w.FnPos(fn), "the "+f+" filters are never evaluated by Match: the qualifier has no effect")
		}
	}
	// the final result is true
	for _, r := range Returns(fn) {
		if k, isK := r.Results[0].(*ssa.Const); !isK || k.Value == nil {
			c.Violate("R12.1", "Match:result", w.InstrPos(r), "Match returns a computed value instead of the conjunction of its groups")
		}
	}
}

var backtick = regexp.MustCompile("`([^`]+)`")

type docTables struct {
	qualifiers map[string]bool
	status     map[string]bool
	no         map[string]bool
	sortGroups [][]string
}

func parseQueryDoc(repoDir string) (*docTables, error) {
	data, err := os.ReadFile(filepath.Join(repoDir, "doc", "queries.md"))
	if err != nil {
		return nil, err
	}
	d := &docTables{qualifiers: map[string]bool{}, status: map[string]bool{}, no: map[string]bool{}}
	for _, line := range strings.Split(string(data), "\n") {
		if !strings.HasPrefix(line, "|") {
			continue
		}
		cells := strings.Split(line, "|")
		if len(cells) < 3 {
			continue
		}
		first := cells[1]
		var group []string
		for _, m := range backtick.FindAllStringSubmatch(first, -1) {
			tok := m[1]
			i := strings.IndexByte(tok, ':')
			if i <= 0 {
				continue
			}
			q, v := tok[:i], tok[i+1:]
			d.qualifiers[q] = true
			switch q {
			case "status":
				d.status[v] = true
			case "no":
				d.no[v] = true
			case "sort":
				group = append(group, v)
			}
		}
		if len(group) > 0 {
			d.sortGroups = append(d.sortGroups, group)
		}
	}
	return d, nil
}

// stringCases: string constants that value v is compared with (==) in fn, with the block entered on equality.
func stringCases(fn *ssa.Function, isSubject func(ssa.Value) bool) map[string]*ssa.BasicBlock {
	out := map[string]*ssa.BasicBlock{}
	for _, b := range fn.Blocks {
		for _, ins := range b.Instrs {
			bo, ok := ins.(*ssa.BinOp)
			if !ok || bo.Op != token.EQL {
				continue
			}
			s, isS := constString(bo.Y)
			if !isS || !isSubject(bo.X) {
				continue
			}
			for _, u := range condUsers(bo) {
				e := 0
				if u.Neg {
					e = 1
				}
				out[s] = u.If.Block().Succs[e]
			}
		}
	}
	return out
}

// caseBody: blocks dominated by (or equal to) the case entry; for multi-value cases the body block has several predecessors.
func caseBodyBlocks(entry *ssa.BasicBlock) []*ssa.BasicBlock {
	// follow a jump-only entry to the shared body
	var out []*ssa.BasicBlock
	seen := map[*ssa.BasicBlock]bool{}
	var walk func(b *ssa.BasicBlock, depth int)
	walk = func(b *ssa.BasicBlock, depth int) {
		if seen[b] || depth > 6 {
			return
		}
		seen[b] = true
		out = append(out, b)
		for _, s := range b.Succs {
			if isLoopHeader(s) {
				continue
			}
			if entry.Dominates(s) || len(b.Instrs) <= 1 {
				walk(s, depth+1)
			}
		}
	}
	walk(entry, 0)
	return out
}

func checkParserTables(c *Ctx) {
	w := c.W
	doc, err := parseQueryDoc(w.RepoDir)
	if err != nil {
		c.Undecided("R12.2", "anchor:doc/queries.md", "doc/queries.md", err.Error())
		return
	}
	if len(doc.qualifiers) < 7 || len(doc.sortGroups) < 6 {
		c.Undecided("R12.2", "doc/queries.md:tables", "doc/queries.md", fmt.Sprintf("only %d qualifiers and %d sort rows found in the documentation tables", len(doc.qualifiers), len(doc.sortGroups)))
		return
	}
	parse := w.Func("query", "Parse")
	ps := w.Func("query", "parseSorting")
	if parse == nil || ps == nil {
		c.Undecided("R12.2", "anchor:query.Parse", "query", "not found")
		return
	}
	c.seeFn(funcName(parse))
	c.seeFn(funcName(ps))
	qcases := stringCases(parse, func(v ssa.Value) bool { return hasField(v, "qualifier") })
	var qs []string
	for q := range doc.qualifiers {
		qs = append(qs, q)
	}
	sort.Strings(qs)
	fieldOf := map[string]string{"status": "Status", "state": "Status", "author": "Author", "actor": "Actor", "participant": "Participant", "label": "Label", "title": "Title", "metadata": "Metadata"}
	for _, q := range qs {
		c.Sites++
		entry, ok := qcases[q]
		if !ok {
			c.Violate("R12.2", "Parse:qualifier:"+q, w.FnPos(parse), "the documented qualifier '"+q+":' is not accepted by the parser")
			continue
		}
		want, has := fieldOf[q]
		if !has {
			c.Hold("R12.2", "Parse:qualifier:"+q, w.FnPos(parse), "accepted")
			continue
		}
		// the case body appends to the Filters field of that name
		target := ""
		for _, b := range caseBodyBlocks(entry) {
			for _, ins := range b.Instrs {
				if st, isSt := ins.(*ssa.Store); isSt {
					if fa, isFA := st.Addr.(*ssa.FieldAddr); isFA && typeShortName(fa.X.Type()) == "query.Filters" {
						if target == "" {
							target = fieldName(fa)
						}
					}
				}
			}
		}
		c.Check(target == want, "R12.2", "Parse:qualifier:"+q, w.FnPos(parse), q+": feeds Filters."+want, fmt.Sprintf("the qualifier '%s:' feeds Filters.%s instead of Filters.%s", q, target, want))
	}
	// no: values
	ncases := stringCases(parse, func(v ssa.Value) bool { return hasField(v, "value") })
	for v := range doc.no {
		entry, ok := ncases[v]
		okSet := false
		if ok {
			for _, b := range caseBodyBlocks(entry) {
				for _, ins := range b.Instrs {
					if st, isSt := ins.(*ssa.Store); isSt {
						if fa, isFA := st.Addr.(*ssa.FieldAddr); isFA && fieldName(fa) == "NoLabel" {
							if k, isK := st.Val.(*ssa.Const); isK && k.Value != nil && k.Value.String() == "true" {
								okSet = true
							}
						}
					}
				}
			}
		}
		c.Check(ok && okSet, "R12.2", "Parse:no:"+v, w.FnPos(parse), "no:"+v+" sets NoLabel", "the documented filter 'no:"+v+"' is not accepted or does not set Filters.NoLabel")
	}
	// statuses
	if sf := w.Func("entities/common", "StatusFromString"); sf != nil {
		scases := stringCases(sf, func(v ssa.Value) bool { return true })
		lower := false
		for _, cl := range Calls(sf) {
			if cl.Name == "strings.ToLower" {
				lower = true
			}
		}
		for v := range doc.status {
			_, ok := scases[v]
			c.Check(ok, "R12.2", "StatusFromString:"+v, w.FnPos(sf), "status:"+v+" accepted", "the documented status '"+v+"' is not accepted")
		}
		c.Check(lower, "R12.2", "StatusFromString:case-insensitive", w.FnPos(sf), "status values are lower-cased first", "status values are matched case-sensitively although queries are documented as case insensitive")
	}
	// sort keys
	scases := stringCases(ps, func(v ssa.Value) bool { _, isP := v.(*ssa.Parameter); return isP })
	pq := w.Pkg("query")
	constName := func(typ string, k int64) string {
		for _, n := range pq.Types.Scope().Names() {
			if cst, ok := pq.Types.Scope().Lookup(n).(*types.Const); ok && typeShortName(cst.Type()) == "query."+typ {
				if v, ok := constantInt(cst); ok && v == k {
					return n
				}
			}
		}
		return fmt.Sprint(k)
	}
	for _, group := range doc.sortGroups {
		// expected semantics from the explicit member of the group
		by, dir := "", ""
		for _, key := range group {
			if i := strings.LastIndexByte(key, '-'); i > 0 {
				by = key[:i]
				dir = key[i+1:]
			}
		}
		if by == "" {
			continue
		}
		wantBy := map[string]string{"id": "OrderById", "creation": "OrderByCreation", "edit": "OrderByEdit"}[by]
		wantDir := map[string]string{"asc": "OrderAscending", "desc": "OrderDescending"}[dir]
		for _, key := range group {
			c.Sites++
			entry, ok := scases[key]
			if !ok {
				c.Violate("R12.2", "parseSorting:"+key, w.FnPos(ps), "the documented sort key 'sort:"+key+"' is not accepted")
				continue
			}
			gotBy, gotDir := "", ""
			for _, b := range caseBodyBlocks(entry) {
				for _, ins := range b.Instrs {
					if st, isSt := ins.(*ssa.Store); isSt {
						if fa, isFA := st.Addr.(*ssa.FieldAddr); isFA {
							if k, isK := constInt(st.Val); isK {
								switch fieldName(fa) {
								case "OrderBy":
									if gotBy == "" {
										gotBy = constName("OrderBy", k)
									}
								case "OrderDirection":
									if gotDir == "" {
										gotDir = constName("OrderDirection", k)
									}
								}
							}
						}
					}
				}
			}
			c.Check(gotBy == wantBy && gotDir == wantDir, "R12.2", "parseSorting:"+key, w.FnPos(ps), fmt.Sprintf("sort:%s → %s, %s", key, gotBy, gotDir), fmt.Sprintf("sort:%s sets (%s, %s); documented: (%s, %s)", key, gotBy, gotDir, wantBy, wantDir))
		}
	}
	// single sort
	okOnce := false
	for _, b := range parse.Blocks {
		if len(b.Instrs) == 0 {
			continue
		}
		iff, isIf := b.Instrs[len(b.Instrs)-1].(*ssa.If)
		if !isIf {
			continue
		}
		phi, isPhi := iff.Cond.(*ssa.Phi)
		if !isPhi || !isLoopHeader(phi.Block()) {
			continue
		}
		if errEdge(iff, defaultFail) == 0 {
			if e, ok := qcases["sort"]; ok && (e == b || e.Dominates(b)) {
				okOnce = true
			}
		}
	}
	c.Check(okOnce, "R12.2", "Parse:single-sort", w.FnPos(parse), "a second sort qualifier is an error", "a query with two sort qualifiers is accepted (the last one silently wins)")
	// unknown qualifier → error: the switch default of Parse fails
	nErr := 0
	for _, r := range Returns(parse) {
		if returnKind(r) == RetError {
			nErr++
		}
	}
	c.Check(nErr >= 5, "R12.2", "Parse:rejections", w.FnPos(parse), fmt.Sprintf("%d error exits (tokenizer, status, no-value, double sort, unknown qualifiers)", nErr), "the parser has lost error exits: malformed input is accepted")
}

func checkSorters(c *Ctx) {
	w := c.W
	for _, t := range []struct {
		typ  string
		keys []string
	}{
		{"BugsById", []string{"id"}},
		{"BugsByCreationTime", []string{"CreateLamportTime", "CreateUnixTime"}},
		{"BugsByEditTime", []string{"EditLamportTime", "EditUnixTime"}},
	} {
		fn := w.Method("cache", t.typ, "Less")
		key := "cache." + t.typ + ".Less"
		if fn == nil {
			c.Undecided("R12.3", "anchor:"+key, "cache", "not found")
			continue
		}
		c.seeFn(funcName(fn))
		keysSeen := map[string]bool{}
		bad := ""
		rng := []int{-1, 0, 1}
		second := rng
		if len(t.keys) == 1 {
			second = []int{0}
		}
		for _, o1 := range rng {
			for _, o2 := range second {
				ord := map[string]int{t.keys[0]: o1}
				if len(t.keys) > 1 {
					ord[t.keys[1]] = o2
				}
				got, why := interpretLess(fn, ord, keysSeen)
				c.Sites++
				if got < 0 {
					bad = "not interpretable: " + why
					break
				}
				want := o1 < 0 || (o1 == 0 && len(t.keys) > 1 && o2 < 0)
				if (got == 1) != want {
					bad = fmt.Sprintf("for %s %s and %s %s it returns %v; ascending (%s) order requires %v", t.keys[0], ordStr(o1), t.keys[len(t.keys)-1], ordStr(o2), got == 1, strings.Join(t.keys, ", "), want)
				}
			}
		}
		for k := range keysSeen {
			found := false
			for _, kk := range t.keys {
				if kk == k {
					found = true
				}
			}
			if !found && bad == "" {
				bad = "reads " + k + ", which is not a key of this order"
			}
		}
		if strings.HasPrefix(bad, "not interpretable") {
			c.Undecided("R12.3", key, w.FnPos(fn), bad)
		} else {
			c.Check(bad == "", "R12.3", key, w.FnPos(fn), "ascending lexicographic on ("+strings.Join(t.keys, ", ")+")", bad)
		}
	}
	// OrderBy → sorter type, direction → Reverse
	q := w.Method("cache", "RepoCacheBug", "Query")
	if q == nil {
		c.Undecided("R12.3", "anchor:RepoCacheBug.Query", "cache", "not found")
		return
	}
	c.seeFn(funcName(q))
	pq := w.Pkg("query")
	byConst := map[int64]string{}
	for _, n := range pq.Types.Scope().Names() {
		if cst, ok := pq.Types.Scope().Lookup(n).(*types.Const); ok && typeShortName(cst.Type()) == "query.OrderBy" {
			if v, ok := constantInt(cst); ok {
				byConst[v] = n
			}
		}
	}
	want := map[string]string{"OrderById": "cache.BugsById", "OrderByCreation": "cache.BugsByCreationTime", "OrderByEdit": "cache.BugsByEditTime"}
	got := map[string]string{}
	revOn := ""
	for _, b := range q.Blocks {
		for _, ins := range b.Instrs {
			bo, ok := ins.(*ssa.BinOp)
			if !ok || bo.Op != token.EQL {
				continue
			}
			k, isK := constInt(bo.Y)
			if !isK {
				continue
			}
			tn := typeShortName(bo.X.Type())
			for _, u := range condUsers(bo) {
				e := 0
				if u.Neg {
					e = 1
				}
				body := u.If.Block().Succs[e]
				for _, i2 := range body.Instrs {
					if tn == "query.OrderBy" {
						if mi, isMI := i2.(*ssa.MakeInterface); isMI {
							got[byConst[k]] = typeShortName(mi.X.Type())
						}
					}
					if tn == "query.OrderDirection" {
						if cl, isCall := i2.(*ssa.Call); isCall {
							if n, _ := callName(cl.Common()); n == "sort.Reverse" {
								for _, n2 := range pq.Types.Scope().Names() {
									if cst, ok := pq.Types.Scope().Lookup(n2).(*types.Const); ok && typeShortName(cst.Type()) == "query.OrderDirection" {
										if v, ok := constantInt(cst); ok && v == k {
											revOn = n2
										}
									}
								}
							}
						}
					}
				}
			}
		}
	}
	for k, wv := range want {
		c.Sites++
		c.Check(got[k] == wv, "R12.3", "Query:sorter:"+k, w.FnPos(q), k+" → "+wv, fmt.Sprintf("%s selects the sorter %q (expected %s)", k, got[k], wv))
	}
	c.Check(revOn == "OrderDescending", "R12.3", "Query:reverse-on-descending", w.FnPos(q), "sort.Reverse only for OrderDescending", "the order is reversed for "+revOn+" (expected: OrderDescending only)")
}

func checkQueryResult(c *Ctx) {
	w := c.W
	q := w.Method("cache", "RepoCacheBug", "Query")
	if q == nil {
		return
	}
	var sortCall *Call
	for _, cl := range Calls(q) {
		if cl.Name == "sort.Sort" || cl.Name == "sort.Stable" {
			sortCall = cl
		}
	}
	if sortCall == nil {
		c.Violate("R12.4", "Query:sorted", w.FnPos(q), "the query result is not sorted")
		return
	}
	// the result slice elements are Id() of elements of `filtered`, stored after the sort
	ok := false
	for _, b := range q.Blocks {
		for _, ins := range b.Instrs {
			st, isSt := ins.(*ssa.Store)
			if !isSt {
				continue
			}
			if _, isIA := st.Addr.(*ssa.IndexAddr); !isIA {
				continue
			}
			if cl, isCall := st.Val.(*ssa.Call); isCall {
				if n, _ := callName(cl.Common()); strings.HasSuffix(n, "BugExcerpt.Id") {
					if sortCall.Instr.Block().Dominates(st.Block()) {
						ok = true
					}
				}
			}
		}
	}
	c.Check(ok, "R12.4", "Query:result-after-sort", w.InstrPos(sortCall.Instr), "ids are collected from the filtered excerpts after sorting", "the ids returned are not collected after the sort")
	// filtered is fed from a range over a map (unique keys) through the matcher
	okMatch := false
	for _, cl := range Calls(q) {
		if cl.Name == "cache.Matcher.Match" {
			for _, u := range condUsers(cl.Value()) {
				e := 0
				if u.Neg {
					e = 1
				}
				body := u.If.Block().Succs[e]
				for _, i2 := range body.Instrs {
					if c2, isCall := i2.(*ssa.Call); isCall {
						if bi, isB := c2.Common().Value.(*ssa.Builtin); isB && bi.Name() == "append" {
							okMatch = true
						}
					}
				}
			}
		}
	}
	c.Check(okMatch, "R12.4", "Query:only-matching", w.FnPos(q), "an excerpt is kept iff the matcher accepts it", "excerpts are not filtered by the matcher's verdict")
}

func checkCaseInsensitive(c *Ctx) {
	w := c.W
	m := w.Method("cache", "IdentityExcerpt", "Match")
	if m != nil {
		c.seeFn(funcName(m))
		n := 0
		okAll := true
		for _, cl := range CallsNamed(m, "strings.Contains") {
			n++
			a := cl.Args()
			if hasOriginCall(a[0], "strings.ToLower", -1) == nil {
				okAll = false
			}
			if _, isP := a[1].(*ssa.Parameter); !isP && hasOriginCall(a[1], "strings.ToLower", -1) == nil {
				okAll = false
			}
		}
		c.Check(okAll && n >= 2, "R12.5", "IdentityExcerpt.Match:lowered", w.FnPos(m), "name and login are lower-cased before comparison", "name/login are compared without lower-casing: identity matching becomes case sensitive")
		// prefix on the id
		okId := false
		for _, cl := range Calls(m) {
			if strings.HasSuffix(cl.Name, "Id.HasPrefix") {
				okId = true
			}
		}
		c.Check(okId, "R12.5", "IdentityExcerpt.Match:id-prefix", w.FnPos(m), "an id prefix matches", "identities can no longer be matched by id prefix")
	}
	// every caller lowers the query
	for _, name := range []string{"AuthorFilter", "ActorFilter", "ParticipantFilter"} {
		fn := w.Func("cache", name)
		if fn == nil {
			continue
		}
		ok := false
		for _, cl := range CallsDeep(fn) {
			if cl.Name == "cache.IdentityExcerpt.Match" {
				a := cl.Args()[0]
				if hasOriginCall(a, "strings.ToLower", -1) != nil {
					ok = true
				}
				// captured variable rewritten through ToLower
				for _, o := range origins(a) {
					if o.Kind == "freevar" {
						for _, c2 := range CallsDeep(fn) {
							if c2.Name == "strings.ToLower" && instrDominates(c2.Instr, cl.Instr) {
								ok = true
							}
						}
					}
				}
			}
		}
		c.Check(ok, "R12.5", "cache."+name+":query-lowered", w.FnPos(fn), "the query is lower-cased before matching", "the query value is not lower-cased before IdentityExcerpt.Match: upper-case queries never match")
	}
	if tf := w.Func("cache", "TitleFilter"); tf != nil {
		ok := false
		for _, cl := range CallsDeep(tf) {
			if cl.Name == "strings.Contains" {
				a := cl.Args()
				ok = hasOriginCall(a[0], "strings.ToLower", -1) != nil && hasOriginCall(a[1], "strings.ToLower", -1) != nil
			}
		}
		c.Check(ok, "R12.5", "cache.TitleFilter:lowered", w.FnPos(tf), "title and query are both lower-cased", "title matching is not case-insensitive on both sides")
	}
}
