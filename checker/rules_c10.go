package main

import (
	"fmt"
	"go/token"
	"go/types"
	"sort"
	"strings"

	"golang.org/x/tools/go/ssa"
)

func init() {
	register("C10",
		"That the compiled state equals a reference interpretation of the operations is a value statement and is not computed. Decided is the skeleton it rests on: (R10.1) Compile folds Apply over the operations in ascending order, applying an operation before recording it, starting from an open status and the bug's id; (R10.2) the incrementally maintained snapshot performs the same two steps in the same order for each appended operation, is dropped when a commit fails, and nothing in package cache appends to the wrapped entity behind its back; (R10.3) extra metadata is written only by setExtraMetadataImmutable, only for absent keys, and original metadata wins in GetMetadata and AllMetadata; (R10.4) a per-operation effect table by callee identity: who adds an actor/participant, who appends one timeline item, who adds/replaces comments, what each writes into title/status/labels and from which operation field, no-op and set-metadata are marked as not changing the snapshot and do not touch it, actors/participants are appended only when absent; (R10.5) label changes end in a sort of the label set and add a label only when absent.",
		[]string{"set semantics of label changes, comment edit targeting and timeline history contents are only covered as far as the table goes", "equality with a reference interpreter on operation sequences is not computed"},
		runC10)
}

type applyFacts struct {
	calls       map[string]int    // callee name -> count
	fieldStores map[string]string // snapshot field -> origin description of the stored value
	appendsTo   map[string]int    // snapshot field appended to -> count of append sites
	resets      map[string]bool   // snapshot field assigned a fresh slice literal
}

// snapshotFacts collects what an Apply method does to its snapshot parameter.
func snapshotFacts(fn *ssa.Function) applyFacts {
	f := applyFacts{calls: map[string]int{}, fieldStores: map[string]string{}, appendsTo: map[string]int{}, resets: map[string]bool{}}
	var snap ssa.Value
	for _, p := range fn.Params[1:] {
		snap = p
	}
	for _, cl := range Calls(fn) {
		f.calls[cl.Name]++
	}
	for _, b := range fn.Blocks {
		for _, ins := range b.Instrs {
			st, ok := ins.(*ssa.Store)
			if !ok {
				continue
			}
			fa, ok := st.Addr.(*ssa.FieldAddr)
			if !ok || !isSameParam(fa.X, snap) {
				continue
			}
			name := fieldName(fa)
			if call, isCall := st.Val.(*ssa.Call); isCall {
				if bi, isB := call.Common().Value.(*ssa.Builtin); isB && bi.Name() == "append" {
					if _, fld, isF := loadOfField(call.Common().Args[0]); isF && fld == name {
						f.appendsTo[name]++
						continue
					}
				}
			}
			if sl, isSl := st.Val.(*ssa.Slice); isSl {
				if _, isAl := sl.X.(*ssa.Alloc); isAl {
					f.resets[name] = true
					continue
				}
				// re-slicing of the same field (removal)
				if _, fld, isF := loadOfField(sl.X); isF && fld == name {
					continue
				}
			}
			var desc []string
			for _, o := range origins(st.Val) {
				desc = append(desc, o.String())
			}
			sort.Strings(desc)
			f.fieldStores[name] = strings.Join(desc, "|")
		}
	}
	return f
}

func runC10(c *Ctx) {
	w := c.W
	c.Doc("R10.1", "Bug.Compile: snapshot starts with id = bug.Id() and the open status; ranges ascending over Operations(); per operation calls Apply and then appends the operation to the snapshot")
	c.Doc("R10.2", "withSnapshot.Append: appends to the wrapped entity, then (if a snapshot exists) Apply followed by AppendOperation; withSnapshot.Commit drops the snapshot on error; inside package cache only withSnapshot.Append calls Append on the wrapped entity")
	c.Doc("R10.3", "OpBase.extraMetadata is written only in setExtraMetadataImmutable on the key-absent edge; GetMetadata consults Metadata first; AllMetadata copies extraMetadata first and Metadata last")
	c.Doc("R10.4", "per-operation effect table (callee identity and stored fields): create, add-comment, edit-comment, set-title, set-status, label-change; no-op / set-metadata do not change the snapshot; addActor/addParticipant append only when absent")
	c.Doc("R10.5", "LabelChangeOperation.Apply: a label is appended only when not already present, and every path after the last modification passes the sort of the labels")

	// R10.1
	cf := w.Method("entities/bug", "Bug", "Compile")
	if cf == nil {
		c.Undecided("R10.1", "anchor:bug.Bug.Compile", "entities/bug", "not found")
	} else {
		c.seeFn(funcName(cf))
		var apply, appendOp ssa.Instruction
		for _, cl := range Calls(cf) {
			if strings.HasSuffix(cl.Name, ".Apply") {
				apply = cl.Instr
			}
			if bi, ok := cl.Instr.Common().Value.(*ssa.Builtin); ok && bi.Name() == "append" {
				if _, fld, isF := loadOfField(cl.Instr.Common().Args[0]); isF && fld == "Operations" {
					appendOp = cl.Instr
				}
			}
		}
		ok := apply != nil && appendOp != nil && instrDominates(apply, appendOp) && enclosingLoopHeader(apply.Block()) != nil && unconditionalInLoop(w, apply) == "" && unconditionalInLoop(w, appendOp) == ""
		c.Sites += 2
		c.Check(ok, "R10.1", "Compile:apply-then-record", w.FnPos(cf), "each operation is applied, then recorded, unconditionally", "Compile does not apply and then record every operation (order or condition changed)")
		// ascending over Operations()
		okAsc := false
		if apply != nil {
			recv := apply.(*ssa.Call).Common().Value
			if u, isU := recv.(*ssa.UnOp); isU {
				if ia, isIA := u.X.(*ssa.IndexAddr); isIA && ascendingRangeIndex(ia.Index) {
					if hasOriginCall(ia.X, "entities/bug.Bug.Operations", -1) != nil {
						okAsc = true
					}
				}
			}
		}
		c.Check(okAsc, "R10.1", "Compile:in-order", w.FnPos(cf), "ascending range over Operations()", "operations are not folded in ascending order over Bug.Operations()")
		// initial state
		okId, okStatus := false, false
		for _, b := range cf.Blocks {
			for _, ins := range b.Instrs {
				if st, isSt := ins.(*ssa.Store); isSt {
					if fa, isFA := st.Addr.(*ssa.FieldAddr); isFA {
						switch fieldName(fa) {
						case "id":
							okId = hasOriginCall(st.Val, "entity/dag.Entity.Id", -1) != nil || hasOriginCall(st.Val, "entities/bug.Bug.Id", -1) != nil
						case "Status":
							if k, isK := constInt(st.Val); isK && k == 1 {
								okStatus = true
							}
						}
					}
				}
			}
		}
		c.Check(okId, "R10.1", "Compile:id", w.FnPos(cf), "snapshot id = bug id", "the snapshot's id is not the bug's id")
		c.Check(okStatus, "R10.1", "Compile:initial-status", w.FnPos(cf), "starts open", "the snapshot does not start with the open status")
	}

	checkWithSnapshot(c)
	checkApplyUnconditional(c)

	// R10.3
	nWriters := 0
	for _, fn := range w.ModFns {
		if isInstance(fn) {
			continue
		}
		for _, b := range fn.Blocks {
			for _, ins := range b.Instrs {
				var target ssa.Value
				switch x := ins.(type) {
				case *ssa.MapUpdate:
					target = x.Map
				case *ssa.Store:
					if fa, isFA := x.Addr.(*ssa.FieldAddr); isFA && fieldName(fa) == "extraMetadata" && typeShortName(fa.X.Type()) == "entity/dag.OpBase" {
						nWriters++
						c.Sites++
						// allocation of the map: only in the setter
						c.Check(funcName(fn) == "entity/dag.OpBase.setExtraMetadataImmutable", "R10.3", funcName(fn)+":extraMetadata-alloc", w.InstrPos(ins), "allocated by the immutable setter", "extraMetadata is replaced outside setExtraMetadataImmutable")
					}
					continue
				default:
					continue
				}
				_, fld, isF := loadOfField(target)
				if !isF || fld != "extraMetadata" {
					continue
				}
				nWriters++
				c.Sites++
				name := funcName(fn)
				if name != "entity/dag.OpBase.setExtraMetadataImmutable" {
					c.Violate("R10.3", name+":extraMetadata-write", w.InstrPos(ins), "extra metadata is written outside setExtraMetadataImmutable: later metadata could override an existing key")
					continue
				}
				// key-absent edge
				ok := false
				for _, cc := range controlConds(ins.Block(), nil) {
					if ex, isEx := cc.If.Cond.(*ssa.Extract); isEx && ex.Index == 1 && cc.Edge == 1 {
						if lk, isLk := ex.Tuple.(*ssa.Lookup); isLk {
							if _, f2, isF2 := loadOfField(lk.X); isF2 && f2 == "extraMetadata" {
								ok = true
							}
						}
					}
				}
				c.Check(ok, "R10.3", name+":only-absent-keys", w.InstrPos(ins), "written only when the key is absent", "setExtraMetadataImmutable overwrites an existing key")
			}
		}
	}
	if nWriters == 0 {
		c.Violate("R10.3", "expected:extraMetadata-writer", "entity/dag", "no writer of OpBase.extraMetadata found")
	}
	if gm := w.Method("entity/dag", "OpBase", "GetMetadata"); gm != nil {
		// the first lookup is on Metadata and its ok edge returns
		var first *ssa.Lookup
		for _, b := range gm.Blocks {
			for _, ins := range b.Instrs {
				if lk, isLk := ins.(*ssa.Lookup); isLk && first == nil {
					first = lk
				}
			}
		}
		ok := false
		if first != nil {
			if _, fld, isF := loadOfField(first.X); isF && fld == "Metadata" {
				ok = true
			}
		}
		c.Check(ok, "R10.3", "OpBase.GetMetadata:original-first", w.FnPos(gm), "the operation's own metadata is consulted first", "GetMetadata does not give the operation's own metadata precedence over extra metadata")
	}
	if am := w.Method("entity/dag", "OpBase", "AllMetadata"); am != nil {
		var order []string
		for _, b := range am.Blocks {
			for _, ins := range b.Instrs {
				if r, isR := ins.(*ssa.Range); isR {
					if _, fld, isF := loadOfField(r.X); isF {
						order = append(order, fld)
					}
				}
			}
		}
		ok := len(order) == 2 && order[0] == "extraMetadata" && order[1] == "Metadata"
		c.Check(ok, "R10.3", "OpBase.AllMetadata:original-last", w.FnPos(am), "extra metadata copied first, original last (wins)", fmt.Sprintf("AllMetadata copies %v: the original metadata must be copied last so that it wins", order))
	}
	if sm := w.Method("entity/dag", "SetMetadataOperation", "Apply"); sm != nil {
		okSet := false
	scanSet:
		for _, f := range fnAndHelpers(bodyOf(sm), 1) {
			for _, cl := range Calls(f) {
				if strings.HasSuffix(cl.Name, ".setExtraMetadataImmutable") {
					okSet = true
				}
				if strings.HasSuffix(cl.Name, ".SetMetadata") {
					okSet = false
					break scanSet
				}
			}
		}
		c.Check(okSet, "R10.3", "SetMetadataOperation.Apply:immutable-setter", w.FnPos(sm), "uses the immutable setter", "set-metadata does not go through setExtraMetadataImmutable")
	}

	checkApplyTable(c)

	checkLabelChange(c)
	checkActorAndLabelOrder(c)
	// the operations compiled are the operations staged, in that order (shared with C04)
	checkAuthorSplit(c)
	// the incrementally maintained snapshot a long-running process serves is the one of the merged entity (shared with C02)
	checkCacheMergeFold(c, "R2.6")
	checkCommentCombinedIdStable(c, "R13.8")
	checkCompileKeepsOrder(c, "R10.1")
	checkAppendNeverCompiles(c, "R10.2")
}

// isSameParam: v is the parameter p, or a load of the local cell p was spilled into (captured by a closure).
func isSameParam(v, p ssa.Value) bool {
	if v == p {
		return true
	}
	if u, ok := v.(*ssa.UnOp); ok && u.Op == token.MUL {
		if al, ok := u.X.(*ssa.Alloc); ok {
			for _, r := range *al.Referrers() {
				if st, ok := r.(*ssa.Store); ok && st.Addr == al {
					return st.Val == p
				}
			}
		}
	}
	return false
}

// checkWithSnapshot (R10.2): the incrementally maintained snapshot of the cache is the compiled one.
func checkWithSnapshot(c *Ctx) {
	w := c.W
	c.Doc("R10.2", "withSnapshot.Append: appends to the wrapped entity, then (if a snapshot exists) Apply followed by AppendOperation; withSnapshot.Commit drops the snapshot on error; inside package cache only withSnapshot.Append calls Append on the wrapped entity")
	// R10.2
	wa := w.Method("cache", "withSnapshot", "Append")
	if wa == nil {
		c.Undecided("R10.2", "anchor:withSnapshot.Append", "cache", "not found")
	} else {
		c.seeFn(funcName(wa))
		var inner, apply, rec ssa.Instruction
		for _, cl := range Calls(wa) {
			switch {
			case strings.HasSuffix(cl.Name, "Interface.Append") || strings.HasSuffix(cl.Name, "Entity.Append"):
				inner = cl.Instr
			case strings.HasSuffix(cl.Name, ".Apply"):
				apply = cl.Instr
			case strings.HasSuffix(cl.Name, ".AppendOperation"):
				rec = cl.Instr
			}
		}
		c.Sites += 3
		ok := inner != nil && apply != nil && rec != nil && instrDominates(apply, rec) && unconditionalInLoop(w, inner) == ""
		c.Check(ok, "R10.2", "withSnapshot.Append:apply-then-record", w.FnPos(wa), "entity append, then Apply, then AppendOperation", "the incremental update does not perform entity-append / Apply / AppendOperation in Compile's order")
		// the only condition on apply: snapshot exists
		if apply != nil {
			other := ""
			for _, cc := range controlConds(apply.Block(), nil) {
				bo, isBo := cc.If.Cond.(*ssa.BinOp)
				if isBo && (hasField(bo.X, "snap") || hasField(bo.Y, "snap")) {
					continue
				}
				other = w.InstrPos(cc.If)
			}
			c.Check(other == "", "R10.2", "withSnapshot.Append:always-when-snapshot", w.InstrPos(apply), "applied whenever a snapshot exists", "the incremental Apply is additionally conditional on "+other+": some appended operations are missing from the served snapshot")
			// applied to the cached snapshot with the appended operation
			ac := apply.(*ssa.Call)
			okArgs := len(ac.Common().Args) == 1 && hasField(ac.Common().Args[0], "snap")
			if p, isP := ac.Common().Value.(*ssa.Parameter); !isP || p != wa.Params[1] {
				okArgs = false
			}
			c.Check(okArgs, "R10.2", "withSnapshot.Append:same-op-same-snapshot", w.InstrPos(apply), "the appended operation is applied to the cached snapshot", "Apply is not called with the appended operation on the cached snapshot")
		}
	}
	wc := w.Method("cache", "withSnapshot", "Commit")
	if wc != nil {
		c.seeFn(funcName(wc))
		ok := false
		for _, cl := range Calls(wc) {
			if strings.HasSuffix(cl.Name, ".Commit") && cl.Value() != nil {
				for _, fb := range failureBlocks(cl.Value()) {
					for _, ins := range fb.Instrs {
						if st, isSt := ins.(*ssa.Store); isSt {
							if fa, isFA := st.Addr.(*ssa.FieldAddr); isFA && fieldName(fa) == "snap" && isNilConst(st.Val) {
								ok = true
							}
						}
					}
				}
			}
		}
		c.Check(ok, "R10.2", "withSnapshot.Commit:drop-on-error", w.FnPos(wc), "a failed commit drops the cached snapshot", "after a failed commit the cached snapshot is kept although the entity's operations may have changed")
	}
	// nobody else in package cache appends to the wrapped entity
	for _, fn := range w.ModFns {
		if isInstance(fn) || fnPkgPath(fn) != modPath+"/cache" || w.isTestHelper(fn) {
			continue
		}
		for _, cl := range Calls(fn) {
			if cl.Name == "entity/dag.Entity.Append" || cl.Name == "entities/bug.Bug.Append" || strings.HasSuffix(cl.Name, "dag.Interface.Append") {
				c.Sites++
				c.Check(funcName(fn) == "cache.withSnapshot.Append", "R10.2", funcName(fn)+"→Append", w.InstrPos(cl.Instr), "the snapshot-maintaining wrapper", "an operation is appended to the wrapped entity without going through withSnapshot.Append: the cached snapshot misses it")
			}
		}
	}

}

// R10.6: what an operation does to the snapshot it does unconditionally.
func checkApplyUnconditional(c *Ctx) {
	w := c.W
	c.Doc("R10.6", "in the Apply of create, add-comment, set-title and set-status, and in CommentTimelineItem.Append, every return is preceded on every path by the documented effects (the field stores, addActor, the timeline append / history step): no operation is skipped or half applied depending on its payload, its timestamp or the current snapshot")
	storeTo := func(field string) func(ssa.Instruction) bool {
		return func(i ssa.Instruction) bool {
			st, ok := i.(*ssa.Store)
			if !ok {
				return false
			}
			fa, ok := st.Addr.(*ssa.FieldAddr)
			return ok && fieldName(fa) == field
		}
	}
	callTo := func(suffix string) func(ssa.Instruction) bool {
		return func(i ssa.Instruction) bool {
			ci, ok := i.(ssa.CallInstruction)
			if !ok {
				return false
			}
			n, _ := callName(ci.Common())
			return strings.HasSuffix(n, suffix)
		}
	}
	type req struct {
		what string
		pred func(ssa.Instruction) bool
	}
	targets := []struct {
		typ, method string
		reqs        []req
	}{
		{"SetTitleOperation", "Apply", []req{{"the title is set", storeTo("Title")}, {"the author becomes an actor", callTo("Snapshot.addActor")}, {"a timeline item is added", storeTo("Timeline")}}},
		{"SetStatusOperation", "Apply", []req{{"the status is set", storeTo("Status")}, {"the author becomes an actor", callTo("Snapshot.addActor")}, {"a timeline item is added", storeTo("Timeline")}}},
		{"AddCommentOperation", "Apply", []req{{"the comment is added", storeTo("Comments")}, {"the author becomes an actor", callTo("Snapshot.addActor")}, {"the author becomes a participant", callTo("Snapshot.addParticipant")}, {"a timeline item is added", storeTo("Timeline")}}},
		{"CommentTimelineItem", "Append", []req{{"the message is replaced", storeTo("Message")}, {"the files are replaced", storeTo("Files")}, {"the last-edit time is replaced", storeTo("LastEdit")}, {"a history step is added", storeTo("History")}}},
	}
	checkEditCommentNoOpOnlyWithoutTarget(c)
	for _, t := range targets {
		fn := w.Method("entities/bug", t.typ, t.method)
		if fn == nil {
			c.Undecided("R10.6", "anchor:"+t.typ+"."+t.method, "entities/bug", "not found")
			continue
		}
		c.seeFn(funcName(fn))
		for _, r := range t.reqs {
			c.Sites++
			bad, p, _ := pathAvoiding(fn, nil, isAnyReturn, r.pred)
			c.Check(!bad, "R10.6", t.typ+"."+t.method+":"+strings.ReplaceAll(r.what, " ", "-"), w.FnPos(fn), r.what+" on every path", "a return is reachable on which it is not the case that "+r.what+" ("+blocksString(w, p)+"): the operation is skipped or half applied for some inputs, the compiled state no longer follows the operation order")
		}
	}
}

// checkApplyTable (R10.4): the per-operation effect table. Shared with C17 (the bug returned by a
// mutation reflects the requested change only if the operation's Apply has the documented effect).
func checkApplyTable(c *Ctx) {
	w := c.W
	_ = w
	// R10.4
	type want struct {
		typ                string
		actor, participant bool
		timelineAppend     bool
		commentsAppend     bool
		stores             map[string]string // snapshot field -> required origin substring
	}
	table := []want{
		{"CreateOperation", true, true, false, false, map[string]string{"Title": "field .Title", "Author": "Author", "CreateTime": "Time"}},
		{"AddCommentOperation", true, true, true, true, nil},
		{"EditCommentOperation", true, false, false, false, nil},
		{"SetTitleOperation", true, false, true, false, map[string]string{"Title": "field .Title"}},
		{"SetStatusOperation", true, false, true, false, map[string]string{"Status": "field .Status"}},
		{"LabelChangeOperation", true, false, true, false, nil},
	}
	for _, t := range table {
		fn := w.Method("entities/bug", t.typ, "Apply")
		if fn == nil {
			c.Undecided("R10.4", "anchor:"+t.typ+".Apply", "entities/bug", "not found")
			continue
		}
		c.seeFn(funcName(fn))
		f := snapshotFacts(fn)
		c.Sites += len(f.calls)
		pos := w.FnPos(fn)
		key := t.typ + ".Apply"
		c.Check((f.calls["entities/bug.Snapshot.addActor"] > 0) == t.actor, "R10.4", key+":actor", pos, "author recorded as actor", "the author is not recorded as an actor of the bug (or is where the table says not)")
		c.Check((f.calls["entities/bug.Snapshot.addParticipant"] > 0) == t.participant, "R10.4", key+":participant", pos, fmt.Sprintf("participant: %v", t.participant), fmt.Sprintf("participant handling differs from the documented semantics (expected adds participant: %v)", t.participant))
		nTl := f.appendsTo["Timeline"]
		if t.typ == "CreateOperation" {
			c.Check(f.resets["Timeline"] && f.resets["Comments"], "R10.4", key+":first-items", pos, "creates the first comment and timeline item", "the create operation does not initialise the comment and timeline lists")
		} else {
			c.Check((nTl == 1) == t.timelineAppend && (nTl <= 1), "R10.4", key+":timeline", pos, fmt.Sprintf("%d timeline item appended", nTl), fmt.Sprintf("appends %d timeline items (expected %v)", nTl, map[bool]int{true: 1, false: 0}[t.timelineAppend]))
			c.Check((f.appendsTo["Comments"] == 1) == t.commentsAppend, "R10.4", key+":comments", pos, fmt.Sprintf("%d comment appended", f.appendsTo["Comments"]), "the number of comments this operation adds differs from the documented semantics")
		}
		var fields []string
		for k := range t.stores {
			fields = append(fields, k)
		}
		sort.Strings(fields)
		for _, fld := range fields {
			got := f.fieldStores[fld]
			c.Check(strings.Contains(got, t.stores[fld]), "R10.4", key+":"+fld, pos, fld+" ← "+got, fmt.Sprintf("snapshot.%s is set from %q (expected the operation's %s)", fld, got, t.stores[fld]))
		}
	}
	// the comment built by create / add-comment / edit-comment carries message and files of the operation
	for _, typ := range []string{"CreateOperation", "AddCommentOperation", "EditCommentOperation"} {
		fn := w.Method("entities/bug", typ, "Apply")
		if fn == nil {
			continue
		}
		for _, b := range fn.Blocks {
			for _, ins := range b.Instrs {
				al, isAl := ins.(*ssa.Alloc)
				if !isAl || typeShortName(al.Type()) != "entities/bug.Comment" {
					continue
				}
				for _, fld := range []string{"Message", "Files"} {
					ok := false
					for _, st := range storedFieldValues(fn, al, fld) {
						if hasField(st.Val, fld) {
							ok = true
						}
					}
					c.Sites++
					c.Check(ok, "R10.4", typ+".Apply:comment-"+strings.ToLower(fld), w.InstrPos(al), "comment."+fld+" ← op."+fld, "the comment compiled for this operation does not carry the operation's "+fld)
				}
			}
		}
	}
	// edit-comment: unknown or non-comment targets change nothing
	if ec := w.Method("entities/bug", "EditCommentOperation", "Apply"); ec != nil {
		f := snapshotFacts(ec)
		_ = f
		okNil, okType := true, true
		nAct := 0
		for _, actor := range CallsNamed(ec, "entities/bug.Snapshot.addActor") {
			nAct++
			thisNil, thisType := false, false
			for _, cc := range controlConds(actor.Block(), nil) {
				if bo, isBo := cc.If.Cond.(*ssa.BinOp); isBo && (isNilConst(bo.X) || isNilConst(bo.Y)) {
					thisNil = true
				}
				if ex, isEx := cc.If.Cond.(*ssa.Extract); isEx {
					if _, isTA := ex.Tuple.(*ssa.TypeAssert); isTA {
						thisType = true
					}
				}
			}
			// type switch: the actor call is reachable only through a successful assertion
			if !thisType {
				for _, b := range ec.Blocks {
					for _, ins := range b.Instrs {
						if ta, isTA := ins.(*ssa.TypeAssert); isTA && ta.CommaOk && instrDominates(ta, actor.Instr) {
							thisType = true
						}
					}
				}
			}
			okNil = okNil && thisNil
			okType = okType && thisType
		}
		if nAct == 0 {
			okNil, okType = false, false
		}
		c.Check(okNil && okType, "R10.4", "EditCommentOperation.Apply:unknown-target-noop", w.FnPos(ec), "nothing changes unless the target exists and is a comment item", "an edit whose target is unknown or not a comment still changes the snapshot")
		// the comment updated is the one with the target's combined id
		okUpd := false
		for _, b := range ec.Blocks {
			for _, ins := range b.Instrs {
				if st, isSt := ins.(*ssa.Store); isSt {
					if fa, isFA := st.Addr.(*ssa.FieldAddr); isFA && fieldName(fa) == "Message" {
						if _, isIA := fa.X.(*ssa.IndexAddr); isIA && hasField(st.Val, "Message") {
							for _, cc := range controlConds(b, nil) {
								if bo, isBo := cc.If.Cond.(*ssa.BinOp); isBo && bo.Op == token.EQL && cc.Edge == 0 {
									okUpd = true
								}
							}
						}
					}
				}
			}
		}
		c.Check(okUpd, "R10.4", "EditCommentOperation.Apply:updates-target-comment", w.FnPos(ec), "the comment with the target's id gets the new text", "the edited text is not written into the comment identified by the target id")
		// message and files of the comment are replaced together: same conditions on both stores (a whole-comment assignment replaces both)
		{
			condKey := func(b *ssa.BasicBlock) string {
				var ks []string
				for _, cc := range controlConds(b, nil) {
					ks = append(ks, fmt.Sprintf("%s/%d", w.InstrPos(cc.If), cc.Edge))
				}
				sort.Strings(ks)
				return strings.Join(ks, ",")
			}
			keys := map[string]string{}
			whole := false
			for _, b := range ec.Blocks {
				for _, ins := range b.Instrs {
					st, isSt := ins.(*ssa.Store)
					if !isSt {
						continue
					}
					if ia, isIA := st.Addr.(*ssa.IndexAddr); isIA && hasField(ia.X, "Comments") && typeShortName(st.Val.Type()) == "entities/bug.Comment" {
						whole = true
					}
					if fa, isFA := st.Addr.(*ssa.FieldAddr); isFA && (fieldName(fa) == "Message" || fieldName(fa) == "Files") {
						if ia, isIA := fa.X.(*ssa.IndexAddr); isIA && hasField(ia.X, "Comments") {
							keys[fieldName(fa)] = condKey(b)
						}
					}
				}
			}
			mk, hasM := keys["Message"]
			fk, hasF := keys["Files"]
			c.Sites++
			c.Check(whole || (hasM && hasF && mk == fk), "R10.4", "EditCommentOperation.Apply:message-and-files-replaced-together", w.FnPos(ec), "Message and Files of the comment are replaced under the same conditions",
				"the comment's files are not replaced under the same conditions as its message (message: ["+mk+"], files: ["+fk+"]): after an edit the comment list and the timeline disagree about the files of the latest edit")
		}
	}
	// no-op and set-metadata
	dp := w.Pkg("entity/dag")
	marker, _ := dp.Types.Scope().Lookup("OperationDoesntChangeSnapshot").Type().Underlying().(*types.Interface)
	for _, name := range []string{"NoOpOperation", "SetMetadataOperation"} {
		tn, ok := dp.Types.Scope().Lookup(name).(*types.TypeName)
		if !ok {
			continue
		}
		hasMarker := false
		if named, isN := tn.Type().(*types.Named); isN {
			for i := 0; i < named.NumMethods(); i++ {
				if named.Method(i).Name() == "DoesntChangeSnapshot" {
					hasMarker = true
				}
			}
		}
		_ = marker
		c.Check(hasMarker, "R10.4", name+":marked-neutral", w.Pos(tn.Pos()), "implements OperationDoesntChangeSnapshot", name+" is not marked as not changing the snapshot")
	}
	// addActor / addParticipant append only when absent
	for _, m := range []string{"addActor", "addParticipant"} {
		fn := w.Method("entities/bug", "Snapshot", m)
		if fn == nil {
			c.Undecided("R10.4", "anchor:Snapshot."+m, "entities/bug", "not found")
			continue
		}
		// the list appended to
		field := ""
		okApp := false
		for _, b := range fn.Blocks {
			for _, ins := range b.Instrs {
				if st, isSt := ins.(*ssa.Store); isSt {
					if fa, isFA := st.Addr.(*ssa.FieldAddr); isFA {
						if ap, isCall := st.Val.(*ssa.Call); isCall {
							if bi, isB := ap.Common().Value.(*ssa.Builtin); isB && bi.Name() == "append" && enclosingLoopHeader(b) == nil {
								field = fieldName(fa)
								okApp = true
							}
						}
					}
				}
			}
		}
		// (A) a scan of that very list comparing ids, returning early on a match
		ok := false
		scansField := func(f *ssa.Function, g CmpGuard) string {
			// the list element compared comes from an index into a load of a Snapshot field
			for _, side := range []ssa.Value{g.X, g.Y} {
				cv, isCall := side.(*ssa.Call)
				if !isCall {
					continue
				}
				var recv ssa.Value
				if cv.Common().IsInvoke() {
					recv = cv.Common().Value
				} else if len(cv.Common().Args) > 0 {
					recv = cv.Common().Args[0]
				}
				if ld, isLd := recv.(*ssa.UnOp); isLd {
					if ia, isIA := ld.X.(*ssa.IndexAddr); isIA {
						if _, fld, isF := loadOfField(ia.X); isF {
							return fld
						}
					}
				}
			}
			return ""
		}
		inLoopReturn := func(r *ssa.Return) bool {
			return enclosingLoopHeader(r.Block()) != nil || len(r.Block().Preds) == 1 && enclosingLoopHeader(r.Block().Preds[0]) != nil
		}
		for _, g := range cmpGuards(fn, inLoopReturn) {
			if g.Op == token.EQL && scansField(fn, g) == field && field != "" {
				ok = true
			}
		}
		// (B) a membership predicate over that very list, called with the id of the identity to add
		bareReturn := func(r *ssa.Return) bool { // the early return: a block that stores nothing
			for _, ins := range r.Block().Instrs {
				if _, isSt := ins.(*ssa.Store); isSt {
					return false
				}
			}
			return true
		}
		for _, pg := range predGuards(fn, bareReturn) {
			if !pg.FailsWhen || pg.Call.Common().StaticCallee() == nil {
				continue
			}
			pred := pg.Call.Common().StaticCallee()
			memberOf := ""
			for _, g := range cmpGuards(pred, func(r *ssa.Return) bool {
				k, isK := r.Results[0].(*ssa.Const)
				return len(r.Results) == 1 && isK && k.Value != nil && k.Value.String() == "true"
			}) {
				if g.Op == token.EQL {
					memberOf = scansField(pred, g)
				}
			}
			args := pg.Call.Common().Args
			idOfParam := false
			if len(args) > 0 {
				if idc, isCall := args[len(args)-1].(*ssa.Call); isCall {
					if n, _ := callName(idc.Common()); strings.HasSuffix(n, ".Id") {
						idOfParam = true
					}
				}
			}
			if memberOf == field && field != "" && idOfParam {
				ok = true
			}
		}
		c.Sites++
		c.Check(ok && okApp, "R10.4", "Snapshot."+m+":once", w.FnPos(fn), "returns early when the id is already listed, appends otherwise", m+" can list the same identity twice (or never appends)")
	}

}

// checkLabelChange (R10.5): the label set stays a sorted set. Shared with C07: the removal loop of
// LabelChangeOperation.Apply indexes the label slice while shrinking it, which is only safe when every
// label occurs once — a duplicate makes Compile panic on remote data.
func checkLabelChange(c *Ctx) {
	w := c.W
	c.Doc("R10.5", "LabelChangeOperation.Apply: a label is appended only when not already present, and every path after the last modification passes the sort of the labels")
	// R10.5
	lc := w.Method("entities/bug", "LabelChangeOperation", "Apply")
	if lc == nil {
		c.Undecided("R10.5", "anchor:LabelChangeOperation.Apply", "entities/bug", "not found")
		return
	}
	var sortCall *Call
	for _, cl := range Calls(lc) {
		if cl.Name == "sort.Slice" || cl.Name == "sort.SliceStable" || cl.Name == "sort.Sort" {
			if hasField(stripConv(cl.Args()[0]), "Labels") {
				sortCall = cl
			}
		}
	}
	if sortCall == nil {
		c.Violate("R10.5", "LabelChangeOperation.Apply:sorted", w.FnPos(lc), "the label set is not sorted after a change")
		return
	}
	// no modification of Labels after the sort, and every modification reaches the sort
	bad := ""
	for _, b := range lc.Blocks {
		for _, ins := range b.Instrs {
			st, isSt := ins.(*ssa.Store)
			if !isSt {
				continue
			}
			isLabels := false
			if fa, isFA := st.Addr.(*ssa.FieldAddr); isFA && fieldName(fa) == "Labels" {
				isLabels = true
			}
			if ia, isIA := st.Addr.(*ssa.IndexAddr); isIA {
				if _, fld, isF := loadOfField(ia.X); isF && fld == "Labels" {
					isLabels = true
				}
			}
			if !isLabels {
				continue
			}
			c.Sites++
			if after, _, _ := pathSearch(lc, sortCall.Instr, nil, func(i ssa.Instruction) bool { return i == ssa.Instruction(st) }, nil, false); after {
				bad = "labels are modified at " + w.InstrPos(st) + " after the sort"
			}
			if skip, _, _ := pathSearch(lc, st, nil, isAnyReturn, func(i ssa.Instruction) bool { return i == sortCall.Instr }, false); skip {
				bad = "a return is reachable after the modification at " + w.InstrPos(st) + " without sorting"
			}
		}
	}
	c.Check(bad == "", "R10.5", "LabelChangeOperation.Apply:sorted", w.InstrPos(sortCall.Instr), "every modification of the labels is followed by the sort", bad)
	// comparator ascending on the label text
	if mc, isMC := sortCall.Args()[1].(*ssa.MakeClosure); isMC {
		less := mc.Fn.(*ssa.Function)
		okLess := false
		for _, r := range Returns(less) {
			if bo, isBo := r.Results[0].(*ssa.BinOp); isBo && bo.Op == token.LSS {
				okLess = true
			}
		}
		c.Check(okLess, "R10.5", "LabelChangeOperation.Apply:ascending", w.InstrPos(sortCall.Instr), "ascending by label text", "labels are not sorted ascending")
	}
	// additions only when absent: the append of an Added element is skipped when an equal label exists
	okDup := false
	for _, cl := range Calls(lc) {
		bi, isB := cl.Instr.Common().Value.(*ssa.Builtin)
		if !isB || bi.Name() != "append" {
			continue
		}
		if _, fld, isF := loadOfField(cl.Instr.Common().Args[0]); !isF || fld != "Labels" {
			continue
		}
		// the appending block is reached only after the inner loop found no equal label: there is an equality
		// test between an element of Labels and the added label whose true edge bypasses the append
		for _, b := range lc.Blocks {
			for _, ins := range b.Instrs {
				bo, isBo := ins.(*ssa.BinOp)
				if !isBo || bo.Op != token.EQL {
					continue
				}
				if !(hasField(bo.X, "Labels") && hasField(bo.Y, "Added") || hasField(bo.Y, "Labels") && hasField(bo.X, "Added")) {
					continue
				}
				for _, u := range condUsers(bo) {
					e := 0
					if u.Neg {
						e = 1
					}
					tb := u.If.Block().Succs[e]
					// "already there": go on with the next added label (the header of the loop containing the append) or leave
					if isLoopHeader(tb) && inLoop(cl.Block(), tb) {
						okDup = true
					} else if reach, _, _ := pathSearch(lc, nil, tb, func(i ssa.Instruction) bool { return i == cl.Instr }, func(i ssa.Instruction) bool { return isLoopHeader(i.Block()) && inLoop(cl.Block(), i.Block()) }, false); !reach {
						okDup = true
					}
				}
			}
		}
	}
	// or: the test is delegated to a membership predicate called with (Labels, added label)
	for _, cl := range Calls(lc) {
		bi, isB := cl.Instr.Common().Value.(*ssa.Builtin)
		if !isB || bi.Name() != "append" {
			continue
		}
		if _, fld, isF := loadOfField(cl.Instr.Common().Args[0]); !isF || fld != "Labels" {
			continue
		}
		for _, pc := range Calls(lc) {
			pv, isCall := pc.Instr.(*ssa.Call)
			if !isCall || pc.Fn == nil {
				continue
			}
			mp := membershipPred(pc.Fn)
			if mp == nil {
				continue
			}
			var listA, targetA ssa.Value
			for i, pp := range pc.Fn.Params {
				if i >= len(pv.Common().Args) {
					continue
				}
				if ssa.Value(pp) == mp.list {
					listA = pv.Common().Args[i]
				}
				if ssa.Value(pp) == mp.target {
					targetA = pv.Common().Args[i]
				}
			}
			if listA == nil || targetA == nil || !hasField(listA, "Labels") || !hasField(targetA, "Added") {
				continue
			}
			for _, u := range condUsers(pv) {
				e := 0
				if u.Neg {
					e = 1
				}
				tb := u.If.Block().Succs[e]
				if isLoopHeader(tb) && inLoop(cl.Block(), tb) {
					okDup = true
				} else if reach, _, _ := pathSearch(lc, nil, tb, func(i ssa.Instruction) bool { return i == cl.Instr }, func(i ssa.Instruction) bool { return isLoopHeader(i.Block()) && inLoop(cl.Block(), i.Block()) }, false); !reach {
					okDup = true
				}
			}
		}
	}
	c.Check(okDup, "R10.5", "LabelChangeOperation.Apply:no-duplicates", w.FnPos(lc), "a label already present is not added again", "an added label that is already present is appended again: the label set gets duplicates")
	// removals compare with op.Removed
	okRem := false
	for _, b := range lc.Blocks {
		for _, ins := range b.Instrs {
			if bo, isBo := ins.(*ssa.BinOp); isBo && bo.Op == token.EQL {
				if hasField(bo.X, "Labels") && hasField(bo.Y, "Removed") || hasField(bo.Y, "Labels") && hasField(bo.X, "Removed") {
					okRem = true
				}
			}
		}
	}
	c.Check(okRem, "R10.5", "LabelChangeOperation.Apply:removals", w.FnPos(lc), "labels equal to a removed one are taken out", "removed labels are not matched against the label set")
}

// checkEditCommentNoOpOnlyWithoutTarget (R10.6): an edit-comment operation is a no-op only when its target is
// not a comment of this bug. Every branch that decides whether the comment is replaced (one successor can
// still reach CommentTimelineItem.Append, the other cannot) is a test of the target found: nil, or its type.
func checkEditCommentNoOpOnlyWithoutTarget(c *Ctx) {
	w := c.W
	fn := w.Method("entities/bug", "EditCommentOperation", "Apply")
	if fn == nil {
		c.Undecided("R10.6", "anchor:EditCommentOperation.Apply", "entities/bug", "not found")
		return
	}
	c.seeFn(funcName(fn))
	isAppend := func(i ssa.Instruction) bool {
		ci, ok := i.(ssa.CallInstruction)
		if !ok {
			return false
		}
		n, _ := callName(ci.Common())
		return strings.HasSuffix(n, "CommentTimelineItem.Append") || strings.HasSuffix(n, ".Append") && strings.Contains(n, "TimelineItem")
	}
	hasAppend := map[*ssa.BasicBlock]bool{}
	nAppend := 0
	for _, b := range fn.Blocks {
		for _, ins := range b.Instrs {
			if isAppend(ins) {
				hasAppend[b] = true
				nAppend++
			}
		}
	}
	canAppend := func(from *ssa.BasicBlock) bool {
		seen := map[*ssa.BasicBlock]bool{from: true}
		q := []*ssa.BasicBlock{from}
		for len(q) > 0 {
			x := q[0]
			q = q[1:]
			if hasAppend[x] {
				return true
			}
			for _, s := range x.Succs {
				if !seen[s] {
					seen[s] = true
					q = append(q, s)
				}
			}
		}
		return false
	}
	bad, n := "", 0
	for _, b := range fn.Blocks {
		if len(b.Instrs) == 0 || len(b.Succs) != 2 {
			continue
		}
		iff, ok := b.Instrs[len(b.Instrs)-1].(*ssa.If)
		if !ok || hasAppend[b] {
			continue
		}
		// only branches before the replacement matter
		if canAppend(b.Succs[0]) == canAppend(b.Succs[1]) {
			continue
		}
		n++
		c.Sites++
		okCond := false
		switch x := iff.Cond.(type) {
		case *ssa.Extract:
			if _, isTA := x.Tuple.(*ssa.TypeAssert); isTA && x.Index == 1 {
				okCond = true
			}
		case *ssa.BinOp:
			if (x.Op == token.EQL || x.Op == token.NEQ) && (isNilConst(x.X) || isNilConst(x.Y)) {
				v := x.X
				if isNilConst(v) {
					v = x.Y
				}
				// the value tested is an element of the timeline (the target found) or nil
				for _, o := range origins(v) {
					if o.Kind == "field" && o.Name == "Timeline" {
						okCond = true
					}
					if o.Kind == "call" && strings.HasSuffix(o.Name, "SearchTimelineItem") {
						okCond = true
					}
					// the search extracted into a same-package helper that answers an element of the timeline (or nil)
					if o.Kind == "call" {
						if cv, isCall := o.Val.(*ssa.Call); isCall {
							if h := cv.Common().StaticCallee(); h != nil && len(h.Blocks) > 0 && fnPkgPath(h) == fnPkgPath(fn) {
								all := true
								any := false
								for _, r := range Returns(h) {
									if len(r.Results) == 0 {
										continue
									}
									rv := ReturnResult(r, 0)
									if isNilConst(rv) {
										continue
									}
									if mi, isMI := rv.(*ssa.MakeInterface); isMI && isNilConst(mi.X) {
										continue
									}
									fromTimeline := false
									for _, o2 := range origins(rv) {
										if o2.Kind == "field" && o2.Name == "Timeline" {
											fromTimeline = true
										}
									}
									if fromTimeline {
										any = true
									} else {
										all = false
									}
								}
								if all && any {
									okCond = true
								}
							}
						}
					}
				}
			}
		}
		if !okCond {
			bad = "the branch at " + w.InstrPos(iff) + " decides whether the comment is replaced, and it is not a test of the target found"
		}
	}
	c.Check(nAppend > 0 && n > 0 && bad == "", "R10.6", "EditCommentOperation.Apply:no-op-only-without-target", w.FnPos(fn), fmt.Sprintf("%d deciding branches, all tests of the target (nil / type)", n),
		bad+": an edit of an existing comment is dropped depending on something else (its author, its text, the snapshot), so the compiled comment text and its history no longer follow the operations")
}

// R10.7: who becomes an actor / participant, and in which order a label change is applied.
func checkActorAndLabelOrder(c *Ctx) {
	w := c.W
	c.Doc("R10.7", "in every Apply of package entities/bug the identity handed to Snapshot.addActor / addParticipant is the Author() of the operation being applied (not the bug's author or another identity of the snapshot); LabelChangeOperation.Apply applies the additions before the removals: no removal from the label set can be followed, in the same Apply, by an addition")
	n := 0
	for _, f := range w.ModFns {
		if fnPkgPath(f) != modPath+"/entities/bug" || f.Name() != "Apply" || f.Signature.Recv() == nil || isInstance(f) || len(f.Blocks) == 0 {
			continue
		}
		recv := f.Params[0]
		for _, cl := range Calls(f) {
			if cl.Name != "entities/bug.Snapshot.addActor" && cl.Name != "entities/bug.Snapshot.addParticipant" {
				continue
			}
			n++
			c.Sites++
			args := cl.Args()
			ok := false
			if len(args) >= 1 {
				for _, o := range origins(args[len(args)-1]) {
					if o.Kind == "call" && strings.HasSuffix(o.Name, ".Author") {
						if cv, isCall := o.Val.(*ssa.Call); isCall {
							r := (&Call{Instr: cv}).Recv()
							if r == ssa.Value(recv) {
								ok = true
							}
							if fa, isFA := r.(*ssa.FieldAddr); isFA && fa.X == ssa.Value(recv) {
								ok = true // the embedded OpBase of the receiver
							}
							for _, o2 := range origins(r) {
								if o2.Kind == "param" && o2.Val == ssa.Value(recv) {
									ok = true
								}
								if o2.Kind == "field" && o2.Val == ssa.Value(recv) {
									ok = true // embedded OpBase of the receiver
								}
							}
						}
					}
				}
			}
			_, short := lastDot(cl.Name)
			c.Check(ok, "R10.7", strings.TrimPrefix(funcName(f), "entities/bug.")+":"+short+"-of-the-operation-author", w.InstrPos(cl.Instr), "the operation's own author",
				"the identity recorded by "+short+" is not the author of the operation being applied: whoever made this change is missing from the actors/participants (and somebody else may be listed instead)")
		}
	}
	c.Check(n >= 6, "R10.7", "expected:actor-sites", "entities/bug", fmt.Sprintf("%d addActor/addParticipant calls", n), fmt.Sprintf("only %d addActor/addParticipant calls found in Apply methods (reference 7)", n))
	// label change: additions, then removals
	lc := w.Method("entities/bug", "LabelChangeOperation", "Apply")
	if lc == nil {
		c.Undecided("R10.7", "anchor:LabelChangeOperation.Apply", "entities/bug", "not found")
		return
	}
	var adds, removes []ssa.Instruction
	for _, b := range lc.Blocks {
		for _, ins := range b.Instrs {
			st, ok := ins.(*ssa.Store)
			if !ok {
				continue
			}
			fa, ok := st.Addr.(*ssa.FieldAddr)
			if !ok || fieldName(fa) != "Labels" {
				continue
			}
			switch v := st.Val.(type) {
			case *ssa.Call:
				if bi, isB := v.Common().Value.(*ssa.Builtin); isB && bi.Name() == "append" {
					adds = append(adds, st)
				}
			case *ssa.Slice:
				removes = append(removes, st) // Labels = Labels[:len-1]
			}
		}
	}
	c.Sites += len(adds) + len(removes)
	bad := ""
	for _, r := range removes {
		for _, a := range adds {
			a := a
			if reach, _, _ := pathSearch(lc, r, nil, func(i ssa.Instruction) bool { return i == a }, nil, false); reach {
				bad = "the addition at " + w.InstrPos(a) + " can follow the removal at " + w.InstrPos(r)
			}
		}
	}
	c.Check(len(adds) > 0 && len(removes) > 0 && bad == "", "R10.7", "LabelChangeOperation.Apply:additions-before-removals", w.FnPos(lc), "no addition after a removal", bad+": a label named on both sides of one change ends up set, where 'additions, then removals' leaves it absent — replicas applying the documented order compile another label set")
}
